(* C14: on every well-formed call (C strings, a 32-byte buffer, a live seed, a registered
   language, a coin in range) no public function reaches a fault of the bounds-instrumented
   model: no write beyond str_tmp / norm, no index outside words[16], the secret buffer, a word
   list or the doubling table, no search that fails to terminate, no assert of gf.c violated;
   and the status is one of those documented for the function. *)
From PS Require Import Base GFDefs PackDefs StoreDefs MiscDefs StrDefs LangDefs ApiDefs SpecDefs SpecApi.
From PS Require Import GFProofs PackProofs PackTheorems StoreProofs StrProofs SeedProofs MiscProofs
  LangProofs LangData CoinProofs ApiLemmas RefineProofs PackRound ApiTheorems FrameProofs.
From PS.Gen Require Import Consts PrivConsts Langs.
Local Open Scope N_scope.

Definition lang_ok_op (o : op) : Prop :=
  match o with
  | OpEncode _ li _ | OpDecodeExplicit _ _ li _ => (li < length langs)%nat
  | _ => True
  end.

Lemma afinish_no_fault a idx coin ok lang : snd (afinish a idx coin ok lang) <> OutFault.
Proof.
  unfold afinish. destruct (spec_eval _ =? 0); cbn [negb snd]; [|discriminate].
  destruct ok; cbn [negb snd]; [|discriminate]. destruct (spec_supported _ _); discriminate.
Qed.

Theorem no_fault sgn cs a o : R cs a -> op_ok o -> lang_ok_op o ->
  (forall h, touches o = Some h -> heap_get (st_heap cs) h <> None) ->
  ApiTheorems.outp (step sgn langs cs o) <> OutFault.
Proof.
  intros HR Ho Hl Hh. destruct (step_refines sgn cs a o HR Ho) as [S _]. unfold ApiTheorems.outp. rewrite S. clear S.
  assert (G : forall h, touches o = Some h -> exists s, aget (as_seeds a) h = Some s).
  { intros h Ht. specialize (Hh h Ht). rewrite <- (R_heap _ _ HR), aget_abs.
    destruct (heap_get (st_heap cs) h) as [d|]; [eexists; reflexivity|congruence]. }
  destruct o; cbn [astep touches lang_ok_op op_ok] in *; try discriminate.
  - destruct (spec_supported _ _); cbn [negb snd]; [|discriminate]. destruct alloc_ok; discriminate.
  - destruct alloc_ok; cbn [negb snd]; [|discriminate]. destruct (spec_parse buf) as [[s ck]|]; [|discriminate].
    destruct (ck =? spec_checksum s); cbn [negb snd]; [|discriminate]. destruct (spec_supported _ _); discriminate.
  - destruct (Nat.eqb _ 16); cbn [negb snd]; [|discriminate].
    destruct (matching langs 0 _) as [|[li idx] [|? ?]]; try discriminate. apply afinish_no_fault.
  - destruct (nth_error langs li) as [L|] eqn:EL; [|apply nth_error_None in EL; lia].
    destruct (Nat.eqb _ 16); cbn [negb snd]; [|discriminate].
    destruct (spec_lookup_all L _); [apply afinish_no_fault|discriminate].
  - destruct (G h eq_refl) as [s ->]. destruct (nth_error langs li) as [L|] eqn:EL; [|apply nth_error_None in EL; lia].
    pose proof (seed_phrase_fits L s coin (nth_error_In _ _ EL)) as F. apply N.ltb_lt in F. rewrite F. cbn [negb].
    destruct (l_compose L); discriminate.
  - destruct (G h eq_refl) as [s ->]. discriminate.
  - destruct (G h eq_refl) as [s ->]. destruct (spec_norm _ pw). discriminate.
  - destruct (G h eq_refl) as [s ->]. discriminate.
  - destruct (G h eq_refl) as [s ->]. discriminate.
  - destruct (G h eq_refl) as [s ->]. discriminate.
  - destruct (G h eq_refl) as [s ->]. discriminate.
  - destruct (G h eq_refl) as [s ->]. discriminate.
Qed.

(* the statuses each constructor can return (numbers = the generated enumerators) *)
Definition status_in (allowed : list N) (o : out) : Prop :=
  match o with OutStatus st _ _ => In st allowed | OutFault => True | _ => False end.

Lemma afinish_status a idx coin ok lang :
  status_in [ST_OK; ST_CHECKSUM; ST_UNSUPPORTED; ST_MEMORY] (snd (afinish a idx coin ok lang)).
Proof.
  unfold afinish. destruct (spec_eval _ =? 0); cbn [negb snd]; [|cbn; tauto].
  destruct ok; cbn [negb snd]; [|cbn; tauto]. destruct (spec_supported _ _); cbn; tauto.
Qed.

Theorem status_range sgn cs a o : R cs a -> op_ok o ->
  match o with
  | OpCreate _ _ _ _ => status_in [ST_OK; ST_UNSUPPORTED; ST_MEMORY] (ApiTheorems.outp (step sgn langs cs o))
  | OpLoad _ _ => status_in [ST_OK; ST_FORMAT; ST_CHECKSUM; ST_UNSUPPORTED; ST_MEMORY] (ApiTheorems.outp (step sgn langs cs o))
  | OpDecode _ _ _ =>
    status_in [ST_OK; ST_NUM_WORDS; ST_LANG; ST_MULT_LANG; ST_CHECKSUM; ST_UNSUPPORTED; ST_MEMORY] (ApiTheorems.outp (step sgn langs cs o))
  | OpDecodeExplicit _ _ _ _ =>
    status_in [ST_OK; ST_NUM_WORDS; ST_LANG; ST_CHECKSUM; ST_UNSUPPORTED; ST_MEMORY] (ApiTheorems.outp (step sgn langs cs o))
  | _ => True
  end.
Proof.
  intros HR Ho. destruct (step_refines sgn cs a o HR Ho) as [S _].
  destruct o; try exact I; unfold ApiTheorems.outp; rewrite S; cbn [astep].
  - destruct (spec_supported _ _); cbn [negb snd]; [|cbn; tauto]. destruct alloc_ok; cbn; tauto.
  - destruct alloc_ok; cbn [negb snd]; [|cbn; tauto]. destruct (spec_parse buf) as [[s ck]|]; [|cbn; tauto].
    destruct (ck =? spec_checksum s); cbn [negb snd]; [|cbn; tauto]. destruct (spec_supported _ _); cbn; tauto.
  - destruct (Nat.eqb _ 16); cbn [negb snd]; [|cbn; tauto].
    destruct (matching langs 0 _) as [|[li idx] [|? ?]]; try (cbn; tauto).
    pose proof (afinish_status a idx coin alloc_ok (Some li)) as F.
    destruct (snd (afinish a idx coin alloc_ok (Some li))); cbn in *; tauto.
  - destruct (nth_error langs li) as [L|]; [|exact I].
    destruct (Nat.eqb _ 16); cbn [negb snd]; [|cbn; tauto].
    destruct (spec_lookup_all L _); [|cbn; tauto].
    pose proof (afinish_status a l coin alloc_ok None) as F.
    destruct (snd (afinish a l coin alloc_ok None)); cbn in *; tauto.
Qed.

(* the leaves never fault: restated from the files that prove them *)
Theorem leaves_total :
  (forall sgn L key, In L langs -> lang_search sgn L key <> None) /\
  (forall nfkd str, existsb is_nonascii (firstn (N.to_nat (STR_SIZE - 1)) str) = false ->
                    N.of_nat (length (fst (fst (nfkd_lazy nfkd str)))) < STR_SIZE) /\
  (forall s, (length (snd (str_split s)) <= 16)%nat) /\
  (forall d, Canon d -> exists ws, data_to_poly_full d = Some (ws, true)) /\
  (forall c, length c = 16%nat -> wf (tl c) -> exists d, poly_to_data_full c = Some (d, true)).
Proof.
  split; [exact search_total|]. split; [exact nfkd_lazy_fits|]. split; [exact str_split_bound|]. split.
  - intros d HC. destruct (canon_pack d HC) as (ws&E&_). exists ws. exact E.
  - intros c Hl Hw. destruct (poly_unpack c Hl Hw) as (d&E&_). exists d. exact E.
Qed.
