(* C11 - the wallet birthday is never later than creation and accurate to one month.
   reported t = what polyseed_get_birthday returns for a seed created at clock value t. *)
From PS Require Import Base MiscDefs SpecDefs MiscProofs ApiDefs ApiTheorems.
From PS.Gen Require Import Consts Langs.
Local Open Scope N_scope.

Theorem C11_window : forall t,
  1635768000 <= t -> t < 1635768000 + 1024 * 2629746 ->
  reported t <= t /\ t < reported t + 2629746.
Proof. exact bday_window. Qed.
Print Assumptions C11_window.

Theorem C11_clamp : forall t, t < 1635768000 \/ t = 2 ^ 64 - 1 -> reported t = 1635768000.
Proof. exact bday_clamp. Qed.
Print Assumptions C11_clamp.

Theorem C11_never_later : forall t, 1635768000 <= t -> t < 2 ^ 64 -> t <> 2 ^ 64 - 1 -> reported t <= t.
Proof. exact bday_never_later. Qed.
Print Assumptions C11_never_later.

Theorem C11_grid : forall t, exists k, k < 1024 /\ reported t = 1635768000 + k * 2629746 /\ reported t < 2 ^ 64.
Proof. exact bday_grid. Qed.
Print Assumptions C11_grid.

(* the 1024-month range ends at 4328627904 = 3 March 2107 *)
Theorem C11_range_end : 1635768000 + 1024 * 2629746 = 4328627904.
Proof. exact bday_range_end. Qed.
Print Assumptions C11_range_end.

(* at the API: the seed created at clock value t reports `reported t` (the clock value is whatever
   the injected time function returned - any uint64_t) *)
Theorem C11_api : forall sgn cs features rand clock h,
  outp (step sgn langs cs (OpCreate features rand clock true)) = OutStatus ST_OK (Some h) None ->
  outp (step sgn langs (stp (step sgn langs cs (OpCreate features rand clock true))) (OpGetBirthday h)) =
    OutNum (reported clock).
Proof. exact create_birthday. Qed.
Print Assumptions C11_api.

(* the stored month index is the specification's, and survives every transformation because the
   abstract seed does (C13_refinement; C01, C06, C12 leave a_birthday unchanged) *)
Theorem C11_index : forall t, t < 2 ^ 64 ->
  birthday_encode t = spec_birthday_index t /\
  birthday_decode (birthday_encode t) = spec_birthday_time (spec_birthday_index t).
Proof. exact bday_is_spec. Qed.
Print Assumptions C11_index.
