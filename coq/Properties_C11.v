(* C11 - the wallet birthday is never later than creation and accurate to one month.
   reported t = what polyseed_get_birthday returns for a seed created at clock value t. *)
From PS Require Import Base MiscDefs SpecDefs MiscProofs.
Local Open Scope N_scope.

Theorem C11_window : forall t,
  1635768000 <= t -> t < 1635768000 + 1024 * 2629746 ->
  reported t <= t /\ t < reported t + 2629746.
Proof. exact bday_window. Qed.
Print Assumptions C11_window.

Theorem C11_clamp : forall t, t < 1635768000 \/ t = 2 ^ 64 - 1 -> reported t = 1635768000.
Proof. exact bday_clamp. Qed.
Print Assumptions C11_clamp.

Theorem C11_never_later : forall t, 1635768000 <= t -> t < 2 ^ 64 -> t <> 2 ^ 64 - 1 -> reported t <= t.
Proof. exact bday_never_later. Qed.
Print Assumptions C11_never_later.

Theorem C11_grid : forall t, exists k, k < 1024 /\ reported t = 1635768000 + k * 2629746 /\ reported t < 2 ^ 64.
Proof. exact bday_grid. Qed.
Print Assumptions C11_grid.

(* the 1024-month range ends at 4328627904 = 3 March 2107 *)
Theorem C11_range_end : 1635768000 + 1024 * 2629746 = 4328627904.
Proof. exact bday_range_end. Qed.
Print Assumptions C11_range_end.
