(* C11 - the wallet birthday is never later than creation and accurate to one month.
   reported t = what polyseed_get_birthday returns for a seed created at clock value t. *)
From PS Require Import Base MiscDefs SpecDefs MiscProofs ApiDefs ApiTheorems.
From PS Require Import CTieBase CTieBday.
From PS.Gen Require CFuns.
From PS.Gen Require Import Consts Langs.
Local Open Scope N_scope.

Theorem C11_window : forall t,
  1635768000 <= t -> t < 1635768000 + 1024 * 2629746 ->
  reported t <= t /\ t < reported t + 2629746.
Proof. exact bday_window. Qed.
Print Assumptions C11_window.

Theorem C11_clamp : forall t, t < 1635768000 \/ t = 2 ^ 64 - 1 -> reported t = 1635768000.
Proof. exact bday_clamp. Qed.
Print Assumptions C11_clamp.

Theorem C11_never_later : forall t, 1635768000 <= t -> t < 2 ^ 64 -> t <> 2 ^ 64 - 1 -> reported t <= t.
Proof. exact bday_never_later. Qed.
Print Assumptions C11_never_later.

Theorem C11_grid : forall t, exists k, k < 1024 /\ reported t = 1635768000 + k * 2629746 /\ reported t < 2 ^ 64.
Proof. exact bday_grid. Qed.
Print Assumptions C11_grid.

(* the 1024-month range ends at 4328627904 = 3 March 2107 *)
Theorem C11_range_end : 1635768000 + 1024 * 2629746 = 4328627904.
Proof. exact bday_range_end. Qed.
Print Assumptions C11_range_end.

(* at the API: the seed created at clock value t reports `reported t` (the clock value is whatever
   the injected time function returned - any uint64_t) *)
Theorem C11_api : forall sgn cs features rand clock h,
  outp (step sgn langs cs (OpCreate features rand clock true)) = OutStatus ST_OK (Some h) None ->
  outp (step sgn langs (stp (step sgn langs cs (OpCreate features rand clock true))) (OpGetBirthday h)) =
    OutNum (reported clock).
Proof. exact create_birthday. Qed.
Print Assumptions C11_api.

(* the stored month index is the specification's, and survives every transformation because the
   abstract seed does (C13_refinement; C01, C06, C12 leave a_birthday unchanged) *)
Theorem C11_index : forall t, t < 2 ^ 64 ->
  birthday_encode t = spec_birthday_index t /\
  birthday_decode (birthday_encode t) = spec_birthday_time (spec_birthday_index t).
Proof. exact bday_is_spec. Qed.
Print Assumptions C11_index.

(* ---- the tie to the code: birthday.h as TRANSLATED from /repo's current source on this run
   (Gen/CFuns.v) equals the mirror the theorems above are about, for EVERY uint64_t clock value and
   every unsigned birthday (64-bit wrap-around written out in the translation) *)
Theorem C11_code_tie :
  (forall t, t < 2 ^ 64 -> CFuns.birthday_encode (Z.of_N t) = Z.of_N (birthday_encode t)) /\
  (forall b, b < 2 ^ 32 -> CFuns.birthday_decode (Z.of_N b) = Z.of_N (birthday_decode b)).
Proof. exact (conj tie_birthday_encode tie_birthday_decode). Qed.
Print Assumptions C11_code_tie.

(* ---- the tie to the code: src/polyseed.c as TRANSLATED on this run (Gen/CApi.v) ---- *)
From Coq Require Import String.
From PS Require Import Base GFDefs PackDefs StoreDefs MiscDefs StrDefs LangDefs ApiDefs GFProofs PackProofs StoreProofs CTieBase CTieLang CTiePhrase CTiePhraseEv CTieSplit CTieApi CTieDecode CTieEncode.
From PS.Gen Require Import Consts PrivConsts Langs.
From PS.Gen Require CFuns.
From PS.Gen Require CApi.

(* polyseed_get_birthday as translated *)
Theorem C11_code_tie_api_get_birthday :
  forall d : data,
         d_birthday d < 2 ^ 32 ->
         CApi.polyseed_get_birthday (Z.of_N (d_birthday d)) (Z.of_N (d_features d)) 
           (map Z.of_N (d_secret d)) (Z.of_N (d_checksum d)) = Z.of_N (birthday_decode (d_birthday d)).
Proof. exact @tie_get_birthday. Qed.
Print Assumptions C11_code_tie_api_get_birthday.

(* polyseed_create as translated against the mirror step (birthday = birthday_encode of the injected clock) *)
Theorem C11_code_tie_api_create :
  forall (sgn : bool) (langs : list lang) (st : state) (features : N) (rand : list N) 
           (clock : N) (ok : bool) (gb gf : Z) (gs : list Z) (gc so0 : Z),
         features < 2 ^ 32 ->
         clock < 2 ^ 64 ->
         let
         '(st', out0, evs) := step sgn langs st (OpCreate features rand clock ok) in
          exists (cevs : list CApi.cev) (b f : Z) (s : list Z) (c so status : Z),
            CApi.polyseed_create (alloc_ptr st ok) (Z.of_N clock) (map Z.of_N rand) CFuns.polyseed_mul2_table
              (Z.of_N (st_reserved st)) (Z.of_N features) gb gf gs gc so0 = (cevs, b, f, s, c, so, status) /\
            evs_of (st_deps st) cevs = evs /\
            out0 = OutStatus (Z.to_N status) (if (status =? 0)%Z then Some (st_next st) else None) None /\
            (if (status =? 0)%Z
             then
              so = ptr (st_next st) /\
              (exists d : data, st_heap st' = (st_next st, d) :: st_heap st /\ (b, f, s, c) = zd d)
             else so = so0 /\ st_heap st' = st_heap st).
Proof. exact @tie_create. Qed.
Print Assumptions C11_code_tie_api_create.
