(* C03 - phrases follow the published layout and nothing else. *)
From PS Require Import Base PackDefs ApiDefs SpecDefs SpecApi PackProofs PackTheorems ApiLemmas RefineProofs ApiTheorems.
From PS Require Import CTiePack.
From PS.Gen Require CFuns.
From PS.Gen Require Import Consts Langs.
Local Open Scope N_scope.

(* the output of polyseed_encode for EVERY live seed, language and coin is exactly the
   specification's phrase: the sixteen words at spec_indices, joined by the language's separator,
   passed through the injected NFC iff the language is marked `compose`; the state is untouched *)
Theorem C03_phrase : forall sgn cs a h d li L coin, R cs a -> heap_get (st_heap cs) h = Some d ->
  nth_error langs li = Some L -> coin < 2048 ->
  let p := spec_phrase_nfkd L (abs_data d) coin in
  outp (step sgn langs cs (OpEncode h li coin)) =
    (if l_compose L then OutStr (fst (dp_nfc (st_deps cs) p)) (snd (dp_nfc (st_deps cs) p))
     else OutStr p (N.of_nat (length p))) /\
  stp (step sgn langs cs (OpEncode h li coin)) = cs.
Proof. exact encode_is_layout. Qed.
Print Assumptions C03_phrase.

(* the sixteen indices: the check word first; then fifteen data words, the coin XORed into the
   first of them (the second word of the phrase) only *)
Theorem C03_indices : forall s coin,
  spec_indices s coin = spec_checksum s :: N.lxor (nth 0 (spec_data_words s) 0) coin :: tl (spec_data_words s).
Proof. exact indices_layout. Qed.
Print Assumptions C03_indices.

(* the code's packing loop produces the published data words for EVERY canonical struct:
   word i (0-based) = bits [10i, 10i+10) of the 150-bit big-endian secret, then bit 14-i of
   features<<10 | birthday (spec_data_word is that sentence, written with / and mod) *)
Theorem C03_data_words : forall d, Canon d -> data_to_poly d = Some (spec_data_words (abs_data d)).
Proof. exact canon_data_to_poly. Qed.
Print Assumptions C03_data_words.

(* the check word is the evaluation at x of the data words, by the code's Horner loop and by
   the textbook definition alike *)
Theorem C03_check_word : forall s, spec_checksum s = GFDefs.poly_eval (0 :: spec_data_words s).
Proof. exact spec_checksum_eval. Qed.
Print Assumptions C03_check_word.

(* which languages compose and which separator they use - on the GENERATED data *)
Theorem C03_flags :
  map l_compose langs = [false; true; true; true; true; false; false; false; false; false] /\
  map l_separator langs = [[x20]; [xe3; x80; x80]; [x20]; [x20]; [x20]; [x20]; [x20]; [x20]; [x20]; [x20]].
Proof. split; vm_compute; reflexivity. Qed.
Print Assumptions C03_flags.

(* known answer: the first phrase of the repository's tests (random bytes 1, December 2021,
   English, Monero): "raven tail swear ... airport language" *)
Example C03_vector :
  let s := mkaseed [221; 118; 231; 53; 154; 13; 237; 55; 205; 15; 240; 243; 200; 41; 165; 174; 1; 103; 51] (spec_birthday_index 1638446400) 0 in
  spec_phrase_nfkd (nth 0 langs (Build_lang [] [] [] false false false false [])) s 0 =
  [x72; x61; x76; x65; x6e; x20; x74; x61; x69; x6c; x20; x73; x77; x65; x61; x72; x20; x69; x6e; x66; x61; x6e; x74; x20; x67; x72; x69; x65; x66; x20; x61; x73; x73; x69; x73; x74; x20; x72; x65; x67; x75; x6c; x61; x72; x20; x6c; x61; x6d; x70; x20; x64; x75; x63; x6b; x20; x76; x61; x6c; x69; x64; x20; x73; x6f; x6d; x65; x6f; x6e; x65; x20; x6c; x69; x74; x74; x6c; x65; x20; x68; x61; x72; x73; x68; x20; x70; x75; x70; x70; x79; x20; x61; x69; x72; x70; x6f; x72; x74; x20; x6c; x61; x6e; x67; x75; x61; x67; x65].
Proof. vm_compute. reflexivity. Qed.

(* ---- the tie to the code: polyseed_data_to_poly as TRANSLATED from /repo's current gf.c on this run
   (Gen/CFuns.v; the chunk loops unrolled by constant propagation, the three asserts decided at
   translation time) writes the published data words into coeff[1..15] for EVERY canonical struct *)
Theorem C03_code_tie : forall d poly, Canon d -> length poly = 16%nat ->
  CFuns.polyseed_data_to_poly (Z.of_N (d_birthday d)) (Z.of_N (d_features d)) (map Z.of_N (d_secret d)) (map Z.of_N poly)
  = map Z.of_N (hd 0 poly :: spec_data_words (abs_data d)).
Proof. exact tie_data_to_poly. Qed.
Print Assumptions C03_code_tie.

(* ---- the tie to the code: src/polyseed.c as TRANSLATED on this run (Gen/CApi.v) ---- *)
From Coq Require Import String.
From PS Require Import Base GFDefs PackDefs StoreDefs MiscDefs StrDefs LangDefs ApiDefs GFProofs PackProofs StoreProofs CTieBase CTieLang CTiePhrase CTiePhraseEv CTieSplit CTieApi CTieDecode CTieEncode.
From PS.Gen Require Import Consts PrivConsts Langs.
From PS.Gen Require CFuns.
From PS.Gen Require CApi.

(* polyseed_encode as translated: coefficient 0 is the stored check value, coefficient 1 carries the coin, word i of the output is word number coefficient i of the list *)
Theorem C03_code_tie_api_encode :
  forall (sgn : bool) (st : state) (fuel li : nat) (L : lang),
         nth_error langs li = Some L ->
         (forall j : nat, (Datatypes.length (nth j (l_words L) []) + 1 <= fuel)%nat) ->
         (Datatypes.length (l_separator L) + 1 <= fuel)%nat ->
         (forall x : bytes, snd (dp_nfc (st_deps st) x) < 2 ^ 64) ->
         forall (h : N) (d : data) (coin : N) (out0 : list Z),
         heap_get (st_heap st) h = Some d ->
         Canon d ->
         d_checksum d < 2048 ->
         coin < 2048 ->
         (1 <= Datatypes.length out0)%nat ->
         match step sgn langs st (OpEncode h li coin) with
         | (st', OutStr o nn, evs) =>
             exists (cevs : list CApi.cev) (rest : list Z),
               CApi.polyseed_encode fuel sgn (znfc (st_deps st))
                 (fun _ i : Z => zs (nth (Z.to_nat i) (l_words L) [])) (fun _ : Z => zs (l_separator L))
                 (fun _ : Z => if l_compose L then 1%Z else 0%Z) (Z.of_N (d_birthday d))
                 (Z.of_N (d_features d)) (map Z.of_N (d_secret d)) (Z.of_N (d_checksum d)) 
                 (Z.of_nat li) (Z.of_N coin) out0 = Some (cevs, zs o ++ 0%Z :: rest, Z.of_N nn) /\
               evs_of (st_deps st) cevs = evs /\ st' = st
         | (st', OutFault, _) | (st', OutUnit, _) | (st', OutNum _, _) | (st', OutStatus _ _ _, _) |
           (st', OutBytes _, _) => True
         end.
Proof. exact @tie_encode. Qed.
Print Assumptions C03_code_tie_api_encode.
