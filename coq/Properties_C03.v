(* C03 - phrases follow the published layout and nothing else. *)
From PS Require Import Base PackDefs ApiDefs SpecDefs SpecApi PackProofs PackTheorems ApiLemmas RefineProofs ApiTheorems HeldProofs.
From PS.Gen Require Import Consts Langs.
Local Open Scope N_scope.

(* the output of polyseed_encode for EVERY live seed, language and coin is exactly the
   specification's phrase: the sixteen words at spec_indices, joined by the language's separator,
   passed through the injected NFC iff the language is marked `compose`; the state is untouched *)
Theorem C03_phrase : forall sgn cs a h d li L coin, R cs a -> heap_get (st_heap cs) h = Some d ->
  nth_error langs li = Some L -> coin < 2048 ->
  let p := spec_phrase_nfkd L (abs_data d) coin in
  outp (step sgn langs cs (OpEncode h li coin)) =
    (if l_compose L then OutStr (fst (dp_nfc (st_deps cs) p)) (snd (dp_nfc (st_deps cs) p))
     else OutStr p (N.of_nat (length p))) /\
  stp (step sgn langs cs (OpEncode h li coin)) = cs.
Proof. exact encode_is_layout. Qed.
Print Assumptions C03_phrase.

(* the sixteen indices: the check word first; then fifteen data words, the coin XORed into the
   first of them (the second word of the phrase) only *)
Theorem C03_indices : forall s coin,
  spec_indices s coin = spec_checksum s :: N.lxor (nth 0 (spec_data_words s) 0) coin :: tl (spec_data_words s).
Proof. exact indices_layout. Qed.
Print Assumptions C03_indices.

(* the code's packing loop produces the published data words for EVERY canonical struct:
   word i (0-based) = bits [10i, 10i+10) of the 150-bit big-endian secret, then bit 14-i of
   features<<10 | birthday (spec_data_word is that sentence, written with / and mod) *)
Theorem C03_data_words : forall d, Canon d -> data_to_poly d = Some (spec_data_words (abs_data d)).
Proof. exact canon_data_to_poly. Qed.
Print Assumptions C03_data_words.

(* the check word is the evaluation at x of the data words, by the code's Horner loop and by
   the textbook definition alike *)
Theorem C03_check_word : forall s, spec_checksum s = GFDefs.poly_eval (0 :: spec_data_words s).
Proof. exact spec_checksum_eval. Qed.
Print Assumptions C03_check_word.

(* which languages compose and which separator they use - on the GENERATED data *)
Theorem C03_flags :
  map l_compose langs = [false; true; true; true; true; false; false; false; false; false] /\
  map l_separator langs = [[x20]; [xe3; x80; x80]; [x20]; [x20]; [x20]; [x20]; [x20]; [x20]; [x20]; [x20]].
Proof. split; vm_compute; reflexivity. Qed.
Print Assumptions C03_flags.

(* known answer: the first phrase of the repository's tests (random bytes 1, December 2021,
   English, Monero): "raven tail swear ... airport language" *)
Example C03_vector :
  let s := mkaseed [221; 118; 231; 53; 154; 13; 237; 55; 205; 15; 240; 243; 200; 41; 165; 174; 1; 103; 51] (spec_birthday_index 1638446400) 0 in
  spec_phrase_nfkd (nth 0 langs (Build_lang [] [] [] false false false false [])) s 0 =
  [x72; x61; x76; x65; x6e; x20; x74; x61; x69; x6c; x20; x73; x77; x65; x61; x72; x20; x69; x6e; x66; x61; x6e; x74; x20; x67; x72; x69; x65; x66; x20; x61; x73; x73; x69; x73; x74; x20; x72; x65; x67; x75; x6c; x61; x72; x20; x6c; x61; x6d; x70; x20; x64; x75; x63; x6b; x20; x76; x61; x6c; x69; x64; x20; x73; x6f; x6d; x65; x6f; x6e; x65; x20; x6c; x69; x74; x74; x6c; x65; x20; x68; x61; x72; x73; x68; x20; x70; x75; x70; x70; x79; x20; x61; x69; x72; x70; x6f; x72; x74; x20; x6c; x61; x6e; x67; x75; x61; x67; x65].
Proof. vm_compute. reflexivity. Qed.

(* the constants of the public header are those of the published format *)
From PS Require Import ConstsFrozen.
Theorem C03_public_constants :
  NUM_WORDS = 16 /\ LANG_SIZE = 2048 /\ STORAGE_SIZE = 32 /\
  ST_OK = 0 /\ ST_NUM_WORDS = 1 /\ ST_LANG = 2 /\ ST_CHECKSUM = 3 /\ ST_UNSUPPORTED = 4 /\ ST_FORMAT = 5 /\
  ST_MEMORY = 6 /\ ST_MULT_LANG = 7.
Proof. exact public_consts_frozen. Qed.
Print Assumptions C03_public_constants.

(* ... and on nothing else in the library's state: the phrase written for a held seed is the same whatever feature
   set is enabled when polyseed_encode is called *)
Theorem C03_phrase_independent_of_enabled_set : forall sgn st r h li coin,
  snd (fst (step sgn langs (with_reserved r st) (OpEncode h li coin))) = snd (fst (step sgn langs st (OpEncode h li coin))).
Proof. intros sgn st r h li coin. rewrite (held_independent sgn langs st r (OpEncode h li coin) eq_refl). reflexivity. Qed.
Print Assumptions C03_phrase_independent_of_enabled_set.
