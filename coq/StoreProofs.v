(* storage.c: the 32-byte image is exactly the published layout, loading inverts storing,
   and a buffer is accepted exactly when it is the image of a canonical struct.  For ALL
   32-byte buffers (2^256) and all canonical structs. *)
From PS Require Import Base GFDefs PackDefs StoreDefs SpecDefs GFProofs PackProofs PackTheorems.
From PS.Gen Require Import Consts PrivConsts.
Local Open Scope N_scope.

Definition bytes_ok (l : list N) : Prop := Forall (fun b => b < 256) l.

(* ---- 16-bit fields ---- *)
Lemma load16_spec lo hi : lo < 256 -> load16 lo hi = (lo + 256 * hi) mod 65536.
Proof.
  intros H. unfold load16. rewrite N.shiftl_mul_pow2. change (2 ^ 8) with 256.
  rewrite N.lor_comm. change 256 with (2 ^ 8) at 1. rewrite lor_disjoint by exact H.
  f_equal. change (2 ^ 8) with 256. lia.
Qed.

Lemma load16_small lo hi : lo < 256 -> hi < 256 -> load16 lo hi = lo + 256 * hi.
Proof. intros A B. rewrite load16_spec by exact A. apply N.mod_small. lia. Qed.

Lemma store16_spec u : u < 65536 -> store16 u = le16 u.
Proof.
  intros H. unfold store16, le16. rewrite (N.mod_small u 65536) by exact H. reflexivity.
Qed.

Lemma load_store16 u : u < 65536 -> load16 (u mod 256) ((u / 256) mod 256) = u.
Proof.
  intros H. rewrite load16_small by (apply N.mod_lt; discriminate). lia.
Qed.

Lemma land_1023_mod x : N.land x DATE_MASK = x mod 1024.
Proof. change DATE_MASK with (N.ones 10). rewrite N.land_ones. reflexivity. Qed.
Lemma land_2047_mod x : N.land x GF_MASK = x mod 2048.
Proof. change GF_MASK with (N.ones 11). rewrite N.land_ones. reflexivity. Qed.
Lemma shiftr_date x : N.shiftr x DATE_BITS = x / 1024.
Proof. rewrite N.shiftr_div_pow2. reflexivity. Qed.
Lemma shiftl_date x : N.shiftl x DATE_BITS = x * 1024.
Proof. rewrite N.shiftl_mul_pow2. reflexivity. Qed.

Lemma lor_feat_bday f b : b < 1024 -> N.lor (N.shiftl f DATE_BITS) b = f * 1024 + b.
Proof. intros H. apply extra_val, H. Qed.

Lemma lor_footer c : c < 2048 -> N.lor STORAGE_FOOTER c = 28672 + c.
Proof.
  intros H. change STORAGE_FOOTER with (14 * 2 ^ 11). rewrite lor_disjoint by exact H. reflexivity.
Qed.

(* pos[18] & ~CLEAR_MASK == 0  <->  the two top bits are clear *)
Lemma clear_mask_test x : x < 256 -> (N.land x (255 - CLEAR_MASK) =? 0) = (x <? 64).
Proof.
  intros H. apply Bool.eqb_prop.
  apply (sweep (fun x => Bool.eqb (N.land x (255 - CLEAR_MASK) =? 0) (x <? 64)) 256);
    [vm_compute; reflexivity | exact H].
Qed.

Lemma list_eqb_N a b : list_eqb N.eqb a b = true <-> a = b.
Proof.
  revert b. induction a as [|x a IH]; intros [|y b]; cbn; split; intros H; try discriminate; try reflexivity.
  - apply andb_true_iff in H. destruct H as [H1 H2]. apply N.eqb_eq in H1. apply IH in H2. subst. reflexivity.
  - inversion H; subst. rewrite N.eqb_refl. apply IH. reflexivity.
Qed.

(* ---- the loader on an explicit 32-byte buffer ---- *)
Definition buf32 h0 h1 h2 h3 h4 h5 h6 h7 x8 x9 s0 s1 s2 s3 s4 s5 s6 s7 s8 s9 s10 s11 s12 s13 s14 s15 s16 s17 s18 x29 x30 x31 : list N := [h0; h1; h2; h3; h4; h5; h6; h7; x8; x9; s0; s1; s2; s3; s4; s5; s6; s7; s8; s9; s10; s11; s12; s13; s14; s15; s16; s17; s18; x29; x30; x31].

Lemma load_explicit h0 h1 h2 h3 h4 h5 h6 h7 x8 x9 s0 s1 s2 s3 s4 s5 s6 s7 s8 s9 s10 s11 s12 s13 s14 s15 s16 s17 s18 x29 x30 x31 :
  data_load (buf32 h0 h1 h2 h3 h4 h5 h6 h7 x8 x9 s0 s1 s2 s3 s4 s5 s6 s7 s8 s9 s10 s11 s12 s13 s14 s15 s16 s17 s18 x29 x30 x31) =
  if negb (list_eqb N.eqb [h0; h1; h2; h3; h4; h5; h6; h7] HEADER) then LoadFormat else
  let v1 := load16 x8 x9 in
  if FEATURE_MASK <? N.shiftr v1 DATE_BITS then LoadFormat else
  if negb (N.land s18 (255 - CLEAR_MASK) =? 0) then LoadFormat else
  if negb (x29 =? EXTRA_BYTE) then LoadFormat else
  let v2 := load16 x30 x31 in
  if negb (v2 - N.land v2 GF_MASK =? STORAGE_FOOTER) then LoadFormat else
  LoadOk (mkdata (N.land v1 DATE_MASK) (N.shiftr v1 DATE_BITS) (sec19 s0 s1 s2 s3 s4 s5 s6 s7 s8 s9 s10 s11 s12 s13 s14 s15 s16 s17 s18 ++ repeat 0 13) (N.land v2 GF_MASK)).
Proof. reflexivity. Qed.

Lemma buf32_shape buf : length buf = 32%nat -> exists h0 h1 h2 h3 h4 h5 h6 h7 x8 x9 s0 s1 s2 s3 s4 s5 s6 s7 s8 s9 s10 s11 s12 s13 s14 s15 s16 s17 s18 x29 x30 x31, buf = buf32 h0 h1 h2 h3 h4 h5 h6 h7 x8 x9 s0 s1 s2 s3 s4 s5 s6 s7 s8 s9 s10 s11 s12 s13 s14 s15 s16 s17 s18 x29 x30 x31.
Proof.
  intros H. do 32 (destruct buf as [|? buf]; [discriminate|]). destruct buf; [|discriminate].
  do 32 eexists. reflexivity.
Qed.

(* ---- the image is the published layout ---- *)
Theorem store_layout d : Canon d -> d_checksum d < 2048 ->
  data_store d = POLYSEED_ASCII ++ le16 (d_features d * 1024 + d_birthday d) ++ firstn 19 (d_secret d)
                 ++ [255] ++ le16 (28672 + d_checksum d).
Proof.
  intros (_&_&_&_&Hb&Hf) Hc. unfold data_store.
  rewrite lor_feat_bday by exact Hb. rewrite lor_footer by exact Hc.
  rewrite !store16_spec by lia. reflexivity.
Qed.

Lemma store_length d : Canon d -> length (data_store d) = 32%nat.
Proof.
  intros (Hl&_). unfold data_store, store16. rewrite !app_length, firstn_length, Hl. reflexivity.
Qed.

(* ---- load after store ---- *)
Theorem load_store d : Canon d -> d_checksum d < 2048 -> data_load (data_store d) = LoadOk d.
Proof.
  intros HC Hc. rewrite (store_layout d HC Hc).
  destruct (canon_shape d HC) as
    (b0&b1&b2&b3&b4&b5&b6&b7&b8&b9&b10&b11&b12&b13&b14&b15&b16&b17&b18&Hs&
     B0&B1&B2&B3&B4&B5&B6&B7&B8&B9&B10&B11&B12&B13&B14&B15&B16&B17&B18).
  destruct HC as (_&_&_&_&Hb&Hf). destruct d as [bd ft sec ck].
  cbn [d_secret d_birthday d_features d_checksum] in *. subst sec.
  change (firstn 19 (sec19 b0 b1 b2 b3 b4 b5 b6 b7 b8 b9 b10 b11 b12 b13 b14 b15 b16 b17 b18 ++ repeat 0 13))
    with (sec19 b0 b1 b2 b3 b4 b5 b6 b7 b8 b9 b10 b11 b12 b13 b14 b15 b16 b17 b18).
  set (v1 := ft * 1024 + bd). set (v2 := 28672 + ck).
  change (POLYSEED_ASCII ++ le16 v1 ++ sec19 b0 b1 b2 b3 b4 b5 b6 b7 b8 b9 b10 b11 b12 b13 b14 b15 b16 b17 b18 ++ [255] ++ le16 v2)
    with (buf32 80 79 76 89 83 69 69 68 (v1 mod 256) ((v1 / 256) mod 256)
            b0 b1 b2 b3 b4 b5 b6 b7 b8 b9 b10 b11 b12 b13 b14 b15 b16 b17 b18 255 (v2 mod 256) ((v2 / 256) mod 256)).
  rewrite load_explicit. cbv zeta.
  assert (V1 : v1 < 65536) by (unfold v1; lia). assert (V2 : v2 < 65536) by (unfold v2; lia).
  rewrite !load_store16 by assumption.
  change (negb (list_eqb N.eqb [80; 79; 76; 89; 83; 69; 69; 68] HEADER)) with false. cbv iota.
  rewrite shiftr_date, land_1023_mod, land_2047_mod.
  replace (FEATURE_MASK <? v1 / 1024) with false by (symmetry; apply N.ltb_ge; unfold v1, FEATURE_MASK; lia).
  rewrite clear_mask_test by lia. replace (b18 <? 64) with true by (symmetry; apply N.ltb_lt; exact B18).
  cbn [negb]. change (255 =? EXTRA_BYTE) with true. cbn [negb].
  replace (v2 - v2 mod 2048 =? STORAGE_FOOTER) with true
    by (symmetry; apply N.eqb_eq; unfold v2, STORAGE_FOOTER; lia).
  cbn [negb]. f_equal. f_equal; unfold v1, v2; lia.
Qed.

(* ---- a buffer is accepted exactly when it is the image of a canonical struct ---- *)
Theorem load_ok_iff buf d : length buf = 32%nat -> bytes_ok buf ->
  (data_load buf = LoadOk d <-> Canon d /\ d_checksum d < 2048 /\ buf = data_store d).
Proof.
  intros Hl Hb. split.
  2:{ intros (HC&Hc&E). subst buf. apply load_store; assumption. }
  destruct (buf32_shape buf Hl) as (h0 & h1 & h2 & h3 & h4 & h5 & h6 & h7 & x8 & x9 & s0 & s1 & s2 & s3 & s4 & s5 & s6 & s7 & s8 & s9 & s10 & s11 & s12 & s13 & s14 & s15 & s16 & s17 & s18 & x29 & x30 & x31 & E). subst buf.
  unfold bytes_ok, buf32 in Hb.
  repeat match goal with H : Forall _ (_ :: _) |- _ =>
    let a := fresh "A" in let b := fresh "F" in (apply Forall_cons_iff in H; destruct H as [a b]) end.
  rewrite load_explicit. cbv zeta.
  destruct (list_eqb N.eqb [h0; h1; h2; h3; h4; h5; h6; h7] HEADER) eqn:EH; cbn [negb]; [|discriminate].
  apply list_eqb_N in EH.
  rewrite !load16_small by assumption.
  rewrite shiftr_date, land_1023_mod, land_2047_mod.
  destruct (FEATURE_MASK <? (x8 + 256 * x9) / 1024) eqn:EF; [discriminate|]. apply N.ltb_ge in EF.
  rewrite clear_mask_test by assumption.
  destruct (s18 <? 64) eqn:E18; cbn [negb]; [|discriminate]. apply N.ltb_lt in E18.
  destruct (x29 =? EXTRA_BYTE) eqn:E29; cbn [negb]; [|discriminate]. apply N.eqb_eq in E29.
  destruct ((x30 + 256 * x31) - (x30 + 256 * x31) mod 2048 =? STORAGE_FOOTER) eqn:EV; cbn [negb]; [|discriminate].
  apply N.eqb_eq in EV. intros H.
  apply (f_equal (fun r => match r with LoadOk x => x | LoadFormat => d end)) in H. cbv beta iota in H. subst d.
  set (v1 := x8 + 256 * x9) in *. set (v2 := x30 + 256 * x31) in *.
  assert (V1 : v1 < 65536) by (unfold v1; lia). assert (V2 : v2 < 65536) by (unfold v2; lia).
  unfold FEATURE_MASK in EF. unfold STORAGE_FOOTER in EV.
  split; [|split].
  - unfold Canon. cbv [d_secret d_birthday d_features].
    split; [reflexivity|]. split.
    + unfold sec19. cbn [app repeat]. repeat (apply Forall_cons; [first [assumption | lia]|]). apply Forall_nil.
    + split; [exact E18|]. split; [reflexivity|]. split; lia.
  - cbv [d_checksum]. apply N.mod_lt. discriminate.
  - unfold data_store. cbv [d_secret d_birthday d_features d_checksum].
    rewrite lor_feat_bday by (apply N.mod_lt; discriminate).
    rewrite lor_footer by (apply N.mod_lt; discriminate).
    replace (v1 / 1024 * 1024 + v1 mod 1024) with v1 by lia.
    replace (28672 + v2 mod 2048) with v2 by lia.
    rewrite !store16_spec by assumption. unfold le16.
    replace (v1 mod 256) with x8 by (unfold v1; lia). replace ((v1 / 256) mod 256) with x9 by (unfold v1; lia).
    replace (v2 mod 256) with x30 by (unfold v2; lia). replace ((v2 / 256) mod 256) with x31 by (unfold v2; lia).
    injection EH as -> -> -> -> -> -> -> ->. subst x29. reflexivity.
Qed.

(* two canonical structs with the same image are equal: the encoding is canonical *)
Corollary store_injective d1 d2 : Canon d1 -> Canon d2 -> d_checksum d1 < 2048 -> d_checksum d2 < 2048 ->
  data_store d1 = data_store d2 -> d1 = d2.
Proof.
  intros C1 C2 K1 K2 E. pose proof (load_store d1 C1 K1) as L1. rewrite E, (load_store d2 C2 K2) in L1.
  injection L1 as ->. reflexivity.
Qed.
