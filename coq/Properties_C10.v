(* C10 - reserved feature bits are refused; enabled ones work (leaf functions). *)
From PS Require Import Base MiscDefs SpecDefs MiscProofs ApiDefs SpecApi ApiLemmas RefineProofs ApiTheorems HeldProofs.
From PS.Gen Require Import Consts Langs.
Local Open Scope N_scope.

(* the enabling call, for EVERY argument: the reserved mask becomes 15 xor (m land 7) whatever
   it was before (the most recent call wins), and the return value is the number of user bits set *)
Theorem C10_enable : forall m, enable_features m = (N.lxor 15 (N.land m 7), popcount 3 (N.land m 7)).
Proof. exact enable_spec. Qed.
Print Assumptions C10_enable.

Theorem C10_default : RESERVED_DEFAULT = N.lxor 15 (N.land 0 7).
Proof. exact default_reserved. Qed.
Print Assumptions C10_default.

(* the gate used by create, both decoders and load *)
Theorem C10_gate : forall m f,
  features_supported (fst (enable_features m)) f = (N.land f (N.lxor 15 (N.land m 7)) =? 0).
Proof. exact supported_spec. Qed.
Print Assumptions C10_gate.

Theorem C10_queries : (forall f m, get_features f m = N.land (N.land f m) 7) /\
  (forall u, make_features u = N.land u 7 /\ make_features u < 8) /\
  (forall f, f < 32 -> (if is_encrypted f then 1 else 0) = (f / 16) mod 2).
Proof. exact (conj get_features_spec (conj make_features_spec is_encrypted_spec)). Qed.
Print Assumptions C10_queries.

(* ---- at the API, for every related state *)
(* enabling: the return value, the new reserved mask, and the abstract mask replaced (not OR-ed) *)
Theorem C10_enable_api : forall sgn cs a m, R cs a ->
  outp (step sgn langs cs (OpEnable m)) = OutNum (popcount 3 (N.land m 7)) /\
  st_reserved (stp (step sgn langs cs (OpEnable m))) = N.lxor 15 (N.land m 7) /\
  R (stp (step sgn langs cs (OpEnable m))) (mkastate (as_deps a) (N.land m 7) (as_seeds a) (as_next a)).
Proof. exact enable_effect. Qed.
Print Assumptions C10_enable_api.

(* creation is refused exactly when a requested user bit is not enabled (before anything is allocated) *)
Theorem C10_create_gate : forall sgn cs a features rand clock ok, R cs a -> clock < 2 ^ 64 ->
  outp (step sgn langs cs (OpCreate features rand clock ok)) =
    if negb (spec_supported (as_mask a) (N.land features 7)) then OutStatus ST_UNSUPPORTED None None
    else if negb ok then OutStatus ST_MEMORY None None
    else OutStatus ST_OK (Some (st_next cs)) None.
Proof. exact create_gate. Qed.
Print Assumptions C10_create_gate.

(* both decoders: the gate is the third test of finish_out (C09_tail), on the feature bits carried
   by the phrase; polyseed_load: the third test of C06_precedence.  spec_supported is the rule: *)
Theorem C10_rule : forall mask f, spec_supported mask f = (N.land f (N.lxor 15 (N.land mask 7)) =? 0).
Proof. reflexivity. Qed.
Print Assumptions C10_rule.

(* every combination: which feature values pass under which enabled mask (8 x 32, computed) *)
Example C10_table : forall mask f, mask < 8 -> f < 32 ->
  spec_supported mask f = ((f mod 16) / 8 =? 0) && (N.land (f mod 8) (7 - mask) =? 0).
Proof.
  intros mask f Hm Hf.
  assert (T : forallb (fun m => forallb (fun f => Bool.eqb (spec_supported m f) (((f mod 16) / 8 =? 0) && (N.land (f mod 8) (7 - m) =? 0)))
                (GFProofs.range 32)) (GFProofs.range 8) = true) by (vm_compute; reflexivity).
  rewrite forallb_forall in T. specialize (T mask (GFProofs.in_range 8 mask Hm)).
  rewrite forallb_forall in T. specialize (T f (GFProofs.in_range 32 f Hf)). apply Bool.eqb_prop, T.
Qed.

(* a seed HELD by the caller does not depend on what is enabled later: from two states that differ only in the
   enabled set, every history of calls that use held seeds (encode, store, crypt, keygen, the three queries, free)
   gives the same outputs and the same calls of the dependencies, and ends in states that again differ only in that
   set.  (The four constructors are where the set is read: C10_create_gate, C10_entry_points.) *)
Theorem C10_held_seeds_independent_of_enabled_set : forall sgn ops st r, forallb uses_held ops = true ->
  run sgn langs (with_reserved r st) ops =
  (with_reserved r (fst (run sgn langs st ops)), snd (run sgn langs st ops)).
Proof. exact (fun sgn => held_run_independent sgn langs). Qed.
Print Assumptions C10_held_seeds_independent_of_enabled_set.

(* in particular a call of polyseed_enable_features between obtaining a seed and using it changes no result *)
Theorem C10_enable_then_use : forall sgn st m ops, forallb uses_held ops = true ->
  snd (run sgn langs (fst (fst (step sgn langs st (OpEnable m)))) ops) = snd (run sgn langs st ops).
Proof. exact (fun sgn => enable_then_use sgn langs). Qed.
Print Assumptions C10_enable_then_use.

Example C10_held_ops : forallb uses_held [OpCrypt 0 []; OpEncode 0 0%nat 1; OpKeygen 0 0 32; OpStore 0; OpGetFeature 0 7] = true.
Proof. reflexivity. Qed.
