(* C10 - reserved feature bits are refused; enabled ones work (leaf functions). *)
From PS Require Import Base MiscDefs SpecDefs MiscProofs.
Local Open Scope N_scope.

(* the enabling call, for EVERY argument: the reserved mask becomes 15 xor (m land 7) whatever
   it was before (the most recent call wins), and the return value is the number of user bits set *)
Theorem C10_enable : forall m, enable_features m = (N.lxor 15 (N.land m 7), popcount 3 (N.land m 7)).
Proof. exact enable_spec. Qed.
Print Assumptions C10_enable.

Theorem C10_default : RESERVED_DEFAULT = N.lxor 15 (N.land 0 7).
Proof. exact default_reserved. Qed.
Print Assumptions C10_default.

(* the gate used by create, both decoders and load *)
Theorem C10_gate : forall m f,
  features_supported (fst (enable_features m)) f = (N.land f (N.lxor 15 (N.land m 7)) =? 0).
Proof. exact supported_spec. Qed.
Print Assumptions C10_gate.

Theorem C10_queries : (forall f m, get_features f m = N.land (N.land f m) 7) /\
  (forall u, make_features u = N.land u 7 /\ make_features u < 8) /\
  (forall f, f < 32 -> (if is_encrypted f then 1 else 0) = (f / 16) mod 2).
Proof. exact (conj get_features_spec (conj make_features_spec is_encrypted_spec)). Qed.
Print Assumptions C10_queries.
