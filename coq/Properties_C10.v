(* C10 - reserved feature bits are refused; enabled ones work (leaf functions). *)
From PS Require Import Base MiscDefs SpecDefs MiscProofs ApiDefs SpecApi ApiLemmas RefineProofs ApiTheorems.
From PS Require Import CTieBase CTieFeat.
From PS.Gen Require CFuns.
From PS.Gen Require Import Consts Langs.
Local Open Scope N_scope.

(* the enabling call, for EVERY argument: the reserved mask becomes 15 xor (m land 7) whatever
   it was before (the most recent call wins), and the return value is the number of user bits set *)
Theorem C10_enable : forall m, enable_features m = (N.lxor 15 (N.land m 7), popcount 3 (N.land m 7)).
Proof. exact enable_spec. Qed.
Print Assumptions C10_enable.

Theorem C10_default : RESERVED_DEFAULT = N.lxor 15 (N.land 0 7).
Proof. exact default_reserved. Qed.
Print Assumptions C10_default.

(* the gate used by create, both decoders and load *)
Theorem C10_gate : forall m f,
  features_supported (fst (enable_features m)) f = (N.land f (N.lxor 15 (N.land m 7)) =? 0).
Proof. exact supported_spec. Qed.
Print Assumptions C10_gate.

Theorem C10_queries : (forall f m, get_features f m = N.land (N.land f m) 7) /\
  (forall u, make_features u = N.land u 7 /\ make_features u < 8) /\
  (forall f, f < 32 -> (if is_encrypted f then 1 else 0) = (f / 16) mod 2).
Proof. exact (conj get_features_spec (conj make_features_spec is_encrypted_spec)). Qed.
Print Assumptions C10_queries.

(* ---- at the API, for every related state *)
(* enabling: the return value, the new reserved mask, and the abstract mask replaced (not OR-ed) *)
Theorem C10_enable_api : forall sgn cs a m, R cs a ->
  outp (step sgn langs cs (OpEnable m)) = OutNum (popcount 3 (N.land m 7)) /\
  st_reserved (stp (step sgn langs cs (OpEnable m))) = N.lxor 15 (N.land m 7) /\
  R (stp (step sgn langs cs (OpEnable m))) (mkastate (as_deps a) (N.land m 7) (as_seeds a) (as_next a)).
Proof. exact enable_effect. Qed.
Print Assumptions C10_enable_api.

(* creation is refused exactly when a requested user bit is not enabled (before anything is allocated) *)
Theorem C10_create_gate : forall sgn cs a features rand clock ok, R cs a -> clock < 2 ^ 64 ->
  outp (step sgn langs cs (OpCreate features rand clock ok)) =
    if negb (spec_supported (as_mask a) (N.land features 7)) then OutStatus ST_UNSUPPORTED None None
    else if negb ok then OutStatus ST_MEMORY None None
    else OutStatus ST_OK (Some (st_next cs)) None.
Proof. exact create_gate. Qed.
Print Assumptions C10_create_gate.

(* both decoders: the gate is the third test of finish_out (C09_tail), on the feature bits carried
   by the phrase; polyseed_load: the third test of C06_precedence.  spec_supported is the rule: *)
Theorem C10_rule : forall mask f, spec_supported mask f = (N.land f (N.lxor 15 (N.land mask 7)) =? 0).
Proof. reflexivity. Qed.
Print Assumptions C10_rule.

(* every combination: which feature values pass under which enabled mask (8 x 32, computed) *)
Example C10_table : forall mask f, mask < 8 -> f < 32 ->
  spec_supported mask f = ((f mod 16) / 8 =? 0) && (N.land (f mod 8) (7 - mask) =? 0).
Proof.
  intros mask f Hm Hf.
  assert (T : forallb (fun m => forallb (fun f => Bool.eqb (spec_supported m f) (((f mod 16) / 8 =? 0) && (N.land (f mod 8) (7 - m) =? 0)))
                (GFProofs.range 32)) (GFProofs.range 8) = true) by (vm_compute; reflexivity).
  rewrite forallb_forall in T. specialize (T mask (GFProofs.in_range 8 mask Hm)).
  rewrite forallb_forall in T. specialize (T f (GFProofs.in_range 32 f Hf)). apply Bool.eqb_prop, T.
Qed.

(* ---- the tie to the code: features.h / features.c as TRANSLATED from /repo's current source on this
   run (Gen/CFuns.v): each function equals the mirror the theorems above are about, for EVERY unsigned
   argument; polyseed_enable_features returns (new reserved mask, number enabled) whatever the old mask *)
Theorem C10_code_tie :
  (forall u, CFuns.make_features (Z.of_N u) = Z.of_N (make_features u)) /\
  (forall f m, CFuns.get_features (Z.of_N f) (Z.of_N m) = Z.of_N (get_features f m)) /\
  (forall f, CFuns.is_encrypted (Z.of_N f) = if is_encrypted f then 1%Z else 0%Z) /\
  (forall r f, CFuns.polyseed_features_supported (Z.of_N r) (Z.of_N f) = if features_supported r f then 1%Z else 0%Z) /\
  (forall r0 m, m < 2 ^ 32 ->
     CFuns.polyseed_enable_features r0 (Z.of_N m) = (Z.of_N (fst (enable_features m)), Z.of_N (snd (enable_features m)))).
Proof. exact (conj tie_make_features (conj tie_get_features (conj tie_is_encrypted (conj tie_features_supported tie_enable_features)))). Qed.
Print Assumptions C10_code_tie.

(* ---- the tie to the code: src/polyseed.c as TRANSLATED on this run (Gen/CApi.v) ---- *)
From Coq Require Import String.
From PS Require Import Base GFDefs PackDefs StoreDefs MiscDefs StrDefs LangDefs ApiDefs GFProofs PackProofs StoreProofs CTieBase CTieLang CTiePhrase CTiePhraseEv CTieSplit CTieApi CTieDecode CTieEncode.
From PS.Gen Require Import Consts PrivConsts Langs.
From PS.Gen Require CFuns.
From PS.Gen Require CApi.

(* polyseed_get_feature as translated *)
Theorem C10_code_tie_api_get_feature :
  forall (d : data) (m : N),
         CApi.polyseed_get_feature (Z.of_N (d_birthday d)) (Z.of_N (d_features d)) 
           (map Z.of_N (d_secret d)) (Z.of_N (d_checksum d)) (Z.of_N m) =
         Z.of_N (get_features (d_features d) m).
Proof. exact @tie_get_feature. Qed.
Print Assumptions C10_code_tie_api_get_feature.

(* polyseed_is_encrypted as translated *)
Theorem C10_code_tie_api_is_encrypted :
  forall d : data,
         CApi.polyseed_is_encrypted (Z.of_N (d_birthday d)) (Z.of_N (d_features d)) 
           (map Z.of_N (d_secret d)) (Z.of_N (d_checksum d)) =
         (if is_encrypted (d_features d) then 1%Z else 0%Z).
Proof. exact @tie_is_encrypted_api. Qed.
Print Assumptions C10_code_tie_api_is_encrypted.
