(* birthday.h as translated from the current source against the mirrors, for every uint64_t clock. *)
From PS Require Import Base GFDefs MiscDefs SpecDefs GFProofs MiscProofs CTieBase.
From PS.Gen Require Import PrivConsts.
From PS.Gen Require CFuns.
Local Open Scope N_scope.

(* ---- birthday.h: every clock value a uint64_t can hold; every birthday an unsigned can hold *)
Lemma zland_ones_z a k : (0 <= a)%Z -> (0 <= k)%Z -> Z.land a (2 ^ k - 1) = (a mod 2 ^ k)%Z.
Proof. intros Ha Hk. replace (2 ^ k - 1)%Z with (Z.ones k) by (rewrite Z.ones_equiv; lia). apply Z.land_ones, Hk. Qed.

Lemma zland_mask a m k : (0 <= a)%Z -> (0 <= k)%Z -> (m = 2 ^ k - 1)%Z -> Z.land a m = (a mod 2 ^ k)%Z.
Proof. intros Ha Hk ->. apply zland_ones_z; assumption. Qed.

Theorem tie_birthday_encode t : t < 2 ^ 64 -> CFuns.birthday_encode (zN t) = zN (birthday_encode t).
Proof.
  intros Ht. change (2 ^ 64) with 18446744073709551616 in Ht.
  unfold CFuns.birthday_encode, birthday_encode, EPOCH, TIME_STEP, DATE_MASK, U64.
  change (18446744073709551616 - 1) with 18446744073709551615.
  destruct (N.eqb_spec t 18446744073709551615) as [E|E].
  - subst t. reflexivity.
  - replace (zN t =? 18446744073709551615)%Z with false by (symmetry; apply Z.eqb_neq; lia).
    cbn [orb]. destruct (N.ltb_spec t 1635768000) as [L|L].
    + replace (zN t <? 1635768000)%Z with true by (symmetry; apply Z.ltb_lt; lia). reflexivity.
    + replace (zN t <? 1635768000)%Z with false by (symmetry; apply Z.ltb_ge; lia).
      rewrite land_1023. rewrite (Z.mod_small (zN t - 1635768000)) by lia.
      rewrite (zland_mask _ 1023 10) by (try apply Z.div_pos; try reflexivity; lia).
      change (2 ^ 10)%Z with 1024%Z.
      rewrite Z.mod_small.
      * rewrite N2Z.inj_mod, N2Z.inj_div, N2Z.inj_sub by lia. reflexivity.
      * pose proof (Z.mod_pos_bound ((zN t - 1635768000) / 2629746) 1024). lia.
Qed.

Theorem tie_birthday_decode b : b < 2 ^ 32 -> CFuns.birthday_decode (zN b) = zN (birthday_decode b).
Proof.
  intros Hb. change (2 ^ 32) with 4294967296 in Hb.
  unfold CFuns.birthday_decode, birthday_decode, EPOCH, TIME_STEP, U64.
  rewrite (Z.mod_small (zN b * 2629746)) by lia.
  rewrite N2Z.inj_mod, N2Z.inj_add, N2Z.inj_mul. reflexivity.
Qed.

