(* C19: no result of any public function depends on whether plain char is signed. *)
From PS Require Import Base GFDefs PackDefs StoreDefs MiscDefs StrDefs LangDefs ApiDefs SpecDefs SpecApi.
From PS Require Import StrProofs LangProofs LangData ApiLemmas RefineProofs.
From PS.Gen Require Import Consts PrivConsts Langs.
Local Open Scope N_scope.

Lemma decode_words_sgn L ws : In L langs -> Forall no_nul ws -> decode_words true L ws = decode_words false L ws.
Proof. intros HL Hw. rewrite !(decode_words_spec _ L ws HL Hw). reflexivity. Qed.

Lemma phrase_decode_sgn ws : Forall no_nul ws -> phrase_decode true langs ws = phrase_decode false langs ws.
Proof. intros Hw. rewrite !(phrase_decode_spec _ ws Hw). reflexivity. Qed.

Theorem step_sgn_independent cs a o : R cs a -> op_ok o -> step true langs cs o = step false langs cs o.
Proof.
  intros HR Ho. destruct o; try reflexivity; cbn [step op_ok] in *.
  - destruct Ho as [Hs Hc].
    pose proof (lazy_norm (dp_nfkd (st_deps cs)) str) as LN.
    pose proof (norm_nonul cs a str HR Hs) as Hn. rewrite <- LN in Hn.
    destruct (nfkd_lazy (dp_nfkd (st_deps cs)) str) as [[norm n] called]. cbn [fst] in Hn.
    pose proof (str_split_spec norm) as SS. destruct (str_split norm) as [w words].
    assert (Hw : Forall no_nul words).
    { injection SS as _ ->. pose proof (tokens_nonul norm Hn) as T. rewrite <- (firstn_skipn 16 (spec_tokens norm)) in T.
      apply Forall_app in T. apply T. }
    clear SS.
    rewrite (phrase_decode_sgn _ Hw). reflexivity.
  - destruct Ho as [Hs Hc]. destruct (nth_error langs li) as [L|] eqn:EL; [|reflexivity].
    pose proof (lazy_norm (dp_nfkd (st_deps cs)) str) as LN.
    pose proof (norm_nonul cs a str HR Hs) as Hn. rewrite <- LN in Hn.
    destruct (nfkd_lazy (dp_nfkd (st_deps cs)) str) as [[norm n] called]. cbn [fst] in Hn.
    pose proof (str_split_spec norm) as SS. destruct (str_split norm) as [w words].
    assert (Hw : Forall no_nul words).
    { injection SS as _ ->. pose proof (tokens_nonul norm Hn) as T. rewrite <- (firstn_skipn 16 (spec_tokens norm)) in T.
      apply Forall_app in T. apply T. }
    clear SS.
    unfold phrase_decode_explicit. rewrite (decode_words_sgn L _ (nth_error_In _ _ EL) Hw). reflexivity.
Qed.

Theorem run_sgn_independent ops : Forall op_ok ops ->
  run true langs init_state ops = run false langs init_state ops.
Proof.
  intros Hok.
  assert (G : forall cs a, R cs a -> run true langs cs ops = run false langs cs ops).
  { induction Hok as [|o ops Ho Hops IH]; intros cs a HR; [reflexivity|]. cbn [run].
    rewrite <- (step_sgn_independent cs a o HR Ho).
    destruct (step_refines true cs a o HR Ho) as [_ S2].
    destruct (step true langs cs o) as [[cs1 o1] e1]. cbn [fst] in S2. rewrite (IH cs1 _ S2). reflexivity. }
  apply (G _ _ R_init).
Qed.
