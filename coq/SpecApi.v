(* The abstract seed machine of C13: a seed is (secret, birthday, features),
   the library state is the enabled-feature mask and the injected functions.
   Built only from SpecDefs; from ApiDefs it takes the TYPES of operations,
   outputs and dependency tables (so both machines read the same op list). *)
From PS Require Import Base SpecDefs ApiDefs.
From PS.Gen Require Import Consts.
Local Open Scope N_scope.

Record astate := mkastate {
  as_deps : deps;
  as_mask : N;                      (* enabled user-feature mask, 0..7 *)
  as_seeds : list (N * aseed);
  as_next : N
}.

Fixpoint aget (m : list (N * aseed)) (h : N) : option aseed :=
  match m with [] => None | (k, s) :: m' => if k =? h then Some s else aget m' h end.
Fixpoint aset (m : list (N * aseed)) (h : N) (s : aseed) : list (N * aseed) :=
  match m with [] => [] | (k, s0) :: m' => if k =? h then (k, s) :: m' else (k, s0) :: aset m' h s end.
Fixpoint adel (m : list (N * aseed)) (h : N) : list (N * aseed) :=
  match m with [] => [] | (k, s0) :: m' => if k =? h then m' else (k, s0) :: adel m' h end.

(* what the library decodes: NFKD of the input if it has a non-ASCII byte among
   its first STR_SIZE-1 bytes, otherwise those first STR_SIZE-1 bytes *)
Definition spec_norm (nfkd : bytes -> bytes * N) (str : bytes) : bytes * N :=
  let head := firstn (N.to_nat (STR_SIZE - 1)) str in
  if existsb is_nonascii head then nfkd str else (head, N.of_nat (length head)).

Definition axor_coin (c : list N) (coin : N) : list N :=
  match c with c0 :: c1 :: t => c0 :: N.lxor c1 coin :: t | _ => c end.

Definition afinish (st : astate) (idx : list N) (coin : N) (alloc_ok : bool) (lang : option nat)
  : astate * out :=
  let c := axor_coin idx coin in
  if negb (spec_eval c =? 0) then (st, OutStatus 3 None None)
  else if negb alloc_ok then (st, OutStatus 6 None None)
  else
    let h := as_next st in
    let s := spec_seed_of_indices c in
    if negb (spec_supported (as_mask st) (a_features s))
    then (mkastate (as_deps st) (as_mask st) (as_seeds st) (h + 1), OutStatus 4 None None)
    else (mkastate (as_deps st) (as_mask st) ((h, s) :: as_seeds st) (h + 1), OutStatus 0 (Some h) lang).

(* languages that recognise all tokens, with registry position and indices *)
Fixpoint matching (ls : list lang) (li : nat) (toks : list bytes) : list (nat * list N) :=
  match ls with
  | [] => []
  | L :: ls' =>
    match spec_lookup_all L toks with
    | Some idx => (li, idx) :: matching ls' (S li) toks
    | None => matching ls' (S li) toks
    end
  end.

(* storage acceptance: the published layout, field by field *)
Definition spec_parse (buf : list N) : option (aseed * N) :=
  if negb (list_eqb N.eqb (firstn 8 buf) POLYSEED_ASCII) then None else
  let v1 := nth 8 buf 0 + 256 * nth 9 buf 0 in
  if 32768 <=? v1 then None else
  let sec := firstn 19 (skipn 10 buf) in
  if 64 <=? nth 18 sec 0 then None else
  if negb (nth 29 buf 0 =? 255) then None else
  let v2 := nth 30 buf 0 + 256 * nth 31 buf 0 in
  if negb (v2 / 2048 =? 14) then None else
  Some (mkaseed sec (v1 mod 1024) (v1 / 1024), v2 mod 2048).

Definition astep (langs : list lang) (st : astate) (o : op) : astate * out :=
  let dp := as_deps st in
  match o with
  | OpInject d => (mkastate d (as_mask st) (as_seeds st) (as_next st), OutUnit)
  | OpEnable mask =>
    (mkastate dp (N.land mask 7) (as_seeds st) (as_next st), OutNum (popcount 3 (N.land mask 7)))
  | OpCreate features rand clock alloc_ok =>
    let f := N.land features 7 in
    if negb (spec_supported (as_mask st) f) then (st, OutStatus 4 None None)
    else if negb alloc_ok then (st, OutStatus 6 None None)
    else
      let h := as_next st in
      let sec := map (fun i => nth i rand 0 mod 256) (seq 0 18) ++ [(nth 18 rand 0 mod 256) mod 64] in
      (mkastate dp (as_mask st) ((h, mkaseed sec (spec_birthday_index clock) f) :: as_seeds st) (h + 1),
       OutStatus 0 (Some h) None)
  | OpFree h =>
    match aget (as_seeds st) h with
    | None => (st, OutFault)
    | Some _ => (mkastate dp (as_mask st) (adel (as_seeds st) h) (as_next st), OutUnit)
    end
  | OpFreeNull => (st, OutUnit)
  | OpGetBirthday h =>
    match aget (as_seeds st) h with
    | None => (st, OutFault) | Some s => (st, OutNum (spec_birthday_time (a_birthday s))) end
  | OpGetFeature h mask =>
    match aget (as_seeds st) h with
    | None => (st, OutFault) | Some s => (st, OutNum (N.land (N.land (a_features s) mask) 7)) end
  | OpIsEncrypted h =>
    match aget (as_seeds st) h with
    | None => (st, OutFault) | Some s => (st, OutNum ((a_features s / 16) mod 2)) end
  | OpEncode h li coin =>
    match aget (as_seeds st) h, nth_error langs li with
    | Some s, Some L =>
      let p := spec_phrase_nfkd L s coin in
      if negb (N.of_nat (length p) <? STR_SIZE) then (st, OutFault)
      else if l_compose L then (st, OutStr (fst (dp_nfc dp p)) (snd (dp_nfc dp p)))
      else (st, OutStr p (N.of_nat (length p)))
    | _, _ => (st, OutFault)
    end
  | OpDecode str coin alloc_ok =>
    let toks := spec_tokens (fst (spec_norm (dp_nfkd dp) str)) in
    if negb (Nat.eqb (length toks) 16) then (st, OutStatus 1 None None)
    else match matching langs 0 toks with
         | [] => (st, OutStatus 2 None None)
         | [(li, idx)] => afinish st idx coin alloc_ok (Some li)
         | _ => (st, OutStatus 7 None None)
         end
  | OpDecodeExplicit str coin li alloc_ok =>
    match nth_error langs li with
    | None => (st, OutFault)
    | Some L =>
      let toks := spec_tokens (fst (spec_norm (dp_nfkd dp) str)) in
      if negb (Nat.eqb (length toks) 16) then (st, OutStatus 1 None None)
      else match spec_lookup_all L toks with
           | None => (st, OutStatus 2 None None)
           | Some idx => afinish st idx coin alloc_ok None
           end
    end
  | OpKeygen h coin size =>
    match aget (as_seeds st) h with
    | None => (st, OutFault)
    | Some s => (st, OutBytes (dp_kdf dp (spec_kdf_password s) 32 (spec_kdf_salt s coin) 32 10000 size))
    end
  | OpStore h =>
    match aget (as_seeds st) h with
    | None => (st, OutFault) | Some s => (st, OutBytes (spec_store s)) end
  | OpLoad buf alloc_ok =>
    if negb alloc_ok then (st, OutStatus 6 None None)
    else
      let h := as_next st in
      let st1 := mkastate dp (as_mask st) (as_seeds st) (h + 1) in
      match spec_parse buf with
      | None => (st1, OutStatus 5 None None)
      | Some (s, ck) =>
        if negb (ck =? spec_checksum s) then (st1, OutStatus 3 None None)
        else if negb (spec_supported (as_mask st) (a_features s)) then (st1, OutStatus 4 None None)
        else (mkastate dp (as_mask st) ((h, s) :: as_seeds st) (h + 1), OutStatus 0 (Some h) None)
      end
  | OpCrypt h pw =>
    match aget (as_seeds st) h with
    | None => (st, OutFault)
    | Some s =>
      let '(p, n) := spec_norm (dp_nfkd dp) pw in
      let mask := dp_kdf dp (map bval p) n SPEC_MASK_SALT 16 10000 32 in
      (mkastate dp (as_mask st) (aset (as_seeds st) h (spec_crypt s mask)) (as_next st), OutUnit)
    end
  end.

Definition ainit : astate := mkastate init_deps 0 [] 0.
