(* C15, C16, C18: the calls a public function makes to the injected functions (ApiDefs.step's
   event trace), for EVERY state, EVERY operation and EVERY exit path:
   - the allocation ledger balances and equals the set of handles handed out and not yet freed;
   - a failing call leaves no block behind and frees only what it allocated, once;
   - every block is wiped in full immediately before it is freed;
   - every automatic object that received secret-derived data is wiped before return;
   - every event goes through the dependency table in force. *)
From PS Require Import Base GFDefs PackDefs StoreDefs MiscDefs StrDefs LangDefs ApiDefs.
From PS.Gen Require Import Consts PrivConsts.
Local Open Scope N_scope.

Definition outp (r : state * out * list event) : out := snd (fst r).
Definition stp (r : state * out * list event) : state := fst (fst r).
Definition evp (r : state * out * list event) : list event := snd r.

Definition handles (cs : state) : list N := map fst (st_heap cs).

Fixpoint del1 (h : N) (l : list N) : list N :=
  match l with [] => [] | k :: l' => if k =? h then l' else k :: del1 h l' end.

Definition mem (h : N) (l : list N) : bool := existsb (N.eqb h) l.

(* the ledger: None = a block allocated twice, or a free of something not live *)
Definition apply_ev (live : option (list N)) (e : event) : option (list N) :=
  match live with
  | None => None
  | Some l =>
    match e with
    | EvAlloc _ _ (Some h) => if mem h l then None else Some (h :: l)
    | EvFree _ h => if mem h l then Some (del1 h l) else None
    | _ => Some l
    end
  end.
Definition ledger (l : list N) (evs : list event) : option (list N) := fold_left apply_ev evs (Some l).

(* handles are handed out in increasing order: everything live is below st_next *)
Definition Fresh (cs : state) : Prop := Forall (fun h => h < st_next cs) (handles cs).

Lemma fresh_not_mem cs : Fresh cs -> mem (st_next cs) (handles cs) = false.
Proof.
  unfold Fresh, mem. induction 1 as [|h l Hh _ IH]; [reflexivity|]. cbn [existsb].
  rewrite IH, orb_false_r. apply N.eqb_neq. lia.
Qed.

Lemma get_mem hp h d : heap_get hp h = Some d -> mem h (map fst hp) = true.
Proof.
  induction hp as [|[k d0] hp IH]; [discriminate|]. cbn [heap_get map fst mem existsb].
  rewrite (N.eqb_sym h k). destruct (k =? h); [reflexivity|]. intros H. apply IH, H.
Qed.

Lemma handles_del hp h : map fst (heap_del hp h) = del1 h (map fst hp).
Proof.
  induction hp as [|[k d0] hp IH]; [reflexivity|]. cbn [heap_del map fst del1].
  destruct (k =? h); [reflexivity|]. cbn [map fst]. rewrite IH. reflexivity.
Qed.

Lemma handles_set hp h d : map fst (heap_set hp h d) = map fst hp.
Proof.
  induction hp as [|[k d0] hp IH]; [reflexivity|]. cbn [heap_set map fst].
  destruct (k =? h); cbn [map fst]; [reflexivity|]. rewrite IH. reflexivity.
Qed.

Lemma del1_forall P h l : Forall P l -> Forall P (del1 h l).
Proof.
  induction 1 as [|k l Hk Hl IH]; [constructor|]. cbn [del1]. destruct (k =? h); [exact Hl | constructor; assumption].
Qed.

Lemma ledger_app l a b : ledger l (a ++ b) = match ledger l a with Some l' => ledger l' b | None => None end.
Proof.
  unfold ledger. rewrite fold_left_app. destruct (fold_left apply_ev a (Some l)); [reflexivity|].
  induction b as [|e b IH]; [reflexivity|exact IH].
Qed.

Ltac led NM := unfold ledger, free_events; cbn [app fold_left apply_ev]; rewrite ?NM; cbn [apply_ev mem existsb];
  rewrite ?N.eqb_refl; cbn [orb del1 apply_ev]; rewrite ?N.eqb_refl.

(* the net effect of the tail shared by both decoders *)
Lemma finish_ledger cs idx coin ok lang : Fresh cs ->
  let r := finish_decode cs idx coin ok lang in
  ledger (handles cs) (evp r) = Some (handles (stp r)) /\ Fresh (stp r).
Proof.
  intros HF. cbv zeta. unfold finish_decode, evp, stp, free_events.
  destruct (poly_check (xor_coin idx coin)); cbn [negb fst snd]; [|split; [reflexivity|exact HF]].
  destruct ok; cbn [negb fst snd]; [|split; [reflexivity|exact HF]].
  destruct (poly_to_data (xor_coin idx coin)) as [d|]; cbn [fst snd]; [|split; [reflexivity|exact HF]].
  pose proof (fresh_not_mem cs HF) as NM.
  destruct (features_supported (st_reserved cs) (d_features d)); cbn [negb fst snd].
  - led NM. split; [reflexivity|].
    unfold Fresh, handles in *. cbn [st_heap st_next map fst]. constructor; [lia|].
    eapply Forall_impl; [|exact HF]. cbn. intros; lia.
  - led NM. split; [reflexivity|].
    unfold Fresh, handles in *. cbn [st_heap st_next]. eapply Forall_impl; [|exact HF]. cbn. intros; lia.
Qed.

Ltac fin HF := split; [reflexivity | exact HF].

Theorem step_ledger sgn langs cs o : Fresh cs ->
  let r := step sgn langs cs o in
  ledger (handles cs) (evp r) = Some (handles (stp r)) /\ Fresh (stp r).
Proof.
  intros HF. cbv zeta. pose proof (fresh_not_mem cs HF) as NM.
  assert (Fup : forall d, Fresh (mkstate (st_deps cs) (st_reserved cs) ((st_next cs, d) :: st_heap cs) (st_next cs + 1))).
  { intros d. unfold Fresh, handles in *. cbn [st_heap st_next map fst]. constructor; [lia|].
    eapply Forall_impl; [|exact HF]. cbn. intros; lia. }
  assert (Fnx : Fresh (mkstate (st_deps cs) (st_reserved cs) (st_heap cs) (st_next cs + 1))).
  { unfold Fresh, handles in *. cbn [st_heap st_next]. eapply Forall_impl; [|exact HF]. cbn. intros; lia. }
  destruct o; unfold evp, stp; cbn [step].
  - (* inject *) cbn [fst snd]. fin HF.
  - (* enable *) destruct (enable_features mask). cbn [fst snd]. fin HF.
  - (* create *)
    destruct (features_supported _ _); cbn [negb fst snd]; [|fin HF].
    destruct alloc_ok; cbn [negb fst snd]; [|fin HF].
    match goal with |- context [poly_of 0 ?d] => destruct (poly_of 0 d) end; cbn [fst snd]; [|fin HF].
    led NM. split; [reflexivity|apply Fup].
  - (* load *)
    destruct alloc_ok; cbn [negb fst snd]; [|fin HF].
    destruct (data_load buf) as [|d]; cbn [fst snd].
    + led NM. split; [reflexivity|exact Fnx].
    + destruct (poly_of (d_checksum d) d) as [poly|]; cbn [fst snd]; [|fin HF].
      destruct (poly_check poly); cbn [negb fst snd].
      * destruct (features_supported _ _); cbn [negb fst snd].
        -- led NM. split; [reflexivity|apply Fup].
        -- led NM. split; [reflexivity|exact Fnx].
      * led NM. split; [reflexivity|exact Fnx].
  - (* decode *)
    destruct (nfkd_lazy _ str) as [[norm n] called]. destruct (str_split norm) as [w words].
    assert (L0 : forall l, ledger l (if called then [EvNfkd str] else []) = Some l) by (intros; destruct called; reflexivity).
    destruct (Nat.eqb w 16); cbn [negb fst snd].
    + destruct (phrase_decode sgn langs words) as [| | |idx li]; cbn [fst snd]; try fin HF;
        try (rewrite ledger_app, L0; fin HF).
      pose proof (finish_ledger cs idx coin alloc_ok (Some li) HF) as [F1 F2]. unfold evp, stp in *.
      destruct (finish_decode cs idx coin alloc_ok (Some li)) as [[cs' o'] ev]. cbn [fst snd] in *.
      rewrite ledger_app, L0. change (wipe_idx :: ev ++ cleanup_decode) with ([wipe_idx] ++ ev ++ cleanup_decode).
      rewrite ledger_app. change (ledger (handles cs) [wipe_idx]) with (Some (handles cs)). cbv iota.
      rewrite ledger_app, F1. split; [reflexivity|exact F2].
    + rewrite ledger_app, L0. fin HF.
  - (* decode_explicit *)
    destruct (nth_error langs li) as [L|]; cbn [fst snd]; [|fin HF].
    destruct (nfkd_lazy _ str) as [[norm n] called]. destruct (str_split norm) as [w words].
    assert (L0 : forall l, ledger l (if called then [EvNfkd str] else []) = Some l) by (intros; destruct called; reflexivity).
    destruct (Nat.eqb w 16); cbn [negb fst snd].
    + destruct (phrase_decode_explicit sgn L words) as [[idx|]|]; cbn [fst snd]; try fin HF;
        try (rewrite ledger_app, L0; fin HF).
      pose proof (finish_ledger cs idx coin alloc_ok None HF) as [F1 F2]. unfold evp, stp in *.
      destruct (finish_decode cs idx coin alloc_ok None) as [[cs' o'] ev]. cbn [fst snd] in *.
      rewrite ledger_app, L0, ledger_app, F1. split; [reflexivity|exact F2].
    + rewrite ledger_app, L0. fin HF.
  - (* encode *)
    destruct (heap_get _ h) as [d|]; [|cbn; fin HF]. destruct (nth_error langs li) as [L|]; [|cbn; fin HF].
    destruct (poly_of _ d) as [poly|]; [|cbn; fin HF].
    destruct (forallb _ _); cbn [negb]; [|cbn; fin HF].
    destruct (write_phrase _ _) as [s|]; [|cbn; fin HF].
    destruct (l_compose L); [destruct (dp_nfc _ s)|]; cbn [fst snd]; fin HF.
  - (* store *) destruct (heap_get _ h); cbn [fst snd]; fin HF.
  - (* crypt *)
    destruct (heap_get _ h) as [d|] eqn:Eg; [|cbn; fin HF].
    destruct (nfkd_lazy _ pw) as [[norm n] called].
    match goal with |- context [poly_of 0 ?d] => destruct (poly_of 0 d) end; cbn [fst snd]; [|fin HF].
    rewrite ledger_app. replace (ledger (handles cs) (if called then [EvNfkd pw] else [])) with (Some (handles cs))
      by (destruct called; reflexivity).
    unfold handles, Fresh, handles. cbn [st_heap st_next]. rewrite handles_set. split; [reflexivity|exact HF].
  - (* keygen *) destruct (heap_get _ h); cbn [fst snd]; fin HF.
  - destruct (heap_get _ h); cbn [fst snd]; fin HF.
  - destruct (heap_get _ h); cbn [fst snd]; fin HF.
  - destruct (heap_get _ h); cbn [fst snd]; fin HF.
  - (* free *)
    destruct (heap_get _ h) as [d|] eqn:Eg; cbn [fst snd]; [|fin HF].
    unfold ledger, free_events. cbn [fold_left apply_ev]. fold (handles cs). unfold handles at 1.
    rewrite (get_mem _ _ _ Eg). unfold handles, Fresh, handles. cbn [st_heap st_next]. rewrite handles_del.
    split; [reflexivity|]. apply del1_forall, HF.
  - cbn [fst snd]. fin HF.
Qed.

(* ---- every history: the ledger of the whole trace equals the live handles *)
Fixpoint all_events (outs : list (out * list event)) : list event :=
  match outs with [] => [] | (_, ev) :: t => ev ++ all_events t end.

Lemma fresh_init : Fresh init_state.
Proof. constructor. Qed.

Theorem run_ledger sgn langs ops : forall cs, Fresh cs ->
  ledger (handles cs) (all_events (snd (run sgn langs cs ops))) = Some (handles (fst (run sgn langs cs ops))) /\
  Fresh (fst (run sgn langs cs ops)).
Proof.
  induction ops as [|o ops IH]; intros cs HF; cbn [run].
  - split; [reflexivity|exact HF].
  - destruct (step_ledger sgn langs cs o HF) as [S1 S2]. unfold evp, stp in *.
    destruct (step sgn langs cs o) as [[cs1 o1] ev1]. cbn [fst snd] in *.
    destruct (IH cs1 S2) as [I1 I2]. destruct (run sgn langs cs1 ops) as [csf outs]. cbn [fst snd all_events] in *.
    rewrite ledger_app, S1. split; assumption.
Qed.

(* ---- a call that does not return OK hands out nothing and leaves the heap as it was *)
Definition is_ok_status (o : out) : bool :=
  match o with OutStatus st (Some _) _ => st =? ST_OK | _ => false end.
Definition is_constructor (o : op) : bool :=
  match o with OpCreate _ _ _ _ | OpLoad _ _ | OpDecode _ _ _ | OpDecodeExplicit _ _ _ _ => true | _ => false end.

Lemma finish_fail cs idx coin ok lang :
  let r := finish_decode cs idx coin ok lang in
  match outp r with
  | OutStatus st (Some h) _ => st = ST_OK /\ h = st_next cs /\ exists d, st_heap (stp r) = (h, d) :: st_heap cs
  | OutStatus st None _ => st <> ST_OK /\ st_heap (stp r) = st_heap cs
  | _ => st_heap (stp r) = st_heap cs
  end.
Proof.
  cbv zeta. unfold finish_decode, outp, stp.
  destruct (poly_check _); cbn [negb fst snd]; [|split; [discriminate|reflexivity]].
  destruct ok; cbn [negb fst snd]; [|split; [discriminate|reflexivity]].
  destruct (poly_to_data _) as [d|]; cbn [fst snd]; [|reflexivity].
  destruct (features_supported _ _); cbn [negb fst snd]; [|split; [discriminate|reflexivity]].
  split; [reflexivity|]. split; [reflexivity|]. exists d. reflexivity.
Qed.

Theorem constructor_outcome sgn langs cs o : is_constructor o = true ->
  let r := step sgn langs cs o in
  match outp r with
  | OutStatus st (Some h) _ => st = ST_OK /\ h = st_next cs /\ exists d, st_heap (stp r) = (h, d) :: st_heap cs
  | OutStatus st None _ => st <> ST_OK /\ st_heap (stp r) = st_heap cs
  | _ => st_heap (stp r) = st_heap cs
  end.
Proof.
  intros Hc. cbv zeta. destruct o; try discriminate; unfold outp, stp; cbn [step].
  - destruct (features_supported _ _); cbn [negb fst snd]; [|split; [discriminate|reflexivity]].
    destruct alloc_ok; cbn [negb fst snd]; [|split; [discriminate|reflexivity]].
    match goal with |- context [poly_of 0 ?d] => destruct (poly_of 0 d) end; cbn [fst snd]; [|reflexivity].
    split; [reflexivity|]. split; [reflexivity|]. eexists. reflexivity.
  - destruct alloc_ok; cbn [negb fst snd]; [|split; [discriminate|reflexivity]].
    destruct (data_load buf) as [|d]; cbn [fst snd]; [split; [discriminate|reflexivity]|].
    destruct (poly_of _ d) as [poly|]; cbn [fst snd]; [|reflexivity].
    destruct (poly_check poly); cbn [negb fst snd]; [|split; [discriminate|reflexivity]].
    destruct (features_supported _ _); cbn [negb fst snd]; [|split; [discriminate|reflexivity]].
    split; [reflexivity|]. split; [reflexivity|]. eexists. reflexivity.
  - destruct (nfkd_lazy _ str) as [[norm n] called]. destruct (str_split norm) as [w words].
    destruct (Nat.eqb w 16); cbn [negb fst snd]; [|split; [discriminate|reflexivity]].
    destruct (phrase_decode sgn langs words) as [| | |idx li]; cbn [fst snd]; try (split; [discriminate|reflexivity]); [reflexivity|].
    pose proof (finish_fail cs idx coin alloc_ok (Some li)) as F. unfold outp, stp in F.
    destruct (finish_decode cs idx coin alloc_ok (Some li)) as [[cs' o'] ev]. cbn [fst snd] in *. exact F.
  - destruct (nth_error langs li) as [L|]; cbn [fst snd]; [|reflexivity].
    destruct (nfkd_lazy _ str) as [[norm n] called]. destruct (str_split norm) as [w words].
    destruct (Nat.eqb w 16); cbn [negb fst snd]; [|split; [discriminate|reflexivity]].
    destruct (phrase_decode_explicit sgn L words) as [[idx|]|]; cbn [fst snd]; try (split; [discriminate|reflexivity]); [|reflexivity].
    pose proof (finish_fail cs idx coin alloc_ok None) as F. unfold outp, stp in F.
    destruct (finish_decode cs idx coin alloc_ok None) as [[cs' o'] ev]. cbn [fst snd] in *. exact F.
Qed.

(* when the allocator refuses: MEMORY, no seed, nothing changed, nothing freed *)
Definition alloc_refused (o : op) : bool :=
  match o with
  | OpCreate _ _ _ ok | OpLoad _ ok | OpDecode _ _ ok | OpDecodeExplicit _ _ _ ok => negb ok
  | _ => false
  end.
Definition asked_alloc (evs : list event) : bool :=
  existsb (fun e => match e with EvAlloc _ _ _ => true | _ => false end) evs.

Theorem alloc_failure sgn langs cs o : alloc_refused o = true ->
  let r := step sgn langs cs o in
  stp r = cs /\
  (asked_alloc (evp r) = true -> outp r = OutStatus ST_MEMORY None None) /\
  (forall lb h, ~ In (EvFree lb h) (evp r)).
Proof.
  intros Ha. cbv zeta.
  assert (NF : forall str called lb h, ~ In (EvFree lb h) ((if called : bool then [EvNfkd str] else []) ++ cleanup_decode)).
  { intros str called lb h H. destruct called; cbn in H; intuition discriminate. }
  assert (NF2 : forall str called lb h, ~ In (EvFree lb h) ((if called : bool then [EvNfkd str] else []) ++ wipe_idx :: cleanup_decode)).
  { intros str called lb h H. destruct called; cbn in H; intuition discriminate. }
  assert (NA : forall str called, asked_alloc ((if called : bool then [EvNfkd str] else []) ++ cleanup_decode) = false)
    by (intros str called; destruct called; reflexivity).
  assert (NA2 : forall str called, asked_alloc ((if called : bool then [EvNfkd str] else []) ++ wipe_idx :: cleanup_decode) = false)
    by (intros str called; destruct called; reflexivity).
  destruct o; try discriminate; cbn [alloc_refused] in Ha; apply negb_true_iff in Ha; subst alloc_ok;
    unfold outp, stp, evp; cbn [step].
  - destruct (features_supported _ _); cbn [negb fst snd]; (split; [reflexivity|split; [intros; try reflexivity; discriminate|]]);
      intros lb h H; cbn in H; intuition discriminate.
  - cbn [negb fst snd]. split; [reflexivity|split; [reflexivity|]]. intros lb h H; cbn in H; intuition discriminate.
  - destruct (nfkd_lazy _ str) as [[norm n] called]. destruct (str_split norm) as [w words].
    destruct (Nat.eqb w 16); cbn [negb fst snd].
    + destruct (phrase_decode sgn langs words) as [| | |idx li]; cbn [fst snd].
      * split; [reflexivity|split; [discriminate|intros lb h []]].
      * split; [reflexivity|split; [rewrite NA2; discriminate|apply NF2]].
      * split; [reflexivity|split; [rewrite NA2; discriminate|apply NF2]].
      * unfold finish_decode. destruct (poly_check _); cbn [negb fst snd].
        -- split; [reflexivity|split; [reflexivity|]]. intros lb h H. destruct called; cbn in H; intuition discriminate.
        -- split; [reflexivity|split; [rewrite NA2; discriminate|apply NF2]].
    + split; [reflexivity|split; [rewrite NA; discriminate|apply NF]].
  - destruct (nth_error langs li) as [L|]; cbn [fst snd]; [|split; [reflexivity|split; [discriminate|intros lb h []]]].
    destruct (nfkd_lazy _ str) as [[norm n] called]. destruct (str_split norm) as [w words].
    destruct (Nat.eqb w 16); cbn [negb fst snd].
    + destruct (phrase_decode_explicit sgn L words) as [[idx|]|]; cbn [fst snd].
      * unfold finish_decode. destruct (poly_check _); cbn [negb fst snd].
        -- split; [reflexivity|split; [reflexivity|]]. intros lb h H. destruct called; cbn in H; intuition discriminate.
        -- split; [reflexivity|split; [rewrite NA; discriminate|apply NF]].
      * split; [reflexivity|split; [rewrite NA; discriminate|apply NF]].
      * split; [reflexivity|split; [discriminate|intros lb h []]].
    + split; [reflexivity|split; [rewrite NA; discriminate|apply NF]].
Qed.

(* ------------------------------------------------------------------------ C16: wipes *)
Definition obj_eqb (a b : obj) : bool :=
  match a, b with
  | OPoly, OPoly | OStrTmp, OStrTmp | OWords, OWords | OMask, OMask | OPassNorm, OPassNorm | OIdx, OIdx => true
  | OSeed x, OSeed y => x =? y
  | _, _ => false
  end.

(* the object is overwritten in full by a call of the injected memzero *)
Definition wiped (ob : obj) (len : N) (evs : list event) : bool :=
  existsb (fun e => match e with EvWipe o' n => obj_eqb ob o' && (len <=? n) | _ => false end) evs.

(* every free of a block is immediately preceded by a wipe of that whole block *)
Fixpoint frees_wiped (prev : option event) (evs : list event) : bool :=
  match evs with
  | [] => true
  | e :: t =>
    (match e with
     | EvFree _ h => match prev with Some (EvWipe (OSeed h') n) => (h =? h') && (sizeof_data <=? n) | _ => false end
     | _ => true
     end) && frees_wiped (Some e) t
  end.

Lemma frees_wiped_app p a b : frees_wiped p (a ++ b) =
  frees_wiped p a && frees_wiped (match rev a with e :: _ => Some e | [] => p end) b.
Proof.
  revert p. induction a as [|e a IH]; intros p; cbn [app frees_wiped rev]; [reflexivity|].
  rewrite IH, andb_assoc. f_equal. f_equal. destruct (rev a) eqn:E; cbn [app]; reflexivity.
Qed.

Lemma finish_frees cs idx coin ok lang p :
  frees_wiped p (evp (finish_decode cs idx coin ok lang)) = true.
Proof.
  unfold finish_decode, evp, free_events.
  destruct (poly_check _); cbn [negb snd]; [|reflexivity].
  destruct ok; cbn [negb snd]; [|reflexivity].
  destruct (poly_to_data _) as [d|]; cbn [snd]; [|reflexivity].
  destruct (features_supported _ _); cbn [negb snd frees_wiped]; [reflexivity|].
  rewrite N.eqb_refl, N.leb_refl. reflexivity.
Qed.

Theorem step_frees_wiped sgn langs cs o : frees_wiped None (evp (step sgn langs cs o)) = true.
Proof.
  destruct o; unfold evp; cbn [step].
  - reflexivity.
  - destruct (enable_features mask). reflexivity.
  - destruct (features_supported _ _); cbn [negb snd]; [|reflexivity].
    destruct alloc_ok; cbn [negb snd]; [|reflexivity].
    match goal with |- context [poly_of 0 ?d] => destruct (poly_of 0 d) end; reflexivity.
  - destruct alloc_ok; cbn [negb snd]; [|reflexivity].
    destruct (data_load buf) as [|d]; cbn [snd free_events frees_wiped]; [rewrite N.eqb_refl, N.leb_refl; reflexivity|].
    destruct (poly_of _ d) as [poly|]; cbn [snd]; [|reflexivity].
    destruct (poly_check poly); cbn [negb snd].
    + destruct (features_supported _ _); cbn [negb snd app free_events frees_wiped]; [reflexivity|].
      rewrite N.eqb_refl, N.leb_refl. reflexivity.
    + cbn [app free_events frees_wiped]. rewrite N.eqb_refl, N.leb_refl. reflexivity.
  - destruct (nfkd_lazy _ str) as [[norm n] called]. destruct (str_split norm) as [w words].
    destruct (Nat.eqb w 16); cbn [negb snd]; [|destruct called; reflexivity].
    destruct (phrase_decode sgn langs words) as [| | |idx li]; cbn [snd]; try (destruct called; reflexivity).
    pose proof (fun p => finish_frees cs idx coin alloc_ok (Some li) p) as F. unfold evp in F.
    destruct (finish_decode cs idx coin alloc_ok (Some li)) as [[cs' o'] ev]. cbn [snd] in *.
    rewrite frees_wiped_app. replace (frees_wiped None (if called then [EvNfkd str] else [])) with true by (destruct called; reflexivity).
    cbn [andb frees_wiped]. rewrite frees_wiped_app, F. reflexivity.
  - destruct (nth_error langs li) as [L|]; cbn [snd]; [|reflexivity].
    destruct (nfkd_lazy _ str) as [[norm n] called]. destruct (str_split norm) as [w words].
    destruct (Nat.eqb w 16); cbn [negb snd]; [|destruct called; reflexivity].
    destruct (phrase_decode_explicit sgn L words) as [[idx|]|]; cbn [snd]; try (destruct called; reflexivity).
    pose proof (fun p => finish_frees cs idx coin alloc_ok None p) as F. unfold evp in F.
    destruct (finish_decode cs idx coin alloc_ok None) as [[cs' o'] ev]. cbn [snd] in *.
    rewrite frees_wiped_app. replace (frees_wiped None (if called then [EvNfkd str] else [])) with true by (destruct called; reflexivity).
    cbn [andb]. rewrite frees_wiped_app, F. reflexivity.
  - destruct (heap_get _ h) as [d|]; [|reflexivity]. destruct (nth_error langs li) as [L|]; [|reflexivity].
    destruct (poly_of _ d) as [poly|]; [|reflexivity]. destruct (forallb _ _); cbn [negb]; [|reflexivity].
    destruct (write_phrase _ _) as [s|]; [|reflexivity].
    destruct (l_compose L); [destruct (dp_nfc _ s)|]; reflexivity.
  - destruct (heap_get _ h); reflexivity.
  - destruct (heap_get _ h) as [d|]; [|reflexivity]. destruct (nfkd_lazy _ pw) as [[norm n] called].
    match goal with |- context [poly_of 0 ?d] => destruct (poly_of 0 d) end; cbn [snd]; [|reflexivity].
    destruct called; reflexivity.
  - destruct (heap_get _ h); reflexivity.
  - destruct (heap_get _ h); reflexivity.
  - destruct (heap_get _ h); reflexivity.
  - destruct (heap_get _ h); reflexivity.
  - destruct (heap_get _ h); cbn [snd free_events frees_wiped]; [|reflexivity]. rewrite N.eqb_refl, N.leb_refl. reflexivity.
  - reflexivity.
Qed.

(* which automatic objects received secret-derived data before the function returned, read off
   the exit it took (the order of statements in polyseed.c and lang.c):
   create: poly once the seed exists; load: poly once the format checks passed;
   decoders: str_tmp and words always, idx (automatic decoder only) and poly once 16 tokens
   were seen; encode: poly and str_tmp; crypt: the normalised password, the mask, poly *)
Definition st_of (o : out) : option N := match o with OutStatus st _ _ => Some st | _ => None end.
Definition taints (o : op) (res : out) : list (obj * N) :=
  match o, res with
  | _, OutFault => []
  | OpCreate _ _ _ _, OutStatus st (Some _) _ => [(OPoly, sizeof_poly)]
  | OpLoad _ _, OutStatus st _ _ =>
    if (st =? ST_FORMAT) || (st =? ST_MEMORY) then [] else [(OPoly, sizeof_poly)]
  | OpDecode _ _ _, OutStatus st _ _ =>
    if st =? ST_NUM_WORDS then [(OStrTmp, sizeof_str); (OWords, sizeof_phrase)]
    else [(OStrTmp, sizeof_str); (OWords, sizeof_phrase); (OIdx, sizeof_idx); (OPoly, sizeof_poly)]
  | OpDecodeExplicit _ _ _ _, OutStatus st _ _ =>
    if st =? ST_NUM_WORDS then [(OStrTmp, sizeof_str); (OWords, sizeof_phrase)]
    else [(OStrTmp, sizeof_str); (OWords, sizeof_phrase); (OPoly, sizeof_poly)]
  | OpEncode _ _ _, OutStr _ _ => [(OPoly, sizeof_poly); (OStrTmp, sizeof_str)]
  | OpCrypt _ _, OutUnit => [(OPassNorm, sizeof_str); (OMask, 32); (OPoly, sizeof_poly)]
  | _, _ => []
  end.

Definition frame_clean (o : op) (r : state * out * list event) : bool :=
  forallb (fun p => wiped (fst p) (snd p) (evp r)) (taints o (outp r)).

Lemma wiped_app ob n a b : wiped ob n (a ++ b) = wiped ob n a || wiped ob n b.
Proof. unfold wiped. apply existsb_app. Qed.

Lemma finish_status cs idx coin ok lang :
  match outp (finish_decode cs idx coin ok lang) with
  | OutStatus st _ _ => (st =? ST_NUM_WORDS) = false
  | _ => True
  end.
Proof.
  unfold finish_decode, outp.
  destruct (poly_check _); cbn [negb fst snd]; [|reflexivity].
  destruct ok; cbn [negb fst snd]; [|reflexivity].
  destruct (poly_to_data _); cbn [fst snd]; [|exact I].
  destruct (features_supported _ _); reflexivity.
Qed.

Theorem step_frame_clean sgn langs cs o : frame_clean o (step sgn langs cs o) = true.
Proof.
  assert (W1 : wiped OStrTmp sizeof_str cleanup_decode = true) by reflexivity.
  assert (W2 : wiped OWords sizeof_phrase cleanup_decode = true) by reflexivity.
  assert (W3 : wiped OPoly sizeof_poly cleanup_decode = true) by reflexivity.
  assert (W4 : wiped OIdx sizeof_idx [wipe_idx] = true) by reflexivity.
  unfold frame_clean, evp, outp.
  destruct o; cbn [step]; try reflexivity.
  - destruct (enable_features mask). reflexivity.
  - destruct (features_supported _ _); cbn [negb fst snd]; [|reflexivity].
    destruct alloc_ok; cbn [negb fst snd]; [|reflexivity].
    match goal with |- context [poly_of 0 ?d] => destruct (poly_of 0 d) end; reflexivity.
  - destruct alloc_ok; cbn [negb fst snd]; [|reflexivity].
    destruct (data_load buf) as [|d]; cbn [fst snd]; [reflexivity|].
    destruct (poly_of _ d) as [poly|]; cbn [fst snd]; [|reflexivity].
    destruct (poly_check poly); cbn [negb fst snd]; [|reflexivity].
    destruct (features_supported _ _); reflexivity.
  - destruct (nfkd_lazy _ str) as [[norm n] called]. destruct (str_split norm) as [w words].
    destruct (Nat.eqb w 16); cbn [negb fst snd]; [|destruct called; reflexivity].
    destruct (phrase_decode sgn langs words) as [| | |idx li]; cbn [fst snd]; try (destruct called; reflexivity).
    pose proof (finish_status cs idx coin alloc_ok (Some li)) as F. unfold outp in F.
    destruct (finish_decode cs idx coin alloc_ok (Some li)) as [[cs' o'] ev]. cbn [fst snd] in *.
    destruct o'; try reflexivity. cbn [taints]. rewrite F. cbn [forallb fst snd].
    change (wipe_idx :: ev ++ cleanup_decode) with ([wipe_idx] ++ ev ++ cleanup_decode).
    rewrite !wiped_app, W1, W2, W3, W4. rewrite ?orb_true_r. reflexivity.
  - destruct (nth_error langs li) as [L|]; cbn [fst snd]; [|reflexivity].
    destruct (nfkd_lazy _ str) as [[norm n] called]. destruct (str_split norm) as [w words].
    destruct (Nat.eqb w 16); cbn [negb fst snd]; [|destruct called; reflexivity].
    destruct (phrase_decode_explicit sgn L words) as [[idx|]|]; cbn [fst snd]; try (destruct called; reflexivity).
    pose proof (finish_status cs idx coin alloc_ok None) as F. unfold outp in F.
    destruct (finish_decode cs idx coin alloc_ok None) as [[cs' o'] ev]. cbn [fst snd] in *.
    destruct o'; try reflexivity. cbn [taints]. rewrite F. cbn [forallb fst snd].
    rewrite !wiped_app, W1, W2, W3. rewrite ?orb_true_r. reflexivity.
  - destruct (heap_get _ h) as [d|]; [|reflexivity]. destruct (nth_error langs li) as [L|]; [|reflexivity].
    destruct (poly_of _ d) as [poly|]; [|reflexivity]. destruct (forallb (fun c => c <? LANG_SIZE) _); cbn [negb]; [|reflexivity].
    destruct (write_phrase _ _) as [s|]; [|reflexivity].
    destruct (l_compose L); [destruct (dp_nfc _ s)|]; reflexivity.
  - destruct (heap_get _ h); reflexivity.
  - destruct (heap_get _ h) as [d|]; [|reflexivity]. destruct (nfkd_lazy _ pw) as [[norm n] called].
    match goal with |- context [poly_of 0 ?d] => destruct (poly_of 0 d) end; cbn [fst snd]; [|reflexivity].
    destruct called; reflexivity.
  - destruct (heap_get _ h); reflexivity.
  - destruct (heap_get _ h); reflexivity.
  - destruct (heap_get _ h); reflexivity.
  - destruct (heap_get _ h); reflexivity.
  - destruct (heap_get _ h); reflexivity.
Qed.

(* ---------------------------------------------------- C18: everything through the table *)
Definition ev_uses (dp : deps) (e : event) : bool :=
  match e with
  | EvAlloc lb _ _ => Bool.eqb lb (dp_alloc_libc dp)
  | EvFree lb _ => Bool.eqb lb (dp_free_libc dp)
  | EvTime lb => Bool.eqb lb (dp_time_libc dp)
  | _ => true
  end.

Lemma finish_uses cs idx coin ok lang :
  forallb (ev_uses (st_deps cs)) (evp (finish_decode cs idx coin ok lang)) = true.
Proof.
  unfold finish_decode, evp, free_events.
  destruct (poly_check _); cbn [negb snd]; [|reflexivity].
  destruct ok; cbn [negb snd forallb ev_uses]; [|rewrite eqb_reflx; reflexivity].
  destruct (poly_to_data _) as [d|]; cbn [snd]; [|reflexivity].
  destruct (features_supported _ _); cbn [negb snd forallb ev_uses]; rewrite ?eqb_reflx; reflexivity.
Qed.

Theorem step_uses_table sgn langs cs o :
  forallb (ev_uses (st_deps cs)) (evp (step sgn langs cs o)) = true.
Proof.
  destruct o; unfold evp; cbn [step]; try reflexivity.
  - destruct (enable_features mask). reflexivity.
  - destruct (features_supported _ _); cbn [negb snd]; [|reflexivity].
    destruct alloc_ok; cbn [negb snd forallb ev_uses]; [|rewrite eqb_reflx; reflexivity].
    match goal with |- context [poly_of 0 ?d] => destruct (poly_of 0 d) end; cbn [snd forallb ev_uses]; rewrite ?eqb_reflx; reflexivity.
  - destruct alloc_ok; cbn [negb snd forallb ev_uses]; [|rewrite eqb_reflx; reflexivity].
    destruct (data_load buf) as [|d]; cbn [snd free_events forallb ev_uses]; [rewrite !eqb_reflx; reflexivity|].
    destruct (poly_of _ d) as [poly|]; cbn [snd]; [|reflexivity].
    destruct (poly_check poly); cbn [negb snd].
    + destruct (features_supported _ _); cbn [negb snd app free_events forallb ev_uses]; rewrite ?eqb_reflx; reflexivity.
    + cbn [app free_events forallb ev_uses]. rewrite !eqb_reflx. reflexivity.
  - destruct (nfkd_lazy _ str) as [[norm n] called]. destruct (str_split norm) as [w words].
    destruct (Nat.eqb w 16); cbn [negb snd]; [|destruct called; reflexivity].
    destruct (phrase_decode sgn langs words) as [| | |idx li]; cbn [snd]; try (destruct called; reflexivity).
    pose proof (finish_uses cs idx coin alloc_ok (Some li)) as F. unfold evp in F.
    destruct (finish_decode cs idx coin alloc_ok (Some li)) as [[cs' o'] ev]. cbn [snd] in *.
    rewrite forallb_app. cbn [forallb ev_uses]. rewrite forallb_app, F. destruct called; reflexivity.
  - destruct (nth_error langs li) as [L|]; cbn [snd]; [|reflexivity].
    destruct (nfkd_lazy _ str) as [[norm n] called]. destruct (str_split norm) as [w words].
    destruct (Nat.eqb w 16); cbn [negb snd]; [|destruct called; reflexivity].
    destruct (phrase_decode_explicit sgn L words) as [[idx|]|]; cbn [snd]; try (destruct called; reflexivity).
    pose proof (finish_uses cs idx coin alloc_ok None) as F. unfold evp in F.
    destruct (finish_decode cs idx coin alloc_ok None) as [[cs' o'] ev]. cbn [snd] in *.
    rewrite forallb_app, forallb_app, F. destruct called; reflexivity.
  - destruct (heap_get _ h) as [d|]; [|reflexivity]. destruct (nth_error langs li) as [L|]; [|reflexivity].
    destruct (poly_of _ d) as [poly|]; [|reflexivity]. destruct (forallb (fun c => c <? LANG_SIZE) _); cbn [negb]; [|reflexivity].
    destruct (write_phrase _ _) as [s|]; [|reflexivity].
    destruct (l_compose L); [destruct (dp_nfc _ s)|]; reflexivity.
  - destruct (heap_get _ h); reflexivity.
  - destruct (heap_get _ h) as [d|]; [|reflexivity]. destruct (nfkd_lazy _ pw) as [[norm n] called].
    match goal with |- context [poly_of 0 ?d] => destruct (poly_of 0 d) end; cbn [snd]; [|reflexivity].
    destruct called; reflexivity.
  - destruct (heap_get _ h); reflexivity.
  - destruct (heap_get _ h); reflexivity.
  - destruct (heap_get _ h); reflexivity.
  - destruct (heap_get _ h); reflexivity.
  - destruct (heap_get _ h); cbn [snd free_events forallb ev_uses]; rewrite ?eqb_reflx; reflexivity.
Qed.

(* injecting replaces the whole table and nothing else; enabling features replaces the mask *)
Theorem inject_replaces sgn langs cs d :
  stp (step sgn langs cs (OpInject d)) = mkstate d (st_reserved cs) (st_heap cs) (st_next cs).
Proof. reflexivity. Qed.

(* the trace of a successful create: one allocation of a seed block, one clock reading, one request
   for exactly SECRET_SIZE random bytes, the wipe of the polynomial - and nothing else *)
Theorem create_trace sgn langs cs features rand clock :
  let r := step sgn langs cs (OpCreate features rand clock true) in
  match outp r with
  | OutStatus st (Some h) _ =>
    evp r = [EvAlloc (dp_alloc_libc (st_deps cs)) sizeof_data (Some h); EvTime (dp_time_libc (st_deps cs));
             EvRand SECRET_SIZE; EvWipe OPoly sizeof_poly]
  | OutStatus _ None _ => evp r = []
  | _ => True
  end.
Proof.
  cbv zeta. unfold outp, evp. cbn [step].
  destruct (features_supported _ _); cbn [negb fst snd]; [|reflexivity].
  match goal with |- context [poly_of 0 ?d] => destruct (poly_of 0 d) end; cbn [fst snd]; [reflexivity|exact I].
Qed.
