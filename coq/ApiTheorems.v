(* Consequences of the refinement and of the leaf lemmas, stated at the public API
   (ApiDefs.step) for every reachable state; the property files quote these. *)
From PS Require Import Base GFDefs PackDefs StoreDefs MiscDefs StrDefs LangDefs ApiDefs SpecDefs SpecApi.
From PS Require Import GFProofs PackProofs PackTheorems StoreProofs StrProofs SeedProofs MiscProofs
  LangProofs LangData CoinProofs ApiLemmas RefineProofs PackRound.
From PS.Gen Require Import Consts PrivConsts Langs.
Local Open Scope N_scope.

Definition outp (r : state * out * list event) : out := snd (fst r).
Definition stp (r : state * out * list event) : state := fst (fst r).
Definition evp (r : state * out * list event) : list event := snd r.

(* a state reached by some sequence of well-formed calls *)
Definition Reachable (sgn : bool) (cs : state) : Prop :=
  exists ops, Forall op_ok ops /\ cs = fst (run sgn langs init_state ops).

Lemma reachable_R sgn cs : Reachable sgn cs -> exists a, R cs a.
Proof. intros (ops&Hok&->). eexists. apply (refinement sgn ops Hok). Qed.

Lemma run_snoc sgn ops o : forall s0,
  fst (run sgn langs s0 (ops ++ [o])) = stp (step sgn langs (fst (run sgn langs s0 ops)) o).
Proof.
  induction ops as [|o1 ops IH]; intros s0; cbn [app run].
  - unfold stp. cbn [fst]. destruct (step sgn langs s0 o) as [[s1 o1] e1]. reflexivity.
  - destruct (step sgn langs s0 o1) as [[s1 oo] e1]. specialize (IH s1).
    destruct (run sgn langs s1 ops) as [sf outs]. destruct (run sgn langs s1 (ops ++ [o])) as [sg outs'].
    cbn [fst] in *. exact IH.
Qed.

Lemma reachable_step sgn cs o : Reachable sgn cs -> op_ok o -> Reachable sgn (stp (step sgn langs cs o)).
Proof.
  intros (ops&Hok&->) Ho. exists (ops ++ [o]).
  split; [apply Forall_app; split; [exact Hok | constructor; [exact Ho|constructor]]|].
  symmetry. apply run_snoc.
Qed.

(* two valid structs with the same abstract seed are the same struct, byte for byte *)
Lemma valid_abs_inj d1 d2 : Valid d1 -> Valid d2 -> abs_data d1 = abs_data d2 -> d1 = d2.
Proof.
  intros [C1 K1] [C2 K2] E. apply data_eq.
  - apply (f_equal a_birthday) in E. exact E.
  - apply (f_equal a_features) in E. exact E.
  - rewrite (canon_secret d1 C1), (canon_secret d2 C2). apply (f_equal a_secret) in E.
    change (firstn 19 (d_secret d1) = firstn 19 (d_secret d2)) in E. rewrite E. reflexivity.
  - rewrite K1, K2, E. reflexivity.
Qed.

(* ------------------------------------------------------------------ C06 at the API *)
Theorem load_precedence sgn cs a buf : R cs a -> length buf = 32%nat -> bytes_ok buf ->
  outp (step sgn langs cs (OpLoad buf true)) =
    match spec_parse buf with
    | None => OutStatus ST_FORMAT None None
    | Some (s, ck) =>
      if negb (ck =? spec_checksum s) then OutStatus ST_CHECKSUM None None
      else if negb (spec_supported (as_mask a) (a_features s)) then OutStatus ST_UNSUPPORTED None None
      else OutStatus ST_OK (Some (st_next cs)) None
    end /\
  outp (step sgn langs cs (OpLoad buf false)) = OutStatus ST_MEMORY None None.
Proof.
  intros HR Hl Hb. split.
  - destruct (sim_load sgn cs a buf true HR Hl Hb) as [S _]. unfold outp. rewrite S. cbn [astep negb].
    destruct (spec_parse buf) as [[s ck]|]; [|reflexivity].
    destruct (ck =? spec_checksum s); cbn [negb snd]; [|reflexivity].
    destruct (spec_supported (as_mask a) (a_features s)); cbn [negb snd]; [|reflexivity].
    rewrite (R_next _ _ HR). reflexivity.
  - reflexivity.
Qed.

(* a buffer is accepted exactly when it is the image of a valid seed whose features are enabled;
   the seed created is that seed *)
Theorem load_accept_iff sgn cs a buf h : R cs a -> length buf = 32%nat -> bytes_ok buf ->
  (outp (step sgn langs cs (OpLoad buf true)) = OutStatus ST_OK (Some h) None <->
   h = st_next cs /\ exists d, Valid d /\ buf = data_store d /\ spec_supported (as_mask a) (d_features d) = true).
Proof.
  intros HR Hl Hb. destruct (load_precedence sgn cs a buf HR Hl Hb) as [P _]. rewrite P.
  pose proof (load_parse buf Hl Hb) as LP. split.
  - destruct (data_load buf) as [|d] eqn:EL; rewrite LP; [discriminate|].
    destruct (N.eqb_spec (d_checksum d) (spec_checksum (abs_data d))) as [Ek|Ek]; cbn [negb]; [|discriminate].
    destruct (spec_supported (as_mask a) (a_features (abs_data d))) eqn:Es; cbn [negb]; [|discriminate].
    intros E. injection E as <-. split; [reflexivity|]. exists d.
    apply (load_ok_iff buf d Hl Hb) in EL. destruct EL as (HC&_&Eb).
    split; [split; assumption|]. split; [exact Eb | exact Es].
  - intros (->&d&[HC Ek]&->&Es).
    assert (K : d_checksum d < 2048) by (rewrite Ek; apply spec_checksum_lt).
    rewrite (load_store d HC K) in LP. rewrite LP. rewrite Ek, N.eqb_refl. cbn [negb].
    change (a_features (abs_data d)) with (d_features d). rewrite Es. reflexivity.
Qed.

(* load after store gives back the same struct in a fresh block *)
Theorem load_store_api sgn cs a h d : R cs a -> heap_get (st_heap cs) h = Some d ->
  spec_supported (as_mask a) (d_features d) = true ->
  outp (step sgn langs cs (OpStore h)) = OutBytes (data_store d) /\
  let r := step sgn langs cs (OpLoad (data_store d) true) in
  outp r = OutStatus ST_OK (Some (st_next cs)) None /\
  heap_get (st_heap (stp r)) (st_next cs) = Some d.
Proof.
  intros HR Hg Hs. split; [unfold outp; cbn [step]; rewrite Hg; reflexivity|].
  pose proof (heap_get_valid _ _ _ (R_valid _ _ HR) Hg) as V. destruct V as [HC Ek].
  assert (K : d_checksum d < 2048) by (rewrite Ek; apply spec_checksum_lt).
  cbv zeta. unfold outp, stp. cbn [step negb]. rewrite (load_store d HC K).
  rewrite (canon_poly_of d _ HC), (check_iff_spec _ _ K), Ek, N.eqb_refl. cbn [negb].
  rewrite (supported_R cs a _ HR), Hs. cbn [negb fst snd st_heap heap_get]. rewrite N.eqb_refl. split; reflexivity.
Qed.

(* ------------------------------------------------------------------ C17: phrases fit *)
Definition maxlen (ws : list bytes) : nat := fold_right (fun w m => Nat.max (length w) m) 0%nat ws.
Definition phrase_bound (L : lang) : nat := (16 * maxlen (l_words L) + 15 * length (l_separator L))%nat.

Lemma maxlen_nth ws j : (length (nth j ws []) <= maxlen ws)%nat.
Proof.
  revert j. induction ws as [|w ws IH]; intros [|j]; cbn [nth maxlen fold_right length]; try lia.
  specialize (IH j). unfold maxlen in IH. lia.
Qed.

Lemma sjoin_length sep ws m : Forall (fun w => (length w <= m)%nat) ws ->
  (length (sjoin sep ws) + length sep <= length ws * (m + length sep))%nat \/ ws = [].
Proof.
  induction 1 as [|w ws Hw Hws IH]; [right; reflexivity|left].
  destruct ws as [|w' ws]; [cbn; lia|].
  change (sjoin sep (w :: w' :: ws)) with (w ++ sep ++ sjoin sep (w' :: ws)).
  rewrite !app_length. destruct IH as [IH|IH]; [|discriminate]. cbn [length] in *. lia.
Qed.

Lemma bounds_ok : forallb (fun L => N.of_nat (phrase_bound L) <? STR_SIZE) langs = true.
Proof. vm_compute. reflexivity. Qed.

(* every phrase of 16 words of a registered language, joined by its separator, is strictly
   shorter than POLYSEED_STR_SIZE (the generated constant) - so is room for the terminator *)
Theorem phrase_fits L idx : In L langs -> length idx = 16%nat ->
  N.of_nat (length (sjoin (l_separator L) (map (spec_word L) idx))) < STR_SIZE.
Proof.
  intros HL Hl. pose proof bounds_ok as B. rewrite forallb_forall in B. specialize (B L HL). apply N.ltb_lt in B.
  assert (F : Forall (fun w => (length w <= maxlen (l_words L))%nat) (map (spec_word L) idx)).
  { apply Forall_forall. intros w Hw. apply in_map_iff in Hw. destruct Hw as (i&<-&_). apply maxlen_nth. }
  destruct (sjoin_length (l_separator L) _ _ F) as [H|H].
  - rewrite map_length, Hl in H. unfold phrase_bound in B. lia.
  - destruct idx; discriminate.
Qed.

Lemma spec_indices_length s coin : length (spec_indices s coin) = 16%nat.
Proof.
  unfold spec_indices. destruct (spec_data_words_wf s) as [_ L].
  destruct (spec_data_words s) as [|w ws]; [discriminate|]. cbn [length] in *. lia.
Qed.

Theorem seed_phrase_fits L s coin : In L langs -> N.of_nat (length (spec_phrase_nfkd L s coin)) < STR_SIZE.
Proof. intros HL. apply phrase_fits; [exact HL | apply spec_indices_length]. Qed.

(* ------------------------------------------------------------------ C03: encoding *)
Theorem encode_is_layout sgn cs a h d li L coin : R cs a -> heap_get (st_heap cs) h = Some d ->
  nth_error langs li = Some L -> coin < 2048 ->
  let p := spec_phrase_nfkd L (abs_data d) coin in
  outp (step sgn langs cs (OpEncode h li coin)) =
    (if l_compose L then OutStr (fst (dp_nfc (st_deps cs) p)) (snd (dp_nfc (st_deps cs) p))
     else OutStr p (N.of_nat (length p))) /\
  stp (step sgn langs cs (OpEncode h li coin)) = cs.
Proof.
  intros HR Hg HL Hc p.
  destruct (sim_encode sgn cs a h li coin HR Hc) as [S _]. unfold outp. rewrite S. cbn [astep].
  rewrite <- (R_heap _ _ HR), aget_abs, Hg, HL. cbn [option_map].
  pose proof (seed_phrase_fits L (abs_data d) coin (nth_error_In _ _ HL)) as F. apply N.ltb_lt in F.
  fold p. fold p in F. rewrite F. cbn [negb]. rewrite <- (R_deps _ _ HR).
  split; [destruct (l_compose L); reflexivity|].
  unfold stp. cbn [step]. rewrite Hg, HL.
  destruct (heap_get_valid _ _ _ (R_valid _ _ HR) Hg) as [HC _]. rewrite (canon_poly_of d _ HC).
  repeat match goal with |- context [if ?b then _ else _] => destruct b end;
  repeat match goal with |- context [match ?b with Some _ => _ | None => _ end] => destruct b end;
  try reflexivity; match goal with |- context [let '(_, _) := ?x in _] => destruct x end; reflexivity.
Qed.

(* the indices used: check word first, the coin XORed into the second word only *)
Theorem indices_layout s coin :
  spec_indices s coin = spec_checksum s :: N.lxor (nth 0 (spec_data_words s) 0) coin :: tl (spec_data_words s).
Proof.
  unfold spec_indices. destruct (spec_data_words_wf s) as [_ L].
  destruct (spec_data_words s) as [|w ws]; [discriminate|]. reflexivity.
Qed.

(* ------------------------------------------------------------------ C04: key derivation *)
Theorem keygen_trace sgn cs a h d coin size : R cs a -> heap_get (st_heap cs) h = Some d -> coin < 2048 ->
  let r := step sgn langs cs (OpKeygen h coin size) in
  let pw := spec_kdf_password (abs_data d) in
  let salt := spec_kdf_salt (abs_data d) coin in
  evp r = [EvKdf pw 32 salt 32 10000 size] /\
  outp r = OutBytes (dp_kdf (st_deps cs) pw 32 salt 32 10000 size) /\ stp r = cs.
Proof.
  intros HR Hg Hc. cbv zeta. unfold evp, outp, stp. cbn [step]. rewrite Hg. cbn [fst snd].
  destruct (heap_get_valid _ _ _ (R_valid _ _ HR) Hg) as [HC _].
  assert (Es : d_secret d = spec_kdf_password (abs_data d)) by (apply canon_secret, HC).
  assert (Et : keygen_salt coin d = spec_kdf_salt (abs_data d) coin).
  { destruct HC as (_&_&_&_&Hb&Hf). unfold keygen_salt, spec_kdf_salt, abs_data. cbn [a_birthday a_features].
    rewrite !store32_le32 by (unfold U32; lia). reflexivity. }
  rewrite Es, Et. repeat split; reflexivity.
Qed.

Lemma app_inj_pivot_len {A} (a b x y : list A) : length a = length b -> a ++ x = b ++ y -> a = b /\ x = y.
Proof.
  revert b. induction a as [|u a IH]; intros [|v b] Hl E; try discriminate; [split; [reflexivity|exact E]|].
  cbn in E. injection E as -> E. destruct (IH b ltac:(cbn in Hl; lia) E) as [-> ->]. split; reflexivity.
Qed.

Lemma le32_inj x y : x < 2 ^ 32 -> y < 2 ^ 32 -> le32 x = le32 y -> x = y.
Proof.
  intros Hx Hy E. unfold le32 in E. injection E as E0 E1 E2 E3.
  change (2 ^ 32) with 4294967296 in *. lia.
Qed.

Theorem kdf_inputs_injective s1 s2 c1 c2 : aseed_ok s1 -> aseed_ok s2 -> c1 < 2 ^ 32 -> c2 < 2 ^ 32 ->
  spec_kdf_password s1 = spec_kdf_password s2 -> spec_kdf_salt s1 c1 = spec_kdf_salt s2 c2 ->
  s1 = s2 /\ c1 = c2.
Proof.
  intros (L1&_&_&B1&F1) (L2&_&_&B2&F2) C1 C2 Ep Es.
  unfold spec_kdf_password in Ep. apply app_inv_tail in Ep.
  unfold spec_kdf_salt in Es. apply app_inv_head in Es.
  assert (A : forall x, length (le32 x) = 4%nat) by reflexivity.
  assert (E1 : le32 c1 = le32 c2 /\ le32 (a_birthday s1) ++ le32 (a_features s1) ++ [0; 0; 0; 0] =
                                     le32 (a_birthday s2) ++ le32 (a_features s2) ++ [0; 0; 0; 0])
    by (apply app_inj_pivot_len; [reflexivity | exact Es]).
  destruct E1 as [Ec E1].
  assert (E2 : le32 (a_birthday s1) = le32 (a_birthday s2) /\ le32 (a_features s1) ++ [0; 0; 0; 0] =
                                     le32 (a_features s2) ++ [0; 0; 0; 0])
    by (apply app_inj_pivot_len; [reflexivity | exact E1]).
  destruct E2 as [Eb E2]. apply app_inv_tail in E2.
  change (2 ^ 32) with 4294967296 in *.
  apply le32_inj in Ec; [|change (2 ^ 32) with 4294967296; lia ..].
  apply le32_inj in Eb; [|change (2 ^ 32) with 4294967296; lia ..].
  apply le32_inj in E2; [|change (2 ^ 32) with 4294967296; lia ..].
  split; [|exact Ec]. destruct s1, s2. cbn in *. subst. reflexivity.
Qed.

(* ------------------------------------------------------------------ C12: the password operation *)
Lemma nth_sxor a m i : (i < length a)%nat ->
  nth i (sxor a m) 0 = if (i <? length m)%nat then N.lxor (nth i a 0) (nth i m 0) else nth i a 0.
Proof.
  revert m i. induction a as [|x a IH]; intros [|y m] [|i] H; cbn [length] in H; try lia; try reflexivity.
  cbn [sxor nth length]. rewrite IH by lia. reflexivity.
Qed.

Lemma nth_firstn_lt {A} (l : list A) n i d : (i < n)%nat -> nth i (firstn n l) d = nth i l d.
Proof.
  revert n i. induction l as [|x l IH]; intros [|n] [|i] H; cbn; try lia; try reflexivity. apply IH. lia.
Qed.

Definition clear18 (l : list N) : list N := firstn 18 l ++ [nth 18 l 0 mod 64].

Lemma clear18_length l : length l = 19%nat -> length (clear18 l) = 19%nat.
Proof. intros H. unfold clear18. rewrite app_length, firstn_length, H. reflexivity. Qed.

Lemma nth_clear18 l i : length l = 19%nat -> (i < 19)%nat ->
  nth i (clear18 l) 0 = if (i <? 18)%nat then nth i l 0 else nth 18 l 0 mod 64.
Proof.
  intros Hl Hi. unfold clear18. destruct (Nat.ltb_spec i 18).
  - rewrite app_nth1 by (rewrite firstn_length, Hl; lia). apply nth_firstn_lt. lia.
  - rewrite app_nth2 by (rewrite firstn_length, Hl; lia). rewrite firstn_length, Hl.
    replace (i - Nat.min 18 19)%nat with 0%nat by lia. reflexivity.
Qed.

Lemma mod64_lxor a b : (N.lxor a b) mod 64 = N.lxor (a mod 64) (b mod 64).
Proof.
  change 64 with (2 ^ 6). rewrite <- !N.land_ones. apply N.bits_inj. intro n.
  rewrite !N.land_spec, !N.lxor_spec, !N.land_spec. destruct (N.testbit (N.ones 6) n); rewrite ?andb_true_r, ?andb_false_r; reflexivity.
Qed.

Lemma nth_ext19 (a b : list N) : length a = 19%nat -> length b = 19%nat ->
  (forall i, (i < 19)%nat -> nth i a 0 = nth i b 0) -> a = b.
Proof. intros La Lb H. apply (nth_ext a b 0 0); [congruence|]. intros i Hi. apply H. lia. Qed.

Lemma spec_crypt_secret s m : a_secret (spec_crypt s m) = clear18 (sxor (a_secret s) m).
Proof. reflexivity. Qed.

(* applying the same mask twice restores the seed: secret, birthday and all five feature bits *)
Theorem spec_crypt_involution s m : aseed_ok s -> spec_crypt (spec_crypt s m) m = s.
Proof.
  intros (Hl&Hf&H18&Hb&Hft).
  assert (L1 : length (sxor (a_secret s) m) = 19%nat) by (rewrite sxor_length; exact Hl).
  assert (L2 : length (clear18 (sxor (a_secret s) m)) = 19%nat) by (apply clear18_length, L1).
  assert (L3 : length (sxor (clear18 (sxor (a_secret s) m)) m) = 19%nat) by (rewrite sxor_length; exact L2).
  destruct s as [sec bd ft]. unfold spec_crypt at 1. cbn [a_secret a_birthday a_features] in *.
  rewrite spec_crypt_secret. cbn [a_secret a_birthday a_features spec_crypt].
  f_equal.
  - change (firstn 18 ?x ++ [nth 18 ?x 0 mod 64]) with (clear18 x).
    apply nth_ext19; [apply clear18_length, L3 | exact Hl |]. intros i Hi.
    rewrite nth_clear18 by assumption. rewrite !nth_sxor by lia. rewrite !nth_clear18 by (assumption || lia).
    rewrite !nth_sxor by lia.
    destruct (Nat.ltb_spec i 18) as [Hi18|Hi18].
    + destruct (i <? length m)%nat; [|reflexivity]. rewrite N.lxor_assoc, N.lxor_nilpotent, N.lxor_0_r. reflexivity.
    + assert (i = 18%nat) by lia. subst i. change (18 <? 18)%nat with false. cbv iota.
      destruct (18 <? length m)%nat.
      * rewrite !mod64_lxor. rewrite !N.mod_mod by discriminate.
        rewrite N.lxor_assoc, N.lxor_nilpotent, N.lxor_0_r. apply N.mod_small, H18.
      * rewrite N.mod_mod by discriminate. apply N.mod_small, H18.
  - rewrite N.lxor_assoc. change (N.lxor 16 16) with 0. apply N.lxor_0_r.
Qed.

Lemma spec_crypt_ok s m : aseed_ok s -> bytes_ok m -> aseed_ok (spec_crypt s m).
Proof.
  intros (Hl&Hf&H18&Hb&Hft) Hm.
  assert (L1 : length (sxor (a_secret s) m) = 19%nat) by (rewrite sxor_length; exact Hl).
  assert (B1 : bytes_ok (sxor (a_secret s) m)) by (apply sxor_bytes; assumption).
  unfold aseed_ok. rewrite spec_crypt_secret. cbn [a_birthday a_features spec_crypt].
  split; [apply clear18_length, L1|]. split; [|split; [|split]].
  - unfold clear18. apply Forall_app. split.
    + rewrite <- (firstn_skipn 18 (sxor (a_secret s) m)) in B1. apply Forall_app in B1. apply B1.
    + constructor; [|constructor]. pose proof (N.mod_lt (nth 18 (sxor (a_secret s) m) 0) 64). lia.
  - rewrite nth_clear18 by (assumption || lia). cbn. apply N.mod_lt. discriminate.
  - exact Hb.
  - apply lxor_lt_32; [exact Hft | reflexivity].
Qed.

Lemma heap_get_set_other hp h h' d : h' <> h -> heap_get (heap_set hp h d) h' = heap_get hp h'.
Proof.
  intros Hne. induction hp as [|[k d0] hp IH]; [reflexivity|].
  cbn [heap_set heap_get]. destruct (k =? h) eqn:Ek; cbn [heap_get].
  - apply N.eqb_eq in Ek. subst k. replace (h =? h') with false by (symmetry; apply N.eqb_neq; congruence). reflexivity.
  - destruct (k =? h'); [reflexivity|exact IH].
Qed.

(* what one call does: the abstract seed becomes spec_crypt of the old one under the mask the
   KDF returned for (NFKD-lazy password, "POLYSEED mask" 00 FF FF, 10000 iterations, 32 bytes);
   exactly one KDF call; every other seed untouched *)
Theorem crypt_effect sgn cs a h d pw : R cs a -> heap_get (st_heap cs) h = Some d ->
  let r := step sgn langs cs (OpCrypt h pw) in
  let p := spec_norm (dp_nfkd (st_deps cs)) pw in
  let mask := dp_kdf (st_deps cs) (map bval (fst p)) (snd p) SPEC_MASK_SALT 16 10000 32 in
  outp r = OutUnit /\
  (exists d', heap_get (st_heap (stp r)) h = Some d' /\ Valid d' /\ abs_data d' = spec_crypt (abs_data d) mask) /\
  (forall h', h' <> h -> heap_get (st_heap (stp r)) h' = heap_get (st_heap cs) h') /\
  filter (fun e => match e with EvKdf _ _ _ _ _ _ => true | _ => false end) (evp r) =
    [EvKdf (map bval (fst p)) (snd p) SPEC_MASK_SALT 16 10000 32].
Proof.
  intros HR Hg. cbv zeta.
  destruct (sim_crypt sgn cs a h pw HR) as [S1 S2]. unfold outp, stp, evp in *.
  assert (Ea : aget (as_seeds a) h = Some (abs_data d)) by (rewrite <- (R_heap _ _ HR), aget_abs, Hg; reflexivity).
  cbn [astep] in S1, S2. rewrite Ea in S1, S2. rewrite <- (R_deps _ _ HR) in S1, S2.
  destruct (spec_norm (dp_nfkd (st_deps cs)) pw) as [p n] eqn:Ep. cbn [fst snd] in *.
  pose proof (lazy_norm (dp_nfkd (st_deps cs)) pw) as LN. rewrite Ep in LN.
  cbn [step] in *. rewrite Hg in *.
  destruct (nfkd_lazy (dp_nfkd (st_deps cs)) pw) as [[norm n'] called]. cbn [fst] in LN. injection LN as -> ->.
  destruct (heap_get_valid _ _ _ (R_valid _ _ HR) Hg) as [HC _].
  match type of S1 with context [poly_of 0 ?d1] => set (D1 := d1) in * end.
  destruct (poly_of 0 D1) as [poly|] eqn:Epo; cbn [fst snd] in *; [|discriminate].
  split; [reflexivity|]. split; [|split].
  - pose proof (R_heap _ _ S2) as RH. pose proof (R_valid _ _ S2) as RV. cbn [st_heap as_seeds] in RH, RV.
    pose proof (f_equal (fun m => aget m h) RH) as G. cbv beta in G. rewrite aget_abs in G.
    assert (G2 : forall m k s0, aget m k <> None -> aget (aset m k s0) k = Some s0).
    { intros m k s0. induction m as [|[k0 s1] m IH]; cbn; [congruence|].
      destruct (k0 =? k) eqn:Ek; cbn; rewrite Ek; [reflexivity|exact IH]. }
    rewrite G2 in G by (rewrite Ea; discriminate).
    destruct (heap_get _ h) as [d'|] eqn:Eg' in G; [|discriminate]. cbn [option_map] in G.
    exists d'. split; [exact Eg'|]. split; [apply (heap_get_valid _ _ _ RV Eg') | congruence].
  - intros h' Hne. cbn [st_heap]. apply heap_get_set_other, Hne.
  - destruct called; reflexivity.
Qed.

(* the same password twice gives back the same struct, byte for byte (stored check value included) *)
Theorem crypt_twice sgn cs a h d pw : R cs a -> heap_get (st_heap cs) h = Some d ->
  let cs1 := stp (step sgn langs cs (OpCrypt h pw)) in
  heap_get (st_heap (stp (step sgn langs cs1 (OpCrypt h pw)))) h = Some d.
Proof.
  intros HR Hg. cbv zeta.
  destruct (sim_crypt sgn cs a h pw HR) as [_ R1].
  pose proof (crypt_effect sgn cs a h d pw HR Hg) as (_&(d1&G1&V1&A1)&_&_).
  set (cs1 := stp (step sgn langs cs (OpCrypt h pw))) in *.
  assert (Ed : st_deps cs1 = st_deps cs).
  { unfold cs1, stp. cbn [step]. rewrite Hg. destruct (nfkd_lazy _ pw) as [[? ?] ?].
    match goal with |- context [poly_of 0 ?x] => destruct (poly_of 0 x) end; reflexivity. }
  pose proof (crypt_effect sgn cs1 _ h d1 pw R1 G1) as (_&(d2&G2&V2&A2)&_&_).
  rewrite G2. f_equal. apply valid_abs_inj; [exact V2 | apply (heap_get_valid _ _ _ (R_valid _ _ HR) Hg)|].
  rewrite A2, A1, Ed. apply spec_crypt_involution, canon_abs_ok.
  apply (heap_get_valid _ _ _ (R_valid _ _ HR) Hg).
Qed.

(* ------------------------------------------------------------------ C09: the decoders *)
(* status numbers as the public header defines them (generated constants) *)
Definition finish_out (a : astate) (next : N) (idx : list N) (coin : N) (ok : bool) (lang : option nat) : out :=
  let c := axor_coin idx coin in
  if negb (spec_eval c =? 0) then OutStatus ST_CHECKSUM None None
  else if negb ok then OutStatus ST_MEMORY None None
  else if negb (spec_supported (as_mask a) (a_features (spec_seed_of_indices c))) then OutStatus ST_UNSUPPORTED None None
  else OutStatus ST_OK (Some next) lang.

Lemma afinish_out a idx coin ok lang : snd (afinish a idx coin ok lang) = finish_out a (as_next a) idx coin ok lang.
Proof.
  unfold afinish, finish_out. cbv zeta.
  destruct (spec_eval (axor_coin idx coin) =? 0); cbn [negb snd]; [|reflexivity].
  destruct ok; cbn [negb snd]; [|reflexivity].
  destruct (spec_supported _ _); reflexivity.
Qed.

(* automatic detection: the tokens are the fields of the (lazily) normalised input; the languages
   considered are exactly those that recognise all 16 tokens; none -> LANG, one -> that language's
   result, two or more -> MULT_LANG whatever the check values *)
Theorem decode_auto_spec sgn cs a str coin ok : R cs a -> no_nul str -> coin < 2048 ->
  let toks := spec_tokens (fst (spec_norm (dp_nfkd (st_deps cs)) str)) in
  outp (step sgn langs cs (OpDecode str coin ok)) =
    if negb (Nat.eqb (length toks) 16) then OutStatus ST_NUM_WORDS None None
    else match matching langs 0 toks with
         | [] => OutStatus ST_LANG None None
         | [(li, idx)] => finish_out a (st_next cs) idx coin ok (Some li)
         | _ => OutStatus ST_MULT_LANG None None
         end.
Proof.
  intros HR Hs Hc toks. destruct (sim_decode sgn cs a str coin ok HR Hs Hc) as [S _].
  unfold outp. rewrite S. cbn [astep]. rewrite <- (R_deps _ _ HR). fold toks.
  destruct (Nat.eqb (length toks) 16); cbn [negb snd]; [|reflexivity].
  destruct (matching langs 0 toks) as [|[li idx] [|? ?]]; cbn [snd]; try reflexivity.
  rewrite afinish_out, (R_next _ _ HR). reflexivity.
Qed.

Theorem decode_explicit_spec sgn cs a str coin li L ok : R cs a -> no_nul str -> coin < 2048 ->
  nth_error langs li = Some L ->
  let toks := spec_tokens (fst (spec_norm (dp_nfkd (st_deps cs)) str)) in
  outp (step sgn langs cs (OpDecodeExplicit str coin li ok)) =
    if negb (Nat.eqb (length toks) 16) then OutStatus ST_NUM_WORDS None None
    else match spec_lookup_all L toks with
         | None => OutStatus ST_LANG None None
         | Some idx => finish_out a (st_next cs) idx coin ok None
         end.
Proof.
  intros HR Hs Hc HL toks. destruct (sim_decodex sgn cs a str coin li ok HR Hs Hc) as [S _].
  unfold outp. rewrite S. cbn [astep]. rewrite HL, <- (R_deps _ _ HR). fold toks.
  destruct (Nat.eqb (length toks) 16); cbn [negb snd]; [|reflexivity].
  destruct (spec_lookup_all L toks); cbn [snd]; [|reflexivity].
  rewrite afinish_out, (R_next _ _ HR). reflexivity.
Qed.

(* the candidates are exactly the registered languages that recognise every token *)
Theorem matching_iff ls li0 toks li idx :
  In (li, idx) (matching ls li0 toks) <->
  exists L, nth_error ls (li - li0) = Some L /\ (li0 <= li)%nat /\ spec_lookup_all L toks = Some idx.
Proof.
  revert li0. induction ls as [|L ls IH]; intros li0; cbn [matching].
  - split; [intros []|]. intros (L&H&_). destruct (li - li0)%nat; discriminate.
  - assert (Hrec : In (li, idx) (matching ls (S li0) toks) <->
             exists L0, nth_error (L :: ls) (li - li0) = Some L0 /\ (S li0 <= li)%nat /\ spec_lookup_all L0 toks = Some idx).
    { rewrite IH. split; intros (L0&H1&H2&H3); exists L0.
      - replace (li - li0)%nat with (S (li - S li0)) by lia. cbn [nth_error]. repeat split; assumption.
      - replace (li - li0)%nat with (S (li - S li0)) in H1 by lia. cbn [nth_error] in H1. repeat split; assumption. }
    destruct (spec_lookup_all L toks) as [idx0|] eqn:E.
    + cbn [In]. rewrite Hrec. split.
      * intros [H|(L0&H1&H2&H3)]; [injection H as <- <-; exists L; rewrite Nat.sub_diag; repeat split; [lia|exact E] |
                                   exists L0; repeat split; [exact H1 | lia | exact H3]].
      * intros (L0&H1&H2&H3). destruct (Nat.eq_dec li li0) as [->|Hne].
        -- left. rewrite Nat.sub_diag in H1. cbn in H1. injection H1 as <-. congruence.
        -- right. exists L0. repeat split; [exact H1 | lia | exact H3].
    + rewrite Hrec. split.
      * intros (L0&H1&H2&H3). exists L0. repeat split; [exact H1 | lia | exact H3].
      * intros (L0&H1&H2&H3). destruct (Nat.eq_dec li li0) as [->|Hne].
        -- rewrite Nat.sub_diag in H1. cbn in H1. injection H1 as <-. congruence.
        -- exists L0. repeat split; [exact H1 | lia | exact H3].
Qed.

(* a language recognises all tokens exactly when each token is accepted by one of its words,
   and the indices are those words' positions *)
Lemma spec_find_iff L t j : In L langs -> no_nul t ->
  (spec_find L t = Some j <-> (j < 2048)%nat /\ accepts_b L t (nth j (l_words L) []) = true).
Proof.
  intros HL Hn. rewrite <- (search_accepts true L t j HL Hn), (search_is_spec_find true L t HL Hn).
  split; [intros ->; reflexivity | intros H; injection H as H; exact H].
Qed.

Theorem lookup_all_iff L toks idx : In L langs -> Forall no_nul toks ->
  (spec_lookup_all L toks = Some idx <->
   Forall2 (fun t i => exists j, i = N.of_nat j /\ (j < 2048)%nat /\ accepts_b L t (nth j (l_words L) []) = true) toks idx).
Proof.
  intros HL Hn. unfold spec_lookup_all. rewrite lookup_stripped_spec. revert idx.
  induction Hn as [|t toks Ht Hn IH]; intros idx.
  - split; [intros H; injection H as <-; constructor | intros H; inversion H; reflexivity].
  - split.
    + destruct (spec_find L t) as [j|] eqn:Ej; [|discriminate].
      match goal with |- context [match ?X with Some _ => _ | None => _ end = _] => destruct X as [js|] eqn:Ejs end; [|discriminate].
      intros H. injection H as <-. constructor; [|apply IH; reflexivity].
      exists j. split; [reflexivity|]. apply spec_find_iff; assumption.
    + intros H. inversion H as [|? i ? is (j&->&Hj&Ha) Hrest]; subst.
      assert (Ej : spec_find L t = Some j) by (apply spec_find_iff; [assumption..|split; assumption]).
      rewrite Ej. apply IH in Hrest. rewrite Hrest. reflexivity.
Qed.

(* ------------------------------------------------------------------ C10 / C11 at the API *)
Theorem create_gate sgn cs a features rand clock ok : R cs a -> clock < 2 ^ 64 ->
  outp (step sgn langs cs (OpCreate features rand clock ok)) =
    if negb (spec_supported (as_mask a) (N.land features 7)) then OutStatus ST_UNSUPPORTED None None
    else if negb ok then OutStatus ST_MEMORY None None
    else OutStatus ST_OK (Some (st_next cs)) None.
Proof.
  intros HR Hc. destruct (sim_create sgn cs a features rand clock ok HR Hc) as [S _]. unfold outp. rewrite S.
  cbn [astep]. destruct (spec_supported _ _); cbn [negb snd]; [|reflexivity].
  destruct ok; cbn [negb snd]; [|reflexivity]. rewrite (R_next _ _ HR). reflexivity.
Qed.

Theorem enable_effect sgn cs a m : R cs a ->
  outp (step sgn langs cs (OpEnable m)) = OutNum (popcount 3 (N.land m 7)) /\
  st_reserved (stp (step sgn langs cs (OpEnable m))) = N.lxor 15 (N.land m 7) /\
  R (stp (step sgn langs cs (OpEnable m))) (mkastate (as_deps a) (N.land m 7) (as_seeds a) (as_next a)).
Proof.
  intros HR. destruct (sim_enable sgn cs a m HR) as [S1 S2]. unfold outp, stp. split; [rewrite S1; reflexivity|].
  split; [|exact S2]. cbn [step]. rewrite MiscProofs.enable_spec. reflexivity.
Qed.

Theorem create_birthday sgn cs features rand clock h :
  outp (step sgn langs cs (OpCreate features rand clock true)) = OutStatus ST_OK (Some h) None ->
  outp (step sgn langs (stp (step sgn langs cs (OpCreate features rand clock true))) (OpGetBirthday h)) =
    OutNum (birthday_decode (birthday_encode clock)).
Proof.
  unfold outp, stp. cbn [step]. destruct (features_supported _ _); cbn [negb fst snd]; [|discriminate].
  match goal with |- context [poly_of 0 ?d] => destruct (poly_of 0 d) end; cbn [fst snd]; [|discriminate].
  intros E. injection E as <-. cbn [st_heap heap_get]. rewrite N.eqb_refl. reflexivity.
Qed.
