(* The chain closed: polyseed_decode / polyseed_decode_explicit as translated, with the search called by the
   language loop being the TRANSLATED polyseed_lang_find_word (get_comparer, lang_search, the four comparers)
   instead of an assumed function.  What is left as hypotheses is outside the library: libc's bsearch (by contract,
   for each registered language), the injected normaliser, the allocator's answer. *)
From Coq Require Import String.
From PS Require Import Base GFDefs PackDefs StoreDefs MiscDefs StrDefs LangDefs ApiDefs SpecDefs SpecApi.
From PS Require Import LangData CTieBase CTieLang CTiePhrase CTieCmp CTieSearch CTieApi CTieDecode.
From PS.Gen Require Import Consts PrivConsts Langs.
From PS.Gen Require CFuns CApi.
Local Open Scope N_scope.

Lemma words_short L j : In L langs -> (length (nth j (l_words L) []) + 2 <= 64)%nat.
Proof.
  intros H.
  assert (F : forallb (fun L => forallb (fun w => Nat.leb (length w) 60) (l_words L)) langs = true) by (vm_compute; reflexivity).
  rewrite forallb_forall in F. specialize (F L H). rewrite forallb_forall in F.
  destruct (Nat.lt_ge_cases j (length (l_words L))) as [Hj|Hj].
  - specialize (F _ (nth_In _ [] Hj)). apply Nat.leb_le in F.
    apply (Nat.le_trans _ (60 + 2)); [apply Nat.add_le_mono_r; exact F | cbv; repeat constructor].
  - rewrite nth_overflow by exact Hj. cbn. lia.
Qed.

Section Closed.
  Variables (sgn : bool) (fuel : nat) (BS : Z -> list Z -> Z -> Z -> Z).
  Hypothesis Hfuel : (2050 <= fuel)%nat.
  (* libc bsearch, for every registered language and the comparer the code hands over *)
  Hypothesis HBS : forall li L key, nth_error langs li = Some L -> no_nul key ->
    BS (Z.of_nat li) (zs key) 2048%Z (CApi.get_comparer (flag (l_has_prefix L)) (flag (l_has_accents L)) (Z.of_nat li)) =
    enc (bsearch_loop 13 (fun j => comparer sgn L key (nth j (l_words L) [])) 0 LANG_SIZE_nat).

  (* lang_search as the language loop calls it: the translated polyseed_lang_find_word of that registry position *)
  Definition ext_code (li : Z) (w : list Z) : Z :=
    match nth_error langs (Z.to_nat li) with
    | Some L =>
      match CApi.polyseed_lang_find_word fuel (flag (l_has_prefix L)) (flag (l_has_accents L)) (flag (l_is_sorted L)) BS
              (fun _ i => zs (nth (Z.to_nat i) (l_words L) [])) (CC sgn fuel) li w with
      | Some r => r | None => (-1)%Z
      end
    | None => (-1)%Z
    end.

  Definition OKW (w : bytes) : Prop := no_nul w /\ (length w + 2 <= fuel)%nat.

  Lemma ext_code_ok li L w : OKW w -> nth_error langs li = Some L -> ext_code (Z.of_nat li) (zs w) = enc (lang_search sgn L w).
  Proof.
    intros [Hn Hl] HL. unfold ext_code. rewrite Nat2Z.id, HL.
    rewrite (tie_lang_find_word sgn L (Z.of_nat li) fuel fuel BS (nth_error_In _ _ HL) Hfuel); try assumption.
    - reflexivity.
    - intros j. pose proof (words_short L j (nth_error_In _ _ HL)). lia.
    - intros key Hk. apply (HBS li L key HL Hk).
  Qed.

  Theorem tie_decode_closed st D str coin ok lo lo0 gb gf gs gc so0 :
    no_nul str -> coin < 2048 -> (length str + 2 <= fuel)%nat ->
    let nf := dp_nfkd (st_deps st) in
    D (zs str) = (zs (fst (nf str)), zN (snd (nf str))) -> no_nul (fst (nf str)) ->
    (length (fst (nf str)) + 2 <= fuel)%nat ->
    let '(st', out, evs) := step sgn langs st (OpDecode str coin ok) in
    exists cevs lo' b f s c so status,
      CApi.polyseed_decode fuel sgn D ext_code (alloc_ptr st ok) CFuns.polyseed_mul2_table (zN (st_reserved st))
        (zs str) (zN coin) lo lo0 gb gf gs gc so0 = Some (cevs, lo', b, f, s, c, so, status) /\
      evs_of (st_deps st) cevs = evs /\
      (exists li, out = OutStatus (Z.to_N status) (if (status =? 0)%Z then Some (st_next st) else None)
                                 (if (status =? 0)%Z then Some li else None) /\
                  (status = 0%Z -> (lo <> 0%Z -> lo' = Z.of_nat li) /\ (lo = 0%Z -> lo' = lo0))) /\
      (if (status =? 0)%Z
       then so = ptr (st_next st) /\ exists d, st_heap st' = (st_next st, d) :: st_heap st /\ (b, f, s, c) = zd d
       else so = so0 /\ st_heap st' = st_heap st).
  Proof.
    intros Hs Hc Hf nf HD Hnn Hfn.
    assert (H18 : (18 <= fuel)%nat) by lia.
    exact (tie_decode sgn st fuel D ext_code OKW ext_code_ok (fun t Hn Hl => conj Hn Hl) H18 str coin ok lo lo0 gb gf gs gc so0 Hs Hc Hf HD Hnn Hfn).
  Qed.

  Theorem tie_decode_explicit_closed st D str coin li L ok gb gf gs gc so0 :
    nth_error langs li = Some L ->
    no_nul str -> coin < 2048 -> (length str + 2 <= fuel)%nat ->
    let nf := dp_nfkd (st_deps st) in
    D (zs str) = (zs (fst (nf str)), zN (snd (nf str))) -> no_nul (fst (nf str)) ->
    (length (fst (nf str)) + 2 <= fuel)%nat ->
    let '(st', out, evs) := step sgn langs st (OpDecodeExplicit str coin li ok) in
    exists cevs b f s c so status,
      CApi.polyseed_decode_explicit fuel sgn D ext_code (alloc_ptr st ok) CFuns.polyseed_mul2_table (zN (st_reserved st))
        (zs str) (zN coin) (Z.of_nat li) gb gf gs gc so0 = Some (cevs, b, f, s, c, so, status) /\
      evs_of (st_deps st) cevs = evs /\
      out = OutStatus (Z.to_N status) (if (status =? 0)%Z then Some (st_next st) else None) None /\
      (if (status =? 0)%Z
       then so = ptr (st_next st) /\ exists d, st_heap st' = (st_next st, d) :: st_heap st /\ (b, f, s, c) = zd d
       else so = so0 /\ st_heap st' = st_heap st).
  Proof.
    intros HL Hs Hc Hf nf HD Hnn Hfn.
    assert (H18 : (18 <= fuel)%nat) by lia.
    exact (tie_decode_explicit sgn st fuel D ext_code OKW ext_code_ok (fun t Hn Hl => conj Hn Hl) H18 str coin li L ok gb gf gs gc so0 HL Hs Hc Hf HD Hnn Hfn).
  Qed.
End Closed.
