(* get_comparer of lang.c as TRANSLATED (Gen/CApi.v; a comparer is denoted by its number: 0 compare_str_wrap,
   1 compare_prefix_wrap, 2 compare_str_noaccent_wrap, 3 compare_prefix_noaccent_wrap - the table FUNC_CODES
   of tools/c2coq.py): the comparer it selects for a language, run as translated, is the mirror's comparer. *)
From PS Require Import Base LangDefs CTieBase CTieLang.
From PS.Gen Require CFuns CApi.
Local Open Scope Z_scope.

(* the comparer a code denotes: the bsearch adapter of that number AS TRANSLATED (which comparer it calls, with
   which of its two dereferenced arguments in which position, and the prefix length it passes are read from lang.c) *)
Definition cmp_by_code (code : Z) (fuel : nat) (sgn : bool) (key elm : list Z) : option Z :=
  if code =? 0 then CFuns.compare_str_wrap fuel sgn key elm
  else if code =? 1 then CFuns.compare_prefix_wrap fuel sgn key elm
  else if code =? 2 then CFuns.compare_str_noaccent_wrap fuel sgn key elm
  else CFuns.compare_prefix_noaccent_wrap fuel sgn key elm.

Definition flag (b : bool) : Z -> Z := fun _ => if b then 1 else 0.

Theorem tie_get_comparer sgn L (li : Z) key elm fuel : no_nul key ->
  (length key + 2 <= fuel)%nat -> (length elm + 2 <= fuel)%nat ->
  cmp_by_code (CApi.get_comparer (flag (l_has_prefix L)) (flag (l_has_accents L)) li) fuel sgn (zs key) (zs elm)
  = Some (comparer sgn L key elm).
Proof.
  intros Hk Hf He. rewrite <- (tie_comparer sgn L key elm fuel Hk Hf He).
  unfold CApi.get_comparer, c_comparer, cmp_by_code, flag,
    CFuns.compare_str_wrap, CFuns.compare_prefix_wrap, CFuns.compare_str_noaccent_wrap, CFuns.compare_prefix_noaccent_wrap.
  destruct (l_has_prefix L), (l_has_accents L); reflexivity.
Qed.
