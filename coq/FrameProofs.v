(* C20 / C13 isolation: what a call can read and write.
   - only polyseed_inject and polyseed_enable_features change the dependency table / feature mask;
   - a call on seed h reads nothing of any other seed and changes no other seed;
   - hence, for ANY interleaving of calls made by several threads on disjoint seeds, every thread
     gets exactly the results (outputs and calls to injected functions) of running its own calls
     alone: the calls of the others are invisible to it.
   API calls are atomic steps here; interleaving inside a call is the runtime residue (DESIGN.md). *)
From PS Require Import Base GFDefs PackDefs StoreDefs MiscDefs StrDefs LangDefs ApiDefs TraceProofs.
From PS.Gen Require Import Consts PrivConsts.
Local Open Scope N_scope.

Definition touches (o : op) : option N :=
  match o with
  | OpEncode h _ _ | OpStore h | OpCrypt h _ | OpKeygen h _ _ | OpGetBirthday h | OpGetFeature h _
  | OpIsEncrypted h | OpFree h => Some h
  | _ => None
  end.
Definition is_setup (o : op) : bool := match o with OpInject _ | OpEnable _ => true | _ => false end.

(* ---- the global part of the state is written by the two set-up calls only *)
Lemma finish_globals cs idx coin ok lang :
  st_deps (stp (finish_decode cs idx coin ok lang)) = st_deps cs /\
  st_reserved (stp (finish_decode cs idx coin ok lang)) = st_reserved cs.
Proof.
  unfold finish_decode, stp. destruct (poly_check _); cbn [negb fst]; [|split; reflexivity].
  destruct ok; cbn [negb fst]; [|split; reflexivity].
  destruct (poly_to_data _); cbn [fst]; [|split; reflexivity].
  destruct (features_supported _ _); split; reflexivity.
Qed.

Theorem globals_frame sgn langs cs o : is_setup o = false ->
  st_deps (stp (step sgn langs cs o)) = st_deps cs /\ st_reserved (stp (step sgn langs cs o)) = st_reserved cs.
Proof.
  intros Hs. destruct o; try discriminate; unfold stp; cbn [step].
  - destruct (features_supported _ _); cbn [negb fst]; [|split; reflexivity].
    destruct alloc_ok; cbn [negb fst]; [|split; reflexivity].
    match goal with |- context [poly_of 0 ?d] => destruct (poly_of 0 d) end; split; reflexivity.
  - destruct alloc_ok; cbn [negb fst]; [|split; reflexivity].
    destruct (data_load buf) as [|d]; cbn [fst]; [split; reflexivity|].
    destruct (poly_of _ d) as [poly|]; cbn [fst]; [|split; reflexivity].
    destruct (poly_check poly); cbn [negb fst]; [|split; reflexivity].
    destruct (features_supported _ _); split; reflexivity.
  - destruct (nfkd_lazy _ str) as [[norm n] called]. destruct (str_split norm) as [w words].
    destruct (Nat.eqb w 16); cbn [negb fst]; [|split; reflexivity].
    destruct (phrase_decode sgn langs words) as [| | |idx li]; cbn [fst]; try (split; reflexivity).
    pose proof (finish_globals cs idx coin alloc_ok (Some li)) as F. unfold stp in F.
    destruct (finish_decode cs idx coin alloc_ok (Some li)) as [[cs' o'] ev]. exact F.
  - destruct (nth_error langs li) as [L|]; cbn [fst]; [|split; reflexivity].
    destruct (nfkd_lazy _ str) as [[norm n] called]. destruct (str_split norm) as [w words].
    destruct (Nat.eqb w 16); cbn [negb fst]; [|split; reflexivity].
    destruct (phrase_decode_explicit sgn L words) as [[idx|]|]; cbn [fst]; try (split; reflexivity).
    pose proof (finish_globals cs idx coin alloc_ok None) as F. unfold stp in F.
    destruct (finish_decode cs idx coin alloc_ok None) as [[cs' o'] ev]. exact F.
  - destruct (heap_get _ h) as [d|]; [|split; reflexivity]. destruct (nth_error langs li) as [L|]; [|split; reflexivity].
    destruct (poly_of _ d) as [poly|]; [|split; reflexivity].
    destruct (forallb (fun c => c <? LANG_SIZE) _); cbn [negb]; [|split; reflexivity].
    destruct (write_phrase _ _) as [s|]; [|split; reflexivity].
    destruct (l_compose L); [destruct (dp_nfc _ s)|]; split; reflexivity.
  - destruct (heap_get _ h); split; reflexivity.
  - destruct (heap_get _ h) as [d|]; [|split; reflexivity]. destruct (nfkd_lazy _ pw) as [[norm n] called].
    match goal with |- context [poly_of 0 ?d] => destruct (poly_of 0 d) end; split; reflexivity.
  - destruct (heap_get _ h); split; reflexivity.
  - destruct (heap_get _ h); split; reflexivity.
  - destruct (heap_get _ h); split; reflexivity.
  - destruct (heap_get _ h); split; reflexivity.
  - destruct (heap_get _ h); split; reflexivity.
  - split; reflexivity.
Qed.

(* ---- heaps as finite maps *)
Lemma get_set hp h d k : heap_get (heap_set hp h d) k =
  if k =? h then match heap_get hp h with Some _ => Some d | None => None end else heap_get hp k.
Proof.
  induction hp as [|[k0 d0] hp IH]; [destruct (k =? h); reflexivity|].
  cbn [heap_set heap_get]. destruct (k0 =? h) eqn:E0; cbn [heap_get].
  - apply N.eqb_eq in E0. subst k0. rewrite (N.eqb_sym k h). destruct (h =? k); reflexivity.
  - destruct (k0 =? k) eqn:E1.
    + apply N.eqb_eq in E1. subst k0. rewrite E0. reflexivity.
    + exact IH.
Qed.

Lemma get_none_notin hp k : ~ In k (map fst hp) -> heap_get hp k = None.
Proof.
  induction hp as [|[k0 d0] hp IH]; [reflexivity|]. cbn [map fst In heap_get]. intros H.
  destruct (N.eqb_spec k0 k); [exfalso; apply H; left; assumption|]. apply IH. tauto.
Qed.

Lemma get_del hp h k : NoDup (map fst hp) ->
  heap_get (heap_del hp h) k = if k =? h then None else heap_get hp k.
Proof.
  induction hp as [|[k0 d0] hp IH]; intros ND; [destruct (k =? h); reflexivity|].
  cbn [map fst] in ND. inversion ND as [|? ? Hn ND']; subst.
  cbn [heap_del heap_get]. destruct (k0 =? h) eqn:E0.
  - apply N.eqb_eq in E0. subst k0. rewrite (N.eqb_sym k h). destruct (N.eqb_spec h k); [|reflexivity].
    subst k. apply get_none_notin, Hn.
  - cbn [heap_get]. destruct (k0 =? k) eqn:E1.
    + apply N.eqb_eq in E1. subst k0. rewrite E0. reflexivity.
    + apply IH, ND'.
Qed.

(* ---- handles stay distinct *)
Definition Distinct (cs : state) : Prop := Fresh cs /\ NoDup (handles cs).

Lemma del1_in k h l : In k (del1 h l) -> In k l.
Proof.
  induction l as [|x l IH]; [tauto|]. cbn [del1]. destruct (x =? h); [intros; right; assumption|].
  intros [H|H]; [left; exact H | right; apply IH, H].
Qed.

Lemma del1_nodup h l : NoDup l -> NoDup (del1 h l).
Proof.
  induction 1 as [|x l Hx Hl IH]; [constructor|]. cbn [del1]. destruct (x =? h); [exact Hl|].
  constructor; [|exact IH]. intros H. apply Hx, (del1_in _ _ _ H).
Qed.

Lemma finish_distinct cs idx coin ok lang : Distinct cs -> Distinct (stp (finish_decode cs idx coin ok lang)).
Proof.
  intros [HF ND]. split; [apply (finish_ledger cs idx coin ok lang HF)|].
  unfold finish_decode, stp, handles. destruct (poly_check _); cbn [negb fst]; [|exact ND].
  destruct ok; cbn [negb fst]; [|exact ND]. destruct (poly_to_data _); cbn [fst]; [|exact ND].
  destruct (features_supported _ _); cbn [negb fst st_heap map]; [|exact ND].
  constructor; [|exact ND]. intros H. unfold Fresh, handles in HF. rewrite Forall_forall in HF.
  specialize (HF _ H). lia.
Qed.

Theorem step_distinct sgn langs cs o : Distinct cs -> Distinct (stp (step sgn langs cs o)).
Proof.
  intros [HF ND]. split; [apply (step_ledger sgn langs cs o HF)|].
  assert (Nnew : forall d, NoDup (map fst ((st_next cs, d) :: st_heap cs))).
  { intros d. cbn [map fst]. constructor; [|exact ND]. intros H. unfold Fresh, handles in HF.
    rewrite Forall_forall in HF. specialize (HF _ H). lia. }
  destruct o; unfold stp, handles; cbn [step].
  - exact ND.
  - destruct (enable_features mask). exact ND.
  - destruct (features_supported _ _); cbn [negb fst]; [|exact ND].
    destruct alloc_ok; cbn [negb fst]; [|exact ND].
    match goal with |- context [poly_of 0 ?d] => destruct (poly_of 0 d) end; cbn [fst st_heap]; [apply Nnew|exact ND].
  - destruct alloc_ok; cbn [negb fst]; [|exact ND].
    destruct (data_load buf) as [|d]; cbn [fst]; [exact ND|].
    destruct (poly_of _ d) as [poly|]; cbn [fst]; [|exact ND].
    destruct (poly_check poly); cbn [negb fst]; [|exact ND].
    destruct (features_supported _ _); cbn [negb fst st_heap]; [apply Nnew|exact ND].
  - destruct (nfkd_lazy _ str) as [[norm n] called]. destruct (str_split norm) as [w words].
    destruct (Nat.eqb w 16); cbn [negb fst]; [|exact ND].
    destruct (phrase_decode sgn langs words) as [| | |idx li]; cbn [fst]; try exact ND.
    pose proof (finish_distinct cs idx coin alloc_ok (Some li) (conj HF ND)) as [_ F]. unfold stp, handles in F.
    destruct (finish_decode cs idx coin alloc_ok (Some li)) as [[cs' o'] ev]. exact F.
  - destruct (nth_error langs li) as [L|]; cbn [fst]; [|exact ND].
    destruct (nfkd_lazy _ str) as [[norm n] called]. destruct (str_split norm) as [w words].
    destruct (Nat.eqb w 16); cbn [negb fst]; [|exact ND].
    destruct (phrase_decode_explicit sgn L words) as [[idx|]|]; cbn [fst]; try exact ND.
    pose proof (finish_distinct cs idx coin alloc_ok None (conj HF ND)) as [_ F]. unfold stp, handles in F.
    destruct (finish_decode cs idx coin alloc_ok None) as [[cs' o'] ev]. exact F.
  - destruct (heap_get _ h) as [d|]; [|exact ND]. destruct (nth_error langs li) as [L|]; [|exact ND].
    destruct (poly_of _ d) as [poly|]; [|exact ND].
    destruct (forallb (fun c => c <? LANG_SIZE) _); cbn [negb]; [|exact ND].
    destruct (write_phrase _ _) as [s|]; [|exact ND].
    destruct (l_compose L); [destruct (dp_nfc _ s)|]; exact ND.
  - destruct (heap_get _ h); exact ND.
  - destruct (heap_get _ h) as [d|]; [|exact ND]. destruct (nfkd_lazy _ pw) as [[norm n] called].
    match goal with |- context [poly_of 0 ?d] => destruct (poly_of 0 d) end; cbn [fst st_heap]; [|exact ND].
    rewrite handles_set. exact ND.
  - destruct (heap_get _ h); exact ND.
  - destruct (heap_get _ h); exact ND.
  - destruct (heap_get _ h); exact ND.
  - destruct (heap_get _ h); exact ND.
  - destruct (heap_get _ h); cbn [fst st_heap]; [|exact ND]. rewrite handles_del. apply del1_nodup, ND.
  - exact ND.
Qed.

Lemma distinct_init : Distinct init_state.
Proof. split; constructor. Qed.

(* ---- a call on seed h changes no other seed *)
Theorem handle_frame sgn langs cs o h k : Distinct cs -> touches o = Some h -> k <> h ->
  heap_get (st_heap (stp (step sgn langs cs o))) k = heap_get (st_heap cs) k.
Proof.
  intros [_ ND] Ht Hk. assert (Ek : (k =? h) = false) by (apply N.eqb_neq, Hk).
  destruct o; try discriminate; cbn [touches] in Ht; injection Ht as ->; unfold stp; cbn [step].
  - destruct (heap_get _ h) as [d|]; [|reflexivity]. destruct (nth_error langs li) as [L|]; [|reflexivity].
    destruct (poly_of _ d) as [poly|]; [|reflexivity].
    destruct (forallb (fun c => c <? LANG_SIZE) _); cbn [negb]; [|reflexivity].
    destruct (write_phrase _ _) as [s|]; [|reflexivity].
    destruct (l_compose L); [destruct (dp_nfc _ s)|]; reflexivity.
  - destruct (heap_get _ h); reflexivity.
  - destruct (heap_get _ h) as [d|]; [|reflexivity]. destruct (nfkd_lazy _ pw) as [[norm n] called].
    match goal with |- context [poly_of 0 ?d] => destruct (poly_of 0 d) end; cbn [fst st_heap]; [|reflexivity].
    rewrite get_set, Ek. reflexivity.
  - destruct (heap_get _ h); reflexivity.
  - destruct (heap_get _ h); reflexivity.
  - destruct (heap_get _ h); reflexivity.
  - destruct (heap_get _ h); reflexivity.
  - destruct (heap_get _ h); cbn [fst st_heap]; [|reflexivity]. rewrite (get_del _ _ _ ND), Ek. reflexivity.
Qed.

(* ---- a call on seed h reads the table, the mask and seed h only *)
Definition same_view (mine : N -> bool) (a b : state) : Prop :=
  st_deps a = st_deps b /\ st_reserved a = st_reserved b /\
  forall h, mine h = true -> heap_get (st_heap a) h = heap_get (st_heap b) h.

Theorem handle_view sgn langs a b o h mine : Distinct a -> Distinct b -> touches o = Some h -> mine h = true ->
  same_view mine a b ->
  outp (step sgn langs a o) = outp (step sgn langs b o) /\ evp (step sgn langs a o) = evp (step sgn langs b o) /\
  same_view mine (stp (step sgn langs a o)) (stp (step sgn langs b o)).
Proof.
  intros [_ NDa] [_ NDb] Ht Hm (Ed&Er&Eh). pose proof (Eh h Hm) as E.
  destruct o; try discriminate; cbn [touches] in Ht; injection Ht as ->; unfold outp, evp, stp; cbn [step];
    rewrite E, <- ?Ed.
  - destruct (heap_get (st_heap b) h) as [d|]; [|repeat split; assumption].
    destruct (nth_error langs li) as [L|]; [|repeat split; assumption].
    destruct (poly_of _ d) as [poly|]; [|repeat split; assumption].
    destruct (forallb (fun c => c <? LANG_SIZE) _); cbn [negb]; [|repeat split; assumption].
    destruct (write_phrase _ _) as [s|]; [|repeat split; assumption].
    destruct (l_compose L); [destruct (dp_nfc _ s)|]; repeat split; assumption.
  - destruct (heap_get (st_heap b) h); repeat split; assumption.
  - destruct (heap_get (st_heap b) h) as [d|] eqn:Eb; [|repeat split; assumption].
    destruct (nfkd_lazy _ pw) as [[norm n] called].
    match goal with |- context [poly_of 0 ?d] => destruct (poly_of 0 d) end; cbn [fst snd]; [|repeat split; assumption].
    repeat split; try assumption. cbn [st_heap]. intros k Hk. rewrite !get_set, E, Eb, (Eh k Hk). reflexivity.
  - destruct (heap_get (st_heap b) h); repeat split; assumption.
  - destruct (heap_get (st_heap b) h); repeat split; assumption.
  - destruct (heap_get (st_heap b) h); repeat split; assumption.
  - destruct (heap_get (st_heap b) h); repeat split; assumption.
  - destruct (heap_get (st_heap b) h); cbn [fst snd]; [|repeat split; assumption].
    split; [reflexivity|]. split; [reflexivity|]. split; [reflexivity|]. split; [exact Er|].
    cbn [st_heap]. intros k Hk. rewrite (get_del _ _ _ NDa), (get_del _ _ _ NDb), (Eh k Hk). reflexivity.
Qed.

(* ---- any interleaving: my calls see what they would see alone *)
Definition is_mine (mine : N -> bool) (o : op) : bool :=
  match touches o with Some h => mine h | None => false end.
Definition handle_op (o : op) : bool := match touches o with Some _ => true | None => false end.

Fixpoint my_results (mine : N -> bool) (ops : list op) (res : list (out * list event)) : list (out * list event) :=
  match ops, res with
  | o :: ops', r :: res' => if is_mine mine o then r :: my_results mine ops' res' else my_results mine ops' res'
  | _, _ => []
  end.

Theorem interleaving_invisible sgn langs mine ops : forall a b,
  Distinct a -> Distinct b -> same_view mine a b -> forallb handle_op ops = true ->
  my_results mine ops (snd (run sgn langs a ops)) = snd (run sgn langs b (filter (is_mine mine) ops)) /\
  same_view mine (fst (run sgn langs a ops)) (fst (run sgn langs b (filter (is_mine mine) ops))).
Proof.
  induction ops as [|o ops IH]; intros a b Da Db V Hh; cbn [run filter my_results].
  - split; [reflexivity|exact V].
  - cbn [forallb] in Hh. apply andb_true_iff in Hh. destruct Hh as [Ho Hh].
    unfold handle_op in Ho. destruct (touches o) as [h|] eqn:Et; [|discriminate].
    assert (Ei : is_mine mine o = mine h) by (unfold is_mine; rewrite Et; reflexivity).
    rewrite Ei.
    pose proof (step_distinct sgn langs a o Da) as Da'.
    destruct (mine h) eqn:Em.
    + destruct (handle_view sgn langs a b o h mine Da Db Et Em V) as (E1&E2&V').
      pose proof (step_distinct sgn langs b o Db) as Db'.
      unfold outp, evp, stp in *. cbn [run].
      destruct (step sgn langs a o) as [[a1 oa] ea]. destruct (step sgn langs b o) as [[b1 ob] eb]. cbn [fst snd] in *.
      destruct (IH a1 b1 Da' Db' V' Hh) as [I1 I2].
      destruct (run sgn langs a1 ops) as [af ra]. destruct (run sgn langs b1 (filter (is_mine mine) ops)) as [bf rb].
      cbn [fst snd my_results] in *. rewrite ?Ei, ?Em. split; [congruence|exact I2].
    + assert (V' : same_view mine (stp (step sgn langs a o)) b).
      { destruct V as (Ed&Er&Eh). destruct (globals_frame sgn langs a o) as [G1 G2].
        - destruct o; try discriminate; reflexivity.
        - split; [congruence|]. split; [congruence|]. intros k Hk. rewrite <- (Eh k Hk).
          apply (handle_frame sgn langs a o h k Da Et). intros ->. congruence. }
      unfold stp in *. destruct (step sgn langs a o) as [[a1 oa] ea]. cbn [fst snd] in *.
      destruct (IH a1 b Da' Db V' Hh) as [I1 I2].
      destruct (run sgn langs a1 ops) as [af ra]. cbn [fst snd my_results] in *.
      rewrite ?Ei, ?Em. split; assumption.
Qed.
