(* C07 - the tie to the code: theorems about the Gallina that tools/c2coq.py generates from /repo's CURRENT
   sources on every run (Gen/CFuns.v, Gen/CApi.v). *)
From Coq Require Import NArith List.
Local Open Scope N_scope.

(* ---- the tie to the code: src/polyseed.c as TRANSLATED on this run (Gen/CApi.v) ---- *)
From Coq Require Import String.
From PS Require Import Base GFDefs PackDefs StoreDefs MiscDefs StrDefs LangDefs ApiDefs SpecDefs SpecApi GFProofs PackProofs StoreProofs RefineProofs RoundTrip TraceProofs FrameProofs SafetyProofs CTieBase CTieLang CTiePhrase CTiePhraseEv CTieSplit CTieApi CTieDecode CTieEncode CTieLocals CTieInject CTieCmp CTieSearch CTieClosed CodeTheorems HeldProofs CodeMachine.
From PS.Gen Require Import Consts PrivConsts Langs.
From PS.Gen Require CFuns.
From PS.Gen Require CApi.

(* polyseed_lang_find_word as translated is the mirror search C07_self_index is about *)
Theorem C07_code_tie_find_word :
  forall (sgn : bool) (L : lang) (li : Z) (fuel fuelc : nat) (BS : Z -> list Z -> Z -> Z -> Z),
         In L langs ->
         (2050 <= fuel)%nat ->
         (forall j : nat, (Datatypes.length (nth j (l_words L) []) + 2 <= fuelc)%nat) ->
         (forall key : bytes,
          no_nul key ->
          BS li (zs key) 2048%Z (CApi.get_comparer (flag (l_has_prefix L)) (flag (l_has_accents L)) li) =
          enc (bsearch_loop 13 (fun j : nat => comparer sgn L key (nth j (l_words L) [])) 0 LANG_SIZE_nat)) ->
         forall key : bytes,
         no_nul key ->
         (Datatypes.length key + 2 <= fuelc)%nat ->
         CApi.polyseed_lang_find_word fuel (flag (l_has_prefix L)) (flag (l_has_accents L))
           (flag (l_is_sorted L)) BS (fun _ i : Z => zs (nth (Z.to_nat i) (l_words L) [])) 
           (CC sgn fuelc) li (zs key) = Some (enc (lang_search sgn L key)).
Proof. exact @tie_lang_find_word. Qed.
Print Assumptions C07_code_tie_find_word.
