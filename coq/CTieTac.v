(* Normalisation of the bit operations of translated C (Gen/CFuns.v: Z values, unsigned results
   reduced mod 2^width) to div/mod arithmetic that lia decides. *)
From Coq Require Import ZArith Lia List Bool ZifyBool.
Import ListNotations.
Ltac Zify.zify_post_hook ::= Z.div_mod_to_equations.
Local Open Scope Z_scope.

Lemma zland_mask a m k : 0 <= a -> 0 <= k -> m = 2 ^ k - 1 -> Z.land a m = a mod 2 ^ k.
Proof.
  intros Ha Hk ->. replace (2 ^ k - 1) with (Z.ones k) by (rewrite Z.ones_equiv; lia). apply Z.land_ones, Hk.
Qed.

Lemma zlor_disjoint A B k : 0 <= A -> 0 <= B < 2 ^ k -> 0 <= k -> Z.lor (A * 2 ^ k) B = A * 2 ^ k + B.
Proof.
  intros HA HB Hk.
  assert (L : Z.land (A * 2 ^ k) B = 0).
  { apply Z.bits_inj'. intros n Hn. rewrite Z.land_spec, Z.bits_0.
    destruct (Z.lt_ge_cases n k) as [H|H].
    - rewrite Z.mul_pow2_bits_low by lia. reflexivity.
    - replace B with (B mod 2 ^ k) by (apply Z.mod_small; lia). rewrite Z.mod_pow2_bits_high by lia. apply andb_false_r. }
  rewrite <- Z.lxor_lor by exact L. symmetry. apply Z.add_nocarry_lxor, L.
Qed.

(* (X * 2^k) mod 2^w is a multiple of 2^k *)
Lemma zlor_low X Y k w : 0 <= X -> 0 <= Y < 2 ^ k -> 0 <= k <= w ->
  Z.lor ((X * 2 ^ k) mod 2 ^ w) Y = (X * 2 ^ k) mod 2 ^ w + Y.
Proof.
  intros HX HY Hk.
  assert (E : (X * 2 ^ k) mod 2 ^ w = (X mod 2 ^ (w - k)) * 2 ^ k).
  { replace (2 ^ w) with (2 ^ (w - k) * 2 ^ k) by (rewrite <- Z.pow_add_r by lia; f_equal; lia).
    apply Z.mul_mod_distr_r; [apply Z.pow_nonzero; lia | apply Z.pow_nonzero; lia]. }
  rewrite E. apply zlor_disjoint; try lia.
Qed.

Ltac nn :=
  match goal with
  | |- 0 <= Z.lor _ _ => apply Z.lor_nonneg; split; nn
  | |- 0 <= Z.land _ _ => apply Z.land_nonneg; left; nn
  | |- 0 <= Z.shiftr _ _ => apply Z.shiftr_nonneg; nn
  | |- 0 <= Z.shiftl _ _ => apply Z.shiftl_nonneg; nn
  | |- 0 <= ?a mod ?b => apply (proj1 (Z.mod_pos_bound a b eq_refl))
  | |- 0 <= _ / _ => apply Z.div_pos; [nn | reflexivity]
  | |- 0 <= _ * _ => apply Z.mul_nonneg_nonneg; nn
  | |- 0 <= _ + _ => apply Z.add_nonneg_nonneg; nn
  | _ => lia
  end.

Ltac land2mod :=
  repeat match goal with
  | |- context [Z.land ?a ?m] =>
    first [ rewrite (zland_mask a m 1) by (first [reflexivity | nn | lia])
          | rewrite (zland_mask a m 2) by (first [reflexivity | nn | lia])
          | rewrite (zland_mask a m 3) by (first [reflexivity | nn | lia])
          | rewrite (zland_mask a m 4) by (first [reflexivity | nn | lia])
          | rewrite (zland_mask a m 5) by (first [reflexivity | nn | lia])
          | rewrite (zland_mask a m 6) by (first [reflexivity | nn | lia])
          | rewrite (zland_mask a m 7) by (first [reflexivity | nn | lia])
          | rewrite (zland_mask a m 8) by (first [reflexivity | nn | lia])
          | rewrite (zland_mask a m 10) by (first [reflexivity | nn | lia]) ]
  end.

Ltac zpow_consts :=
  repeat match goal with
         | |- context [2 ^ ?k] => let v := eval vm_compute in (2 ^ k) in change (2 ^ k) with v
         end.

Ltac shifts2arith :=
  rewrite ?Z.shiftl_mul_pow2, ?Z.shiftr_div_pow2 by lia.

(* remove the reductions mod M whose argument is visibly in range, innermost first *)
Ltac small_mod M :=
  repeat match goal with
  | |- context [?x mod M] =>
    lazymatch x with context [_ mod M] => fail | _ => idtac end;
    rewrite (Z.mod_small x M) by lia
  end.
