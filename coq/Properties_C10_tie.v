(* C10 - the tie to the code: theorems about the Gallina that tools/c2coq.py generates from /repo's CURRENT
   sources on every run (Gen/CFuns.v, Gen/CApi.v).  Kept apart from Properties_C10.v so that a change to the C code
   which breaks a tie leaves the theorems about the model standing, and the other way round. *)
From PS Require Import Base MiscDefs SpecDefs MiscProofs ApiDefs SpecApi ApiLemmas RefineProofs ApiTheorems.
From PS Require Import CTieBase CTieFeat.
From PS.Gen Require CFuns.
From PS.Gen Require Import Consts Langs.
Local Open Scope N_scope.

(* ---- the tie to the code: features.h / features.c as TRANSLATED from /repo's current source on this
   run (Gen/CFuns.v): each function equals the mirror the theorems above are about, for EVERY unsigned
   argument; polyseed_enable_features returns (new reserved mask, number enabled) whatever the old mask *)
Theorem C10_code_tie :
  (forall u, CFuns.make_features (Z.of_N u) = Z.of_N (make_features u)) /\
  (forall f m, CFuns.get_features (Z.of_N f) (Z.of_N m) = Z.of_N (get_features f m)) /\
  (forall f, CFuns.is_encrypted (Z.of_N f) = if is_encrypted f then 1%Z else 0%Z) /\
  (forall r f, CFuns.polyseed_features_supported (Z.of_N r) (Z.of_N f) = if features_supported r f then 1%Z else 0%Z) /\
  (forall r0 m, m < 2 ^ 32 ->
     CFuns.polyseed_enable_features r0 (Z.of_N m) = (Z.of_N (fst (enable_features m)), Z.of_N (snd (enable_features m)))).
Proof. exact (conj tie_make_features (conj tie_get_features (conj tie_is_encrypted (conj tie_features_supported tie_enable_features)))). Qed.
Print Assumptions C10_code_tie.

(* ---- the tie to the code: src/polyseed.c as TRANSLATED on this run (Gen/CApi.v) ---- *)
From Coq Require Import String.
From PS Require Import Base GFDefs PackDefs StoreDefs MiscDefs StrDefs LangDefs ApiDefs SpecDefs SpecApi GFProofs PackProofs StoreProofs RefineProofs RoundTrip TraceProofs FrameProofs SafetyProofs CTieBase CTieLang CTiePhrase CTiePhraseEv CTieSplit CTieApi CTieDecode CTieEncode CTieLocals CTieInject CTieCmp CTieSearch CTieClosed CodeTheorems CodeMachine.
From PS.Gen Require Import Consts PrivConsts Langs.
From PS.Gen Require CFuns.
From PS.Gen Require CApi.

(* polyseed_get_feature as translated *)
Theorem C10_code_tie_api_get_feature :
  forall (d : data) (m : N),
         CApi.polyseed_get_feature (Z.of_N (d_birthday d)) (Z.of_N (d_features d)) 
           (map Z.of_N (d_secret d)) (Z.of_N (d_checksum d)) (Z.of_N m) =
         Z.of_N (get_features (d_features d) m).
Proof. exact @tie_get_feature. Qed.
Print Assumptions C10_code_tie_api_get_feature.

(* polyseed_is_encrypted as translated *)
Theorem C10_code_tie_api_is_encrypted :
  forall d : data,
         CApi.polyseed_is_encrypted (Z.of_N (d_birthday d)) (Z.of_N (d_features d)) 
           (map Z.of_N (d_secret d)) (Z.of_N (d_checksum d)) =
         (if is_encrypted (d_features d) then 1%Z else 0%Z).
Proof. exact @tie_is_encrypted_api. Qed.
Print Assumptions C10_code_tie_api_is_encrypted.
