(* C10 - the tie to the code: theorems about the Gallina that tools/c2coq.py generates from /repo's CURRENT
   sources on every run (Gen/CFuns.v, Gen/CApi.v).  Kept apart from Properties_C10.v so that a change to the C code
   which breaks a tie leaves the theorems about the model standing, and the other way round. *)
From PS Require Import Base MiscDefs SpecDefs MiscProofs ApiDefs SpecApi ApiLemmas RefineProofs ApiTheorems.
From PS Require Import CTieBase CTieFeat.
From PS.Gen Require CFuns.
From PS.Gen Require Import Consts Langs.
Local Open Scope N_scope.

(* ---- the tie to the code: features.h / features.c as TRANSLATED from /repo's current source on this
   run (Gen/CFuns.v): each function equals the mirror the theorems above are about, for EVERY unsigned
   argument; polyseed_enable_features returns (new reserved mask, number enabled) whatever the old mask *)
Theorem C10_code_tie :
  (forall u, CFuns.make_features (Z.of_N u) = Z.of_N (make_features u)) /\
  (forall f m, CFuns.get_features (Z.of_N f) (Z.of_N m) = Z.of_N (get_features f m)) /\
  (forall f, CFuns.is_encrypted (Z.of_N f) = if is_encrypted f then 1%Z else 0%Z) /\
  (forall r f, CFuns.polyseed_features_supported (Z.of_N r) (Z.of_N f) = if features_supported r f then 1%Z else 0%Z) /\
  (forall r0 m, m < 2 ^ 32 ->
     CFuns.polyseed_enable_features r0 (Z.of_N m) = (Z.of_N (fst (enable_features m)), Z.of_N (snd (enable_features m)))).
Proof. exact (conj tie_make_features (conj tie_get_features (conj tie_is_encrypted (conj tie_features_supported tie_enable_features)))). Qed.
Print Assumptions C10_code_tie.

(* ---- the tie to the code: src/polyseed.c as TRANSLATED on this run (Gen/CApi.v) ---- *)
From Coq Require Import String.
From PS Require Import Base GFDefs PackDefs StoreDefs MiscDefs StrDefs LangDefs ApiDefs SpecDefs SpecApi GFProofs PackProofs StoreProofs RefineProofs RoundTrip TraceProofs FrameProofs SafetyProofs CTieBase CTieLang CTiePhrase CTiePhraseEv CTieSplit CTieApi CTieDecode CTieEncode CTieLocals CTieInject CTieCmp CTieSearch CTieClosed CodeTheorems HeldProofs CodeMachine.
From PS.Gen Require Import Consts PrivConsts Langs.
From PS.Gen Require CFuns.
From PS.Gen Require CApi.

(* ON THE CODE: what the TRANSLATED polyseed_encode / store / crypt / keygen / queries / free do on a held seed does not depend on the feature set enabled at the time of the call - cstep_ok composed with HeldProofs.held_independent *)
Theorem C10_code_tie_held_independent :
  forall (sgn : bool) (fuel : nat) (ext : Z -> list Z -> Z) (OKW : bytes -> Prop),
         (forall (li : nat) (L : lang) (w : bytes),
          OKW w -> nth_error langs li = Some L -> ext (Z.of_nat li) (zs w) = enc (lang_search sgn L w)) ->
         (forall t : bytes, no_nul t -> (Datatypes.length t + 2 <= fuel)%nat -> OKW t) ->
         (18 <= fuel)%nat ->
         forall (st : state) (r : N) (o : op),
         uses_held o = true ->
         op_ready sgn fuel st o ->
         cstep sgn fuel ext (with_reserved r st) o =
         (with_reserved r (fst (fst (cstep sgn fuel ext st o))), snd (fst (cstep sgn fuel ext st o)),
          snd (cstep sgn fuel ext st o)).
Proof. exact @code_held_independent. Qed.
Print Assumptions C10_code_tie_held_independent.

(* polyseed_get_feature as translated *)
Theorem C10_code_tie_api_get_feature :
  forall (d : data) (m : N),
         CApi.polyseed_get_feature (Z.of_N (d_birthday d)) (Z.of_N (d_features d)) 
           (map Z.of_N (d_secret d)) (Z.of_N (d_checksum d)) (Z.of_N m) =
         Z.of_N (get_features (d_features d) m).
Proof. exact @tie_get_feature. Qed.
Print Assumptions C10_code_tie_api_get_feature.

(* polyseed_is_encrypted as translated *)
Theorem C10_code_tie_api_is_encrypted :
  forall d : data,
         CApi.polyseed_is_encrypted (Z.of_N (d_birthday d)) (Z.of_N (d_features d)) 
           (map Z.of_N (d_secret d)) (Z.of_N (d_checksum d)) =
         (if is_encrypted (d_features d) then 1%Z else 0%Z).
Proof. exact @tie_is_encrypted_api. Qed.
Print Assumptions C10_code_tie_api_is_encrypted.
