(* C07 - word lists are frozen, distinct, and every word decodes to its own index.
   All statements are about the GENERATED data (coq/Gen, from /repo's current sources). *)
From PS Require Import Base LangDefs SpecDefs LangProofs LangData.
From PS.Gen Require Import Langs.
From PS.Ref Require Langs.

(* names, flags, separators and all 10 x 2048 words equal the pinned release *)
Theorem C07_frozen : list_eqb lang_eqb langs Ref.Langs.langs = true.
Proof. exact langs_frozen. Qed.
Print Assumptions C07_frozen.

Theorem C07_registry : length langs = 10%nat /\
  forall L, In L langs -> length (l_words L) = 2048%nat /\ Forall no_nul (l_words L).
Proof. exact (conj eq_refl (fun L H => conj (words_len L H) (words_nonul L H))). Qed.
Print Assumptions C07_registry.

(* every word typed in full is found at its own index and at no other, through the
   binary search for the sorted lists, for either signedness of char *)
Theorem C07_self_index : forall sgn L j, In L langs -> (j < 2048)%nat ->
  lang_search sgn L (nth j (l_words L) []) = Some (Some j).
Proof. exact self_index. Qed.
Print Assumptions C07_self_index.

(* the deciding keys - accent-stripped word, cut to four letters in the abbreviating
   languages - are pairwise distinct: words are distinct, no two words share their first
   four stripped letters, no word of four or more letters is a prefix of another *)
Theorem C07_keys_distinct : forall L, In L langs -> NoDup (uniq_keys L).
Proof. exact keys_nodup. Qed.
Print Assumptions C07_keys_distinct.

(* sortedness of every list flagged sorted, in the order its own comparer uses, signed and unsigned *)
Theorem C07_sorted : forallb (lang_ok true) langs = true /\ forallb (lang_ok false) langs = true.
Proof. exact (conj langs_ok_signed langs_ok_unsigned). Qed.
Print Assumptions C07_sorted.

(* the literal clause "no word is a prefix of another" is false for the three-letter words
   (known finding F5): witness in the English list *)
Theorem C07_prefix_refuted : exists L i j, In L langs /\ i <> j /\
  is_prefix (nth i (l_words L) []) (nth j (l_words L) []) = true.
Proof.
  exists (nth 0 langs (nth 0 langs (Build_lang [] [] [] false false false false []))), 19%nat, 20%nat.
  split; [left; reflexivity|]. split; [discriminate|]. vm_compute. reflexivity.
Qed.
