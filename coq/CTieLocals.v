(* The automatic arrays and structs each translated function of the API layer declares, as the translator
   found them in /repo's CURRENT source (Gen/CApi.v, locals_<function>; objects of inlined callees included).
   They are exactly the objects the mirror's wipe accounting knows (ApiDefs.obj through CTieApi.cobj: poly,
   str_tmp, words, mask, pass_norm, idx - TraceProofs.step_frame_clean shows each is wiped on every exit that
   taints it, and the ties show the translated code makes those wipes) plus the two public salts.
   A new temporary in any of these functions changes a generated list and breaks this obligation: it then has
   to be wiped and accounted for, or shown to hold nothing sensitive. *)
From Coq Require Import String List Bool.
From PS Require Import CTieApi.
From PS.Gen Require CApi.
Import ListNotations.
Local Open Scope string_scope.

Theorem tie_locals :
  CApi.locals_polyseed_create = ["poly"] /\
  CApi.locals_polyseed_load = ["poly"] /\
  CApi.locals_polyseed_decode = ["str_tmp"; "words"; "poly"] /\
  CApi.locals_polyseed_decode_explicit = ["str_tmp"; "words"; "poly"] /\
  CApi.locals_polyseed_phrase_decode = ["idx"] /\
  CApi.locals_polyseed_encode = ["poly"; "str_tmp"] /\
  CApi.locals_polyseed_crypt = ["pass_norm"; "mask"; "salt"; "poly"] /\
  CApi.locals_polyseed_keygen = ["salt"] /\
  CApi.locals_polyseed_free = [] /\ CApi.locals_polyseed_store = [] /\ CApi.locals_str_split = [] /\
  CApi.locals_write_str = [] /\ CApi.locals_polyseed_get_birthday = [] /\ CApi.locals_polyseed_get_feature = [] /\
  CApi.locals_polyseed_is_encrypted = [] /\ CApi.locals_get_comparer = [].
Proof. repeat split; reflexivity. Qed.

(* every one of them is an object of the wipe accounting, or a public salt *)
Theorem locals_accounted :
  forallb (fun s => orb (String.eqb s "salt") match cobj s with Some _ => true | None => false end)
    (CApi.locals_polyseed_create ++ CApi.locals_polyseed_load ++ CApi.locals_polyseed_decode ++
     CApi.locals_polyseed_decode_explicit ++ CApi.locals_polyseed_phrase_decode ++ CApi.locals_polyseed_encode ++
     CApi.locals_polyseed_crypt ++ CApi.locals_polyseed_keygen) = true.
Proof. reflexivity. Qed.

(* the C types of the result and of the parameters of every translated function of the API layer, typedefs resolved,
   as clang reports them for /repo's CURRENT headers: the translator reads each integer parameter as a value already
   in the range of its type, so a change of a parameter's type (the coin becoming an 8-bit integer, say) changes
   what callers can pass without changing the translated body - it is accounted for here instead. *)
Theorem tie_ctypes :
  CApi.ctypes_gf_poly_check = ["bool"; "message : const gf_poly *"] /\
  CApi.ctypes_gf_poly_encode = ["void"; "message : gf_poly *"] /\
  CApi.ctypes_get_comparer = ["polyseed_cmp *"; "lang : const polyseed_lang *"] /\
  CApi.ctypes_polyseed_inject = ["void"; "deps : const polyseed_dependency *"] /\
  CApi.ctypes_lang_search = ["int"; "lang : const polyseed_lang *"; "word : const char *"; "cmp : polyseed_cmp *"] /\
  CApi.ctypes_polyseed_lang_find_word = ["int"; "lang : const polyseed_lang *"; "word : const char *"] /\
  CApi.ctypes_polyseed_free = ["void"; "seed : polyseed_data *"] /\
  CApi.ctypes_polyseed_get_birthday = ["uint64_t"; "data : const polyseed_data *"] /\
  CApi.ctypes_polyseed_get_feature = ["unsigned int"; "seed : const polyseed_data *"; "mask : unsigned int"] /\
  CApi.ctypes_polyseed_is_encrypted = ["int"; "seed : const polyseed_data *"] /\
  CApi.ctypes_polyseed_store = ["void"; "seed : const polyseed_data *"; "storage : uint8_t *"] /\
  CApi.ctypes_polyseed_load = ["polyseed_status"; "storage : const uint8_t *"; "seed_out : polyseed_data **"] /\
  CApi.ctypes_polyseed_create = ["polyseed_status"; "features : unsigned int"; "seed_out : polyseed_data **"] /\
  CApi.ctypes_polyseed_keygen = ["void"; "seed : const polyseed_data *"; "coin : enum polyseed_coin"; "key_size : unsigned long"; "key_out : uint8_t *"] /\
  CApi.ctypes_polyseed_crypt = ["void"; "seed : polyseed_data *"; "password : const char *"] /\
  CApi.ctypes_polyseed_phrase_decode = ["polyseed_status"; "phrase : const char *const *"; "idx_out : uint_fast16_t *"; "lang_out : const polyseed_lang **"] /\
  CApi.ctypes_str_split = ["int"; "str : char *"; "words : const char **"] /\
  CApi.ctypes_polyseed_decode = ["polyseed_status"; "str : const char *"; "coin : enum polyseed_coin"; "lang_out : const polyseed_lang **"; "seed_out : polyseed_data **"] /\
  CApi.ctypes_polyseed_decode_explicit = ["polyseed_status"; "str : const char *"; "coin : enum polyseed_coin"; "lang : const polyseed_lang *"; "seed_out : polyseed_data **"] /\
  CApi.ctypes_write_str = ["void"; "pos : char **"; "str : const char *"] /\
  CApi.ctypes_polyseed_encode = ["size_t"; "data : const polyseed_data *"; "lang : const polyseed_lang *"; "coin : enum polyseed_coin"; "str_out : char *"].
Proof. repeat split; reflexivity. Qed.
