(* The automatic arrays and structs each translated function of the API layer declares, as the translator
   found them in /repo's CURRENT source (Gen/CApi.v, locals_<function>; objects of inlined callees included).
   They are exactly the objects the mirror's wipe accounting knows (ApiDefs.obj through CTieApi.cobj: poly,
   str_tmp, words, mask, pass_norm, idx - TraceProofs.step_frame_clean shows each is wiped on every exit that
   taints it, and the ties show the translated code makes those wipes) plus the two public salts.
   A new temporary in any of these functions changes a generated list and breaks this obligation: it then has
   to be wiped and accounted for, or shown to hold nothing sensitive. *)
From Coq Require Import String List Bool.
From PS Require Import CTieApi.
From PS.Gen Require CApi.
Import ListNotations.
Local Open Scope string_scope.

Theorem tie_locals :
  CApi.locals_polyseed_create = ["poly"] /\
  CApi.locals_polyseed_load = ["poly"] /\
  CApi.locals_polyseed_decode = ["str_tmp"; "words"; "poly"] /\
  CApi.locals_polyseed_decode_explicit = ["str_tmp"; "words"; "poly"] /\
  CApi.locals_polyseed_phrase_decode = ["idx"] /\
  CApi.locals_polyseed_encode = ["poly"; "str_tmp"] /\
  CApi.locals_polyseed_crypt = ["pass_norm"; "mask"; "salt"; "poly"] /\
  CApi.locals_polyseed_keygen = ["salt"] /\
  CApi.locals_polyseed_free = [] /\ CApi.locals_polyseed_store = [] /\ CApi.locals_str_split = [] /\
  CApi.locals_write_str = [] /\ CApi.locals_polyseed_get_birthday = [] /\ CApi.locals_polyseed_get_feature = [] /\
  CApi.locals_polyseed_is_encrypted = [] /\ CApi.locals_get_comparer = [].
Proof. repeat split; reflexivity. Qed.

(* every one of them is an object of the wipe accounting, or a public salt *)
Theorem locals_accounted :
  forallb (fun s => orb (String.eqb s "salt") match cobj s with Some _ => true | None => false end)
    (CApi.locals_polyseed_create ++ CApi.locals_polyseed_load ++ CApi.locals_polyseed_decode ++
     CApi.locals_polyseed_decode_explicit ++ CApi.locals_polyseed_phrase_decode ++ CApi.locals_polyseed_encode ++
     CApi.locals_polyseed_crypt ++ CApi.locals_polyseed_keygen) = true.
Proof. reflexivity. Qed.
