(* lang.c: polyseed_phrase_decode and polyseed_phrase_decode_explicit as TRANSLATED from /repo's current
   source (Gen/CFuns.v: both loops fuelled, break / continue / the early return for MULT_LANG as flags
   in the loop state; lang_search left outside as a parameter) against the mirrors
   LangDefs.phrase_decode / decode_words, for EVERY list of 16 tokens and EVERY search function. *)
From PS Require Import Base LangDefs LangProofs CTieLang.
From PS.Gen Require CFuns.
Local Open Scope Z_scope.

(* what lang_search returns for a token: the index, or -1 *)
Definition enc (r : option (option nat)) : Z :=
  match r with Some (Some j) => Z.of_nat j | _ => -1 end.

Lemma firstn_upd_last {A} (l : list A) k v : (k < length l)%nat -> firstn (S k) (CFuns.upd l k v) = firstn k l ++ [v].
Proof.
  revert k. induction l as [|x l IH]; intros [|k] H; cbn in *; try lia; [reflexivity|].
  f_equal. apply IH. lia.
Qed.

Lemma upd_length {A} (l : list A) k v : length (CFuns.upd l k v) = length l.
Proof. revert k. induction l as [|x l IH]; intros [|k]; cbn; try reflexivity. f_equal. apply IH. Qed.

Lemma nth_mid {A} (a : list A) x r d : nth (length a) (a ++ x :: r) d = x.
Proof. induction a; [reflexivity|assumption]. Qed.

Section Phrase.
  Variables (sgn : bool) (ls : list lang) (ext : Z -> list Z -> Z) (OKW : bytes -> Prop).
  (* the external search answers as the mirror search on the tokens of interest (OKW: e.g. NUL-free) *)
  Hypothesis Hext : forall li L w, OKW w -> nth_error ls li = Some L -> ext (Z.of_nat li) (zs w) = enc (lang_search sgn L w).
  Hypothesis Hidx : forall L w j, In L ls -> lang_search sgn L w = Some (Some j) -> (j < 2048)%nat.

  (* ---- the inner loop: the searches of the remaining tokens in one language *)
  Lemma inner_loop li L (c : bool * list Z * Z * Z -> bool) (b : bool * list Z * Z * Z -> option (bool * list Z * Z * Z)) ws :
    nth_error ls li = Some L ->
    (forall brk idx success wi, c (brk, idx, success, wi) = negb brk && (wi <? 16)) ->
    (forall idx success wi, b (false, idx, success, wi) =
       let value := ext (Z.of_nat li) (nth (Z.to_nat wi) (map zs ws) []) in
       if value <? 0 then Some (true, idx, 0, wi)
       else Some (false, CFuns.upd idx (Z.to_nat wi) (value mod 18446744073709551616), success, wi + 1)) ->
    Forall OKW ws ->
    forall todo done idx f, ws = done ++ todo -> (length done + length todo = 16)%nat ->
    (length todo + 2 <= f)%nat -> length idx = 16%nat ->
    exists idx' wi', length idx' = 16%nat /\ CFuns.whileF f c b (false, idx, 1, Z.of_nat (length done)) =
      match decode_words sgn L todo with
      | Some (Some js) => Some (false, firstn (length done) idx ++ map Z.of_N js, 1, 16)
      | _ => Some (true, idx', 0, wi')
      end.
  Proof.
    intros HL Hc Hb HW. induction todo as [|w todo IH]; intros done idx f Ews Hlen Hf Hi.
    - cbn [decode_words map]. exists idx, 0. split; [exact Hi|]. destruct f as [|f]; [cbn in Hf; lia|]. rewrite whileF_stop.
      + cbn [length] in Hlen. rewrite app_nil_r, firstn_all2 by lia. replace (Z.of_nat (length done)) with 16 by lia. reflexivity.
      + rewrite Hc. cbn [length] in Hlen. replace (Z.of_nat (length done) <? 16) with false by (symmetry; apply Z.ltb_ge; lia). reflexivity.
    - destruct f as [|f]; [cbn in Hf; lia|]. cbn [length] in Hlen, Hf.
      assert (Ctrue : c (false, idx, 1, Z.of_nat (length done)) = true).
      { rewrite Hc. cbn [negb andb]. apply Z.ltb_lt. lia. }
      assert (Ew : nth (Z.to_nat (Z.of_nat (length done))) (map zs ws) [] = zs w).
      { rewrite Nat2Z.id, Ews, map_app. cbn [map]. rewrite <- (map_length zs done). apply nth_mid. }
      assert (Ow : OKW w) by (rewrite Ews in HW; apply Forall_app in HW; destruct HW as [_ HW]; apply (Forall_inv HW)).
      pose proof (Hb idx 1 (Z.of_nat (length done))) as Bs. cbv zeta in Bs. rewrite Ew, (Hext li L w Ow HL) in Bs.
      cbn [decode_words].
      destruct (lang_search sgn L w) as [[j|]|] eqn:Es; cbn [enc] in Bs.
      + replace (Z.of_nat j <? 0) with false in Bs by (symmetry; apply Z.ltb_ge; lia).
        pose proof (Hidx L w j (nth_error_In _ _ HL) Es) as Hj.
        rewrite Z.mod_small in Bs by lia. rewrite Nat2Z.id in Bs.
        destruct (IH (done ++ [w]) (CFuns.upd idx (length done) (Z.of_nat j)) f) as (idx'&wi'&Li'&W).
        * rewrite <- app_assoc. exact Ews.
        * rewrite app_length. cbn [length]. lia.
        * lia.
        * rewrite upd_length. exact Hi.
        * rewrite app_length in W. cbn [length] in W.
          replace (Z.of_nat (length done + 1)) with (Z.of_nat (length done) + 1) in W by lia.
          exists idx', wi'. split; [exact Li'|]. rewrite (whileF_step _ _ _ _ _ Ctrue Bs), W.
          destruct (decode_words sgn L todo) as [[js|]|]; try reflexivity.
          replace (length done + 1)%nat with (S (length done)) by lia.
          rewrite firstn_upd_last by lia. rewrite <- app_assoc. cbn [app map]. rewrite nat_N_Z. reflexivity.
      + change (-1 <? 0) with true in Bs. exists idx, (Z.of_nat (length done)). split; [exact Hi|].
        rewrite (whileF_step _ _ _ _ _ Ctrue Bs). destruct f as [|f]; [lia|]. apply whileF_stop. rewrite Hc. reflexivity.
      + change (-1 <? 0) with true in Bs. exists idx, (Z.of_nat (length done)). split; [exact Hi|].
        rewrite (whileF_step _ _ _ _ _ Ctrue Bs). destruct f as [|f]; [lia|]. apply whileF_stop. rewrite Hc. reflexivity.
  Qed.

  Lemma decode_words_length L ws js : decode_words sgn L ws = Some (Some js) -> length js = length ws.
  Proof.
    revert js. induction ws as [|w ws IH]; intros js; cbn [decode_words].
    - intros E. injection E as <-. reflexivity.
    - destruct (lang_search sgn L w) as [[j|]|]; try discriminate.
      destruct (decode_words sgn L ws) as [[js'|]|]; try discriminate.
      intros E. injection E as <-. cbn [length]. f_equal. apply IH. reflexivity.
  Qed.

  Lemma decode_words_bound L ws js : In L ls -> decode_words sgn L ws = Some (Some js) -> Forall (fun j => (j < 2048)%N) js.
  Proof.
    intros HL. revert js. induction ws as [|w ws IH]; intros js; cbn [decode_words].
    - intros E. injection E as <-. constructor.
    - destruct (lang_search sgn L w) as [[j|]|] eqn:Es; try discriminate.
      destruct (decode_words sgn L ws) as [[js'|]|]; try discriminate.
      intros E. injection E as <-. constructor; [pose proof (Hidx L w j HL Es); lia | apply IH; reflexivity].
  Qed.

  (* ---- polyseed_phrase_decode_explicit *)
  Theorem tie_phrase_decode_explicit li L ws io0 fuel : nth_error ls li = Some L -> Forall OKW ws -> length ws = 16%nat ->
    length io0 = 16%nat -> (18 <= fuel)%nat ->
    exists io, CFuns.polyseed_phrase_decode_explicit fuel ext (map zs ws) (Z.of_nat li) io0 =
      match decode_words sgn L ws with
      | Some (Some js) => Some (map Z.of_N js, 0)        (* POLYSEED_OK, all sixteen indices written *)
      | _ => Some (io, 2)                                 (* POLYSEED_ERR_LANG *)
      end.
  Proof.
    intros HL HW Hws Hio Hf. unfold CFuns.polyseed_phrase_decode_explicit.
    match goal with |- context [CFuns.whileF fuel ?c ?b _] => set (C := c); set (B := b) end.
    assert (Lp : forall todo done io f, ws = done ++ todo -> (length done + length todo = 16)%nat ->
      (length todo + 2 <= f)%nat -> length io = 16%nat ->
      exists io' wi', CFuns.whileF f C B (false, false, 0, io, Z.of_nat (length done)) =
        match decode_words sgn L todo with
        | Some (Some js) => Some (false, false, 0, firstn (length done) io ++ map Z.of_N js, 16)
        | _ => Some (true, true, 2, io', wi')
        end).
    { induction todo as [|w todo IH]; intros done io f Ews Hlen Hf0 Hi.
      - cbn [decode_words map]. exists io, 0. destruct f as [|f]; [cbn in Hf0; lia|]. rewrite whileF_stop.
        + cbn [length] in Hlen. rewrite app_nil_r, firstn_all2 by lia. replace (Z.of_nat (length done)) with 16 by lia. reflexivity.
        + unfold C. cbn [length] in Hlen. cbv beta iota. replace (Z.of_nat (length done) <? 16) with false by (symmetry; apply Z.ltb_ge; lia). reflexivity.
      - destruct f as [|f]; [cbn in Hf0; lia|]. cbn [length] in Hlen, Hf0.
        assert (Ctrue : C (false, false, 0, io, Z.of_nat (length done)) = true).
        { unfold C. cbv beta iota. cbn [negb andb]. apply Z.ltb_lt. lia. }
        assert (Ew : nth (Z.to_nat (Z.of_nat (length done))) (map zs ws) [] = zs w).
        { rewrite Nat2Z.id, Ews, map_app. cbn [map]. rewrite <- (map_length zs done). apply nth_mid. }
        assert (Bs : B (false, false, 0, io, Z.of_nat (length done)) =
          if enc (lang_search sgn L w) <? 0 then Some (true, true, 2, io, Z.of_nat (length done))
          else Some (false, false, 0, CFuns.upd io (length done) (enc (lang_search sgn L w) mod 18446744073709551616), Z.of_nat (length done) + 1)).
        { assert (Ow : OKW w) by (rewrite Ews in HW; apply Forall_app in HW; destruct HW as [_ HW]; apply (Forall_inv HW)).
          unfold B. cbv beta iota zeta. rewrite Ew, (Hext li L w Ow HL), Nat2Z.id. reflexivity. }
        cbn [decode_words].
        destruct (lang_search sgn L w) as [[j|]|] eqn:Es; cbn [enc] in Bs.
        + replace (Z.of_nat j <? 0) with false in Bs by (symmetry; apply Z.ltb_ge; lia).
          pose proof (Hidx L w j (nth_error_In _ _ HL) Es) as Hj.
          rewrite Z.mod_small in Bs by lia.
          destruct (IH (done ++ [w]) (CFuns.upd io (length done) (Z.of_nat j)) f) as (io'&wi'&W).
          * rewrite <- app_assoc. exact Ews.
          * rewrite app_length. cbn [length]. lia.
          * lia.
          * rewrite upd_length. exact Hi.
          * rewrite app_length in W. cbn [length] in W.
            replace (Z.of_nat (length done + 1)) with (Z.of_nat (length done) + 1) in W by lia.
            exists io', wi'. rewrite (whileF_step _ _ _ _ _ Ctrue Bs), W.
            destruct (decode_words sgn L todo) as [[js|]|]; try reflexivity.
            replace (length done + 1)%nat with (S (length done)) by lia.
            rewrite firstn_upd_last by lia. rewrite <- app_assoc. cbn [app map]. rewrite nat_N_Z. reflexivity.
        + change (-1 <? 0) with true in Bs. exists io, (Z.of_nat (length done)).
          rewrite (whileF_step _ _ _ _ _ Ctrue Bs). destruct f as [|f]; [lia|]. apply whileF_stop. reflexivity.
        + change (-1 <? 0) with true in Bs. exists io, (Z.of_nat (length done)).
          rewrite (whileF_step _ _ _ _ _ Ctrue Bs). destruct f as [|f]; [lia|]. apply whileF_stop. reflexivity. }
    destruct (Lp ws [] io0 fuel eq_refl) as (io'&wi'&W); [cbn [length]; lia | lia | exact Hio |].
    cbn [length] in W. change (Z.of_nat 0) with 0 in W. rewrite W.
    exists io'. destruct (decode_words sgn L ws) as [[js|]|]; reflexivity.
  Qed.

  (* ---- polyseed_phrase_decode: the loop over the registry *)
  Lemma copy16 (io src : list Z) : length io = 16%nat -> length src = 16%nat -> Forall (fun x => 0 <= x < 18446744073709551616) src ->
    CFuns.upd (CFuns.upd (CFuns.upd (CFuns.upd (CFuns.upd (CFuns.upd (CFuns.upd (CFuns.upd (CFuns.upd (CFuns.upd (CFuns.upd (CFuns.upd
      (CFuns.upd (CFuns.upd (CFuns.upd (CFuns.upd io 0 (nth 0 src 0 mod 18446744073709551616)) 1 (nth 1 src 0 mod 18446744073709551616))
      2 (nth 2 src 0 mod 18446744073709551616)) 3 (nth 3 src 0 mod 18446744073709551616)) 4 (nth 4 src 0 mod 18446744073709551616))
      5 (nth 5 src 0 mod 18446744073709551616)) 6 (nth 6 src 0 mod 18446744073709551616)) 7 (nth 7 src 0 mod 18446744073709551616))
      8 (nth 8 src 0 mod 18446744073709551616)) 9 (nth 9 src 0 mod 18446744073709551616)) 10 (nth 10 src 0 mod 18446744073709551616))
      11 (nth 11 src 0 mod 18446744073709551616)) 12 (nth 12 src 0 mod 18446744073709551616)) 13 (nth 13 src 0 mod 18446744073709551616))
      14 (nth 14 src 0 mod 18446744073709551616)) 15 (nth 15 src 0 mod 18446744073709551616) = src.
  Proof.
    intros Hi Hs Hb.
    do 16 (destruct io as [|? io]; [discriminate|]). destruct io; [|discriminate].
    do 16 (destruct src as [|? src]; [discriminate|]). destruct src; [|discriminate].
    repeat match goal with H : Forall _ (_ :: _) |- _ =>
      let a := fresh "A" in let b := fresh "F" in (apply Forall_cons_iff in H; destruct H as [a b]) end.
    cbn [CFuns.upd nth]. rewrite !Z.mod_small by assumption. reflexivity.
  Qed.

  Variables (ws : list bytes) (io0 : list Z) (lo lo0 : Z) (fuel : nat).
  Hypothesis Hokw : Forall OKW ws.
  Hypothesis Hws : length ws = 16%nat.
  Hypothesis Hio : length io0 = 16%nat.
  Hypothesis Hfuel : (18 <= fuel)%nat.

  (* what the caller sees, against the mirror: OK with the indices of the one matching language (and its
     registry position through lang_out when that is not NULL); ERR_LANG with nothing written;
     ERR_MULT_LANG *)
  Definition Res (pd : pd_res) (r : option (list Z * Z * Z)) : Prop :=
    match pd with
    | PdOk jx l => exists l0, r = Some (map Z.of_N jx, l0, 0) /\ (lo <> 0 -> l0 = Z.of_nat l) /\ (lo = 0 -> l0 = lo0)
    | PdLang => r = Some (io0, lo0, 2)
    | PdMult => exists io l0, r = Some (io, l0, 7)
    | PdFault => True
    end.

  Definition Inv (have : option (list N * nat)) (hf : Z) (io : list Z) (l0 : Z) : Prop :=
    match have with
    | None => hf = 0 /\ io = io0 /\ l0 = lo0
    | Some (jx, l) => hf = 1 /\ io = map Z.of_N jx /\ (lo <> 0 -> l0 = Z.of_nat l) /\ (lo = 0 -> l0 = lo0)
    end.

  Theorem tie_phrase_decode : length ls = 10%nat ->
    Res (phrase_decode sgn ls ws) (CFuns.polyseed_phrase_decode fuel ext (map zs ws) io0 lo lo0).
  Proof.
    intros Hls. unfold CFuns.polyseed_phrase_decode, phrase_decode.
    match goal with |- context [CFuns.whileF fuel ?c ?b (false, false, 0, 0, _, _, _, 0)] => set (C := c); set (B := b) end.
    set (FINAL := fun st : bool * bool * Z * Z * list Z * list Z * Z * Z =>
      let '(brk, rflag, rval, have_lang, idx, idx_out, lang_out_0, li) := st in
      if rflag : bool then Some (idx_out, lang_out_0, rval)
      else Some (idx_out, lang_out_0, if negb (have_lang =? 0) then 0 else 2)).
    assert (Lo : forall tls dls have hf idx io l0 f, ls = dls ++ tls -> (length dls + length tls = 10)%nat ->
      (length tls + 2 <= f)%nat -> length idx = 16%nat -> length io = 16%nat -> Inv have hf io l0 ->
      Res (phrase_decode_loop sgn tls (length dls) ws have)
          (match CFuns.whileF f C B (false, false, 0, hf, idx, io, l0, Z.of_nat (length dls)) with
           | None => None | Some st => FINAL st end)).
    { induction tls as [|L tls IH]; intros dls have hf idx io l0 f Els Hlen Hf Hi Ho HI.
      - cbn [length] in Hlen. destruct f as [|f]; [cbn in Hf; lia|].
        rewrite whileF_stop.
        + cbn [phrase_decode_loop]. unfold FINAL. destruct have as [[jx l]|]; cbn [Inv] in HI.
          * destruct HI as (->&->&H1&H2). cbn [Res]. exists l0. split; [reflexivity|split; assumption].
          * destruct HI as (->&->&->). reflexivity.
        + unfold C. cbv beta iota. rewrite Z.mod_small by lia.
          replace (Z.of_nat (length dls) <? 10) with false by (symmetry; apply Z.ltb_ge; lia). reflexivity.
      - cbn [length] in Hlen, Hf. destruct f as [|f]; [lia|].
        assert (HL : nth_error ls (length dls) = Some L).
        { rewrite Els, nth_error_app2 by lia. rewrite Nat.sub_diag. reflexivity. }
        assert (Ctrue : C (false, false, 0, hf, idx, io, l0, Z.of_nat (length dls)) = true).
        { unfold C. cbv beta iota. rewrite Z.mod_small by lia. cbn [negb andb]. apply Z.ltb_lt. lia. }
        (* the searches of this language *)
        match goal with |- context [CFuns.whileF _ C B _] => idtac end.
        assert (Inner : exists idx', length idx' = 16%nat /\
          B (false, false, 0, hf, idx, io, l0, Z.of_nat (length dls)) =
          match decode_words sgn L ws with
          | Some (Some js) =>
            if negb (hf =? 0) then Some (true, true, 7, hf, map Z.of_N js, io, l0, Z.of_nat (length dls))
            else Some (false, false, 0, 1, map Z.of_N js, map Z.of_N js,
                       (if negb (lo =? 0) then Z.of_nat (length dls) else l0), Z.of_nat (length dls) + 1)
          | _ => Some (false, false, 0, hf, idx', io, l0, Z.of_nat (length dls) + 1)
          end).
        { unfold B. cbv beta iota zeta.
          match goal with |- context [CFuns.whileF fuel ?c ?b (false, idx, 1, 0)] =>
            destruct (inner_loop (length dls) L c b ws HL (fun _ _ _ _ => eq_refl) (fun _ _ _ => eq_refl) Hokw
                        ws [] idx fuel eq_refl) as (idx'&wi'&Li'&W); [cbn [length]; lia | lia | exact Hi |] end.
          cbn [length] in W. change (Z.of_nat 0) with 0 in W. rewrite W.
          exists idx'. split; [exact Li'|].
          destruct (decode_words sgn L ws) as [[js|]|] eqn:Ed; try reflexivity.
          cbn [firstn app]. change (negb (negb (1 =? 0))) with false. cbv iota.
          destruct (negb (hf =? 0)); [reflexivity|].
          rewrite copy16.
          - destruct (negb (lo =? 0)); reflexivity.
          - exact Ho.
          - rewrite map_length, (decode_words_length L ws js Ed). exact Hws.
          - pose proof (decode_words_bound L ws js (nth_error_In _ _ HL) Ed) as Bd.
            apply Forall_forall. intros x Hx. apply in_map_iff in Hx. destruct Hx as (j&<-&Hj).
            rewrite Forall_forall in Bd. specialize (Bd j Hj). lia. }
        destruct Inner as (idx'&Li'&Bs).
        cbn [phrase_decode_loop].
        destruct (decode_words sgn L ws) as [[js|]|] eqn:Ed.
        + destruct have as [[jx l]|]; cbn [Inv] in HI.
          * destruct HI as (->&->&H1&H2). change (negb (1 =? 0)) with true in Bs. cbv iota in Bs.
            rewrite (whileF_step _ _ _ _ _ Ctrue Bs). destruct f as [|f]; [lia|]. rewrite whileF_stop by reflexivity.
            cbn [Res]. unfold FINAL. eexists. eexists. reflexivity.
          * destruct HI as (->&->&->). change (negb (0 =? 0)) with false in Bs. cbv iota in Bs.
            rewrite (whileF_step _ _ _ _ _ Ctrue Bs).
            replace (Z.of_nat (length dls) + 1) with (Z.of_nat (length (dls ++ [L]))) by (rewrite app_length; cbn [length]; lia).
            replace (S (length dls)) with (length (dls ++ [L])) by (rewrite app_length; cbn [length]; lia).
            apply IH.
            -- rewrite <- app_assoc. exact Els.
            -- rewrite app_length. cbn [length]. lia.
            -- lia.
            -- rewrite map_length, (decode_words_length L ws js Ed). exact Hws.
            -- rewrite map_length, (decode_words_length L ws js Ed). exact Hws.
            -- cbn [Inv]. split; [reflexivity|]. split; [reflexivity|].
               destruct (Z.eqb_spec lo 0) as [E0|N0]; cbn [negb]; split; intros H; try tauto; try lia; reflexivity.
        + rewrite (whileF_step _ _ _ _ _ Ctrue Bs).
          replace (Z.of_nat (length dls) + 1) with (Z.of_nat (length (dls ++ [L]))) by (rewrite app_length; cbn [length]; lia).
          replace (S (length dls)) with (length (dls ++ [L])) by (rewrite app_length; cbn [length]; lia).
          apply IH; try assumption.
          * rewrite <- app_assoc. exact Els.
          * rewrite app_length. cbn [length]. lia.
          * lia.
        + exact I. }
    specialize (Lo ls [] None 0 (repeat 0 16) io0 lo0 fuel eq_refl).
    cbn [length app] in Lo. change (Z.of_nat 0) with 0 in Lo.
    apply Lo; try lia; try reflexivity; try assumption. cbn [Inv]. repeat split.
  Qed.
End Phrase.

(* ---- instantiated at the registered languages (the generated registry) *)
From PS Require Import SearchProofs LangData.
From PS.Gen Require Import Langs.

Lemma search_lt sgn L w j : In L langs -> lang_search sgn L w = Some (Some j) -> (j < 2048)%nat.
Proof.
  intros HL. unfold lang_search. destruct (l_is_sorted L).
  - intros H. apply bsearch_sound in H. unfold LANG_SIZE_nat in H. lia.
  - intros H. injection H as H. apply linear_find_sound in H. rewrite (words_len L HL) in H. lia.
Qed.

Theorem tie_phrase_decode_langs sgn ext (OKW : bytes -> Prop) ws io0 lo lo0 fuel :
  (forall li L w, OKW w -> nth_error langs li = Some L -> ext (Z.of_nat li) (zs w) = enc (lang_search sgn L w)) ->
  Forall OKW ws -> length ws = 16%nat -> length io0 = 16%nat -> (18 <= fuel)%nat ->
  Res io0 lo lo0 (phrase_decode sgn langs ws) (CFuns.polyseed_phrase_decode fuel ext (map zs ws) io0 lo lo0).
Proof.
  intros Hext HW Hws Hio Hf.
  apply (tie_phrase_decode sgn langs ext OKW Hext (fun L w j HL => search_lt sgn L w j HL) ws io0 lo lo0 fuel HW Hws Hio Hf).
  reflexivity.
Qed.

Theorem tie_phrase_decode_explicit_langs sgn ext (OKW : bytes -> Prop) li L ws io0 fuel :
  (forall li L w, OKW w -> nth_error langs li = Some L -> ext (Z.of_nat li) (zs w) = enc (lang_search sgn L w)) ->
  nth_error langs li = Some L -> Forall OKW ws -> length ws = 16%nat -> length io0 = 16%nat -> (18 <= fuel)%nat ->
  exists io, CFuns.polyseed_phrase_decode_explicit fuel ext (map zs ws) (Z.of_nat li) io0 =
    match decode_words sgn L ws with
    | Some (Some js) => Some (map Z.of_N js, 0)
    | _ => Some (io, 2)
    end.
Proof.
  intros Hext HL HW Hws Hio Hf.
  exact (tie_phrase_decode_explicit sgn langs ext OKW Hext (fun L w j HL => search_lt sgn L w j HL) li L ws io0 fuel HL HW Hws Hio Hf).
Qed.
