(* Building blocks of the refinement proof: heaps, validity of seed structs, and the
   agreement of each leaf of polyseed.c with the abstract specification. *)
From PS Require Import Base GFDefs PackDefs StoreDefs MiscDefs StrDefs LangDefs ApiDefs SpecDefs SpecApi.
From PS Require Import GFProofs PackProofs PackTheorems StoreProofs StrProofs SeedProofs MiscProofs
  LangProofs LangData CoinProofs.
From PS.Gen Require Import Consts PrivConsts Langs.
Local Open Scope N_scope.

(* ------------------------------------------------------------------ validity *)
(* a seed struct as the library hands it out: canonical, with the check value of its data *)
Definition Valid (d : data) : Prop := Canon d /\ d_checksum d = spec_checksum (abs_data d).

Lemma spec_data_word_lt s i : spec_data_word s i < 2048.
Proof.
  unfold spec_data_word.
  pose proof (N.mod_lt (secret_num (a_secret s) / 2 ^ (10 * (14 - N.of_nat i))) 1024).
  pose proof (N.mod_lt ((a_features s * 1024 + a_birthday s) / 2 ^ (14 - N.of_nat i)) 2). lia.
Qed.

Lemma spec_data_words_wf s : wf (spec_data_words s) /\ length (spec_data_words s) = 15%nat.
Proof.
  unfold spec_data_words. split; [|rewrite map_length, seq_length; reflexivity].
  apply Forall_forall. intros x Hx. apply in_map_iff in Hx. destruct Hx as (i&<-&_). apply spec_data_word_lt.
Qed.

Lemma spec_checksum_eval s : spec_checksum s = poly_eval (0 :: spec_data_words s).
Proof.
  unfold spec_checksum. symmetry. destruct (spec_data_words_wf s) as [W L].
  apply eval_is_spec; [constructor; [reflexivity|exact W] | cbn [length]; lia].
Qed.

Lemma spec_checksum_lt s : spec_checksum s < 2048.
Proof.
  rewrite spec_checksum_eval. apply eval_lt. constructor; [reflexivity|]. apply spec_data_words_wf.
Qed.

Lemma canon_data_to_poly d : Canon d -> data_to_poly d = Some (spec_data_words (abs_data d)).
Proof.
  intros HC. destruct (canon_pack d HC) as (ws&E&->&_). unfold data_to_poly. rewrite E. reflexivity.
Qed.

Lemma canon_poly_of d c0 : Canon d -> poly_of c0 d = Some (c0 :: spec_data_words (abs_data d)).
Proof. intros HC. unfold poly_of. rewrite (canon_data_to_poly d HC). reflexivity. Qed.

Lemma canon_unpack d ck : Canon d ->
  poly_to_data (ck :: spec_data_words (abs_data d)) = Some (set_ck d ck).
Proof.
  intros HC. destruct (canon_pack d HC) as (ws&_&->&U). unfold poly_to_data. rewrite U. reflexivity.
Qed.

(* the check word test of the code is the specification's *)
Lemma check_iff_spec s c0 : c0 < 2048 ->
  poly_check (c0 :: spec_data_words s) = (c0 =? spec_checksum s).
Proof.
  intros H. unfold poly_check. rewrite spec_checksum_eval.
  destruct (spec_data_words_wf s) as [W _].
  pose proof (unique_check_word (spec_data_words s) W c0 H) as U.
  destruct (N.eqb_spec (poly_eval (c0 :: spec_data_words s)) 0) as [E|E];
  destruct (N.eqb_spec c0 (poly_eval (0 :: spec_data_words s))) as [F|F]; try reflexivity; tauto.
Qed.

Lemma valid_checks d : Valid d -> poly_check (d_checksum d :: spec_data_words (abs_data d)) = true.
Proof.
  intros [HC E]. rewrite check_iff_spec by (rewrite E; apply spec_checksum_lt). apply N.eqb_eq, E.
Qed.

Lemma valid_ck_lt d : Valid d -> d_checksum d < 2048.
Proof. intros [_ E]. rewrite E. apply spec_checksum_lt. Qed.

Lemma set_ck_canon d ck : Canon d -> Canon (set_ck d ck).
Proof. intros H. exact H. Qed.

Lemma valid_set_ck d : Canon d -> Valid (set_ck d (spec_checksum (abs_data d))).
Proof. intros H. split; [exact H | reflexivity]. Qed.

(* ----------------------------------------------------------------------- heaps *)
Definition abs_heap (hp : list (N * data)) : list (N * aseed) :=
  map (fun p => (fst p, abs_data (snd p))) hp.

Lemma aget_abs hp h : aget (abs_heap hp) h = option_map abs_data (heap_get hp h).
Proof.
  induction hp as [|[k d] hp IH]; [reflexivity|]. cbn. destruct (k =? h); [reflexivity | exact IH].
Qed.

Lemma aset_abs hp h d : abs_heap (heap_set hp h d) = aset (abs_heap hp) h (abs_data d).
Proof.
  induction hp as [|[k d0] hp IH]; [reflexivity|]. cbn. destruct (k =? h); cbn; [reflexivity|].
  f_equal. exact IH.
Qed.

Lemma adel_abs hp h : abs_heap (heap_del hp h) = adel (abs_heap hp) h.
Proof.
  induction hp as [|[k d0] hp IH]; [reflexivity|]. cbn. destruct (k =? h); cbn; [reflexivity|].
  f_equal. exact IH.
Qed.

Definition heap_valid (hp : list (N * data)) : Prop := Forall (fun p => Valid (snd p)) hp.

Lemma heap_get_valid hp h d : heap_valid hp -> heap_get hp h = Some d -> Valid d.
Proof.
  induction 1 as [|[k d0] hp V _ IH]; [discriminate|]. cbn. destruct (k =? h); [|exact IH].
  intros E. injection E as <-. exact V.
Qed.

Lemma heap_set_valid hp h d : heap_valid hp -> Valid d -> heap_valid (heap_set hp h d).
Proof.
  intros H V. induction H as [|[k d0] hp V0 H' IH]; [constructor|]. cbn.
  destruct (k =? h); constructor; cbn [snd]; assumption.
Qed.

Lemma heap_del_valid hp h : heap_valid hp -> heap_valid (heap_del hp h).
Proof.
  intros H. induction H as [|[k d0] hp V0 H' IH]; [constructor|]. cbn.
  destruct (k =? h); [exact H' | constructor; assumption].
Qed.

(* ----------------------------------------------------------------- small facts *)
Lemma join_sjoin sep ws : join sep ws = sjoin sep ws.
Proof.
  induction ws as [|w ws IH]; [reflexivity|]. destruct ws as [|w' ws]; [reflexivity|].
  change (join sep (w :: w' :: ws)) with (w ++ sep ++ join sep (w' :: ws)).
  change (sjoin sep (w :: w' :: ws)) with (w ++ sep ++ sjoin sep (w' :: ws)).
  rewrite IH. reflexivity.
Qed.

Lemma xor_coin_axor c coin : xor_coin c coin = axor_coin c coin.
Proof. reflexivity. Qed.

Lemma xor_bytes_sxor a b : xor_bytes a b = sxor a b.
Proof. revert b. induction a as [|x a IH]; intros [|y b]; cbn; try reflexivity. Qed.

Lemma land_63 x : N.land x CLEAR_MASK = x mod 64.
Proof. change CLEAR_MASK with (N.ones 6). rewrite N.land_ones. reflexivity. Qed.

Lemma lxor_lt_pow2 a b k : a < 2 ^ k -> b < 2 ^ k -> N.lxor a b < 2 ^ k.
Proof.
  intros Ha Hb. destruct (N.eq_dec (N.lxor a b) 0) as [E|E]; [rewrite E; apply N.neq_0_lt_0, N.pow_nonzero; discriminate|].
  apply N.log2_lt_pow2; [lia|].
  eapply N.le_lt_trans; [apply N.log2_lxor|].
  destruct (N.eq_dec a 0) as [Ea|Ea]; destruct (N.eq_dec b 0) as [Eb|Eb]; subst; cbn [N.log2].
  - exfalso. apply E. reflexivity.
  - rewrite N.max_r by lia. apply N.log2_lt_pow2; lia.
  - rewrite N.max_l by lia. apply N.log2_lt_pow2; lia.
  - apply N.max_lub_lt; apply N.log2_lt_pow2; lia.
Qed.

Lemma lxor_lt_256 a b : a < 256 -> b < 256 -> N.lxor a b < 256.
Proof. apply (lxor_lt_pow2 a b 8). Qed.

Lemma lxor_lt_32 a b : a < 32 -> b < 32 -> N.lxor a b < 32.
Proof. apply (lxor_lt_pow2 a b 5). Qed.

Lemma sxor_bytes a b : bytes_ok a -> bytes_ok b -> bytes_ok (sxor a b).
Proof.
  intros Ha. revert b. induction Ha as [|x a Hx Ha IH]; intros b Hb; [constructor|].
  destruct Hb as [|y b Hy Hb]; cbn [sxor]; constructor; try assumption.
  - apply lxor_lt_256; assumption.
  - apply IH, Hb.
Qed.

Lemma sxor_length a b : length (sxor a b) = length a.
Proof. revert b. induction a as [|x a IH]; intros [|y b]; cbn; try reflexivity. f_equal. apply IH. Qed.

Lemma upd_last {A} (l : list A) n v : length l = S n -> upd l n v = firstn n l ++ [v].
Proof.
  revert n. induction l as [|x l IH]; intros n H; [discriminate|].
  destruct n as [|n]; cbn.
  - destruct l; [reflexivity|discriminate].
  - f_equal. apply IH. cbn in H. lia.
Qed.

Lemma store32_le32 u : u < U32 -> store32 u = le32 u.
Proof. intros H. unfold store32, le32. cbv zeta. rewrite (N.mod_small u U32) by exact H. reflexivity. Qed.

(* ------------------------------------------------------------------- tokens *)
Lemma sfields_in s cur t b : In t (sfields s cur) -> In b t -> In b s \/ In b cur.
Proof.
  revert cur. induction s as [|c s IH]; intros cur Ht Hb.
  - cbn in Ht. destruct Ht as [<-|[]]. right. apply in_rev, Hb.
  - cbn [sfields] in Ht. destruct (Byte.eqb c x20).
    + destruct Ht as [<-|Ht]; [right; apply in_rev, Hb|].
      destruct (IH [] Ht Hb) as [H|[]]. left. right. exact H.
    + destruct (IH (c :: cur) Ht Hb) as [H|[H|H]]; [left; right; exact H | left; left; exact H | right; exact H].
Qed.

Lemma drop_last_empty_in f t : In t (drop_last_empty f) -> In t f.
Proof.
  unfold drop_last_empty. destruct (rev f) as [|x r] eqn:E; [tauto|].
  destruct x; [|tauto]. intros H. apply in_rev in H. apply in_rev. rewrite E. right. exact H.
Qed.

Lemma tokens_nonul s : no_nul s -> Forall no_nul (spec_tokens s).
Proof.
  intros H. apply Forall_forall. intros t Ht. rewrite spec_tokens_eq in Ht.
  apply drop_last_empty_in in Ht. intros Hb.
  destruct (sfields_in s [] t x00 Ht Hb) as [H'|[]]. exact (H H').
Qed.

(* ---------------------------------------------------- one language, all tokens *)
Lemma lookup_stripped_spec L toks :
  lookup_stripped L (map (strip L) (l_words L)) toks =
  (fix go (ts : list bytes) : option (list N) :=
     match ts with
     | [] => Some []
     | t :: ts' => match spec_find L t, go ts' with
                   | Some j, Some js => Some (N.of_nat j :: js)
                   | _, _ => None
                   end
     end) toks.
Proof. induction toks as [|t toks IH]; [reflexivity|]. cbn [lookup_stripped]. rewrite IH. reflexivity. Qed.

Theorem decode_words_spec sgn L ws : In L langs -> Forall no_nul ws ->
  decode_words sgn L ws = Some (spec_lookup_all L ws).
Proof.
  intros HL Hw. unfold spec_lookup_all. rewrite lookup_stripped_spec.
  induction Hw as [|w ws Hn Hw IH]; [reflexivity|].
  cbn [decode_words]. rewrite (search_is_spec_find sgn L w HL Hn), IH.
  destruct (spec_find L w) as [j|]; [|reflexivity].
  match goal with |- context [match ?X with Some _ => _ | None => _ end] => destruct X end; reflexivity.
Qed.

Lemma find_stripped_bound L k sws j0 j : find_stripped L k sws j0 = Some j -> (j < j0 + length sws)%nat.
Proof.
  revert j0. induction sws as [|e sws IH]; intros j0; cbn [find_stripped]; [discriminate|].
  destruct (accepts_stripped L k e).
  - intros E. injection E as <-. cbn [length]. lia.
  - intros E. apply IH in E. cbn [length]. lia.
Qed.

Lemma lookup_all_wf L toks idx : In L langs -> spec_lookup_all L toks = Some idx ->
  wf idx /\ length idx = length toks.
Proof.
  intros HL. unfold spec_lookup_all. revert idx.
  induction toks as [|t toks IH]; intros idx; cbn [lookup_stripped].
  - intros E. injection E as <-. split; [constructor|reflexivity].
  - destruct (find_stripped L (strip L t) (map (strip L) (l_words L)) 0) as [j|] eqn:Ej; [|discriminate].
    destruct (lookup_stripped L (map (strip L) (l_words L)) toks) as [js|]; [|discriminate].
    intros E. injection E as <-. destruct (IH js eq_refl) as [W Len].
    apply find_stripped_bound in Ej. rewrite map_length, (words_len L HL) in Ej.
    split; [constructor; [lia|exact W] | cbn [length]; congruence].
Qed.

(* ----------------------------------------------- the loop over the registry *)
Definition pd_of (have : option (list N * nat)) (m : list (nat * list N)) : pd_res :=
  match have, m with
  | None, [] => PdLang
  | None, [(l, idx)] => PdOk idx l
  | None, _ :: _ :: _ => PdMult
  | Some (idx, l), [] => PdOk idx l
  | Some _, _ :: _ => PdMult
  end.

Lemma phrase_decode_loop_spec sgn ls li ws have :
  (forall L, In L ls -> In L langs) -> Forall no_nul ws ->
  phrase_decode_loop sgn ls li ws have = pd_of have (matching ls li ws).
Proof.
  intros HL Hw. revert li have. induction ls as [|L ls IH]; intros li have.
  - cbn. destruct have as [[idx l]|]; reflexivity.
  - cbn [phrase_decode_loop matching].
    rewrite (decode_words_spec sgn L ws (HL L (or_introl eq_refl)) Hw).
    assert (HL' : forall L0, In L0 ls -> In L0 langs) by (intros; apply HL; right; assumption).
    destruct (spec_lookup_all L ws) as [idx|].
    + destruct have as [[idx0 l0]|]; [reflexivity|].
      rewrite (IH HL'). cbn [pd_of]. destruct (matching ls (S li) ws) as [|[l1 i1] [|? ?]]; reflexivity.
    + apply (IH HL').
Qed.

Theorem phrase_decode_spec sgn ws : Forall no_nul ws ->
  phrase_decode sgn langs ws = pd_of None (matching langs 0 ws).
Proof. intros H. apply phrase_decode_loop_spec; [tauto | exact H]. Qed.

Lemma matching_wf ls li ws l idx : (forall L, In L ls -> In L langs) ->
  In (l, idx) (matching ls li ws) -> wf idx /\ length idx = length ws.
Proof.
  intros HL. revert li. induction ls as [|L ls IH]; intros li; cbn [matching]; [intros []|].
  assert (HL' : forall L0, In L0 ls -> In L0 langs) by (intros; apply HL; right; assumption).
  destruct (spec_lookup_all L ws) as [idx0|] eqn:E.
  - intros [H|H]; [injection H as <- <-; apply (lookup_all_wf L ws idx0 (HL L (or_introl eq_refl)) E) | apply (IH HL' _ H)].
  - apply (IH HL').
Qed.

(* ------------------------------------------------------------------ storage *)
Theorem load_parse buf : length buf = 32%nat -> bytes_ok buf ->
  match data_load buf with
  | LoadFormat => spec_parse buf = None
  | LoadOk d => spec_parse buf = Some (abs_data d, d_checksum d)
  end.
Proof.
  intros Hl Hb.
  destruct (buf32_shape buf Hl) as (h0&h1&h2&h3&h4&h5&h6&h7&x8&x9&s0&s1&s2&s3&s4&s5&s6&s7&s8&s9&s10&s11&s12&s13&s14&s15&s16&s17&s18&x29&x30&x31&E).
  subst buf. unfold bytes_ok, buf32 in Hb.
  repeat match goal with H : Forall _ (_ :: _) |- _ =>
    let a := fresh "A" in let b := fresh "F" in (apply Forall_cons_iff in H; destruct H as [a b]) end.
  rewrite load_explicit. cbv zeta.
  unfold spec_parse, buf32. cbn [firstn skipn nth].
  change POLYSEED_ASCII with HEADER.
  destruct (list_eqb N.eqb [h0; h1; h2; h3; h4; h5; h6; h7] HEADER); cbn [negb]; [|reflexivity].
  rewrite !load16_small by assumption.
  rewrite shiftr_date, land_1023_mod, land_2047_mod, clear_mask_test by assumption.
  set (v1 := x8 + 256 * x9). set (v2 := x30 + 256 * x31).
  assert (V1 : v1 < 65536) by (unfold v1; lia). assert (V2 : v2 < 65536) by (unfold v2; lia).
  unfold FEATURE_MASK, EXTRA_BYTE, STORAGE_FOOTER.
  replace (32768 <=? v1) with (31 <? v1 / 1024)
    by (destruct (N.ltb_spec 31 (v1 / 1024)); destruct (N.leb_spec 32768 v1); try reflexivity; lia).
  destruct (31 <? v1 / 1024); [reflexivity|].
  replace (64 <=? s18) with (negb (s18 <? 64))
    by (destruct (N.ltb_spec s18 64); destruct (N.leb_spec 64 s18); try reflexivity; lia).
  destruct (s18 <? 64); cbn [negb]; [|reflexivity].
  destruct (x29 =? 255); cbn [negb]; [|reflexivity].
  replace (v2 / 2048 =? 14) with (v2 - v2 mod 2048 =? 28672)
    by (destruct (N.eqb_spec (v2 / 2048) 14); destruct (N.eqb_spec (v2 - v2 mod 2048) 28672); try reflexivity; lia).
  destruct (v2 - v2 mod 2048 =? 28672); cbn [negb]; reflexivity.
Qed.
