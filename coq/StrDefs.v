(* dependency.h: utf8_nfkd_lazy; polyseed.c: str_split, write_str.  Mirrors.
   A C string is a `bytes` value without NUL; reading at [] reads the
   terminator.  Buffers of POLYSEED_STR_SIZE cells: writing cell STR_SIZE or
   beyond is a fault (None). *)
From PS Require Import Base.
From PS.Gen Require Import Consts.
Local Open Scope N_scope.

Definition transform := bytes -> bytes * N.   (* polyseed_transform: content written, value returned *)

(* utf8_nfkd_lazy: scan at most STR_SIZE-1 bytes; the first non-ASCII byte
   hands the WHOLE input to the injected normaliser. *)
Fixpoint nfkd_scan (nfkd : transform) (whole : bytes) (pos : bytes) (size : N) (acc : bytes)
  : bytes * N * bool (* normaliser called? *) :=
  match pos with
  | [] => (rev acc, size, false)
  | c :: pos' =>
    if size <? STR_SIZE - 1 then
      if is_nonascii c then (fst (nfkd whole), snd (nfkd whole), true)
      else nfkd_scan nfkd whole pos' (size + 1) (c :: acc)
    else (rev acc, size, false)
  end.

Definition nfkd_lazy (nfkd : transform) (str : bytes) : bytes * N * bool :=
  nfkd_scan nfkd str str 0 [].

(* str_split: (w, words).  w is the C return value (0..17). *)
Definition SPACE : byte := x20.
Definition is_space (b : byte) : bool := Byte.eqb b SPACE.

Fixpoint split_go (s : bytes) (cur : bytes) (w : nat) (acc : list bytes) : nat * list bytes :=
  match s with
  | [] => (S w, rev (rev cur :: acc))          (* token ended by the terminator *)
  | c :: s' =>
    if is_space c then
      let w' := S w in
      let acc' := rev cur :: acc in
      if Nat.eqb w' 16 then ((match s' with [] => 16 | _ => 17 end)%nat, rev acc')
      else match s' with
           | [] => (w', rev acc')               (* outer loop sees the terminator *)
           | _ => split_go s' [] w' acc'
           end
    else split_go s' (c :: cur) w acc
  end.

Definition str_split (s : bytes) : nat * list bytes :=
  match s with
  | [] => (O, [])
  | _ => split_go s [] 0 []
  end.

(* the loop of polyseed_encode: words separated by the separator, written into
   str_tmp.  None = a write beyond the buffer. *)
Fixpoint join (sep : bytes) (ws : list bytes) : bytes :=
  match ws with
  | [] => []
  | [w] => w
  | w :: ws' => w ++ sep ++ join sep ws'
  end.

Definition write_phrase (sep : bytes) (ws : list bytes) : option bytes :=
  let s := join sep ws in
  if N.of_nat (length s) <? STR_SIZE then Some s else None.
