(* C20 - the library can be used from several threads on distinct seeds without interference
   (partial: API calls are atomic steps of the model; interleaving INSIDE a call - a static
   scratch buffer - is tied by the write-protected-segment run and ThreadSanitizer, DESIGN.md). *)
From PS Require Import Base ApiDefs TraceProofs FrameProofs.
Local Open Scope N_scope.

(* only polyseed_inject and polyseed_enable_features write the shared state (dependency table,
   reserved-feature mask); every other call leaves it as it was *)
Theorem C20_globals : forall sgn ls cs o, is_setup o = false ->
  st_deps (stp (step sgn ls cs o)) = st_deps cs /\ st_reserved (stp (step sgn ls cs o)) = st_reserved cs.
Proof. exact globals_frame. Qed.
Print Assumptions C20_globals.

(* a call on seed h writes no other seed ... *)
Theorem C20_frame : forall sgn ls cs o h k, Distinct cs -> touches o = Some h -> k <> h ->
  heap_get (st_heap (stp (step sgn ls cs o))) k = heap_get (st_heap cs) k.
Proof. exact handle_frame. Qed.
Print Assumptions C20_frame.

(* ... and reads nothing but the table, the mask and seed h: from two states that agree on those,
   it returns the same output, makes the same calls to injected functions, and the states still agree *)
Theorem C20_view : forall sgn ls a b o h mine, Distinct a -> Distinct b -> touches o = Some h -> mine h = true ->
  same_view mine a b ->
  outp (step sgn ls a o) = outp (step sgn ls b o) /\ evp (step sgn ls a o) = evp (step sgn ls b o) /\
  same_view mine (stp (step sgn ls a o)) (stp (step sgn ls b o)).
Proof. exact handle_view. Qed.
Print Assumptions C20_view.

(* ANY interleaving: `ops` is the global order in which calls on seeds took effect; `mine` picks
   one thread's seeds (any set).  That thread's results - outputs and injected calls, in order - are
   exactly those of running its own calls alone; the other threads' calls are invisible to it.
   Holds for every thread (every choice of `mine`), any number of threads, any schedule. *)
Theorem C20_serial : forall sgn ls mine ops a b,
  Distinct a -> Distinct b -> same_view mine a b -> forallb handle_op ops = true ->
  my_results mine ops (snd (run sgn ls a ops)) = snd (run sgn ls b (filter (is_mine mine) ops)) /\
  same_view mine (fst (run sgn ls a ops)) (fst (run sgn ls b (filter (is_mine mine) ops))).
Proof. exact interleaving_invisible. Qed.
Print Assumptions C20_serial.

Theorem C20_distinct_preserved : forall sgn ls cs o, Distinct cs -> Distinct (stp (step sgn ls cs o)).
Proof. exact step_distinct. Qed.
Print Assumptions C20_distinct_preserved.

Example C20_premise : Distinct init_state /\ same_view (fun _ => true) init_state init_state.
Proof. split; [exact distinct_init|]. repeat split. Qed.
