(* C08 - abbreviated and unaccented tokens are accepted by one exact rule, and only by it. *)
From PS Require Import Base LangDefs SpecDefs LangProofs LangData.
From PS.Gen Require Import Langs.

(* the rule: with ' = "drop every byte >= 0x80" in Spanish and French and identity elsewhere,
   key' = w'  or  (abbreviating language, |key'| >= 4, key' a prefix of w') *)
Theorem C08_rule : forall L key w, accepts_b L key w = true <-> Accepts L key w.
Proof.
  intros L key w. unfold accepts_b, accepts_stripped, Accepts.
  rewrite orb_true_iff, bytes_eqb_eq, !andb_true_iff, Nat.leb_le. tauto.
Qed.
Print Assumptions C08_rule.

(* the search (binary for sorted lists, linear for the Chinese ones) returns index j exactly
   when word j accepts the token - for every byte string without NUL, either signedness *)
Theorem C08_accept_iff : forall sgn L key j, In L langs -> no_nul key ->
  (lang_search sgn L key = Some (Some j) <->
   (j < 2048)%nat /\ accepts_b L key (nth j (l_words L) []) = true).
Proof. exact search_accepts. Qed.
Print Assumptions C08_accept_iff.

Theorem C08_reject_iff : forall sgn L key, In L langs -> no_nul key ->
  (lang_search sgn L key = Some None <->
   forall j, (j < 2048)%nat -> accepts_b L key (nth j (l_words L) []) = false).
Proof. exact search_none. Qed.
Print Assumptions C08_reject_iff.

(* at most one word accepts a token *)
Theorem C08_unique : forall L key i j, In L langs -> (i < 2048)%nat -> (j < 2048)%nat ->
  accepts_b L key (nth i (l_words L) []) = true ->
  accepts_b L key (nth j (l_words L) []) = true -> i = j.
Proof.
  intros L key i j HL Hi Hj. apply accepts_unique; [apply keys_nodup, HL | |];
    rewrite words_len by exact HL; assumption.
Qed.
Print Assumptions C08_unique.

(* the search never faults (the binary search never runs out of its 13 steps) *)
Theorem C08_total : forall sgn L key, In L langs -> lang_search sgn L key <> None.
Proof. exact search_total. Qed.
Print Assumptions C08_total.

(* the code's search is the specification's lookup *)
Theorem C08_is_spec : forall sgn L key, In L langs -> no_nul key ->
  lang_search sgn L key = Some (spec_find L key).
Proof. exact search_is_spec_find. Qed.
Print Assumptions C08_is_spec.

(* examples of the rule on the Spanish list (registry position 3) *)
Example C08_examples :
  let es := nth 3 langs (Build_lang [] [] [] false false false false []) in
  spec_find es [x72;x61;x7a;x6f;xcc;x81] = spec_find es [x72;x61;x7a;x6f;xcc;x81;x6e]  (* razo+acute = razon+acute *)
  /\ spec_find es [x72;x61;x7a;x6f] = spec_find es [x72;x61;x7a;x6f;xcc;x81;x6e]          (* razo *)
  /\ spec_find es [x72;x61;x7a] = None                                                    (* raz: too short *)
  /\ spec_find es [x72;x61;x7a;x6f;x6e;x78] = None.                                       (* razonx *)
Proof. vm_compute. repeat split. Qed.
