(* lang.c: the four comparers, the search, phrase decoding.  Mirrors.
   `sgn` = plain char is signed.  Only the final (a > b) - (a < b) of each
   comparer looks at the sign of a char; "non-ASCII" is bit 7. *)
From PS Require Import Base.
Local Open Scope Z_scope.

Definition cur (s : bytes) : byte := hd x00 s.
Definition ordc (sgn : bool) (s : bytes) : Z := ord sgn (cur s).
Definition is_nil {A} (l : list A) : bool := match l with [] => true | _ => false end.

(* while (non-ASCII) ++p *)
Fixpoint skip_na (s : bytes) : bytes :=
  match s with
  | c :: s' => if is_nonascii c then skip_na s' else s
  | [] => []
  end.

Fixpoint compare_str (sgn : bool) (key elm : bytes) : Z :=
  match key with
  | [] => sign3 0 (ordc sgn elm)
  | k :: key' =>
    match elm with
    | e :: elm' => if Byte.eqb k e then compare_str sgn key' elm'
                   else sign3 (ord sgn k) (ord sgn e)
    | [] => sign3 (ord sgn k) 0
    end
  end.

Fixpoint compare_prefix (sgn : bool) (key elm : bytes) (i n : N) : Z :=
  match key with
  | [] => sign3 0 (ordc sgn elm)
  | k :: key' =>
    if (n <=? i)%N && is_nil key' then sign3 (ord sgn k) (ordc sgn elm)
    else match elm with
         | e :: elm' => if Byte.eqb k e then compare_prefix sgn key' elm' (i + 1)%N n
                        else sign3 (ord sgn k) (ord sgn e)
         | [] => sign3 (ord sgn k) 0
         end
  end.

Fixpoint compare_str_noaccent (sgn : bool) (key elm : bytes) : Z :=
  match key with
  | [] => sign3 0 (ordc sgn (skip_na elm))
  | k :: key' =>
    if is_nonascii k then compare_str_noaccent sgn key' elm
    else match skip_na elm with
         | e :: elm' => if Byte.eqb k e then compare_str_noaccent sgn key' elm'
                        else sign3 (ord sgn k) (ord sgn e)
         | [] => sign3 (ord sgn k) 0
         end
  end.

Fixpoint compare_prefix_noaccent (sgn : bool) (key elm : bytes) (i n : N) : Z :=
  match key with
  | [] => sign3 0 (ordc sgn (skip_na elm))
  | k :: key' =>
    if is_nonascii k then compare_prefix_noaccent sgn key' elm i n
    else if (n <=? i)%N && is_nil (skip_na key') then sign3 (ord sgn k) (ordc sgn (skip_na elm))
    else match skip_na elm with
         | e :: elm' => if Byte.eqb k e then compare_prefix_noaccent sgn key' elm' (i + 1)%N n
                        else sign3 (ord sgn k) (ord sgn e)
         | [] => sign3 (ord sgn k) 0
         end
  end.

Definition NUM_CHARS_PREFIX : N := 4.

(* get_comparer *)
Definition comparer (sgn : bool) (L : lang) (key elm : bytes) : Z :=
  if l_has_prefix L then
    if l_has_accents L then compare_prefix_noaccent sgn key elm 1 NUM_CHARS_PREFIX
    else compare_prefix sgn key elm 1 NUM_CHARS_PREFIX
  else
    if l_has_accents L then compare_str_noaccent sgn key elm
    else compare_str sgn key elm.

(* glibc bsearch: None = fuel exhausted (never, see LangProofs) *)
Fixpoint bsearch_loop (fuel : nat) (f : nat -> Z) (l u : nat) : option (option nat) :=
  match fuel with
  | O => None
  | S fuel' =>
    if Nat.ltb l u then
      let idx := Nat.div2 (l + u) in
      let c := f idx in
      if c <? 0 then bsearch_loop fuel' f l idx
      else if 0 <? c then bsearch_loop fuel' f (S idx) u
      else Some (Some idx)
    else Some None
  end.

Fixpoint linear_find (f : bytes -> Z) (ws : list bytes) (j : nat) : option nat :=
  match ws with
  | [] => None
  | w :: ws' => if f w =? 0 then Some j else linear_find f ws' (S j)
  end.

Definition LANG_SIZE_nat : nat := 2048.

(* lang_search / polyseed_lang_find_word: Some (Some j) = index j,
   Some None = -1, None = bsearch ran out of fuel *)
Definition lang_search (sgn : bool) (L : lang) (key : bytes) : option (option nat) :=
  if l_is_sorted L then
    bsearch_loop 13 (fun j => comparer sgn L key (nth j (l_words L) [])) 0 LANG_SIZE_nat
  else Some (linear_find (comparer sgn L key) (l_words L) 0).

(* for (wi = 0; wi < 16; ++wi) { value = lang_search(...); if (value < 0) fail } *)
Fixpoint decode_words (sgn : bool) (L : lang) (ws : list bytes) : option (option (list N)) :=
  match ws with
  | [] => Some (Some [])
  | w :: ws' =>
    match lang_search sgn L w with
    | None => None
    | Some None => Some None
    | Some (Some j) =>
      match decode_words sgn L ws' with
      | None => None
      | Some None => Some None
      | Some (Some js) => Some (Some (N.of_nat j :: js))
      end
    end
  end.

Inductive pd_res :=
| PdFault
| PdLang                         (* POLYSEED_ERR_LANG *)
| PdMult                         (* POLYSEED_ERR_MULT_LANG *)
| PdOk (idx : list N) (li : nat) (* indices, registry position of the language *).

(* polyseed_phrase_decode: the loop over the registry *)
Fixpoint phrase_decode_loop (sgn : bool) (ls : list lang) (li : nat) (ws : list bytes)
  (have : option (list N * nat)) : pd_res :=
  match ls with
  | [] => match have with Some (idx, l) => PdOk idx l | None => PdLang end
  | L :: ls' =>
    match decode_words sgn L ws with
    | None => PdFault
    | Some None => phrase_decode_loop sgn ls' (S li) ws have
    | Some (Some idx) =>
      match have with
      | Some _ => PdMult
      | None => phrase_decode_loop sgn ls' (S li) ws (Some (idx, li))
      end
    end
  end.

Definition phrase_decode (sgn : bool) (langs : list lang) (ws : list bytes) : pd_res :=
  phrase_decode_loop sgn langs 0 ws None.

(* polyseed_phrase_decode_explicit *)
Definition phrase_decode_explicit (sgn : bool) (L : lang) (ws : list bytes) : option (option (list N)) :=
  decode_words sgn L ws.
