(* gf.h as translated from the current source (Gen/CFuns.v) against the mirrors: the doubling table,
   gf_elem_mul2 on all 2048 elements (exhaustive), gf_poly_eval on every 16 coefficients. *)
From PS Require Import Base GFDefs MiscDefs SpecDefs GFProofs MiscProofs CTieBase.
From PS.Gen Require Import PrivConsts.
From PS.Gen Require CFuns.
Local Open Scope N_scope.

(* ---- gf.c / gf.h *)
Theorem tie_table : CFuns.polyseed_mul2_table = map zN mul2_table.
Proof. reflexivity. Qed.

Theorem tie_mul2 x : x < 2048 -> CFuns.gf_elem_mul2 CFuns.polyseed_mul2_table (zN x) = zN (mul2 x).
Proof.
  intros H. apply Z.eqb_eq.
  apply (sweep2048 (fun x => Z.eqb (CFuns.gf_elem_mul2 CFuns.polyseed_mul2_table (zN x)) (zN (mul2 x))));
    [vm_compute; reflexivity | exact H].
Qed.

Lemma tie_step r x : r < 2048 -> x < 2048 ->
  ((Z.lxor (CFuns.gf_elem_mul2 CFuns.polyseed_mul2_table (zN r)) (zN x)) mod 18446744073709551616)%Z
  = zN (N.lxor (mul2 r) x).
Proof.
  intros Hr Hx. rewrite (tie_mul2 r Hr), <- zN_lxor.
  pose proof (lxor_lt_2048 _ _ (mul2_lt r Hr) Hx). apply Z.mod_small. lia.
Qed.

Ltac lt2048 := first [assumption | apply lxor_lt_2048; [apply mul2_lt; lt2048 | assumption]].

Theorem tie_eval c : length c = 16%nat -> wf c ->
  CFuns.gf_poly_eval CFuns.polyseed_mul2_table (map zN c) = zN (poly_eval c).
Proof.
  intros Hl Hw. do 16 (destruct c as [|? c]; [discriminate|]). destruct c; [|discriminate]. clear Hl.
  unfold wf in Hw.
  repeat match goal with H : Forall _ (_ :: _) |- _ =>
    let a := fresh "A" in let b := fresh "F" in (apply Forall_cons_iff in H; destruct H as [a b]) end.
  unfold CFuns.gf_poly_eval.
  lazy -[CFuns.gf_elem_mul2 CFuns.polyseed_mul2_table Z.lxor Z.modulo Z.of_N mul2 N.lxor poly_eval].
  rewrite (Z.mod_small (zN n14)) by lia.
  unfold poly_eval. cbn [fold_right].
  replace (N.lxor (mul2 0) n14) with n14 by (rewrite mul2_0; reflexivity).
  repeat (rewrite tie_step by lt2048). reflexivity.
Qed.

