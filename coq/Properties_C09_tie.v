(* C09 - the tie to the code: theorems about the Gallina that tools/c2coq.py generates from /repo's CURRENT
   sources on every run (Gen/CFuns.v, Gen/CApi.v).  Kept apart from Properties_C09.v so that a change to the C code
   which breaks a tie leaves the theorems about the model standing, and the other way round. *)
From PS Require Import Base StrDefs ApiDefs SpecDefs SpecApi StrProofs LangData ApiLemmas RefineProofs ApiTheorems.
From PS Require Import LangDefs CTieLang CTieStr CTiePhrase.
From PS.Gen Require CFuns.
From PS.Gen Require Import Consts Langs.
Local Open Scope N_scope.

(* ---- the tie to the code: utf8_nfkd_lazy (dependency.h) as TRANSLATED from /repo's current source on
   this run (Gen/CFuns.v) computes what the mirror StrDefs.nfkd_lazy computes - for EVERY C string,
   EVERY injected normaliser D (its result taken as given), EVERY previous content of the destination
   buffer of POLYSEED_STR_SIZE cells: either D's result, or the copied prefix followed by the
   terminator with every other cell untouched (so no cell at or beyond POLYSEED_STR_SIZE is written) *)
Theorem C09_code_tie_lazy : forall sgn (nf : transform) (D : list Z -> list Z * Z) s norm0 fuel,
  no_nul s -> length norm0 = N.to_nat STR_SIZE -> (length s + 2 <= fuel)%nat ->
  (D (zs s) = (zs (fst (nf s)), Z.of_N (snd (nf s)))) ->
  CFuns.utf8_nfkd_lazy fuel sgn D (zs s) norm0 =
    let '(content, size, called) := nfkd_lazy nf s in
    if called then Some (zs content, Z.of_N size)
    else Some (zs content ++ 0%Z :: skipn (S (length content)) norm0, Z.of_N size).
Proof. exact tie_nfkd_lazy_mirror. Qed.
Print Assumptions C09_code_tie_lazy.

(* ---- the tie to the code: the language loop of lang.c as TRANSLATED from /repo's current source on this
   run (Gen/CFuns.v: both loops fuelled; break, continue and the early return for MULT_LANG as flags of
   the loop state; lang_search an outside function `ext` that answers as the mirror search does) gives,
   for EVERY sixteen tokens: OK with the indices of the one language that recognises them all (and its
   registry position through lang_out unless that is NULL), ERR_LANG with nothing written when none
   does, ERR_MULT_LANG as soon as a second one does - exactly LangDefs.phrase_decode *)
Theorem C09_code_tie_auto :
  forall (sgn : bool) (ext : Z -> list Z -> Z) (OKW : bytes -> Prop) (ws : list bytes) 
           (io0 : list Z) (lo lo0 : Z) (fuel : nat),
         (forall (li : nat) (L : lang) (w : bytes),
          OKW w -> nth_error langs li = Some L -> ext (Z.of_nat li) (zs w) = enc (lang_search sgn L w)) ->
         Forall OKW ws ->
         Datatypes.length ws = 16%nat ->
         Datatypes.length io0 = 16%nat ->
         (18 <= fuel)%nat ->
         Res io0 lo lo0 (phrase_decode sgn langs ws)
           (CFuns.polyseed_phrase_decode fuel ext (map zs ws) io0 lo lo0).
Proof. exact @tie_phrase_decode_langs. Qed.
Print Assumptions C09_code_tie_auto.

Theorem C09_code_tie_explicit :
  forall (sgn : bool) (ext : Z -> list Z -> Z) (OKW : bytes -> Prop) (li : nat) 
           (L : lang) (ws : list bytes) (io0 : list Z) (fuel : nat),
         (forall (li0 : nat) (L0 : lang) (w : bytes),
          OKW w -> nth_error langs li0 = Some L0 -> ext (Z.of_nat li0) (zs w) = enc (lang_search sgn L0 w)) ->
         nth_error langs li = Some L ->
         Forall OKW ws ->
         Datatypes.length ws = 16%nat ->
         Datatypes.length io0 = 16%nat ->
         (18 <= fuel)%nat ->
         exists io : list Z,
           CFuns.polyseed_phrase_decode_explicit fuel ext (map zs ws) (Z.of_nat li) io0 =
           match decode_words sgn L ws with
           | Some (Some js) => Some (map Z.of_N js, 0%Z)
           | _ => Some (io, 2%Z)
           end.
Proof. exact @tie_phrase_decode_explicit_langs. Qed.
Print Assumptions C09_code_tie_explicit.

(* ---- the tie to the code: src/polyseed.c as TRANSLATED on this run (Gen/CApi.v) ---- *)
From Coq Require Import String.
From PS Require Import Base GFDefs PackDefs StoreDefs MiscDefs StrDefs LangDefs ApiDefs SpecDefs SpecApi GFProofs PackProofs StoreProofs RefineProofs RoundTrip TraceProofs FrameProofs SafetyProofs CTieBase CTieLang CTiePhrase CTiePhraseEv CTieSplit CTieApi CTieDecode CTieEncode CTieLocals CTieInject CTieCmp CTieSearch CTieClosed CodeTheorems HeldProofs CodeMachine.
From PS.Gen Require Import Consts PrivConsts Langs.
From PS.Gen Require CFuns.
From PS.Gen Require CApi.

(* str_split as translated (offsets into the buffer, separators overwritten in place): the count returned and the tokens designated are the mirror's, for every NUL-free content *)
Theorem C09_code_tie_split :
  forall (fuel : nat) (sgn : bool) (tail : list Z),
         tail = [] \/ (exists r : list Z, tail = 0%Z :: r) ->
         forall (content : bytes) (words0 : list Z),
         no_nul content ->
         Datatypes.length words0 = 16%nat ->
         (Datatypes.length content + 2 <= fuel)%nat ->
         exists Bf' words' : list Z,
           CApi.str_split fuel sgn (zs content ++ tail) words0 =
           Some (Bf', words', Z.of_nat (fst (str_split content))) /\
           Datatypes.length words' = 16%nat /\ Q Bf' words' (snd (str_split content)).
Proof. exact @tie_str_split. Qed.
Print Assumptions C09_code_tie_split.

(* polyseed_decode as translated against the mirror step (lang_search an external function that answers as the mirror search) *)
Theorem C09_code_tie_api_decode :
  forall (sgn : bool) (st : state) (fuel : nat) (D : list Z -> list Z * Z) (ext : Z -> list Z -> Z)
           (OKW : bytes -> Prop),
         (forall (li : nat) (L : lang) (w : bytes),
          OKW w -> nth_error langs li = Some L -> ext (Z.of_nat li) (zs w) = enc (lang_search sgn L w)) ->
         (forall t : bytes, no_nul t -> (Datatypes.length t + 2 <= fuel)%nat -> OKW t) ->
         (18 <= fuel)%nat ->
         forall (str : bytes) (coin : N) (ok : bool) (lo lo0 gb gf : Z) (gs : list Z) (gc so0 : Z),
         no_nul str ->
         coin < 2048 ->
         (Datatypes.length str + 2 <= fuel)%nat ->
         D (zs str) = (zs (fst (dp_nfkd (st_deps st) str)), Z.of_N (snd (dp_nfkd (st_deps st) str))) ->
         no_nul (fst (dp_nfkd (st_deps st) str)) ->
         (Datatypes.length (fst (dp_nfkd (st_deps st) str)) + 2 <= fuel)%nat ->
         let
         '(st', out0, evs) := step sgn langs st (OpDecode str coin ok) in
          exists (cevs : list CApi.cev) (lo' b f : Z) (s : list Z) (c so status : Z),
            CApi.polyseed_decode fuel sgn D ext (alloc_ptr st ok) CFuns.polyseed_mul2_table
              (Z.of_N (st_reserved st)) (zs str) (Z.of_N coin) lo lo0 gb gf gs gc so0 =
            Some (cevs, lo', b, f, s, c, so, status) /\
            evs_of (st_deps st) cevs = evs /\
            (exists li : nat,
               out0 =
               OutStatus (Z.to_N status) (if (status =? 0)%Z then Some (st_next st) else None)
                 (if (status =? 0)%Z then Some li else None) /\
               (status = 0%Z -> (lo <> 0%Z -> lo' = Z.of_nat li) /\ (lo = 0%Z -> lo' = lo0))) /\
            (if (status =? 0)%Z
             then
              so = ptr (st_next st) /\
              (exists d : data, st_heap st' = (st_next st, d) :: st_heap st /\ (b, f, s, c) = zd d)
             else so = so0 /\ st_heap st' = st_heap st).
Proof. exact @tie_decode. Qed.
Print Assumptions C09_code_tie_api_decode.

(* polyseed_decode_explicit as translated against the mirror step *)
Theorem C09_code_tie_api_decode_explicit :
  forall (sgn : bool) (st : state) (fuel : nat) (D : list Z -> list Z * Z) (ext : Z -> list Z -> Z)
           (OKW : bytes -> Prop),
         (forall (li : nat) (L : lang) (w : bytes),
          OKW w -> nth_error langs li = Some L -> ext (Z.of_nat li) (zs w) = enc (lang_search sgn L w)) ->
         (forall t : bytes, no_nul t -> (Datatypes.length t + 2 <= fuel)%nat -> OKW t) ->
         (18 <= fuel)%nat ->
         forall (str : bytes) (coin : N) (li : nat) (L : lang) (ok : bool) (gb gf : Z) 
           (gs : list Z) (gc so0 : Z),
         nth_error langs li = Some L ->
         no_nul str ->
         coin < 2048 ->
         (Datatypes.length str + 2 <= fuel)%nat ->
         D (zs str) = (zs (fst (dp_nfkd (st_deps st) str)), Z.of_N (snd (dp_nfkd (st_deps st) str))) ->
         no_nul (fst (dp_nfkd (st_deps st) str)) ->
         (Datatypes.length (fst (dp_nfkd (st_deps st) str)) + 2 <= fuel)%nat ->
         let
         '(st', out0, evs) := step sgn langs st (OpDecodeExplicit str coin li ok) in
          exists (cevs : list CApi.cev) (b f : Z) (s : list Z) (c so status : Z),
            CApi.polyseed_decode_explicit fuel sgn D ext (alloc_ptr st ok) CFuns.polyseed_mul2_table
              (Z.of_N (st_reserved st)) (zs str) (Z.of_N coin) (Z.of_nat li) gb gf gs gc so0 =
            Some (cevs, b, f, s, c, so, status) /\
            evs_of (st_deps st) cevs = evs /\
            out0 = OutStatus (Z.to_N status) (if (status =? 0)%Z then Some (st_next st) else None) None /\
            (if (status =? 0)%Z
             then
              so = ptr (st_next st) /\
              (exists d : data, st_heap st' = (st_next st, d) :: st_heap st /\ (b, f, s, c) = zd d)
             else so = so0 /\ st_heap st' = st_heap st).
Proof. exact @tie_decode_explicit. Qed.
Print Assumptions C09_code_tie_api_decode_explicit.

(* the chain closed: polyseed_decode as translated, the search of the language loop being the TRANSLATED polyseed_lang_find_word; left as hypotheses only libc bsearch (contract), the injected normaliser and the allocator *)
Theorem C09_code_tie_decode_closed :
  forall (sgn : bool) (fuel : nat) (BS : Z -> list Z -> Z -> Z -> Z),
         (2050 <= fuel)%nat ->
         (forall (li : nat) (L : lang) (key : bytes),
          nth_error langs li = Some L ->
          no_nul key ->
          BS (Z.of_nat li) (zs key) 2048%Z
            (CApi.get_comparer (flag (l_has_prefix L)) (flag (l_has_accents L)) (Z.of_nat li)) =
          enc (bsearch_loop 13 (fun j : nat => comparer sgn L key (nth j (l_words L) [])) 0 LANG_SIZE_nat)) ->
         forall (st : state) (D : list Z -> list Z * Z) (str : bytes) (coin : N) (ok : bool) 
           (lo lo0 gb gf : Z) (gs : list Z) (gc so0 : Z),
         no_nul str ->
         coin < 2048 ->
         (Datatypes.length str + 2 <= fuel)%nat ->
         let nf := dp_nfkd (st_deps st) in
         D (zs str) = (zs (fst (nf str)), Z.of_N (snd (nf str))) ->
         no_nul (fst (nf str)) ->
         (Datatypes.length (fst (nf str)) + 2 <= fuel)%nat ->
         let
         '(st', out0, evs) := step sgn langs st (OpDecode str coin ok) in
          exists (cevs : list CApi.cev) (lo' b f : Z) (s : list Z) (c so status : Z),
            CApi.polyseed_decode fuel sgn D (ext_code sgn fuel BS) (alloc_ptr st ok) CFuns.polyseed_mul2_table
              (Z.of_N (st_reserved st)) (zs str) (Z.of_N coin) lo lo0 gb gf gs gc so0 =
            Some (cevs, lo', b, f, s, c, so, status) /\
            evs_of (st_deps st) cevs = evs /\
            (exists li : nat,
               out0 =
               OutStatus (Z.to_N status) (if (status =? 0)%Z then Some (st_next st) else None)
                 (if (status =? 0)%Z then Some li else None) /\
               (status = 0%Z -> (lo <> 0%Z -> lo' = Z.of_nat li) /\ (lo = 0%Z -> lo' = lo0))) /\
            (if (status =? 0)%Z
             then
              so = ptr (st_next st) /\
              (exists d : data, st_heap st' = (st_next st, d) :: st_heap st /\ (b, f, s, c) = zd d)
             else so = so0 /\ st_heap st' = st_heap st).
Proof. exact @tie_decode_closed. Qed.
Print Assumptions C09_code_tie_decode_closed.

(* the same for polyseed_decode_explicit *)
Theorem C09_code_tie_decode_explicit_closed :
  forall (sgn : bool) (fuel : nat) (BS : Z -> list Z -> Z -> Z -> Z),
         (2050 <= fuel)%nat ->
         (forall (li : nat) (L : lang) (key : bytes),
          nth_error langs li = Some L ->
          no_nul key ->
          BS (Z.of_nat li) (zs key) 2048%Z
            (CApi.get_comparer (flag (l_has_prefix L)) (flag (l_has_accents L)) (Z.of_nat li)) =
          enc (bsearch_loop 13 (fun j : nat => comparer sgn L key (nth j (l_words L) [])) 0 LANG_SIZE_nat)) ->
         forall (st : state) (D : list Z -> list Z * Z) (str : bytes) (coin : N) (li : nat) 
           (L : lang) (ok : bool) (gb gf : Z) (gs : list Z) (gc so0 : Z),
         nth_error langs li = Some L ->
         no_nul str ->
         coin < 2048 ->
         (Datatypes.length str + 2 <= fuel)%nat ->
         let nf := dp_nfkd (st_deps st) in
         D (zs str) = (zs (fst (nf str)), Z.of_N (snd (nf str))) ->
         no_nul (fst (nf str)) ->
         (Datatypes.length (fst (nf str)) + 2 <= fuel)%nat ->
         let
         '(st', out0, evs) := step sgn langs st (OpDecodeExplicit str coin li ok) in
          exists (cevs : list CApi.cev) (b f : Z) (s : list Z) (c so status : Z),
            CApi.polyseed_decode_explicit fuel sgn D (ext_code sgn fuel BS) (alloc_ptr st ok)
              CFuns.polyseed_mul2_table (Z.of_N (st_reserved st)) (zs str) (Z.of_N coin) 
              (Z.of_nat li) gb gf gs gc so0 = Some (cevs, b, f, s, c, so, status) /\
            evs_of (st_deps st) cevs = evs /\
            out0 = OutStatus (Z.to_N status) (if (status =? 0)%Z then Some (st_next st) else None) None /\
            (if (status =? 0)%Z
             then
              so = ptr (st_next st) /\
              (exists d : data, st_heap st' = (st_next st, d) :: st_heap st /\ (b, f, s, c) = zd d)
             else so = so0 /\ st_heap st' = st_heap st).
Proof. exact @tie_decode_explicit_closed. Qed.
Print Assumptions C09_code_tie_decode_explicit_closed.
