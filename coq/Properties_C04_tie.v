(* C04 - the tie to the code: theorems about the Gallina that tools/c2coq.py generates from /repo's CURRENT
   sources on every run (Gen/CFuns.v, Gen/CApi.v).  Kept apart from Properties_C04.v so that a change to the C code
   which breaks a tie leaves the theorems about the model standing, and the other way round. *)
From PS Require Import Base PackDefs ApiDefs SpecDefs SpecApi PackTheorems ApiLemmas RefineProofs ApiTheorems.
From PS.Gen Require Import Consts Langs.
Local Open Scope N_scope.

(* ---- the tie to the code: src/polyseed.c as TRANSLATED on this run (Gen/CApi.v) ---- *)
From Coq Require Import String.
From PS Require Import Base GFDefs PackDefs StoreDefs MiscDefs StrDefs LangDefs ApiDefs SpecDefs SpecApi GFProofs PackProofs StoreProofs RefineProofs RoundTrip TraceProofs FrameProofs SafetyProofs CTieBase CTieLang CTiePhrase CTiePhraseEv CTieSplit CTieApi CTieDecode CTieEncode CTieLocals CTieInject CTieCmp CTieSearch CTieClosed CodeTheorems HeldProofs CodeMachine.
From PS.Gen Require Import Consts PrivConsts Langs.
From PS.Gen Require CFuns.
From PS.Gen Require CApi.

(* ON THE CODE: what the TRANSLATED polyseed_encode / store / crypt / keygen / queries / free do on a held seed does not depend on the feature set enabled at the time of the call - cstep_ok composed with HeldProofs.held_independent *)
Theorem C04_code_tie_held_independent :
  forall (sgn : bool) (fuel : nat) (ext : Z -> list Z -> Z) (OKW : bytes -> Prop),
         (forall (li : nat) (L : lang) (w : bytes),
          OKW w -> nth_error langs li = Some L -> ext (Z.of_nat li) (zs w) = enc (lang_search sgn L w)) ->
         (forall t : bytes, no_nul t -> (Datatypes.length t + 2 <= fuel)%nat -> OKW t) ->
         (18 <= fuel)%nat ->
         forall (st : state) (r : N) (o : op),
         uses_held o = true ->
         op_ready sgn fuel st o ->
         cstep sgn fuel ext (with_reserved r st) o =
         (with_reserved r (fst (fst (cstep sgn fuel ext st o))), snd (fst (cstep sgn fuel ext st o)),
          snd (cstep sgn fuel ext st o)).
Proof. exact @code_held_independent. Qed.
Print Assumptions C04_code_tie_held_independent.

(* polyseed_keygen as translated: exactly one call of the injected KDF, with the 32-byte secret buffer, the salt "POLYSEED key" 00 FF FF FF | coin | birthday | features | 0000 (little-endian 32-bit fields), 10000 iterations and the caller's key size; the key is what that call wrote *)
Theorem C04_code_tie_keygen :
  forall (dp : deps) (d : data) (coin size : N) (ko : list Z),
         Canon d ->
         coin < 2 ^ 32 ->
         CApi.polyseed_keygen (zkdf dp) (Z.of_N (d_birthday d)) (Z.of_N (d_features d))
           (map Z.of_N (d_secret d)) (Z.of_N (d_checksum d)) (Z.of_N coin) (Z.of_N size) ko =
         ([CApi.CKdf (map Z.of_N (d_secret d)) 32 (map Z.of_N (keygen_salt coin d)) 32 10000 (Z.of_N size)],
          map Z.of_N
            (dp_kdf dp (d_secret d) SECRET_BUFFER_SIZE (keygen_salt coin d) 32 KDF_NUM_ITERATIONS size)) /\
         evs_of dp
           [CApi.CKdf (map Z.of_N (d_secret d)) 32 (map Z.of_N (keygen_salt coin d)) 32 10000 (Z.of_N size)] =
         [EvKdf (d_secret d) SECRET_BUFFER_SIZE (keygen_salt coin d) 32 KDF_NUM_ITERATIONS size].
Proof. exact @tie_keygen. Qed.
Print Assumptions C04_code_tie_keygen.
