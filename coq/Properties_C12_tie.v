(* C12 - the tie to the code: theorems about the Gallina that tools/c2coq.py generates from /repo's CURRENT
   sources on every run (Gen/CFuns.v, Gen/CApi.v).  Kept apart from Properties_C12.v so that a change to the C code
   which breaks a tie leaves the theorems about the model standing, and the other way round. *)
From PS Require Import Base PackDefs ApiDefs SpecDefs SpecApi PackTheorems ApiLemmas RefineProofs ApiTheorems.
From PS.Gen Require Import Consts Langs.
Local Open Scope N_scope.

(* ---- the tie to the code: src/polyseed.c as TRANSLATED on this run (Gen/CApi.v) ---- *)
From Coq Require Import String.
From PS Require Import Base GFDefs PackDefs StoreDefs MiscDefs StrDefs LangDefs ApiDefs SpecDefs SpecApi GFProofs PackProofs StoreProofs RefineProofs RoundTrip TraceProofs FrameProofs SafetyProofs CTieBase CTieLang CTiePhrase CTiePhraseEv CTieSplit CTieApi CTieDecode CTieEncode CTieLocals CTieInject CTieCmp CTieSearch CTieClosed CodeTheorems HeldProofs CodeMachine.
From PS.Gen Require Import Consts PrivConsts Langs.
From PS.Gen Require CFuns.
From PS.Gen Require CApi.

(* ON THE CODE: what the TRANSLATED polyseed_encode / store / crypt / keygen / queries / free do on a held seed does not depend on the feature set enabled at the time of the call - cstep_ok composed with HeldProofs.held_independent *)
Theorem C12_code_tie_held_independent :
  forall (sgn : bool) (fuel : nat) (ext : Z -> list Z -> Z) (OKW : bytes -> Prop),
         (forall (li : nat) (L : lang) (w : bytes),
          OKW w -> nth_error langs li = Some L -> ext (Z.of_nat li) (zs w) = enc (lang_search sgn L w)) ->
         (forall t : bytes, no_nul t -> (Datatypes.length t + 2 <= fuel)%nat -> OKW t) ->
         (18 <= fuel)%nat ->
         forall (st : state) (r : N) (o : op),
         uses_held o = true ->
         op_ready sgn fuel st o ->
         cstep sgn fuel ext (with_reserved r st) o =
         (with_reserved r (fst (fst (cstep sgn fuel ext st o))), snd (fst (cstep sgn fuel ext st o)),
          snd (cstep sgn fuel ext st o)).
Proof. exact @code_held_independent. Qed.
Print Assumptions C12_code_tie_held_independent.

(* ON THE CODE: the translated polyseed_crypt applied twice with the same password returns the struct byte for byte - tie composed with C12_involution *)
Theorem C12_code_tie_involution :
  forall (sgn : bool) (cs : state) (a : astate) (h : N) (d : data) (pw : bytes) 
           (fuel : nat) (D : list Z -> list Z * Z),
         R cs a ->
         heap_get (st_heap cs) h = Some d ->
         no_nul pw ->
         (Datatypes.length pw + 2 <= fuel)%nat ->
         let dp := st_deps cs in
         let nf := dp_nfkd dp in
         D (zs pw) = (zs (fst (nf pw)), Z.of_N (snd (nf pw))) ->
         snd (nf pw) = N.of_nat (Datatypes.length (fst (nf pw))) ->
         snd (nf pw) < 2 ^ 64 ->
         exists (c1 : list CApi.cev) (d1 : data) (c2 : list CApi.cev),
           CApi.polyseed_crypt fuel sgn D (zkdf dp) CFuns.polyseed_mul2_table (Z.of_N (d_birthday d))
             (Z.of_N (d_features d)) (map Z.of_N (d_secret d)) (Z.of_N (d_checksum d)) 
             (zs pw) =
           Some
             (c1, Z.of_N (d_birthday d1), Z.of_N (d_features d1), map Z.of_N (d_secret d1),
              Z.of_N (d_checksum d1)) /\
           CApi.polyseed_crypt fuel sgn D (zkdf dp) CFuns.polyseed_mul2_table (Z.of_N (d_birthday d1))
             (Z.of_N (d_features d1)) (map Z.of_N (d_secret d1)) (Z.of_N (d_checksum d1)) 
             (zs pw) =
           Some
             (c2, Z.of_N (d_birthday d), Z.of_N (d_features d), map Z.of_N (d_secret d), Z.of_N (d_checksum d)).
Proof. exact @code_crypt_twice. Qed.
Print Assumptions C12_code_tie_involution.

(* polyseed_crypt as translated against the mirror step: one KDF call on the normalised password, the xor of 19 bytes, the cleared top bits, the toggled flag, the new check value, three wipes *)
Theorem C12_code_tie_api_crypt :
  forall (sgn : bool) (langs : list lang) (st : state) (h : N) (pw : bytes) 
           (d : data) (fuel : nat) (D : list Z -> list Z * Z),
         heap_get (st_heap st) h = Some d ->
         Canon d ->
         no_nul pw ->
         (Datatypes.length pw + 2 <= fuel)%nat ->
         let dp := st_deps st in
         let nf := dp_nfkd dp in
         D (zs pw) = (zs (fst (nf pw)), Z.of_N (snd (nf pw))) ->
         snd (nf pw) = N.of_nat (Datatypes.length (fst (nf pw))) ->
         snd (nf pw) < 2 ^ 64 ->
         (forall (p : list N) (n : N) (salt : list N) (sl it kl : N), bytes_ok (dp_kdf dp p n salt sl it kl)) ->
         let
         '(st', out0, evs) := step sgn langs st (OpCrypt h pw) in
          exists (cevs : list CApi.cev) (d2 : data),
            CApi.polyseed_crypt fuel sgn D (zkdf dp) CFuns.polyseed_mul2_table (Z.of_N (d_birthday d))
              (Z.of_N (d_features d)) (map Z.of_N (d_secret d)) (Z.of_N (d_checksum d)) 
              (zs pw) =
            Some
              (cevs, Z.of_N (d_birthday d2), Z.of_N (d_features d2), map Z.of_N (d_secret d2),
               Z.of_N (d_checksum d2)) /\
            evs_of dp cevs = evs /\
            out0 = OutUnit /\ st_heap st' = heap_set (st_heap st) h d2 /\ st_next st' = st_next st.
Proof. exact @tie_crypt. Qed.
Print Assumptions C12_code_tie_api_crypt.
