(* gf.c packing: the chunk loops reduce, for a symbolic secret, to closed forms
   (their control flow is data independent); the closed forms are converted to
   div/mod arithmetic and the round trips are decided by lia, coefficient by
   coefficient and byte by byte. *)
From PS Require Import Base GFDefs PackDefs SpecDefs GFProofs.
From PS.Gen Require Import PrivConsts.
Local Open Scope N_scope.

(* ------------------------------------------------ shifts and masks as arithmetic *)
Lemma land_mul_pow2_small a k r : r < 2 ^ k -> N.land (a * 2 ^ k) r = 0.
Proof.
  intros Hr. apply N.bits_inj. intro n. rewrite N.land_spec, N.bits_0.
  destruct (N.lt_ge_cases n k) as [H|H].
  - rewrite N.mul_pow2_bits_low by exact H. reflexivity.
  - rewrite <- (N.mod_small r (2 ^ k)) by exact Hr.
    rewrite N.mod_pow2_bits_high by exact H. apply andb_false_r.
Qed.

Lemma lor_disjoint a k r : r < 2 ^ k -> N.lor (a * 2 ^ k) r = a * 2 ^ k + r.
Proof.
  intros Hr. pose proof (land_mul_pow2_small a k r Hr) as Z.
  rewrite <- N.lxor_lor by exact Z. symmetry. apply N.add_nocarry_lxor. exact Z.
Qed.

Lemma push a k v : N.lor (N.shiftl a k) (N.land v (N.ones k)) = a * 2 ^ k + v mod 2 ^ k.
Proof.
  rewrite N.shiftl_mul_pow2, N.land_ones. apply lor_disjoint.
  apply N.mod_lt, N.pow_nonzero. discriminate.
Qed.

Lemma push1 a v : N.lor (N.shiftl a 1) (N.land v 1) = a * 2 + v mod 2.
Proof. change 1 with (N.ones 1) at 2. rewrite push. reflexivity. Qed.

Lemma shr x k : N.shiftr x k = x / 2 ^ k.
Proof. apply N.shiftr_div_pow2. Qed.

Lemma extra_val f b : b < 1024 -> N.lor (N.shiftl f 10) b = f * 1024 + b.
Proof. intros H. rewrite N.shiftl_mul_pow2. apply (lor_disjoint f 10 b). exact H. Qed.

(* ------------------------------------------------------------ canonical structs *)
Definition Canon (d : data) : Prop :=
  length (d_secret d) = 32%nat /\ Forall (fun b => b < 256) (d_secret d) /\
  nth 18 (d_secret d) 0 < 64 /\ skipn 19 (d_secret d) = repeat 0 13 /\
  d_birthday d < 1024 /\ d_features d < 32.

(* ---------------------------------------------------------------- closed forms *)
Ltac closed := lazy -[N.lor N.shiftl N.land N.shiftr N.ones N.modulo N.div N.mul N.add N.pow].

Definition sec19 b0 b1 b2 b3 b4 b5 b6 b7 b8 b9 b10 b11 b12 b13 b14 b15 b16 b17 b18 : list N :=
  [b0; b1; b2; b3; b4; b5; b6; b7; b8; b9; b10; b11; b12; b13; b14; b15; b16; b17; b18].

Section Closed.
  Variables b0 b1 b2 b3 b4 b5 b6 b7 b8 b9 b10 b11 b12 b13 b14 b15 b16 b17 b18 : N.
  Variables bd ft ck : N.
  Variable rest : list N.
  Let sec := sec19 b0 b1 b2 b3 b4 b5 b6 b7 b8 b9 b10 b11 b12 b13 b14 b15 b16 b17 b18 ++ rest.

  Definition d2p_form : list N :=
    Eval lazy -[N.lor N.shiftl N.land N.shiftr N.ones] in
      match data_to_poly_full (mkdata bd ft
              (b0 :: b1 :: b2 :: b3 :: b4 :: b5 :: b6 :: b7 :: b8 :: b9 :: b10 :: b11 :: b12 :: b13
                  :: b14 :: b15 :: b16 :: b17 :: b18 :: rest) ck) with
      | Some (ws, _) => ws
      | None => []
      end.

  (* the encoder never faults on a buffer of at least 19 bytes, and its three asserts hold *)
  Lemma d2p_closed : data_to_poly_full (mkdata bd ft sec ck) = Some (d2p_form, true).
  Proof. unfold sec, sec19, d2p_form. lazy -[N.lor N.shiftl N.land N.shiftr N.ones]. reflexivity. Qed.
End Closed.

Section ClosedDec.
  Variables c0 c1 c2 c3 c4 c5 c6 c7 c8 c9 c10 c11 c12 c13 c14 c15 : N.

  Definition p2d_form : data :=
    Eval lazy -[N.lor N.shiftl N.land N.shiftr N.ones N.modulo] in
      match poly_to_data_full [c0; c1; c2; c3; c4; c5; c6; c7; c8; c9; c10; c11; c12; c13; c14; c15] with
      | Some (d, _) => d
      | None => mkdata 0 0 [] 0
      end.

  Lemma p2d_closed :
    poly_to_data_full [c0; c1; c2; c3; c4; c5; c6; c7; c8; c9; c10; c11; c12; c13; c14; c15]
    = Some (p2d_form, true).
  Proof. unfold p2d_form. lazy -[N.lor N.shiftl N.land N.shiftr N.ones N.modulo]. reflexivity. Qed.
End ClosedDec.

(* ------------------------------------------------------ normalisation tactics *)
Lemma lor_shl_mod X k V : k <= 8 ->
  N.lor ((N.shiftl X k) mod 256) (N.land V (N.ones k)) = (X * 2 ^ k) mod 256 + V mod 2 ^ k.
Proof.
  intros Hk. rewrite N.shiftl_mul_pow2, N.land_ones.
  assert (E : 256 = 2 ^ (8 - k) * 2 ^ k)
    by (rewrite <- N.pow_add_r; replace (8 - k + k) with 8 by lia; reflexivity).
  rewrite E. rewrite N.mul_mod_distr_r by (apply N.pow_nonzero; discriminate).
  apply lor_disjoint. apply N.mod_lt, N.pow_nonzero. discriminate.
Qed.

Lemma land_1 x : N.land x 1 = x mod 2.
Proof. change 1 with (N.ones 1) at 1. rewrite N.land_ones. reflexivity. Qed.

Ltac pow_consts :=
  repeat match goal with
         | |- context [2 ^ ?k] => let v := eval vm_compute in (2 ^ k) in change (2 ^ k) with v
         end.

Ltac enc_norm :=
  rewrite ?push1, ?push, ?shr; rewrite ?extra_val by assumption; pow_consts;
  rewrite ?N.mul_0_l, ?N.add_0_l, ?N.div_1_r.

Ltac dec_norm :=
  rewrite ?lor_shl_mod by (vm_compute; discriminate);
  rewrite ?N.lor_0_l, ?push1, ?shr, ?N.land_ones, ?land_1; pow_consts;
  rewrite ?N.mul_0_l, ?N.mod_0_l, ?N.add_0_l, ?N.div_1_r by discriminate.

Lemma land_1023' x : N.land x 1023 = x mod 1024.
Proof. change 1023 with (N.ones 10). rewrite N.land_ones. reflexivity. Qed.
