(* str_split of polyseed.c as TRANSLATED (Gen/CApi.v: `pos` and `word` are offsets into the buffer, the
   separators are overwritten in place, words[] receives offsets) against the mirror StrDefs.str_split:
   for EVERY NUL-free content the number returned is the mirror's, and the i-th recorded offset
   designates - as a C string in the buffer left behind - the mirror's i-th token. *)
From PS Require Import Base StrDefs StrProofs CTieBase CTieLang.
From PS.Gen Require Import Consts.
From PS.Gen Require CFuns CApi.
Local Open Scope Z_scope.

Lemma zb_space c : (zb c =? 32) = is_space c.
Proof. destruct c; reflexivity. Qed.
Lemma zb_nul c : (zb c =? 0) = Byte.eqb c x00.
Proof. destruct c; reflexivity. Qed.
Lemma rdb_zb_nul sgn c : (CApi.rdb sgn (zb c) =? 0) = Byte.eqb c x00.
Proof. destruct sgn; destruct c; reflexivity. Qed.
Lemma rdb_zb_space sgn c : (CApi.rdb sgn (zb c) =? 32) = is_space c.
Proof. destruct sgn; destruct c; reflexivity. Qed.
Lemma rdb_0 sgn : CApi.rdb sgn 0 = 0.
Proof. destruct sgn; reflexivity. Qed.
Lemma rdb_32 sgn : CApi.rdb sgn 32 = 32.
Proof. destruct sgn; reflexivity. Qed.
Lemma is_space_eq c : is_space c = true -> c = x20.
Proof. destruct c; cbn; intros H; try discriminate; reflexivity. Qed.

Lemma no_nul_cons c s : no_nul (c :: s) -> Byte.eqb c x00 = false /\ no_nul s.
Proof.
  unfold no_nul. intros H. split.
  - destruct (Byte.eqb c x00) eqn:E; [|reflexivity]. exfalso. apply H. left. apply Byte.byte_dec_bl in E. exact E.
  - intros I. apply H. right. exact I.
Qed.
Lemma no_nul_app a b : no_nul (a ++ b) -> no_nul a /\ no_nul b.
Proof. unfold no_nul. intros H. split; intros I; apply H, in_or_app; [left|right]; exact I. Qed.

Fixpoint take_tok (s : bytes) : bytes * bytes :=
  match s with
  | [] => ([], [])
  | c :: s' => if is_space c then ([], s) else let '(t, r) := take_tok s' in (c :: t, r)
  end.

Lemma take_tok_app s : s = fst (take_tok s) ++ snd (take_tok s).
Proof.
  induction s as [|c s IH]; [reflexivity|]. cbn [take_tok]. destruct (is_space c); [reflexivity|].
  destruct (take_tok s) as [t r]. cbn [fst snd app] in *. f_equal. exact IH.
Qed.

Lemma take_tok_nospace s : Forall (fun c => is_space c = false) (fst (take_tok s)).
Proof.
  induction s as [|c s IH]; [constructor|]. cbn [take_tok]. destruct (is_space c) eqn:E; [constructor|].
  destruct (take_tok s) as [t r]. cbn [fst] in *. constructor; assumption.
Qed.

Lemma take_tok_rest s : snd (take_tok s) = [] \/ exists r, snd (take_tok s) = x20 :: r.
Proof.
  induction s as [|c s IH]; [left; reflexivity|]. cbn [take_tok]. destruct (is_space c) eqn:E.
  - right. exists s. cbn [snd]. f_equal. apply is_space_eq, E.
  - destruct (take_tok s) as [t r]. exact IH.
Qed.

Lemma split_go_tok s cur w acc :
  split_go s cur w acc = split_go (snd (take_tok s)) (rev (fst (take_tok s)) ++ cur) w acc.
Proof.
  revert cur. induction s as [|c s IH]; intros cur; [reflexivity|].
  cbn [take_tok]. destruct (is_space c) eqn:E; [reflexivity|].
  cbn [split_go]. rewrite E, IH. destruct (take_tok s) as [t r]. cbn [fst snd rev]. rewrite <- app_assoc. reflexivity.
Qed.

Lemma cstr_zs t r : no_nul t -> (r = [] \/ exists r', r = 0 :: r') -> CApi.cstr (zs t ++ r) = zs t.
Proof.
  induction t as [|c t IH]; intros Hn Hr.
  - destruct Hr as [Hr|[r' Hr]]; subst r; reflexivity.
  - apply no_nul_cons in Hn. destruct Hn as [Hc Hn]. cbn [zs map app CApi.cstr]. rewrite zb_nul, Hc. f_equal. apply IH; assumption.
Qed.

Lemma cstr_at_app a t r : no_nul t -> (r = [] \/ exists r', r = 0 :: r') ->
  CApi.cstr_at (a ++ zs t ++ r) (Z.of_nat (length a)) = zs t.
Proof.
  intros Hn Hr. unfold CApi.cstr_at. rewrite Nat2Z.id.
  rewrite skipn_app, Nat.sub_diag, skipn_all. cbn [skipn app]. apply cstr_zs; assumption.
Qed.

Lemma nth_mid {A} (a : list A) x r d : nth (length a) (a ++ x :: r) d = x.
Proof. rewrite app_nth2 by lia. rewrite Nat.sub_diag. reflexivity. Qed.
Lemma nth_end {A} (a : list A) d : nth (length a) a d = d.
Proof. apply nth_overflow. lia. Qed.

(* ---- the inner loop: skip the bytes of one token ---- *)
Lemma inner_gen sgn (c : Z -> bool) (b : Z -> option Z) Bf :
  (forall p, c p = negb (CApi.rdb sgn (@nth Z (Z.to_nat p) Bf 0) =? 0) && negb (CApi.rdb sgn (@nth Z (Z.to_nat p) Bf 0) =? 32)) ->
  (forall p, b p = Some (p + 1)) ->
  forall t pre rest f, Bf = pre ++ zs t ++ rest -> no_nul t -> Forall (fun c => is_space c = false) t ->
    (rest = [] \/ exists x r, rest = x :: r /\ (x = 0 \/ x = 32)) -> (length t + 1 <= f)%nat ->
    CFuns.whileF f c b (Z.of_nat (length pre)) = Some (Z.of_nat (length pre + length t)).
Proof.
  intros Hc Hb. induction t as [|ch t IH]; intros pre rest f HB Hn Hs Hr Hf.
  - destruct f as [|f]; [cbn in Hf; lia|]. cbn [CFuns.whileF]. rewrite Hc, Nat2Z.id, HB. cbn [zs map app].
    rewrite Nat.add_0_r.
    destruct Hr as [Hr|(x&r&Hr&Hx)]; subst rest.
    + rewrite app_nil_r, nth_end, rdb_0. reflexivity.
    + rewrite nth_mid. destruct Hx; subst x; rewrite ?rdb_0, ?rdb_32; reflexivity.
  - destruct f as [|f]; [cbn in Hf; lia|]. cbn [CFuns.whileF]. rewrite Hc, Nat2Z.id, HB. cbn [zs map app].
    rewrite nth_mid. apply no_nul_cons in Hn. destruct Hn as [Hc0 Hn]. apply Forall_cons_iff in Hs. destruct Hs as [Hs0 Hs].
    rewrite rdb_zb_nul, rdb_zb_space, Hc0, Hs0. cbn [negb andb]. rewrite Hb.
    replace (Z.of_nat (length pre) + 1) with (Z.of_nat (length (pre ++ [zb ch]))) by (rewrite app_length; cbn [length]; lia).
    rewrite (IH (pre ++ [zb ch]) rest f); try assumption.
    + f_equal. rewrite app_length. cbn [length]. lia.
    + rewrite HB. cbn [zs map app]. rewrite <- app_assoc. reflexivity.
    + cbn [length] in Hf. lia.
Qed.

Lemma upd_length {A} (l : list A) i v : length (CFuns.upd l i v) = length l.
Proof. revert i. induction l as [|x l IH]; intros [|i]; cbn; try reflexivity. f_equal. apply IH. Qed.
Lemma upd_nth_same {A} (l : list A) i v d : (i < length l)%nat -> nth i (CFuns.upd l i v) d = v.
Proof. revert i. induction l as [|x l IH]; intros [|i] H; cbn in *; try lia; [reflexivity|]. apply IH. lia. Qed.
Lemma upd_nth_other {A} (l : list A) i j v d : i <> j -> nth j (CFuns.upd l i v) d = nth j l d.
Proof.
  revert i j. induction l as [|x l IH]; intros [|i] [|j] H; cbn; try reflexivity; try congruence.
  apply IH. congruence.
Qed.
Lemma upd_mid {A} (a : list A) x r v : CFuns.upd (a ++ x :: r) (length a) v = a ++ v :: r.
Proof. induction a as [|y a IH]; [reflexivity|]. cbn. f_equal. exact IH. Qed.

Section Split.
  Variables (fuel : nat) (tail : list Z).
  Hypothesis Htail : tail = [] \/ exists r, tail = 0 :: r.

  Definition P (pre words : list Z) (toks : list bytes) : Prop :=
    forall i, (i < length toks)%nat -> exists a r,
      pre = a ++ zs (nth i toks []) ++ 0 :: r /\ nth i words 0 = Z.of_nat (length a) /\ no_nul (nth i toks []).
  Definition Q (Bf words : list Z) (toks : list bytes) : Prop :=
    forall i, (i < length toks)%nat -> CApi.cstr_at Bf (nth i words 0) = zs (nth i toks []).

  Lemma P_Q pre X words toks : P pre words toks -> Q (pre ++ X) words toks.
  Proof.
    intros HP i Hi. destruct (HP i Hi) as (a&r&E&W&N). rewrite W, E.
    rewrite <- !app_assoc. cbn [app].
    apply (cstr_at_app a (nth i toks []) (0 :: r ++ X) N). right. eexists. reflexivity.
  Qed.

  Lemma P_snoc pre words toks t : P pre words toks -> (length toks < length words)%nat -> no_nul t ->
    P (pre ++ zs t ++ [0]) (CFuns.upd words (length toks) (Z.of_nat (length pre))) (toks ++ [t]).
  Proof.
    intros HP Hl Hn i Hi. rewrite app_length in Hi. cbn [length] in Hi.
    destruct (Nat.eq_dec i (length toks)) as [->|Hne].
    - exists pre, []. rewrite app_nth2, Nat.sub_diag by lia. cbn [nth]. rewrite upd_nth_same by exact Hl.
      split; [reflexivity|split; [reflexivity|exact Hn]].
    - assert (Hi' : (i < length toks)%nat) by lia. destruct (HP i Hi') as (a&r&E&W&N).
      exists a, (r ++ zs t ++ [0]). rewrite app_nth1 by exact Hi'. rewrite upd_nth_other by congruence.
      split; [|split; assumption]. rewrite E. rewrite <- !app_assoc. cbn [app]. reflexivity.
  Qed.

  Lemma Q_last Bf pre words toks t : P pre words toks -> (length toks < length words)%nat -> no_nul t ->
    Bf = pre ++ zs t ++ tail ->
    Q Bf (CFuns.upd words (length toks) (Z.of_nat (length pre))) (toks ++ [t]).
  Proof.
    intros HP Hl Hn EB i Hi. rewrite app_length in Hi. cbn [length] in Hi.
    destruct (Nat.eq_dec i (length toks)) as [->|Hne].
    - rewrite app_nth2, Nat.sub_diag by lia. cbn [nth]. rewrite upd_nth_same by exact Hl. rewrite EB.
      apply cstr_at_app; [exact Hn|]. destruct Htail as [->|[r ->]]; [left; reflexivity | right; eexists; reflexivity].
    - assert (Hi' : (i < length toks)%nat) by lia. rewrite app_nth1 by exact Hi'. rewrite upd_nth_other by congruence.
      rewrite EB. apply (P_Q pre (zs t ++ tail) words toks HP i Hi').
  Qed.

  Lemma head_tail d : @nth Z 0 tail d = 0 \/ tail = [].
  Proof. destruct Htail as [->|[r ->]]; [right; reflexivity | left; reflexivity]. Qed.

  Lemma nth_tail_zero sgn (a : list Z) : (CApi.rdb sgn (@nth Z (length a) (a ++ tail) 0) =? 0) = true.
  Proof.
    destruct Htail as [->|[r ->]]; [rewrite app_nil_r, nth_end | rewrite nth_mid]; rewrite rdb_0; reflexivity.
  Qed.
End Split.

Lemma whileF_S {S} f (c : S -> bool) b s :
  CFuns.whileF (Datatypes.S f) c b s = if c s then match b s with Some s' => CFuns.whileF f c b s' | None => None end else Some s.
Proof. reflexivity. Qed.

Lemma succ_eqb16 w : (Z.of_nat w + 1 =? 16) = Nat.eqb (S w) 16.
Proof.
  destruct (Nat.eqb_spec (S w) 16) as [E|E]; [apply Z.eqb_eq|apply Z.eqb_neq]; lia.
Qed.

Lemma head_zs_nonzero sgn c r X : no_nul (c :: r) -> (CApi.rdb sgn (@nth Z 0 (zs (c :: r) ++ X) 0) =? 0) = false.
Proof. intros H. apply no_nul_cons in H. cbn [zs map app nth]. rewrite rdb_zb_nul. apply H. Qed.

Section Loop.
  Variables (fuel : nat) (sgn : bool) (tail : list Z).
  Hypothesis Htail : tail = [] \/ exists r, tail = 0 :: r.

  Theorem tie_str_split content words0 : no_nul content -> length words0 = 16%nat -> (length content + 2 <= fuel)%nat ->
    exists Bf' words',
      CApi.str_split fuel sgn (zs content ++ tail) words0 = Some (Bf', words', Z.of_nat (fst (str_split content))) /\
      length words' = 16%nat /\ Q Bf' words' (snd (str_split content)).
  Proof.
    intros Hnn Hw0 Hfuel. unfold CApi.str_split. cbv zeta.
    match goal with |- context [CFuns.whileF fuel ?c ?b _] => set (C := c); set (B := b) end.
    (* one iteration of the outer loop, token ended by the terminator *)
    assert (STEP_end : forall pre t w words, no_nul t -> Forall (fun c => is_space c = false) t ->
      (length t + 1 <= fuel)%nat ->
      B (false, Z.of_nat (length pre), pre ++ zs t ++ tail, Z.of_nat w, Z.of_nat (length pre), words) =
      Some (Nat.eqb (S w) 16, Z.of_nat (length pre + length t), pre ++ zs t ++ tail, Z.of_nat (S w),
            Z.of_nat (length pre + length t), CFuns.upd words w (Z.of_nat (length pre)))).
    { intros pre t w words Hn Hs Hf. unfold B. cbv beta iota zeta.
      rewrite (inner_gen sgn _ _ (pre ++ zs t ++ tail) (fun p => eq_refl) (fun p => eq_refl) t pre tail fuel eq_refl Hn Hs)
        by (first [exact Hf | destruct Htail as [->|[r ->]]; [left; reflexivity | right; exists 0, r; split; [reflexivity|left; reflexivity]]]).
      rewrite !Nat2Z.id.
      replace (pre ++ zs t ++ tail) with ((pre ++ zs t) ++ tail) by (rewrite app_assoc; reflexivity).
      replace (length pre + length t)%nat with (length (pre ++ zs t)) by (rewrite app_length; unfold zs; rewrite map_length; reflexivity).
      rewrite (nth_tail_zero tail Htail sgn). cbn [negb]. cbv beta iota zeta.
      rewrite ?Nat2Z.id, ?(nth_tail_zero tail Htail sgn). cbn [negb]. rewrite succ_eqb16.
      replace (Z.of_nat w + 1) with (Z.of_nat (S w)) by lia.
      destruct (Nat.eqb (S w) 16); reflexivity. }
    (* one iteration, token ended by a separator *)
    assert (STEP_sp : forall pre t r' w words, no_nul t -> Forall (fun c => is_space c = false) t -> no_nul r' ->
      (length t + 1 <= fuel)%nat ->
      B (false, Z.of_nat (length pre), pre ++ zs t ++ zs (x20 :: r') ++ tail, Z.of_nat w, Z.of_nat (length pre), words) =
      Some (Nat.eqb (S w) 16, Z.of_nat (length (pre ++ zs t ++ [0])), (pre ++ zs t ++ [0]) ++ zs r' ++ tail,
            Z.of_nat (if Nat.eqb (S w) 16 then match r' with [] => 16 | _ => 17 end else S w)%nat,
            Z.of_nat (length (pre ++ zs t ++ [0])), CFuns.upd words w (Z.of_nat (length pre)))).
    { intros pre t r' w words Hn Hs Hr Hf. unfold B. cbv beta iota zeta.
      rewrite (inner_gen sgn _ _ (pre ++ zs t ++ zs (x20 :: r') ++ tail) (fun p => eq_refl) (fun p => eq_refl) t pre (zs (x20 :: r') ++ tail) fuel eq_refl Hn Hs)
        by (first [exact Hf | right; exists 32, (zs r' ++ tail); split; [reflexivity|right; reflexivity]]).
      rewrite !Nat2Z.id.
      replace (pre ++ zs t ++ zs (x20 :: r') ++ tail) with ((pre ++ zs t) ++ 32 :: zs r' ++ tail) by (rewrite <- app_assoc; reflexivity).
      replace (length pre + length t)%nat with (length (pre ++ zs t)) by (rewrite app_length; unfold zs; rewrite map_length; reflexivity).
      rewrite nth_mid, rdb_32. change (32 =? 0) with false. cbn [negb]. cbv beta iota zeta. rewrite upd_mid.
      replace (Z.of_nat (length (pre ++ zs t)) + 1) with (Z.of_nat (length (pre ++ zs t ++ [0])))
        by (rewrite !app_length; cbn [length]; lia).
      replace ((pre ++ zs t) ++ 0 :: zs r' ++ tail) with ((pre ++ zs t ++ [0]) ++ zs r' ++ tail)
        by (rewrite <- !app_assoc; reflexivity).
      rewrite Nat2Z.id, succ_eqb16. replace (Z.of_nat w + 1) with (Z.of_nat (S w)) by lia.
      destruct (Nat.eqb (S w) 16) eqn:E16; [|reflexivity].
      rewrite app_nth2, Nat.sub_diag by lia. apply Nat.eqb_eq in E16. rewrite E16.
      destruct r' as [|c r'].
      - cbn [zs map app]. replace (CApi.rdb sgn (@nth Z 0 tail 0) =? 0) with true by (destruct Htail as [->|[r ->]]; cbn [nth]; rewrite rdb_0; reflexivity). reflexivity.
      - rewrite (head_zs_nonzero sgn c r' tail Hr). reflexivity. }
    assert (CT : forall brk p Bf w wd ws, C (brk, p, Bf, w, wd, ws) = negb brk && negb (CApi.rdb sgn (@nth Z (Z.to_nat p) Bf 0) =? 0)) by reflexivity.
    assert (REV : forall (t : bytes) toks, rev (rev (rev t) :: rev toks) = toks ++ [t]).
    { intros t toks. cbn [rev]. rewrite !rev_involutive. reflexivity. }
    assert (IND : forall n s, (length s <= n)%nat -> forall pre w words toks f,
      s <> [] -> no_nul s -> w = length toks -> (w < 16)%nat -> length words = 16%nat -> P pre words toks ->
      (n + 2 <= f)%nat -> (length s + 1 <= fuel)%nat ->
      exists brk pos Bf' word words',
        CFuns.whileF f C B (false, Z.of_nat (length pre), pre ++ zs s ++ tail, Z.of_nat w, Z.of_nat (length pre), words)
          = Some (brk, pos, Bf', Z.of_nat (fst (split_go s [] w (rev toks))), word, words') /\
        length words' = 16%nat /\ Q Bf' words' (snd (split_go s [] w (rev toks)))).
    { induction n as [|n IH]; intros s Hls pre w words toks f Hne Hn Hw Hw16 Hlw HP Hf Hfl.
      { destruct s; [congruence | cbn in Hls; lia]. }
      destruct f as [|f]; [lia|]. rewrite whileF_S, CT, Nat2Z.id. cbn [negb andb].
      assert (H0 : (CApi.rdb sgn (@nth Z (length pre) (pre ++ zs s ++ tail) 0) =? 0) = false).
      { destruct s as [|c s']; [congruence|]. rewrite app_nth2, Nat.sub_diag by lia. apply (head_zs_nonzero sgn), Hn. }
      rewrite H0. cbn [negb].
      pose proof (take_tok_app s) as Es. pose proof (take_tok_nospace s) as Hs. pose proof (take_tok_rest s) as Hr.
      rewrite split_go_tok, app_nil_r.
      destruct (take_tok s) as [t r]. cbn [fst snd] in *.
      rewrite Es in Hn. apply no_nul_app in Hn. destruct Hn as [Hnt Hnr].
      assert (Hlt : (length t + 1 <= fuel)%nat) by (rewrite Es, app_length in Hfl; lia).
      destruct Hr as [Hr|[r' Hr]]; subst r.
      - (* the token runs to the terminator *)
        rewrite app_nil_r in Es. subst s.
        rewrite (STEP_end pre t w words Hnt Hs Hlt).
        destruct f as [|f]; [lia|]. rewrite whileF_S, CT, Nat2Z.id.
        replace (pre ++ zs t ++ tail) with ((pre ++ zs t) ++ tail) by (rewrite app_assoc; reflexivity).
        replace (length pre + length t)%nat with (length (pre ++ zs t)) by (rewrite app_length; unfold zs; rewrite map_length; reflexivity).
        rewrite (nth_tail_zero tail Htail sgn). rewrite andb_false_r.
        cbn [split_go fst snd]. rewrite REV.
        do 5 eexists. split; [reflexivity|]. split; [rewrite upd_length; exact Hlw|].
        subst w. apply (Q_last tail Htail _ pre words toks t HP); [lia | exact Hnt | rewrite app_assoc; reflexivity].
      - (* the token is ended by a separator *)
        subst s. apply no_nul_cons in Hnr. destruct Hnr as [_ Hnr'].
        replace (pre ++ zs (t ++ x20 :: r') ++ tail) with (pre ++ zs t ++ zs (x20 :: r') ++ tail)
          by (unfold zs; rewrite map_app, <- app_assoc; reflexivity).
        rewrite (STEP_sp pre t r' w words Hnt Hs Hnr' Hlt).
        cbn [split_go]. change (is_space x20) with true. cbv beta iota. rewrite REV.
        assert (HP' : P (pre ++ zs t ++ [0]) (CFuns.upd words w (Z.of_nat (length pre))) (toks ++ [t])).
        { subst w. apply P_snoc; [exact HP | lia | exact Hnt]. }
        destruct f as [|f]; [lia|]. rewrite whileF_S, CT, Nat2Z.id.
        destruct (Nat.eqb (S w) 16) eqn:E16.
        + cbn [negb andb fst snd]. do 5 eexists. split; [reflexivity|]. split; [rewrite upd_length; exact Hlw|].
          apply P_Q, HP'.
        + cbn [negb andb]. destruct r' as [|c r'].
          * cbn [zs map app]. rewrite (nth_tail_zero tail Htail sgn). cbn [negb fst snd].
            do 5 eexists. split; [reflexivity|]. split; [rewrite upd_length; exact Hlw|]. apply P_Q, HP'.
          * rewrite app_nth2, Nat.sub_diag by lia. rewrite (head_zs_nonzero sgn c r' tail Hnr'). cbn [negb].
            apply Nat.eqb_neq in E16.
            assert (Hlen : (length (c :: r') <= n)%nat).
            { rewrite app_length in Hls. cbn [length] in Hls |- *. lia. }
            destruct (IH (c :: r') Hlen (pre ++ zs t ++ [0]) (S w) (CFuns.upd words w (Z.of_nat (length pre))) (toks ++ [t]) (S f))
              as (brk&pos&Bf'&word&words'&E&L&HQ);
              [discriminate | exact Hnr' | rewrite app_length; cbn [length]; lia | lia | rewrite upd_length; exact Hlw
              | exact HP' | lia | rewrite app_length in Hfl; cbn [length] in Hfl |- *; lia |].
            rewrite whileF_S, CT, Nat2Z.id in E. cbn [negb andb] in E.
            rewrite app_nth2, Nat.sub_diag in E by lia. rewrite (head_zs_nonzero sgn c r' tail Hnr') in E. cbn [negb] in E.
            rewrite rev_app_distr in E, HQ. cbn [rev app] in E, HQ. rewrite (rev_involutive t).
            exists brk, pos, Bf', word, words'. split; [exact E|]. split; [exact L | exact HQ]. }
    destruct content as [|c0 content'] eqn:Ec.
    - destruct fuel as [|f0]; [cbn in Hfuel; lia|]. rewrite whileF_S, CT. cbn [negb andb Z.to_nat zs map app].
      replace (CApi.rdb sgn (@nth Z 0 tail 0) =? 0) with true by (destruct Htail as [->|[r ->]]; cbn [nth]; rewrite rdb_0; reflexivity).
      cbn [negb]. do 2 eexists. split; [reflexivity|]. split; [exact Hw0|]. intros i Hi. cbn in Hi. lia.
    - rewrite <- Ec in *. assert (Hne : content <> []) by (rewrite Ec; discriminate).
      destruct (IND (length content) content (le_n _) [] 0%nat words0 [] fuel Hne Hnn eq_refl) as (brk&pos&Bf'&word&words'&E&L&HQ);
        [lia | exact Hw0 | intros i Hi; cbn in Hi; lia | lia | lia |].
      cbn [length app rev] in E. change (Z.of_nat 0) with 0 in E. rewrite E.
      exists Bf', words'. unfold str_split. rewrite Ec. rewrite <- Ec. split; [reflexivity|]. split; [exact L | exact HQ].
  Qed.

End Loop.
