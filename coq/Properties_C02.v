(* C02 - the checksum catches every single-word error and every swap of two words.
   Only statements; each is closed by an exact reference to the lemma that proves it. *)
From PS Require Import Base GFDefs SpecDefs GFProofs ApiDefs SpecApi PackTheorems CoinProofs PhraseErrors ApiLemmas RefineProofs ApiTheorems RoundTrip.
From PS.Gen Require Import Consts Langs.
Local Open Scope N_scope.

(* every polynomial of 16 coefficients that validates stops validating when one
   coefficient is replaced by any other field element *)
Theorem C02_substitution : forall (c : list N) (i : nat) (j : N),
  wf c -> poly_eval c = 0 -> (i < length c)%nat -> j < 2048 -> j <> nth i c 0 ->
  poly_eval (upd c i j) <> 0.
Proof. exact subst_detected. Qed.
Print Assumptions C02_substitution.

(* ... and when two unequal coefficients are exchanged *)
Theorem C02_transposition : forall (c : list N) (i k : nat),
  wf c -> poly_eval c = 0 -> (i < k)%nat -> (k < length c)%nat -> (length c <= 16)%nat ->
  nth i c 0 <> nth k c 0 -> poly_eval (swapv c i k) <> 0.
Proof. exact swap_detected. Qed.
Print Assumptions C02_transposition.

(* for any 15 data words exactly one check word validates *)
Theorem C02_unique_check_word : forall ws : list N, wf ws ->
  forall c0 : N, c0 < 2048 -> (poly_eval (c0 :: ws) = 0 <-> c0 = poly_eval (0 :: ws)).
Proof. exact unique_check_word. Qed.
Print Assumptions C02_unique_check_word.

(* the doubling rule of the code is multiplication by x modulo x^11 + x^2 + 1 and the
   code's Horner evaluation is the textbook sum of c_i * x^i in that field *)
Theorem C02_field : (forall x, x < 2048 -> mul2 x = gf_mulx x) /\
  (forall c, wf c -> (length c <= 16)%nat -> poly_eval c = spec_eval c).
Proof. exact (conj mul2_is_mulx eval_is_spec). Qed.
Print Assumptions C02_field.

(* ---- on the words of a phrase, i.e. the indices AFTER the coin was XORed into the second word *)
Theorem C02_phrase_substitution : forall (w : list N) (coin : N) (i : nat) (j : N),
  wf w -> length w = 16%nat -> coin < 2048 -> poly_eval (xor_coin w coin) = 0 ->
  (i < 16)%nat -> j < 2048 -> j <> nth i w 0 ->
  poly_eval (xor_coin (upd w i j) coin) <> 0.
Proof. exact phrase_substitution. Qed.
Print Assumptions C02_phrase_substitution.

Theorem C02_phrase_transposition : forall (w : list N) (coin : N) (i k : nat),
  wf w -> length w = 16%nat -> coin < 2048 -> poly_eval (xor_coin w coin) = 0 ->
  (i < k)%nat -> (k < 16)%nat -> nth i w 0 <> nth k w 0 ->
  poly_eval (xor_coin (swapv w i k) coin) <> 0.
Proof. exact phrase_transposition. Qed.
Print Assumptions C02_phrase_transposition.

(* ---- at the API: ANY sixteen words of a language whose indices do not validate for the coin are
   refused with CHECKSUM - decided before any allocation or feature check, the state untouched.
   With the two theorems above: a valid phrase with one word replaced, or two different words
   exchanged, is never accepted.  Premise as in C01: normalising the input yields the words
   separated by single spaces. *)
Theorem C02_decode_checksum : forall sgn cs a li L idx coin ok P, R cs a ->
  nth_error langs li = Some L -> coin < 2048 -> wf idx -> length idx = 16%nat ->
  fst (spec_norm (dp_nfkd (st_deps cs)) P) = SpecDefs.sjoin [x20] (map (spec_word L) idx) -> no_nul P ->
  poly_eval (xor_coin idx coin) <> 0 ->
  outp (step sgn langs cs (OpDecodeExplicit P coin li ok)) = OutStatus ST_CHECKSUM None None /\
  stp (step sgn langs cs (OpDecodeExplicit P coin li ok)) = cs.
Proof. exact invalid_indices_checksum. Qed.
Print Assumptions C02_decode_checksum.

(* a stored image whose check value is not the evaluation of its data is refused with CHECKSUM *)
Theorem C02_load_checksum : forall sgn cs a buf s ck, R cs a -> length buf = 32%nat -> StoreProofs.bytes_ok buf ->
  spec_parse buf = Some (s, ck) -> ck <> spec_checksum s ->
  outp (step sgn langs cs (OpLoad buf true)) = OutStatus ST_CHECKSUM None None.
Proof.
  intros sgn cs a buf s ck HR Hl Hb Hp Hne. destruct (load_precedence sgn cs a buf HR Hl Hb) as [P _].
  rewrite P, Hp. replace (ck =? spec_checksum s) with false by (symmetry; apply N.eqb_neq, Hne). reflexivity.
Qed.
Print Assumptions C02_load_checksum.

(* non-vacuity: the polynomial of the suite's first phrase validates *)
Example C02_witness :
  let c := [1427; 1770; 1756; 922; 820; 110; 1446; 998; 542; 1926; 1656; 1044; 842; 1392; 44; 999] in
  wf c /\ poly_eval c = 0.
Proof.
  split; [|vm_compute; reflexivity].
  apply Forall_forall. intros x Hx. apply N.ltb_lt. revert x Hx. apply forallb_forall. vm_compute. reflexivity.
Qed.
