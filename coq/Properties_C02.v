(* C02 - the checksum catches every single-word error and every swap of two words.
   Only statements; each is closed by an exact reference to the lemma that proves it. *)
From PS Require Import Base GFDefs SpecDefs GFProofs.
Local Open Scope N_scope.

(* every polynomial of 16 coefficients that validates stops validating when one
   coefficient is replaced by any other field element *)
Theorem C02_substitution : forall (c : list N) (i : nat) (j : N),
  wf c -> poly_eval c = 0 -> (i < length c)%nat -> j < 2048 -> j <> nth i c 0 ->
  poly_eval (upd c i j) <> 0.
Proof. exact subst_detected. Qed.
Print Assumptions C02_substitution.

(* ... and when two unequal coefficients are exchanged *)
Theorem C02_transposition : forall (c : list N) (i k : nat),
  wf c -> poly_eval c = 0 -> (i < k)%nat -> (k < length c)%nat -> (length c <= 16)%nat ->
  nth i c 0 <> nth k c 0 -> poly_eval (swapv c i k) <> 0.
Proof. exact swap_detected. Qed.
Print Assumptions C02_transposition.

(* for any 15 data words exactly one check word validates *)
Theorem C02_unique_check_word : forall ws : list N, wf ws ->
  forall c0 : N, c0 < 2048 -> (poly_eval (c0 :: ws) = 0 <-> c0 = poly_eval (0 :: ws)).
Proof. exact unique_check_word. Qed.
Print Assumptions C02_unique_check_word.

(* the doubling rule of the code is multiplication by x modulo x^11 + x^2 + 1 and the
   code's Horner evaluation is the textbook sum of c_i * x^i in that field *)
Theorem C02_field : (forall x, x < 2048 -> mul2 x = gf_mulx x) /\
  (forall c, wf c -> (length c <= 16)%nat -> poly_eval c = spec_eval c).
Proof. exact (conj mul2_is_mulx eval_is_spec). Qed.
Print Assumptions C02_field.

(* non-vacuity: the polynomial of the suite's first phrase validates *)
Example C02_witness :
  let c := [1427; 1770; 1756; 922; 820; 110; 1446; 998; 542; 1926; 1656; 1044; 842; 1392; 44; 999] in
  wf c /\ poly_eval c = 0.
Proof.
  split; [|vm_compute; reflexivity].
  apply Forall_forall. intros x Hx. apply N.ltb_lt. revert x Hx. apply forallb_forall. vm_compute. reflexivity.
Qed.
