(* The tie for the API layer: src/polyseed.c as TRANSLATED on this run (Gen/CApi.v: calls through the
   dependency table are events, the environment's answers are parameters, `goto cleanup` is the
   continuation after the label) against ApiDefs.step, the mirror every API theorem is about.
   For each public function: for EVERY input the translated code returns the status, the block
   contents, the pointer written through seed_out and - call for call, in program order - the
   events of the mirror. *)
From Coq Require Import String.
From PS Require Import Base GFDefs PackDefs StoreDefs MiscDefs StrDefs LangDefs ApiDefs SpecDefs.
From PS Require Import GFProofs MiscProofs PackProofs PackTheorems StoreProofs SeedProofs ApiLemmas.
From PS Require Import StrProofs CTieBase CTieTac CTieGF CTieBday CTieFeat CTiePack CTieStore CTieLang CTieStr.
From PS.Gen Require Import Consts PrivConsts.
From PS.Gen Require CFuns CApi.
Local Open Scope N_scope.

(* a block: the four fields of polyseed_data as the translated code sees them *)
Definition zd (d : data) : Z * Z * list Z * Z :=
  (zN (d_birthday d), zN (d_features d), map zN (d_secret d), zN (d_checksum d)).

(* pointer <-> handle: the environment answers an allocation with NULL or with block h as h + 1 *)
Definition ptr (h : N) : Z := (zN h + 1)%Z.
Definition hnd (p : Z) : N := Z.to_N (p - 1).

Definition cobj (s : string) : option obj :=
  if String.eqb s "poly" then Some OPoly else
  if String.eqb s "str_tmp" then Some OStrTmp else
  if String.eqb s "words" then Some OWords else
  if String.eqb s "mask" then Some OMask else
  if String.eqb s "pass_norm" then Some OPassNorm else
  if String.eqb s "idx" then Some OIdx else None.

Definition bytes_of (l : list Z) : bytes := map (fun z => byte_of_N (Z.to_N z)) l.

(* one call of the translated code as the mirror's event(s) *)
Definition ev_of (dp : deps) (c : CApi.cev) : list event :=
  match c with
  | CApi.CAlloc n r => [EvAlloc (dp_alloc_libc dp) (Z.to_N n) (if (r =? 0)%Z then None else Some (hnd r))]
  | CApi.CFree p => [EvFree (dp_free_libc dp) (hnd p)]
  | CApi.CWipe s len => match cobj s with Some o => [EvWipe o (Z.to_N len)] | None => [EvWipe (OSeed 0) 0; EvWipe (OSeed 0) 0] end
  | CApi.CWipeP p len => [EvWipe (OSeed (hnd p)) (Z.to_N len)]
  | CApi.CRand n => [EvRand (Z.to_N n)]
  | CApi.CTime => [EvTime (dp_time_libc dp)]
  | CApi.CKdf pw pwlen salt saltlen iters keylen =>
      [EvKdf (map Z.to_N (firstn (Z.to_nat pwlen) pw)) (Z.to_N pwlen) (map Z.to_N salt) (Z.to_N saltlen) (Z.to_N iters) (Z.to_N keylen)]
  | CApi.CNfc s => [EvNfc (bytes_of (CApi.cstr s))]
  | CApi.CNfkdLazy s =>
      let '(_, _, called) := nfkd_lazy (dp_nfkd dp) (bytes_of s) in
      if called then [EvNfkd (bytes_of s)] else []
  end.

Definition evs_of (dp : deps) (l : list CApi.cev) : list event := flat_map (ev_of dp) l.

Lemma hnd_ptr h : hnd (ptr h) = h.
Proof. unfold hnd, ptr. replace (zN h + 1 - 1)%Z with (zN h) by lia. apply N2Z.id. Qed.
Lemma ptr_nz h : (ptr h =? 0)%Z = false.
Proof. unfold ptr. apply Z.eqb_neq. lia. Qed.

(* ------------------------------------------------------------------ free, the queries, store *)
Theorem tie_free dp h :
  evs_of dp (CApi.polyseed_free (ptr h)) = free_events dp h.
Proof.
  unfold CApi.polyseed_free. rewrite ptr_nz. cbn [negb app evs_of flat_map ev_of]. rewrite hnd_ptr.
  reflexivity.
Qed.

Theorem tie_free_null dp : evs_of dp (CApi.polyseed_free 0) = [].
Proof. reflexivity. Qed.

Theorem tie_get_birthday d : d_birthday d < 2 ^ 32 ->
  CApi.polyseed_get_birthday (zN (d_birthday d)) (zN (d_features d)) (map zN (d_secret d)) (zN (d_checksum d))
  = zN (birthday_decode (d_birthday d)).
Proof. intros H. unfold CApi.polyseed_get_birthday. apply tie_birthday_decode. exact H. Qed.

Theorem tie_get_feature d m :
  CApi.polyseed_get_feature (zN (d_birthday d)) (zN (d_features d)) (map zN (d_secret d)) (zN (d_checksum d)) (zN m)
  = zN (get_features (d_features d) m).
Proof. unfold CApi.polyseed_get_feature. apply tie_get_features. Qed.

Theorem tie_is_encrypted_api d :
  CApi.polyseed_is_encrypted (zN (d_birthday d)) (zN (d_features d)) (map zN (d_secret d)) (zN (d_checksum d))
  = if is_encrypted (d_features d) then 1%Z else 0%Z.
Proof.
  unfold CApi.polyseed_is_encrypted. rewrite tie_is_encrypted. destruct (is_encrypted _); reflexivity.
Qed.

Theorem tie_store d st0 : Canon d -> d_checksum d < 2048 ->
  CApi.polyseed_store (zN (d_birthday d)) (zN (d_features d)) (map zN (d_secret d)) (zN (d_checksum d)) st0
  = map zN (data_store d).
Proof. intros HC Hck. unfold CApi.polyseed_store. apply tie_data_store; assumption. Qed.

(* ------------------------------------------------------------------ load *)
Definition alloc_ptr (st : state) (ok : bool) : Z := if ok then ptr (st_next st) else 0%Z.

Lemma zmod_small_N a m : a < m -> (zN a mod zN m)%Z = zN a.
Proof. intros H. apply Z.mod_small. lia. Qed.

Lemma check_tie c : length c = 16%nat -> wf c ->
  CApi.gf_poly_check CFuns.polyseed_mul2_table (map zN c) = if poly_check c then 1%Z else 0%Z.
Proof.
  intros Hl Hw. unfold CApi.gf_poly_check. cbv beta iota zeta. rewrite (tie_eval c Hl Hw).
  unfold poly_check. change 0%Z with (zN 0). rewrite zeqb_N. destruct (_ =? _); reflexivity.
Qed.

Theorem tie_load sgn langs st buf ok gb gf gs gc so0 :
  length buf = 32%nat -> bytes_ok buf ->
  let '(st', out, evs) := step sgn langs st (OpLoad buf ok) in
  exists cevs b f s c so status,
    CApi.polyseed_load (alloc_ptr st ok) CFuns.polyseed_mul2_table (zN (st_reserved st)) (map zN buf) gb gf gs gc so0
      = (cevs, b, f, s, c, so, status) /\
    evs_of (st_deps st) cevs = evs /\
    out = OutStatus (Z.to_N status) (if (status =? 0)%Z then Some (st_next st) else None) None /\
    (if (status =? 0)%Z
     then so = ptr (st_next st) /\ exists d, st_heap st' = (st_next st, d) :: st_heap st /\ (b, f, s, c) = zd d
     else so = so0 /\ st_heap st' = st_heap st).
Proof.
  intros Hl Hb. cbn [step]. unfold alloc_ptr. destruct ok; cbn [negb].
  2:{ do 7 eexists. split; [reflexivity|]. repeat split. }
  set (h := st_next st). set (dp := st_deps st).
  unfold CApi.polyseed_load. cbv beta iota zeta. rewrite ptr_nz. cbv beta iota zeta. cbn [negb].
  pose proof (tie_data_load buf gb gf gs gc Hl Hb) as TL.
  destruct (data_load buf) as [|d] eqn:EL.
  - destruct (CFuns.polyseed_data_load (map zN buf) gb gf gs gc) as [[[[b f] s] c] res]. cbn [snd] in TL. subst res.
    cbv beta iota zeta. change (zN ST_FORMAT mod 4294967296 =? 0)%Z with false. cbn [negb].
    do 7 eexists. split; [reflexivity|]. split; [|repeat split].
    unfold evs_of. cbn [flat_map ev_of app]. rewrite ptr_nz, hnd_ptr. reflexivity.
  - rewrite TL. cbv beta iota zeta. change (zN ST_OK mod 4294967296 =? 0)%Z with true. cbn [negb].
    apply (load_ok_iff buf d Hl Hb) in EL. destruct EL as (HC&Hck&_).
    rewrite (canon_poly_of d _ HC).
    assert (Hm : (zN (d_checksum d) mod 18446744073709551616)%Z = zN (d_checksum d)) by (apply Z.mod_small; lia).
    rewrite Hm.
    change [zN (d_checksum d); 0; 0; 0; 0; 0; 0; 0; 0; 0; 0; 0; 0; 0; 0; 0]%Z
      with (map zN [d_checksum d; 0; 0; 0; 0; 0; 0; 0; 0; 0; 0; 0; 0; 0; 0; 0]).
    rewrite (tie_data_to_poly d [d_checksum d; 0; 0; 0; 0; 0; 0; 0; 0; 0; 0; 0; 0; 0; 0; 0] HC eq_refl). cbn [hd].
    destruct (spec_data_words_wf (abs_data d)) as [W WL].
    assert (Wc : wf (d_checksum d :: spec_data_words (abs_data d))) by (constructor; assumption).
    assert (Lc : length (d_checksum d :: spec_data_words (abs_data d)) = 16%nat) by (cbn [length]; rewrite WL; reflexivity).
    rewrite (check_tie _ Lc Wc), tie_features_supported.
    destruct (poly_check _); cbn [negb].
    2:{ change (negb (negb (0 =? 0)%Z)) with true. cbv beta iota.
        do 7 eexists. split; [reflexivity|]. split; [|repeat split].
        unfold evs_of. cbn [flat_map ev_of app cobj String.eqb]. rewrite ptr_nz, hnd_ptr. reflexivity. }
    change (negb (negb (1 =? 0)%Z)) with false. cbv beta iota.
    destruct (features_supported _ _); cbn [negb].
    2:{ change (negb (negb (0 =? 0)%Z)) with true. cbv beta iota.
        do 7 eexists. split; [reflexivity|]. split; [|repeat split].
        unfold evs_of. cbn [flat_map ev_of app]. rewrite ptr_nz, hnd_ptr. reflexivity. }
    change (negb (negb (1 =? 0)%Z)) with false. cbv beta iota.
    do 7 eexists. split; [reflexivity|]. split; [|split; [reflexivity|]].
    + unfold evs_of. cbn [flat_map ev_of app]. rewrite ptr_nz, hnd_ptr. reflexivity.
    + cbn [Z.eqb]. split; [reflexivity|]. exists d. split; reflexivity.
Qed.

(* ------------------------------------------------------------------ create *)
Lemma nth_map_zN i l : @nth Z i (map zN l) 0%Z = zN (nth i l 0).
Proof. change 0%Z with (zN 0). apply map_nth. Qed.

Lemma land_m193 n : n < 256 -> Z.land (zN n) (-193) = zN (n mod 64).
Proof.
  intros H.
  assert (F : forallb (fun k => (Z.land (zN (N.of_nat k)) (-193) =? zN (N.of_nat k mod 64))%Z) (seq 0 256) = true)
    by (vm_compute; reflexivity).
  rewrite forallb_forall in F. specialize (F (N.to_nat n)). rewrite N2Nat.id in F.
  apply Z.eqb_eq, F, in_seq. lia.
Qed.

Lemma zmod256 a : (zN a mod 256)%Z = zN (a mod 256).
Proof. change 256%Z with (zN 256). symmetry. apply N2Z.inj_mod. Qed.

Theorem tie_create sgn langs st features rand clock ok gb gf gs gc so0 :
  features < 2 ^ 32 -> clock < 2 ^ 64 ->
  let '(st', out, evs) := step sgn langs st (OpCreate features rand clock ok) in
  exists cevs b f s c so status,
    CApi.polyseed_create (alloc_ptr st ok) (zN clock) (map zN rand) CFuns.polyseed_mul2_table (zN (st_reserved st))
      (zN features) gb gf gs gc so0 = (cevs, b, f, s, c, so, status) /\
    evs_of (st_deps st) cevs = evs /\
    out = OutStatus (Z.to_N status) (if (status =? 0)%Z then Some (st_next st) else None) None /\
    (if (status =? 0)%Z
     then so = ptr (st_next st) /\ exists d, st_heap st' = (st_next st, d) :: st_heap st /\ (b, f, s, c) = zd d
     else so = so0 /\ st_heap st' = st_heap st).
Proof.
  intros Hf Hclk. cbn [step]. unfold CApi.polyseed_create. cbv beta iota zeta.
  rewrite tie_make_features.
  assert (Hmf : make_features features < 8).
  { apply make_features_spec. }
  assert (Em : (zN (make_features features) mod 4294967296)%Z = zN (make_features features)) by (apply Z.mod_small; lia).
  rewrite !Em, tie_features_supported.
  destruct (features_supported _ _); cbn [negb].
  2:{ change (negb (negb (0 =? 0)%Z)) with true. cbv beta iota.
      do 7 eexists. split; [reflexivity|]. repeat split. }
  change (negb (negb (1 =? 0)%Z)) with false. cbv beta iota.
  unfold alloc_ptr. destruct ok; cbn [negb].
  2:{ change (0 =? 0)%Z with true. cbv beta iota. do 7 eexists. split; [reflexivity|]. repeat split. }
  rewrite ptr_nz. cbv beta iota.
  rewrite (tie_birthday_encode clock Hclk).
  assert (Eb : (zN (birthday_encode clock) mod 4294967296)%Z = zN (birthday_encode clock))
    by (apply Z.mod_small; pose proof (encode_lt clock); lia).
  rewrite Eb.
  set (sec := _ ++ repeat 0 (N.to_nat (SECRET_BUFFER_SIZE - SECRET_SIZE))).
  set (d0 := mkdata (birthday_encode clock) (make_features features) sec 0).
  assert (Esec : sec = (map (fun i => nth i rand 0 mod 256) (seq 0 18) ++ [(nth 18 rand 0 mod 256) mod 64]) ++ repeat 0 13).
  { unfold sec. change (N.to_nat SECRET_SIZE) with 19%nat. change (N.to_nat (SECRET_BUFFER_SIZE - SECRET_SIZE)) with 13%nat.
    cbn [seq map upd nth Nat.sub app]. rewrite land_63. reflexivity. }
  assert (HC : Canon d0).
  { unfold Canon, d0. cbn [d_secret d_birthday d_features]. rewrite Esec.
    cbn [seq map app]. split; [reflexivity|]. split.
    - repeat (apply Forall_cons; [first [apply N.mod_lt; discriminate | pose proof (N.mod_lt (nth 18 rand 0 mod 256) 64); lia | lia]|]).
      apply Forall_nil.
    - split; [cbn [nth]; apply N.mod_lt; discriminate|]. split; [reflexivity|].
      split; [apply encode_lt | lia]. }
  rewrite (canon_poly_of d0 0 HC).
  rewrite !nth_map_zN, !zmod256.
  rewrite (land_m193 (nth 18 rand 0 mod 256)) by (apply N.mod_lt; discriminate).
  rewrite zmod256.
  rewrite (N.mod_small (_ mod 64) 256) by (pose proof (N.mod_lt (nth 18 rand 0 mod 256) 64); lia).
  match goal with |- context [CFuns.polyseed_data_to_poly _ _ ?l _] =>
    replace l with (map zN (d_secret d0)) by (unfold d0; cbn [d_secret]; rewrite Esec; reflexivity) end.
  change [0; 0; 0; 0; 0; 0; 0; 0; 0; 0; 0; 0; 0; 0; 0; 0]%Z with (map zN [0; 0; 0; 0; 0; 0; 0; 0; 0; 0; 0; 0; 0; 0; 0; 0]).
  change (zN (birthday_encode clock)) with (zN (d_birthday d0)).
  change (zN (make_features features)) with (zN (d_features d0)).
  rewrite (tie_data_to_poly d0 [0; 0; 0; 0; 0; 0; 0; 0; 0; 0; 0; 0; 0; 0; 0; 0] HC eq_refl). cbn [hd].
  destruct (spec_data_words_wf (abs_data d0)) as [W WL].
  assert (Wc : wf (0 :: spec_data_words (abs_data d0))) by (constructor; [reflexivity|assumption]).
  assert (Lc : length (0 :: spec_data_words (abs_data d0)) = 16%nat) by (cbn [length]; rewrite WL; reflexivity).
  unfold CApi.gf_poly_encode. cbv beta iota zeta. rewrite (tie_eval _ Lc Wc).
  cbn [nth].
  assert (Ev : poly_eval (0 :: spec_data_words (abs_data d0)) < 2048).
  { rewrite <- spec_checksum_eval. apply spec_checksum_lt. }
  set (pe := poly_eval (0 :: spec_data_words (abs_data d0))) in *.
  assert (Ee : (zN pe mod 18446744073709551616)%Z = zN pe) by (apply Z.mod_small; lia).
  rewrite !Ee.
  do 7 eexists. split; [reflexivity|]. split; [|split; [reflexivity|]].
  - unfold evs_of. cbn [flat_map ev_of app]. rewrite ptr_nz, hnd_ptr. reflexivity.
  - cbn [Z.eqb]. split; [reflexivity|]. eexists. split; [reflexivity|].
    unfold zd. cbn [d_birthday d_features d_secret d_checksum]. reflexivity.
Qed.

(* ------------------------------------------------------------------ keygen *)
(* the injected KDF as the translated code calls it: it reads pwlen bytes of the password buffer *)
Definition zkdf (dp : deps) : list Z -> Z -> list Z -> Z -> Z -> Z -> list Z :=
  fun pw pwlen salt saltlen iters keylen =>
    map zN (dp_kdf dp (map Z.to_N (firstn (Z.to_nat pwlen) pw)) (Z.to_N pwlen) (map Z.to_N salt) (Z.to_N saltlen)
                   (Z.to_N iters) (Z.to_N keylen)).

Lemma map_toN_zN l : map Z.to_N (map zN l) = l.
Proof. rewrite map_map. rewrite <- (map_id l) at 2. apply map_ext. intros. apply N2Z.id. Qed.

Lemma store32_tie u : u < 2 ^ 32 ->
  let U := (zN u mod 4294967296)%Z in
  let U1 := (Z.shiftr U 8 mod 4294967296)%Z in
  let U2 := (Z.shiftr U1 8 mod 4294967296)%Z in
  let U3 := (Z.shiftr U2 8 mod 4294967296)%Z in
  [U mod 256; U1 mod 256; U2 mod 256; U3 mod 256]%Z = map zN (store32 u).
Proof.
  intros H. cbv zeta. unfold store32. change U32 with 4294967296. rewrite (N.mod_small u 4294967296) by exact H.
  rewrite !Z.shiftr_div_pow2 by lia. change (2 ^ 8)%Z with 256%Z.
  assert (0 <= zN u < 4294967296)%Z by lia. set (x := zN u) in *.
  cbn [map]. rewrite !N2Z.inj_mod, !N2Z.inj_div. fold x.
  change (zN 256) with 256%Z. change (zN 65536) with 65536%Z. change (zN 16777216) with 16777216%Z.
  clearbody x. clear - H0.
  repeat (apply (f_equal2 (@cons Z)); [lia|]). reflexivity.
Qed.

Theorem tie_keygen dp d coin size ko : Canon d -> coin < 2 ^ 32 ->
  CApi.polyseed_keygen (zkdf dp) (zN (d_birthday d)) (zN (d_features d)) (map zN (d_secret d)) (zN (d_checksum d))
    (zN coin) (zN size) ko =
  ([CApi.CKdf (map zN (d_secret d)) 32 (map zN (keygen_salt coin d)) 32 10000 (zN size)],
   map zN (dp_kdf dp (d_secret d) SECRET_BUFFER_SIZE (keygen_salt coin d) 32 KDF_NUM_ITERATIONS size)) /\
  evs_of dp [CApi.CKdf (map zN (d_secret d)) 32 (map zN (keygen_salt coin d)) 32 10000 (zN size)] =
  [EvKdf (d_secret d) SECRET_BUFFER_SIZE (keygen_salt coin d) 32 KDF_NUM_ITERATIONS size].
Proof.
  intros HC Hc.
  assert (Hl : length (d_secret d) = 32%nat) by apply HC.
  assert (Hb : d_birthday d < 2 ^ 32) by (destruct HC as (_&_&_&_&B&_); lia).
  assert (Hf : d_features d < 2 ^ 32) by (destruct HC as (_&_&_&_&_&F); lia).
  assert (Ef : firstn 32 (map zN (d_secret d)) = map zN (d_secret d)) by (apply firstn_all2; rewrite map_length; lia).
  split.
  - unfold CApi.polyseed_keygen. cbv beta iota zeta.
    pose proof (store32_tie coin Hc) as S1. pose proof (store32_tie _ Hb) as S2. pose proof (store32_tie _ Hf) as S3.
    cbv zeta in S1, S2, S3.
    assert (ES : forall a0 a1 a2 a3 b0 b1 b2 b3 c0 c1 c2 c3 : Z,
      [a0; a1; a2; a3] = map zN (store32 coin) -> [b0; b1; b2; b3] = map zN (store32 (d_birthday d)) ->
      [c0; c1; c2; c3] = map zN (store32 (d_features d)) ->
      [80; 79; 76; 89; 83; 69; 69; 68; 32; 107; 101; 121; 0; 255; 255; 255; a0; a1; a2; a3; b0; b1; b2; b3; c0; c1; c2; c3; 0; 0; 0; 0]%Z
      = map zN (keygen_salt coin d)).
    { intros * A B C. unfold keygen_salt. rewrite !map_app, <- A, <- B, <- C. reflexivity. }
    rewrite (ES _ _ _ _ _ _ _ _ _ _ _ _ S1 S2 S3).
    f_equal. unfold zkdf. change (Z.to_nat 32) with 32%nat. rewrite Ef, !map_toN_zN, N2Z.id. reflexivity.
  - unfold evs_of. cbn [flat_map ev_of app]. change (Z.to_nat 32) with 32%nat. rewrite Ef, !map_toN_zN, N2Z.id. reflexivity.
Qed.

(* ------------------------------------------------------------------ crypt *)
Lemma byte_of_bval b : byte_of_N (bval b) = b.
Proof. destruct b; reflexivity. Qed.

Lemma bytes_of_zs s : bytes_of (zs s) = s.
Proof.
  unfold bytes_of, zs, zb. rewrite map_map. rewrite <- (map_id s) at 2. apply map_ext.
  intros b. rewrite N2Z.id. apply byte_of_bval.
Qed.

Lemma xor_bytes_length a b : length (xor_bytes a b) = length a.
Proof. revert b. induction a as [|x a IH]; intros [|y b]; cbn; try reflexivity. f_equal. apply IH. Qed.

Lemma xor_bytes_nth a b i : (i < length a)%nat -> nth i (xor_bytes a b) 0 = N.lxor (nth i a 0) (nth i b 0).
Proof.
  revert b i. induction a as [|x a IH]; intros b i Hi; [cbn in Hi; lia|].
  destruct b as [|y b]; cbn [xor_bytes].
  - destruct i; cbn [nth]; [symmetry; apply N.lxor_0_r|]. destruct i; symmetry; apply N.lxor_0_r.
  - destruct i; cbn [nth]; [reflexivity|]. apply IH. cbn in Hi. lia.
Qed.

Lemma list19 (l : list N) : length l = 19%nat -> l = [nth 0 l 0; nth 1 l 0; nth 2 l 0; nth 3 l 0; nth 4 l 0; nth 5 l 0; nth 6 l 0; nth 7 l 0; nth 8 l 0; nth 9 l 0; nth 10 l 0; nth 11 l 0; nth 12 l 0; nth 13 l 0; nth 14 l 0; nth 15 l 0; nth 16 l 0; nth 17 l 0; nth 18 l 0].
Proof. intros H. do 19 (destruct l as [|? l]; [discriminate|]). destruct l; [reflexivity|discriminate]. Qed.

Lemma bytes_nth l i : bytes_ok l -> nth i l 0 < 256.
Proof.
  intros H. destruct (Nat.lt_ge_cases i (length l)) as [Hi|Hi].
  - unfold bytes_ok in H. rewrite Forall_forall in H. apply H, nth_In, Hi.
  - rewrite nth_overflow by exact Hi. reflexivity.
Qed.

(* the struct polyseed_crypt leaves, before the new check value is stored *)
Definition crypt_sec (BS : list N) (mask : list N) : list N :=
  let x := xor_bytes BS mask in upd x 18 (N.land (nth 18 x 0) CLEAR_MASK).

Lemma crypt_canon d mask : Canon d -> bytes_ok mask ->
  let sec := crypt_sec (firstn 19 (d_secret d)) mask ++ skipn 19 (d_secret d) in
  let d1 := mkdata (d_birthday d) (N.lxor (d_features d) ENCRYPTED_MASK) sec 0 in
  Canon d1 /\
  exists b0 b1 b2 b3 b4 b5 b6 b7 b8 b9 b10 b11 b12 b13 b14 b15 b16 b17 b18, d_secret d = sec19 b0 b1 b2 b3 b4 b5 b6 b7 b8 b9 b10 b11 b12 b13 b14 b15 b16 b17 b18 ++ repeat 0 13 /\
    sec = [N.lxor b0 (nth 0 mask 0); N.lxor b1 (nth 1 mask 0); N.lxor b2 (nth 2 mask 0); N.lxor b3 (nth 3 mask 0); N.lxor b4 (nth 4 mask 0); N.lxor b5 (nth 5 mask 0); N.lxor b6 (nth 6 mask 0); N.lxor b7 (nth 7 mask 0); N.lxor b8 (nth 8 mask 0); N.lxor b9 (nth 9 mask 0); N.lxor b10 (nth 10 mask 0); N.lxor b11 (nth 11 mask 0); N.lxor b12 (nth 12 mask 0); N.lxor b13 (nth 13 mask 0); N.lxor b14 (nth 14 mask 0); N.lxor b15 (nth 15 mask 0); N.lxor b16 (nth 16 mask 0); N.lxor b17 (nth 17 mask 0); (N.lxor b18 (nth 18 mask 0)) mod 64] ++ repeat 0 13 /\
    bytes_ok [b0; b1; b2; b3; b4; b5; b6; b7; b8; b9; b10; b11; b12; b13; b14; b15; b16; b17; b18].
Proof.
  intros HC Hm. cbv zeta.
  destruct (canon_shape d HC) as (b0 & b1 & b2 & b3 & b4 & b5 & b6 & b7 & b8 & b9 & b10 & b11 & b12 & b13 & b14 & b15 & b16 & b17 & b18&Hs&B0 & B1 & B2 & B3 & B4 & B5 & B6 & B7 & B8 & B9 & B10 & B11 & B12 & B13 & B14 & B15 & B16 & B17 & B18).
  assert (E : crypt_sec (firstn 19 (d_secret d)) mask ++ skipn 19 (d_secret d) =
              [N.lxor b0 (nth 0 mask 0); N.lxor b1 (nth 1 mask 0); N.lxor b2 (nth 2 mask 0); N.lxor b3 (nth 3 mask 0); N.lxor b4 (nth 4 mask 0); N.lxor b5 (nth 5 mask 0); N.lxor b6 (nth 6 mask 0); N.lxor b7 (nth 7 mask 0); N.lxor b8 (nth 8 mask 0); N.lxor b9 (nth 9 mask 0); N.lxor b10 (nth 10 mask 0); N.lxor b11 (nth 11 mask 0); N.lxor b12 (nth 12 mask 0); N.lxor b13 (nth 13 mask 0); N.lxor b14 (nth 14 mask 0); N.lxor b15 (nth 15 mask 0); N.lxor b16 (nth 16 mask 0); N.lxor b17 (nth 17 mask 0); (N.lxor b18 (nth 18 mask 0)) mod 64] ++ repeat 0 13).
  { rewrite Hs. unfold sec19. cbn [firstn skipn app]. unfold crypt_sec. cbv zeta.
    set (a := [b0; b1; b2; b3; b4; b5; b6; b7; b8; b9; b10; b11; b12; b13; b14; b15; b16; b17; b18]).
    rewrite (list19 (xor_bytes a mask)) by (rewrite xor_bytes_length; reflexivity).
    rewrite !xor_bytes_nth by (cbn; lia). unfold a. cbn [nth upd]. rewrite land_63. reflexivity. }
  split.
  - rewrite E. unfold Canon. cbn [d_secret d_birthday d_features app length nth skipn].
    split; [reflexivity|]. split.
    + repeat (apply Forall_cons; [first [ apply lxor_lt_256; [assumption | apply bytes_nth; exact Hm]
                                        | pose proof (N.mod_lt (N.lxor b18 (nth 18 mask 0)) 64); lia | lia ]|]).
      apply Forall_nil.
    + split; [apply N.mod_lt; discriminate|]. split; [reflexivity|]. split; [apply HC|].
      apply lxor_lt_32; [apply HC | reflexivity].
  - exists b0, b1, b2, b3, b4, b5, b6, b7, b8, b9, b10, b11, b12, b13, b14, b15, b16, b17, b18. split; [exact Hs | split; [exact E|]].
    repeat (apply Forall_cons; [lia|]). apply Forall_nil.
Qed.

Lemma lazy_len nf pw norm n called : nfkd_lazy nf pw = (norm, n, called) ->
  snd (nf pw) = N.of_nat (length (fst (nf pw))) -> n = N.of_nat (length norm).
Proof.
  rewrite nfkd_lazy_spec. unfold lazy_spec. cbv zeta. destruct (existsb _ _); intros E H; inversion E; subst; [exact H|reflexivity].
Qed.

Lemma lazy_bound nf pw norm n called : nfkd_lazy nf pw = (norm, n, called) ->
  snd (nf pw) < 2 ^ 64 -> n < 2 ^ 64.
Proof.
  rewrite nfkd_lazy_spec. unfold lazy_spec. cbv zeta. destruct (existsb _ _); intros E H;
    apply (f_equal (fun x => snd (fst x))) in E; cbn [fst snd] in E; subst n; [exact H|].
  set (M := N.to_nat (STR_SIZE - 1)). pose proof (firstn_le_length M pw). assert (M = 543%nat) by reflexivity. lia.
Qed.

Lemma firstn_zs_app (a : bytes) r : firstn (length a) (zs a ++ r) = zs a.
Proof. unfold zs. rewrite <- (map_length zb a). rewrite firstn_app, Nat.sub_diag, firstn_O, app_nil_r. apply firstn_all. Qed.

Lemma map_toN_zs s : map Z.to_N (zs s) = bytesN s.
Proof. unfold zs, bytesN, zb. rewrite map_map. apply map_ext. intros. apply N2Z.id. Qed.

Theorem tie_crypt sgn langs st h pw d fuel D :
  heap_get (st_heap st) h = Some d -> Canon d ->
  no_nul pw -> (length pw + 2 <= fuel)%nat ->
  let dp := st_deps st in
  let nf := dp_nfkd dp in
  D (zs pw) = (zs (fst (nf pw)), zN (snd (nf pw))) ->
  snd (nf pw) = N.of_nat (length (fst (nf pw))) -> snd (nf pw) < 2 ^ 64 ->
  (forall p n salt sl it kl, bytes_ok (dp_kdf dp p n salt sl it kl)) ->
  let '(st', out, evs) := step sgn langs st (OpCrypt h pw) in
  exists cevs d2,
    CApi.polyseed_crypt fuel sgn D (zkdf dp) CFuns.polyseed_mul2_table
      (zN (d_birthday d)) (zN (d_features d)) (map zN (d_secret d)) (zN (d_checksum d)) (zs pw)
    = Some (cevs, zN (d_birthday d2), zN (d_features d2), map zN (d_secret d2), zN (d_checksum d2)) /\
    evs_of dp cevs = evs /\ out = OutUnit /\ st_heap st' = heap_set (st_heap st) h d2 /\ st_next st' = st_next st.
Proof.
  intros Hg HC Hs Hf dp nf HD Hlen Hsz Hk. cbn [step]. rewrite Hg. fold dp. fold nf.
  unfold CApi.polyseed_crypt. cbv beta iota zeta.
  rewrite (tie_nfkd_lazy_mirror sgn nf D pw (repeat 0%Z 544) fuel Hs eq_refl Hf HD).
  destruct (nfkd_lazy nf pw) as [[norm n] called] eqn:EN.
  pose proof (lazy_len nf pw norm n called EN Hlen) as En.
  pose proof (lazy_bound nf pw norm n called EN Hsz) as Hn64.
  set (mask := dp_kdf dp (bytesN norm) n MASK_SALT 16 KDF_NUM_ITERATIONS 32).
  destruct (crypt_canon d mask HC (Hk _ _ _ _ _ _)) as (C1 & b0 & b1 & b2 & b3 & b4 & b5 & b6 & b7 & b8 & b9 & b10 & b11 & b12 & b13 & b14 & b15 & b16 & b17 & b18 & Hsec & E & HB).
  change (N.to_nat SECRET_SIZE) with 19%nat. change (19 - 1)%nat with 18%nat.
  change (upd (xor_bytes (firstn 19 (d_secret d)) mask) 18
            (N.land (nth 18 (xor_bytes (firstn 19 (d_secret d)) mask) 0) CLEAR_MASK))
    with (crypt_sec (firstn 19 (d_secret d)) mask).
  set (sec := crypt_sec (firstn 19 (d_secret d)) mask ++ skipn 19 (d_secret d)) in *.
  set (d1 := mkdata (d_birthday d) (N.lxor (d_features d) ENCRYPTED_MASK) sec 0) in *.
  rewrite (canon_poly_of d1 0 C1).
  set (buffer := if called then zs norm else zs norm ++ 0%Z :: skipn (S (length norm)) (repeat 0%Z 544)).
  replace (if called then Some (zs norm, zN n) else Some (zs norm ++ 0%Z :: skipn (S (length norm)) (repeat 0%Z 544), zN n))
    with (Some (buffer, zN n)) by (unfold buffer; destruct called; reflexivity).
  cbv beta iota.
  assert (EB : firstn (N.to_nat n) buffer = zs norm).
  { rewrite En, Nat2N.id. unfold buffer. destruct called; [|apply firstn_zs_app].
    unfold zs. rewrite <- (map_length zb norm). apply firstn_all. }
  rewrite (Z.mod_small (zN n) 18446744073709551616) by lia.
  assert (EM : zkdf dp buffer (zN n) [80; 79; 76; 89; 83; 69; 69; 68; 32; 109; 97; 115; 107; 0; 255; 255]%Z 16 10000 32 = map zN mask).
  { unfold zkdf. rewrite <- (Z_N_nat (zN n)), !N2Z.id, EB, map_toN_zs. reflexivity. }
  rewrite EM.
  rewrite !nth_map_zN, <- !zN_lxor, !zmod256.
  change 16%Z with (zN ENCRYPTED_MASK). rewrite <- zN_lxor.
  assert (Hft : N.lxor (d_features d) ENCRYPTED_MASK < 32) by (apply lxor_lt_32; [apply HC | reflexivity]).
  rewrite (Z.mod_small (zN (N.lxor (d_features d) ENCRYPTED_MASK)) 4294967296) by lia.
  rewrite Hsec. unfold sec19. cbn [nth app repeat].
  unfold bytes_ok in HB.
  repeat match goal with H : Forall _ (_ :: _) |- _ =>
    let a := fresh "A" in let b := fresh "F" in (apply Forall_cons_iff in H; destruct H as [a b]) end.
  assert (Hmk : forall i, nth i mask 0 < 256) by (intros i; apply bytes_nth, Hk).
  rewrite !(N.mod_small (N.lxor _ (nth _ mask 0)) 256) by (apply lxor_lt_256; [assumption | apply Hmk]).
  rewrite (land_m193 (N.lxor b18 (nth 18 mask 0))) by (apply lxor_lt_256; [assumption | apply Hmk]).
  rewrite zmod256.
  rewrite (N.mod_small (_ mod 64) 256) by (pose proof (N.mod_lt (N.lxor b18 (nth 18 mask 0)) 64); lia).
  match goal with |- context [CFuns.polyseed_data_to_poly _ _ ?l _] =>
    replace l with (map zN (d_secret d1)) by (unfold d1; cbn [d_secret]; rewrite E; reflexivity) end.
  change [0; 0; 0; 0; 0; 0; 0; 0; 0; 0; 0; 0; 0; 0; 0; 0]%Z with (map zN [0; 0; 0; 0; 0; 0; 0; 0; 0; 0; 0; 0; 0; 0; 0; 0]).
  change (zN (d_birthday d)) with (zN (d_birthday d1)).
  change (zN (N.lxor (d_features d) ENCRYPTED_MASK)) with (zN (d_features d1)).
  rewrite (tie_data_to_poly d1 [0; 0; 0; 0; 0; 0; 0; 0; 0; 0; 0; 0; 0; 0; 0; 0] C1 eq_refl). cbn [hd].
  destruct (spec_data_words_wf (abs_data d1)) as [W WL].
  assert (Wc : wf (0 :: spec_data_words (abs_data d1))) by (constructor; [reflexivity|assumption]).
  assert (Lc : length (0 :: spec_data_words (abs_data d1)) = 16%nat) by (cbn [length]; rewrite WL; reflexivity).
  unfold CApi.gf_poly_encode. cbv beta iota zeta. rewrite (tie_eval _ Lc Wc).
  cbn [nth].
  assert (Ev : poly_eval (0 :: spec_data_words (abs_data d1)) < 2048).
  { rewrite <- spec_checksum_eval. apply spec_checksum_lt. }
  set (pe := poly_eval (0 :: spec_data_words (abs_data d1))) in *.
  assert (Ee : (zN pe mod 18446744073709551616)%Z = zN pe) by (apply Z.mod_small; lia).
  rewrite !Ee.
  exists [CApi.CNfkdLazy (zs pw);
        CApi.CKdf buffer (zN n)
          [80%Z; 79%Z; 76%Z; 89%Z; 83%Z; 69%Z; 69%Z; 68%Z; 32%Z; 109%Z; 97%Z; 115%Z; 107%Z; 0%Z; 255%Z; 255%Z] 16 10000 32;
        CApi.CWipe "poly" (zN sizeof_poly); CApi.CWipe "mask" 32; CApi.CWipe "pass_norm" 544].
  exists (mkdata (d_birthday d1) (d_features d1) sec pe).
  cbn [d_birthday d_features d_secret d_checksum].
  split; [unfold d1 at 1 2 3; cbn [d_birthday d_features d_secret]; reflexivity|]. split; [|repeat split].
  unfold evs_of. cbn [flat_map ev_of app cobj]. fold nf. rewrite bytes_of_zs, EN.
  rewrite <- (Z_N_nat (zN n)), !N2Z.id, EB, map_toN_zs. reflexivity.
Qed.
