(* Facts about the GENERATED language data (coq/Gen, re-created from /repo's
   current sources on every run), each an exhaustive computation inside Coq. *)
From PS Require Import Base LangDefs SpecDefs LangProofs.
From PS.Gen Require Import Langs.
From PS.Ref Require Langs.

Definition lang_eqb (a b : lang) : bool :=
  bytes_eqb (l_name a) (l_name b) && bytes_eqb (l_name_en a) (l_name_en b) &&
  bytes_eqb (l_separator a) (l_separator b) &&
  Bool.eqb (l_is_sorted a) (l_is_sorted b) && Bool.eqb (l_has_prefix a) (l_has_prefix b) &&
  Bool.eqb (l_has_accents a) (l_has_accents b) && Bool.eqb (l_compose a) (l_compose b) &&
  list_eqb bytes_eqb (l_words a) (l_words b).

(* every list has 2048 NUL-free words and every list flagged as sorted is strictly
   increasing in the order its comparer uses - for signed AND unsigned char *)
Lemma langs_ok_signed : forallb (lang_ok true) langs = true.
Proof. vm_cast_no_check (eq_refl true). Qed.

Lemma langs_ok_unsigned : forallb (lang_ok false) langs = true.
Proof. vm_cast_no_check (eq_refl true). Qed.

(* deciding keys (stripped word, cut to 4 letters where abbreviation is allowed) are pairwise distinct *)
Lemma langs_uniq : forallb (uniq_ok true) langs = true.
Proof. vm_cast_no_check (eq_refl true). Qed.

(* the lists, flags, names and separators are those of the pinned release *)
Lemma langs_frozen : list_eqb lang_eqb langs Ref.Langs.langs = true.
Proof. vm_cast_no_check (eq_refl true). Qed.

(* ---- consequences for every registered language ---- *)
Lemma lang_ok_in sgn L : In L langs -> lang_ok sgn L = true.
Proof.
  intros H. destruct sgn.
  - pose proof langs_ok_signed as A. rewrite forallb_forall in A. apply A, H.
  - pose proof langs_ok_unsigned as A. rewrite forallb_forall in A. apply A, H.
Qed.

Lemma words_len L : In L langs -> length (l_words L) = 2048%nat.
Proof. intros H. apply (ok_len true L (lang_ok_in true L H)). Qed.

Lemma words_nonul L : In L langs -> Forall no_nul (l_words L).
Proof. intros H. apply (ok_nonul true L (lang_ok_in true L H)). Qed.

Lemma keys_nodup L : In L langs -> NoDup (uniq_keys L).
Proof.
  intros H. apply (uniq_ok_nodup true); [|apply words_nonul, H].
  pose proof langs_uniq as A. rewrite forallb_forall in A. apply A, H.
Qed.

(* C08: the search returns j exactly when word j accepts the token *)
Theorem search_accepts sgn L key j : In L langs -> no_nul key ->
  (lang_search sgn L key = Some (Some j) <->
   (j < 2048)%nat /\ accepts_b L key (nth j (l_words L) []) = true).
Proof.
  intros HL Hk. pose proof (lang_ok_in sgn L HL) as Hok. split.
  - apply lang_search_sound; assumption.
  - intros [Hj Ha].
    destruct (lang_search_complete sgn L Hok key Hk j Hj Ha) as [j' Hj'].
    destruct (lang_search_sound sgn L Hok key Hk j' Hj') as [Hj'' Ha'].
    assert (j' = j); [|subst; exact Hj'].
    apply (accepts_unique L key); try rewrite words_len by exact HL; try assumption.
    apply keys_nodup, HL.
Qed.

Theorem search_total sgn L key : In L langs -> lang_search sgn L key <> None.
Proof. intros HL. apply lang_search_total. Qed.

(* no token is recognised: exactly when no word accepts it *)
Theorem search_none sgn L key : In L langs -> no_nul key ->
  (lang_search sgn L key = Some None <->
   forall j, (j < 2048)%nat -> accepts_b L key (nth j (l_words L) []) = false).
Proof.
  intros HL Hk. split.
  - intros H j Hj. destruct (accepts_b L key (nth j (l_words L) [])) eqn:E; [|reflexivity].
    assert (X : lang_search sgn L key = Some (Some j)) by (apply search_accepts; auto).
    congruence.
  - intros H. destruct (lang_search sgn L key) as [[j|]|] eqn:E.
    + apply search_accepts in E; try assumption. destruct E as [Hj Ha]. rewrite H in Ha by exact Hj. discriminate.
    + reflexivity.
    + exfalso. revert E. apply search_total, HL.
Qed.

(* C19 at the level of the search: the result does not depend on the signedness of char *)
Theorem search_sgn_independent L key : In L langs -> no_nul key ->
  lang_search true L key = lang_search false L key.
Proof.
  intros HL Hk.
  destruct (lang_search true L key) as [[j|]|] eqn:E.
  - apply search_accepts in E; try assumption. symmetry. apply search_accepts; assumption.
  - symmetry. apply search_none; try assumption. apply (search_none true); assumption.
  - exfalso. revert E. apply search_total, HL.
Qed.

(* every word typed in full is found at its own index *)
Theorem self_index sgn L j : In L langs -> (j < 2048)%nat ->
  lang_search sgn L (nth j (l_words L) []) = Some (Some j).
Proof.
  intros HL Hj. apply search_accepts; try assumption.
  - pose proof (words_nonul L HL) as H. apply Forall_nth; [exact H | rewrite words_len by exact HL; exact Hj].
  - split; [exact Hj|]. unfold accepts_b, accepts_stripped.
    replace (bytes_eqb _ _) with true; [reflexivity|]. symmetry. apply bytes_eqb_eq. reflexivity.
Qed.

(* agreement with the specification's own lookup *)
Theorem search_is_spec_find sgn L key : In L langs -> no_nul key ->
  lang_search sgn L key = Some (spec_find L key).
Proof.
  intros HL Hk.
  assert (F : forall sws j0, 
     match find_stripped L (strip L key) sws j0 with
     | Some j => (j0 <= j < j0 + length sws)%nat /\ accepts_stripped L (strip L key) (nth (j - j0) sws []) = true
     | None => forall k, (k < length sws)%nat -> accepts_stripped L (strip L key) (nth k sws []) = false
     end).
  { induction sws as [|e sws IH]; intros j0; cbn [find_stripped].
    - intros k Hk0. cbn in Hk0. lia.
    - destruct (accepts_stripped L (strip L key) e) eqn:E.
      + rewrite Nat.sub_diag. cbn. split; [lia | exact E].
      + specialize (IH (S j0)). destruct (find_stripped L (strip L key) sws (S j0)) as [j|].
        * destruct IH as [I1 I2]. cbn [length]. split; [lia|].
          replace (j - j0)%nat with (S (j - S j0)) by lia. exact I2.
        * intros k Hk0. destruct k as [|k]; [exact E|]. cbn [nth]. apply IH. cbn in Hk0. lia. }
  unfold spec_find. specialize (F (map (strip L) (l_words L)) 0%nat).
  rewrite map_length, words_len in F by exact HL.
  destruct (find_stripped L (strip L key) (map (strip L) (l_words L)) 0) as [j|].
  - destruct F as [F1 F2]. rewrite Nat.sub_0_r, nth_map_strip in F2.
    apply search_accepts; try assumption. split; [lia | exact F2].
  - apply search_none; try assumption. intros j Hj. unfold accepts_b.
    rewrite <- nth_map_strip. apply F, Hj.
Qed.
