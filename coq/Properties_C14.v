(* C14 - arbitrary input is handled safely and totally (partial: the model's bounds; the compiled
   program's undefined behaviour is observed by the sanitizer builds of the correspondence). *)
From PS Require Import Base GFDefs PackDefs StrDefs LangDefs ApiDefs SpecDefs SpecApi GFProofs PackProofs StrProofs ApiLemmas
  RefineProofs FrameProofs SafetyProofs.
From PS.Gen Require Import Consts Langs.
Local Open Scope N_scope.

(* OutFault is the model's value for: a write at or beyond cell STR_SIZE of str_tmp, an index
   outside the secret buffer / a word list / words[16], a search that runs out of steps, a violated
   assert of gf.c.  It is never produced on a well-formed call with a live seed and a registered
   language - for EVERY string, buffer, coin, state. *)
Theorem C14_no_fault : forall sgn cs a o, R cs a -> op_ok o -> lang_ok_op o ->
  (forall h, touches o = Some h -> heap_get (st_heap cs) h <> None) ->
  ApiTheorems.outp (step sgn langs cs o) <> OutFault.
Proof. exact no_fault. Qed.
Print Assumptions C14_no_fault.

Theorem C14_status_range : forall sgn cs a o, R cs a -> op_ok o ->
  match o with
  | OpCreate _ _ _ _ => status_in [ST_OK; ST_UNSUPPORTED; ST_MEMORY] (ApiTheorems.outp (step sgn langs cs o))
  | OpLoad _ _ => status_in [ST_OK; ST_FORMAT; ST_CHECKSUM; ST_UNSUPPORTED; ST_MEMORY] (ApiTheorems.outp (step sgn langs cs o))
  | OpDecode _ _ _ =>
    status_in [ST_OK; ST_NUM_WORDS; ST_LANG; ST_MULT_LANG; ST_CHECKSUM; ST_UNSUPPORTED; ST_MEMORY] (ApiTheorems.outp (step sgn langs cs o))
  | OpDecodeExplicit _ _ _ _ =>
    status_in [ST_OK; ST_NUM_WORDS; ST_LANG; ST_CHECKSUM; ST_UNSUPPORTED; ST_MEMORY] (ApiTheorems.outp (step sgn langs cs o))
  | _ => True
  end.
Proof. exact status_range. Qed.
Print Assumptions C14_status_range.

(* the leaves: the search always terminates within its 13 steps; the lazy normaliser's copy loop
   stays below STR_SIZE; at most 16 words are stored; the packing loops never leave the 32-byte
   secret buffer and their asserts hold *)
Theorem C14_leaves :
  (forall sgn L key, In L langs -> lang_search sgn L key <> None) /\
  (forall nfkd str, existsb is_nonascii (firstn (N.to_nat (STR_SIZE - 1)) str) = false ->
                    N.of_nat (length (fst (fst (nfkd_lazy nfkd str)))) < STR_SIZE) /\
  (forall s, (length (snd (str_split s)) <= 16)%nat) /\
  (forall d, Canon d -> exists ws, data_to_poly_full d = Some (ws, true)) /\
  (forall c, length c = 16%nat -> wf (tl c) -> exists d, poly_to_data_full c = Some (d, true)).
Proof. exact leaves_total. Qed.
Print Assumptions C14_leaves.

(* failure never yields a seed: a constructor that does not return OK adds nothing to the heap *)
Theorem C14_no_seed_on_failure : forall sgn ls cs o, TraceProofs.is_constructor o = true ->
  let r := step sgn ls cs o in
  match TraceProofs.outp r with
  | OutStatus st (Some h) _ => st = ST_OK /\ h = st_next cs /\ exists d, st_heap (TraceProofs.stp r) = (h, d) :: st_heap cs
  | OutStatus st None _ => st <> ST_OK /\ st_heap (TraceProofs.stp r) = st_heap cs
  | _ => st_heap (TraceProofs.stp r) = st_heap cs
  end.
Proof. exact TraceProofs.constructor_outcome. Qed.
Print Assumptions C14_no_seed_on_failure.
