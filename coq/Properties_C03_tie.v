(* C03 - the tie to the code: theorems about the Gallina that tools/c2coq.py generates from /repo's CURRENT
   sources on every run (Gen/CFuns.v, Gen/CApi.v).  Kept apart from Properties_C03.v so that a change to the C code
   which breaks a tie leaves the theorems about the model standing, and the other way round. *)
From PS Require Import Base PackDefs ApiDefs SpecDefs SpecApi PackProofs PackTheorems ApiLemmas RefineProofs ApiTheorems.
From PS Require Import CTiePack.
From PS.Gen Require CFuns.
From PS.Gen Require Import Consts Langs.
Local Open Scope N_scope.

(* ---- the tie to the code: polyseed_data_to_poly as TRANSLATED from /repo's current gf.c on this run
   (Gen/CFuns.v; the chunk loops unrolled by constant propagation, the three asserts decided at
   translation time) writes the published data words into coeff[1..15] for EVERY canonical struct *)
Theorem C03_code_tie : forall d poly, Canon d -> length poly = 16%nat ->
  CFuns.polyseed_data_to_poly (Z.of_N (d_birthday d)) (Z.of_N (d_features d)) (map Z.of_N (d_secret d)) (map Z.of_N poly)
  = map Z.of_N (hd 0 poly :: spec_data_words (abs_data d)).
Proof. exact tie_data_to_poly. Qed.
Print Assumptions C03_code_tie.

(* ---- the tie to the code: src/polyseed.c as TRANSLATED on this run (Gen/CApi.v) ---- *)
From Coq Require Import String.
From PS Require Import Base GFDefs PackDefs StoreDefs MiscDefs StrDefs LangDefs ApiDefs SpecDefs SpecApi GFProofs PackProofs StoreProofs RefineProofs RoundTrip TraceProofs FrameProofs SafetyProofs CTieBase CTieLang CTiePhrase CTiePhraseEv CTieSplit CTieApi CTieDecode CTieEncode CTieLocals CTieInject CTieCmp CTieSearch CTieClosed CodeTheorems HeldProofs CodeMachine.
From PS.Gen Require Import Consts PrivConsts Langs.
From PS.Gen Require CFuns.
From PS.Gen Require CApi.

(* ON THE CODE: what the TRANSLATED polyseed_encode / store / crypt / keygen / queries / free do on a held seed does not depend on the feature set enabled at the time of the call - cstep_ok composed with HeldProofs.held_independent *)
Theorem C03_code_tie_held_independent :
  forall (sgn : bool) (fuel : nat) (ext : Z -> list Z -> Z) (OKW : bytes -> Prop),
         (forall (li : nat) (L : lang) (w : bytes),
          OKW w -> nth_error langs li = Some L -> ext (Z.of_nat li) (zs w) = enc (lang_search sgn L w)) ->
         (forall t : bytes, no_nul t -> (Datatypes.length t + 2 <= fuel)%nat -> OKW t) ->
         (18 <= fuel)%nat ->
         forall (st : state) (r : N) (o : op),
         uses_held o = true ->
         op_ready sgn fuel st o ->
         cstep sgn fuel ext (with_reserved r st) o =
         (with_reserved r (fst (fst (cstep sgn fuel ext st o))), snd (fst (cstep sgn fuel ext st o)),
          snd (cstep sgn fuel ext st o)).
Proof. exact @code_held_independent. Qed.
Print Assumptions C03_code_tie_held_independent.

(* polyseed_encode as translated: coefficient 0 is the stored check value, coefficient 1 carries the coin, word i of the output is word number coefficient i of the list *)
Theorem C03_code_tie_api_encode :
  forall (sgn : bool) (st : state) (fuel li : nat) (L : lang),
         nth_error langs li = Some L ->
         (forall j : nat, (Datatypes.length (nth j (l_words L) []) + 1 <= fuel)%nat) ->
         (Datatypes.length (l_separator L) + 1 <= fuel)%nat ->
         (forall x : bytes, snd (dp_nfc (st_deps st) x) < 2 ^ 64) ->
         forall (h : N) (d : data) (coin : N) (out0 : list Z),
         heap_get (st_heap st) h = Some d ->
         Canon d ->
         d_checksum d < 2048 ->
         coin < 2048 ->
         (1 <= Datatypes.length out0)%nat ->
         match step sgn langs st (OpEncode h li coin) with
         | (st', OutStr o nn, evs) =>
             exists (cevs : list CApi.cev) (rest : list Z),
               CApi.polyseed_encode fuel sgn (znfc (st_deps st))
                 (fun _ i : Z => zs (nth (Z.to_nat i) (l_words L) [])) (fun _ : Z => zs (l_separator L))
                 (fun _ : Z => if l_compose L then 1%Z else 0%Z) (Z.of_N (d_birthday d))
                 (Z.of_N (d_features d)) (map Z.of_N (d_secret d)) (Z.of_N (d_checksum d)) 
                 (Z.of_nat li) (Z.of_N coin) out0 = Some (cevs, zs o ++ 0%Z :: rest, Z.of_N nn) /\
               evs_of (st_deps st) cevs = evs /\ st' = st
         | (st', OutFault, _) | (st', OutUnit, _) | (st', OutNum _, _) | (st', OutStatus _ _ _, _) |
           (st', OutBytes _, _) => True
         end.
Proof. exact @tie_encode. Qed.
Print Assumptions C03_code_tie_api_encode.
