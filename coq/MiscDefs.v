(* birthday.h, features.h, features.c.  Mirror definitions. *)
From PS Require Import Base.
From PS.Gen Require Import PrivConsts.
Local Open Scope N_scope.

Definition U64 : N := 18446744073709551616. (* 2^64 *)
Definition U32 : N := 4294967296.

(* birthday_encode(uint64_t time): unsigned result *)
Definition birthday_encode (t : N) : N :=
  if (t =? U64 - 1) || (t <? EPOCH) then 0
  else N.land ((t - EPOCH) / TIME_STEP) DATE_MASK.

(* birthday_decode(unsigned birthday): uint64_t arithmetic *)
Definition birthday_decode (b : N) : N := (EPOCH + b * TIME_STEP) mod U64.

Definition make_features (user : N) : N := N.land user USER_FEATURES_MASK.
Definition get_features (features mask : N) : N :=
  N.land features (N.land mask USER_FEATURES_MASK).
Definition is_encrypted (features : N) : bool := negb (N.land features ENCRYPTED_MASK =? 0).

Definition RESERVED_DEFAULT : N := N.lxor FEATURE_MASK ENCRYPTED_MASK.

(* polyseed_features_supported with the static reserved_features as argument *)
Definition features_supported (reserved features : N) : bool :=
  N.land features reserved =? 0.

(* polyseed_enable_features: returns (new reserved_features, num_enabled) *)
Fixpoint enable_loop (n : nat) (i : N) (mask reserved count : N) : N * N :=
  match n with
  | O => (reserved, count)
  | S n' =>
    let fmask := N.shiftl 1 i in
    if negb (N.land mask fmask =? 0)
    then enable_loop n' (i + 1) mask (N.lxor reserved fmask) (count + 1)
    else enable_loop n' (i + 1) mask reserved count
  end.

Definition enable_features (mask : N) : N * N :=
  enable_loop (N.to_nat USER_FEATURES) 0 mask RESERVED_DEFAULT 0.
