(* gf.h: GF(2048) arithmetic and the Horner evaluation.  Mirror definitions. *)
From PS Require Import Base.
From PS.Gen Require Import PrivConsts.
Local Open Scope N_scope.

(* gf_elem_mul2 (gf.h:25).  gf_elem is uint_fast16_t (64 bit here): no wrap. *)
Definition mul2 (x : N) : N :=
  if x <? 1024 then 2 * x
  else nth (N.to_nat (x mod 8)) mul2_table 0 + 16 * ((x - 1024) / 8).

(* gf_poly_eval (gf.h:32): Horner at x = 2 from coeff[15] down to coeff[0].
   The C loop starts from result = coeff[15]; the fold starts from 0 and
   absorbs coeff[15] in its first step, which is the same value because
   mul2 0 = 0 by the first branch of mul2 whatever the table holds. *)
Definition poly_eval (c : list N) : N :=
  fold_right (fun ci r => N.lxor (mul2 r) ci) 0 c.

(* gf_poly_encode: coeff[0] := eval (with the old coeff[0] still in place) *)
Definition poly_encode (c : list N) : list N :=
  match c with
  | [] => []
  | _ :: t => poly_eval c :: t
  end.

Definition poly_check (c : list N) : bool := poly_eval c =? 0.

(* ---- specification side: multiplication by x in GF(2)[x]/(x^11+x^2+1) *)
Definition mul2_spec (x : N) : N :=
  N.lxor (2 * x) (if 2048 <=? 2 * x then 2053 else 0).
