(* C06 - the 32-byte storage format is lossless, canonical and strictly validated. *)
From PS Require Import Base PackDefs StoreDefs ApiDefs SpecDefs SpecApi PackProofs PackTheorems StoreProofs ApiLemmas
  RefineProofs ApiTheorems.
From PS.Gen Require Import Consts Langs.
Local Open Scope N_scope.

(* the image: "POLYSEED", LE16 (features<<10 | birthday), the 19 secret bytes, FF, LE16 (0x7000 | check) *)
Theorem C06_layout : forall d, Canon d -> d_checksum d < 2048 ->
  data_store d = POLYSEED_ASCII ++ le16 (d_features d * 1024 + d_birthday d) ++ firstn 19 (d_secret d)
                 ++ [255] ++ le16 (28672 + d_checksum d).
Proof. exact store_layout. Qed.
Print Assumptions C06_layout.

Theorem C06_load_store : forall d, Canon d -> d_checksum d < 2048 -> data_load (data_store d) = LoadOk d.
Proof. exact load_store. Qed.
Print Assumptions C06_load_store.

(* for ALL 2^256 buffers: the format checks pass exactly for images of canonical structs *)
Theorem C06_format_iff : forall buf d, length buf = 32%nat -> bytes_ok buf ->
  (data_load buf = LoadOk d <-> Canon d /\ d_checksum d < 2048 /\ buf = data_store d).
Proof. exact load_ok_iff. Qed.
Print Assumptions C06_format_iff.

Theorem C06_canonical : forall d1 d2, Canon d1 -> Canon d2 -> d_checksum d1 < 2048 -> d_checksum d2 < 2048 ->
  data_store d1 = data_store d2 -> d1 = d2.
Proof. exact store_injective. Qed.
Print Assumptions C06_canonical.

(* polyseed_load: MEMORY if the allocator refuses; else FORMAT if the published layout is not met
   (spec_parse: header, feature field < 32, top two secret bits clear, byte 29 = FF, footer 0x7000);
   else CHECKSUM if the check value is not the evaluation of the data; else UNSUPPORTED if a
   reserved feature bit is set; else OK *)
Theorem C06_precedence : forall sgn cs a buf, R cs a -> length buf = 32%nat -> bytes_ok buf ->
  outp (step sgn langs cs (OpLoad buf true)) =
    match spec_parse buf with
    | None => OutStatus ST_FORMAT None None
    | Some (s, ck) =>
      if negb (ck =? spec_checksum s) then OutStatus ST_CHECKSUM None None
      else if negb (spec_supported (as_mask a) (a_features s)) then OutStatus ST_UNSUPPORTED None None
      else OutStatus ST_OK (Some (st_next cs)) None
    end /\
  outp (step sgn langs cs (OpLoad buf false)) = OutStatus ST_MEMORY None None.
Proof. exact load_precedence. Qed.
Print Assumptions C06_precedence.

Theorem C06_accept_iff : forall sgn cs a buf h, R cs a -> length buf = 32%nat -> bytes_ok buf ->
  (outp (step sgn langs cs (OpLoad buf true)) = OutStatus ST_OK (Some h) None <->
   h = st_next cs /\ exists d, Valid d /\ buf = data_store d /\ spec_supported (as_mask a) (d_features d) = true).
Proof. exact load_accept_iff. Qed.
Print Assumptions C06_accept_iff.

Theorem C06_api_roundtrip : forall sgn cs a h d, R cs a -> heap_get (st_heap cs) h = Some d ->
  spec_supported (as_mask a) (d_features d) = true ->
  outp (step sgn langs cs (OpStore h)) = OutBytes (data_store d) /\
  let r := step sgn langs cs (OpLoad (data_store d) true) in
  outp r = OutStatus ST_OK (Some (st_next cs)) None /\ heap_get (st_heap (stp r)) (st_next cs) = Some d.
Proof. exact load_store_api. Qed.
Print Assumptions C06_api_roundtrip.
