(* C06 - the 32-byte storage format is lossless, canonical and strictly validated. *)
From PS Require Import Base PackDefs StoreDefs ApiDefs SpecDefs SpecApi PackProofs PackTheorems StoreProofs ApiLemmas
  RefineProofs ApiTheorems.
From PS Require Import CTieStore.
From PS.Gen Require CFuns.
From PS.Gen Require Import Consts Langs.
Local Open Scope N_scope.

(* the image: "POLYSEED", LE16 (features<<10 | birthday), the 19 secret bytes, FF, LE16 (0x7000 | check) *)
Theorem C06_layout : forall d, Canon d -> d_checksum d < 2048 ->
  data_store d = POLYSEED_ASCII ++ le16 (d_features d * 1024 + d_birthday d) ++ firstn 19 (d_secret d)
                 ++ [255] ++ le16 (28672 + d_checksum d).
Proof. exact store_layout. Qed.
Print Assumptions C06_layout.

Theorem C06_load_store : forall d, Canon d -> d_checksum d < 2048 -> data_load (data_store d) = LoadOk d.
Proof. exact load_store. Qed.
Print Assumptions C06_load_store.

(* for ALL 2^256 buffers: the format checks pass exactly for images of canonical structs *)
Theorem C06_format_iff : forall buf d, length buf = 32%nat -> bytes_ok buf ->
  (data_load buf = LoadOk d <-> Canon d /\ d_checksum d < 2048 /\ buf = data_store d).
Proof. exact load_ok_iff. Qed.
Print Assumptions C06_format_iff.

Theorem C06_canonical : forall d1 d2, Canon d1 -> Canon d2 -> d_checksum d1 < 2048 -> d_checksum d2 < 2048 ->
  data_store d1 = data_store d2 -> d1 = d2.
Proof. exact store_injective. Qed.
Print Assumptions C06_canonical.

(* polyseed_load: MEMORY if the allocator refuses; else FORMAT if the published layout is not met
   (spec_parse: header, feature field < 32, top two secret bits clear, byte 29 = FF, footer 0x7000);
   else CHECKSUM if the check value is not the evaluation of the data; else UNSUPPORTED if a
   reserved feature bit is set; else OK *)
Theorem C06_precedence : forall sgn cs a buf, R cs a -> length buf = 32%nat -> bytes_ok buf ->
  outp (step sgn langs cs (OpLoad buf true)) =
    match spec_parse buf with
    | None => OutStatus ST_FORMAT None None
    | Some (s, ck) =>
      if negb (ck =? spec_checksum s) then OutStatus ST_CHECKSUM None None
      else if negb (spec_supported (as_mask a) (a_features s)) then OutStatus ST_UNSUPPORTED None None
      else OutStatus ST_OK (Some (st_next cs)) None
    end /\
  outp (step sgn langs cs (OpLoad buf false)) = OutStatus ST_MEMORY None None.
Proof. exact load_precedence. Qed.
Print Assumptions C06_precedence.

Theorem C06_accept_iff : forall sgn cs a buf h, R cs a -> length buf = 32%nat -> bytes_ok buf ->
  (outp (step sgn langs cs (OpLoad buf true)) = OutStatus ST_OK (Some h) None <->
   h = st_next cs /\ exists d, Valid d /\ buf = data_store d /\ spec_supported (as_mask a) (d_features d) = true).
Proof. exact load_accept_iff. Qed.
Print Assumptions C06_accept_iff.

Theorem C06_api_roundtrip : forall sgn cs a h d, R cs a -> heap_get (st_heap cs) h = Some d ->
  spec_supported (as_mask a) (d_features d) = true ->
  outp (step sgn langs cs (OpStore h)) = OutBytes (data_store d) /\
  let r := step sgn langs cs (OpLoad (data_store d) true) in
  outp r = OutStatus ST_OK (Some (st_next cs)) None /\ heap_get (st_heap (stp r)) (st_next cs) = Some d.
Proof. exact load_store_api. Qed.
Print Assumptions C06_api_roundtrip.

(* ---- the tie to the code: storage.c as TRANSLATED from /repo's current source on this run (Gen/CFuns.v:
   pointer walks resolved to constant offsets, store16/load16 inlined, memcpy/memcmp expanded) *)
Theorem C06_code_tie_store : forall d st0, Canon d -> d_checksum d < 2048 ->
  CFuns.polyseed_data_store (Z.of_N (d_birthday d)) (Z.of_N (d_features d)) (map Z.of_N (d_secret d))
    (Z.of_N (d_checksum d)) st0 = map Z.of_N (data_store d).
Proof. exact tie_data_store. Qed.
Print Assumptions C06_code_tie_store.

(* for EVERY 32-byte buffer and whatever the struct held before: FORMAT exactly when the mirror says so,
   otherwise the same struct with every field written *)
Theorem C06_code_tie_load : forall buf b0 f0 sec0 c0, length buf = 32%nat -> bytes_ok buf ->
  match data_load buf with
  | LoadFormat => snd (CFuns.polyseed_data_load (map Z.of_N buf) b0 f0 sec0 c0) = Z.of_N ST_FORMAT
  | LoadOk d => CFuns.polyseed_data_load (map Z.of_N buf) b0 f0 sec0 c0 =
                (Z.of_N (d_birthday d), Z.of_N (d_features d), map Z.of_N (d_secret d), Z.of_N (d_checksum d), Z.of_N ST_OK)
  end.
Proof. exact tie_data_load. Qed.
Print Assumptions C06_code_tie_load.

(* ---- the tie to the code: src/polyseed.c as TRANSLATED on this run (Gen/CApi.v) ---- *)
From Coq Require Import String.
From PS Require Import Base GFDefs PackDefs StoreDefs MiscDefs StrDefs LangDefs ApiDefs GFProofs PackProofs StoreProofs CTieBase CTieLang CTiePhrase CTiePhraseEv CTieSplit CTieApi CTieDecode CTieEncode.
From PS.Gen Require Import Consts PrivConsts Langs.
From PS.Gen Require CFuns.
From PS.Gen Require CApi.

(* polyseed_load as translated against the mirror step: status, block, *seed_out, events - for every 32-byte buffer and either allocation outcome *)
Theorem C06_code_tie_api_load :
  forall (sgn : bool) (langs : list lang) (st : state) (buf : list N) (ok : bool) 
           (gb gf : Z) (gs : list Z) (gc so0 : Z),
         Datatypes.length buf = 32%nat ->
         bytes_ok buf ->
         let
         '(st', out0, evs) := step sgn langs st (OpLoad buf ok) in
          exists (cevs : list CApi.cev) (b f : Z) (s : list Z) (c so status : Z),
            CApi.polyseed_load (alloc_ptr st ok) CFuns.polyseed_mul2_table (Z.of_N (st_reserved st))
              (map Z.of_N buf) gb gf gs gc so0 = (cevs, b, f, s, c, so, status) /\
            evs_of (st_deps st) cevs = evs /\
            out0 = OutStatus (Z.to_N status) (if (status =? 0)%Z then Some (st_next st) else None) None /\
            (if (status =? 0)%Z
             then
              so = ptr (st_next st) /\
              (exists d : data, st_heap st' = (st_next st, d) :: st_heap st /\ (b, f, s, c) = zd d)
             else so = so0 /\ st_heap st' = st_heap st).
Proof. exact @tie_load. Qed.
Print Assumptions C06_code_tie_api_load.

(* polyseed_store as translated = the storage layout, for every canonical struct *)
Theorem C06_code_tie_api_store :
  forall (d : data) (st0 : list Z),
         Canon d ->
         d_checksum d < 2048 ->
         CApi.polyseed_store (Z.of_N (d_birthday d)) (Z.of_N (d_features d)) (map Z.of_N (d_secret d))
           (Z.of_N (d_checksum d)) st0 = map Z.of_N (data_store d).
Proof. exact @tie_store. Qed.
Print Assumptions C06_code_tie_api_store.
