(* lang_search and polyseed_lang_find_word of lang.c as TRANSLATED (Gen/CApi.v): the choice between the binary
   search and the linear scan by the language's is_sorted flag, the -1 / index conventions, the scan order of the
   linear search (first match) and the comparer handed over (get_comparer) are those of the mirror
   LangDefs.lang_search.  libc's bsearch stays a contract: a function BS assumed to answer, for the comparer the
   code denotes, what the mirror's model of glibc's loop answers. *)
From PS Require Import Base LangDefs LangData CTieBase CTieLang CTiePhrase CTieCmp.
From PS.Gen Require Import Langs.
From PS.Gen Require CFuns CApi.
Local Open Scope Z_scope.

Lemma skipn_cons_tail {A} (l : list A) j w ws : skipn j l = w :: ws -> skipn (S j) l = ws.
Proof.
  revert l. induction j as [|j IH]; intros l H.
  - cbn in H. subst l. reflexivity.
  - destruct l as [|x l]; [discriminate|]. cbn [skipn] in H. apply (IH l H).
Qed.

Section Search.
  Variables (sgn : bool) (L : lang) (li : Z) (fuel fuelc : nat) (BS : Z -> list Z -> Z -> Z -> Z).
  Hypothesis HL : In L langs.
  Hypothesis Hfuel : (2050 <= fuel)%nat.
  Hypothesis Hfw : forall j, (length (nth j (l_words L) []) + 2 <= fuelc)%nat.

  Let LW : Z -> Z -> list Z := fun _ i => zs (nth (Z.to_nat i) (l_words L) []).
  Let code : Z := CApi.get_comparer (flag (l_has_prefix L)) (flag (l_has_accents L)) li.
  (* a call through the comparer pointer: the translated comparer of that number *)
  Definition CC (c : Z) (a b : list Z) : Z :=
    match cmp_by_code c fuelc sgn a b with Some r => r | None => 0 end.

  Lemma CC_comparer key j : no_nul key -> (length key + 2 <= fuelc)%nat ->
    CC code (zs key) (zs (nth j (l_words L) [])) = comparer sgn L key (nth j (l_words L) []).
  Proof.
    intros Hk Hf. unfold CC, code. rewrite (tie_get_comparer sgn L li key _ fuelc Hk Hf (Hfw j)). reflexivity.
  Qed.

  Lemma linear_loop key : no_nul key -> (length key + 2 <= fuelc)%nat ->
    forall (ws : list bytes) (j : nat) (f : nat),
      ws = skipn j (l_words L) -> (j + length ws = 2048)%nat -> (length ws + 2 <= f)%nat ->
      forall C B,
        (forall brk rf rv jj, C (brk, rf, rv, jj) = negb brk && (jj <? 2048)) ->
        (forall brk rf rv jj, B (brk, rf, rv, jj) =
           if 0 =? CC code (zs key) (LW li jj) then Some (true, true, jj, jj) else Some (false, false, 0, jj + 1)) ->
        match CFuns.whileF f C B (false, false, 0, Z.of_nat j) with
        | Some (_, rf, rv, _) => if (rf : bool) then Some rv else Some (-1)
        | None => None
        end = Some (match linear_find (comparer sgn L key) ws j with Some i => Z.of_nat i | None => -1 end).
  Proof.
    intros Hk Hf. induction ws as [|w ws IH]; intros j f Hw Hj Hfu C B HC HB.
    - destruct f as [|f]; [cbn in Hfu; lia|]. cbn [CFuns.whileF]. rewrite HC. cbn [negb andb length] in *.
      replace (Z.of_nat j <? 2048) with false by (symmetry; apply Z.ltb_ge; lia). reflexivity.
    - destruct f as [|f]; [cbn in Hfu; lia|]. cbn [CFuns.whileF]. rewrite HC. cbn [negb andb length] in *.
      replace (Z.of_nat j <? 2048) with true by (symmetry; apply Z.ltb_lt; lia).
      rewrite HB. unfold LW. rewrite Nat2Z.id.
      assert (Ew : nth j (l_words L) [] = w).
      { rewrite <- (firstn_skipn j (l_words L)), <- Hw. rewrite app_nth2 by (rewrite firstn_length; lia).
        rewrite firstn_length. replace (j - Nat.min j (length (l_words L)))%nat with 0%nat; [reflexivity|].
        rewrite (words_len L HL). lia. }
      rewrite (CC_comparer key j Hk Hf), Ew. cbn [linear_find].
      rewrite Z.eqb_sym. destruct (comparer sgn L key w =? 0) eqn:E.
      + destruct f as [|f]; [cbn in Hfu; lia|]. cbn [CFuns.whileF]. rewrite HC. cbn [negb andb]. reflexivity.
      + replace (Z.of_nat j + 1) with (Z.of_nat (S j)) by lia.
        apply (IH (S j) f); try assumption; try lia.
        symmetry. apply (skipn_cons_tail _ j w ws). symmetry. exact Hw.
  Qed.

  (* libc bsearch by contract, for the comparer the code hands over *)
  Hypothesis HBS : forall key, no_nul key ->
    BS li (zs key) 2048 code =
    enc (bsearch_loop 13 (fun j => comparer sgn L key (nth j (l_words L) [])) 0 LANG_SIZE_nat).

  Theorem tie_lang_search key : no_nul key -> (length key + 2 <= fuelc)%nat ->
    CApi.lang_search fuel (flag (l_is_sorted L)) BS LW CC li (zs key) code = Some (enc (lang_search sgn L key)).
  Proof.
    intros Hk Hf. unfold CApi.lang_search, lang_search, flag. cbv zeta.
    destruct (l_is_sorted L).
    - change (negb (1 =? 0)) with true. cbv beta iota. rewrite (HBS key Hk).
      destruct (negb (_ =? -1)) eqn:E; [reflexivity|].
      apply negb_false_iff, Z.eqb_eq in E. rewrite E. reflexivity.
    - change (negb (0 =? 0)) with false. cbv beta iota.
      match goal with |- context [CFuns.whileF fuel ?c ?b _] => set (C := c); set (B := b) end.
      pose proof (linear_loop key Hk Hf (l_words L) 0 fuel eq_refl) as LL.
      rewrite (words_len L HL) in LL. specialize (LL eq_refl ltac:(lia) C B (fun _ _ _ _ => eq_refl) (fun _ _ _ _ => eq_refl)).
      change (Z.of_nat 0) with 0 in LL.
      destruct (CFuns.whileF fuel C B (false, false, 0, 0)) as [[[[brk rf] rv] jj]|]; [|discriminate].
      cbv beta iota. destruct rf; rewrite LL; unfold enc; destruct (linear_find _ _ _); reflexivity.
  Qed.

  (* the public entry point: get_comparer, then lang_search *)
  Theorem tie_lang_find_word key : no_nul key -> (length key + 2 <= fuelc)%nat ->
    CApi.polyseed_lang_find_word fuel (flag (l_has_prefix L)) (flag (l_has_accents L)) (flag (l_is_sorted L)) BS LW CC
      li (zs key) = Some (enc (lang_search sgn L key)).
  Proof.
    intros Hk Hf. unfold CApi.polyseed_lang_find_word. cbv zeta. fold code.
    rewrite (tie_lang_search key Hk Hf). reflexivity.
  Qed.
End Search.
