(* The packing theorems on the concrete struct (gf.c), for EVERY canonical struct and EVERY
   16 coefficients < 2048:
     canon_pack    data_to_poly d never faults, its asserts hold, its output is the published
                   layout (SpecDefs.spec_data_words) of the abstract seed of d, and
                   poly_to_data (ck :: data_to_poly d) = d with checksum ck
     poly_unpack   poly_to_data c never faults, its asserts hold, the result is canonical and
                   data_to_poly (poly_to_data c) = tl c *)
From PS Require Import Base GFDefs PackDefs SpecDefs GFProofs PackProofs PackNorm PackArith PackRound.
From PS.Gen Require Import PrivConsts.
Local Open Scope N_scope.

Definition abs_data (d : data) : aseed :=
  mkaseed (firstn 19 (d_secret d)) (d_birthday d) (d_features d).
Definition set_ck (d : data) (ck : N) : data :=
  mkdata (d_birthday d) (d_features d) (d_secret d) ck.

Lemma canon_shape d : Canon d ->
  exists b0 b1 b2 b3 b4 b5 b6 b7 b8 b9 b10 b11 b12 b13 b14 b15 b16 b17 b18,
    d_secret d = sec19 b0 b1 b2 b3 b4 b5 b6 b7 b8 b9 b10 b11 b12 b13 b14 b15 b16 b17 b18 ++ repeat 0 13 /\
    (b0 < 256 /\ b1 < 256 /\ b2 < 256 /\ b3 < 256 /\ b4 < 256 /\ b5 < 256 /\ b6 < 256 /\ b7 < 256 /\
     b8 < 256 /\ b9 < 256 /\ b10 < 256 /\ b11 < 256 /\ b12 < 256 /\ b13 < 256 /\ b14 < 256 /\ b15 < 256 /\
     b16 < 256 /\ b17 < 256 /\ b18 < 64).
Proof.
  intros [Hl [Hf [H18 [Hs _]]]]. destruct d as [bd ft sec ck]. cbn [d_secret] in *.
  do 32 (destruct sec as [|? sec]; [discriminate|]). destruct sec; [|discriminate].
  cbn [skipn] in Hs. cbn [nth] in H18.
  repeat match goal with H : Forall _ (_ :: _) |- _ => inversion H; clear H; subst end.
  do 19 eexists. split; [unfold sec19; cbn [app]; repeat f_equal; exact Hs|].
  repeat split; assumption.
Qed.

Theorem canon_pack d : Canon d ->
  exists ws, data_to_poly_full d = Some (ws, true) /\ ws = spec_data_words (abs_data d) /\
             (forall ck, poly_to_data_full (ck :: ws) = Some (set_ck d ck, true)).
Proof.
  intros HC.
  destruct (canon_shape d HC) as
    (b0&b1&b2&b3&b4&b5&b6&b7&b8&b9&b10&b11&b12&b13&b14&b15&b16&b17&b18&Hs&
     B0&B1&B2&B3&B4&B5&B6&B7&B8&B9&B10&B11&B12&B13&B14&B15&B16&B17&B18).
  destruct HC as (_&_&_&_&Hbd&Hft).
  destruct d as [bd ft sec ck0]. cbn [d_secret d_birthday d_features] in *. subst sec.
  exists (d2p_form b0 b1 b2 b3 b4 b5 b6 b7 b8 b9 b10 b11 b12 b13 b14 b15 b16 b17 b18 bd ft).
  split; [apply d2p_closed|].
  pose proof (enc_shape b0 b1 b2 b3 b4 b5 b6 b7 b8 b9 b10 b11 b12 b13 b14 b15 b16 b17 b18 bd ft) as Sh.
  cbn [map seq] in Sh.
  pose proof (fun k v (p : forall b0 b1 b2 b3 b4 b5 b6 b7 b8 b9 b10 b11 b12 b13 b14 b15 b16 b17 b18 bd ft,
       b0 < 256 -> b1 < 256 -> b2 < 256 -> b3 < 256 -> b4 < 256 -> b5 < 256 -> b6 < 256 -> b7 < 256 ->
       b8 < 256 -> b9 < 256 -> b10 < 256 -> b11 < 256 -> b12 < 256 -> b13 < 256 -> b14 < 256 -> b15 < 256 ->
       b16 < 256 -> b17 < 256 -> b18 < 64 -> bd < 1024 ->
       nth k (d2p_form b0 b1 b2 b3 b4 b5 b6 b7 b8 b9 b10 b11 b12 b13 b14 b15 b16 b17 b18 bd ft) 0 =
       v b0 b1 b2 b3 b4 b5 b6 b7 b8 b9 b10 b11 b12 b13 b14 b15 b16 b17 b18 bd ft) =>
     p b0 b1 b2 b3 b4 b5 b6 b7 b8 b9 b10 b11 b12 b13 b14 b15 b16 b17 b18 bd ft
       B0 B1 B2 B3 B4 B5 B6 B7 B8 B9 B10 B11 B12 B13 B14 B15 B16 B17 B18 Hbd) as inst.
  pose proof (inst _ _ enc_word_1) as W1. pose proof (inst _ _ enc_word_2) as W2.
  pose proof (inst _ _ enc_word_3) as W3. pose proof (inst _ _ enc_word_4) as W4.
  pose proof (inst _ _ enc_word_5) as W5. pose proof (inst _ _ enc_word_6) as W6.
  pose proof (inst _ _ enc_word_7) as W7. pose proof (inst _ _ enc_word_8) as W8.
  pose proof (inst _ _ enc_word_9) as W9. pose proof (inst _ _ enc_word_10) as W10.
  pose proof (inst _ _ enc_word_11) as W11. pose proof (inst _ _ enc_word_12) as W12.
  pose proof (inst _ _ enc_word_13) as W13. pose proof (inst _ _ enc_word_14) as W14.
  pose proof (inst _ _ enc_word_15) as W15. clear inst. cbv beta in *.
  set (E := d2p_form b0 b1 b2 b3 b4 b5 b6 b7 b8 b9 b10 b11 b12 b13 b14 b15 b16 b17 b18 bd ft) in *.
  set (e1 := nth 0 E 0) in *. set (e2 := nth 1 E 0) in *. set (e3 := nth 2 E 0) in *.
  set (e4 := nth 3 E 0) in *. set (e5 := nth 4 E 0) in *. set (e6 := nth 5 E 0) in *.
  set (e7 := nth 6 E 0) in *. set (e8 := nth 7 E 0) in *. set (e9 := nth 8 E 0) in *.
  set (e10 := nth 9 E 0) in *. set (e11 := nth 10 E 0) in *. set (e12 := nth 11 E 0) in *.
  set (e13 := nth 12 E 0) in *. set (e14 := nth 13 E 0) in *. set (e15 := nth 14 E 0) in *.
  clearbody e1 e2 e3 e4 e5 e6 e7 e8 e9 e10 e11 e12 e13 e14 e15. clearbody E.
  split.
  - unfold spec_data_words, abs_data. cbn [d_secret d_birthday d_features map seq].
    replace (firstn 19 (sec19 b0 b1 b2 b3 b4 b5 b6 b7 b8 b9 b10 b11 b12 b13 b14 b15 b16 b17 b18 ++ repeat 0 13))
      with (sec19 b0 b1 b2 b3 b4 b5 b6 b7 b8 b9 b10 b11 b12 b13 b14 b15 b16 b17 b18) by reflexivity.
    rewrite <- (sp1 _ _ _ _ _ _ _ _ _ _ _ _ _ _ _ _ _ _ _ bd ft B0 B1 B2 B3 B4 B5 B6 B7 B8 B9 B10 B11 B12 B13 B14 B15 B16 B17 B18 e1 W1).
    rewrite <- (sp2 _ _ _ _ _ _ _ _ _ _ _ _ _ _ _ _ _ _ _ bd ft B0 B1 B2 B3 B4 B5 B6 B7 B8 B9 B10 B11 B12 B13 B14 B15 B16 B17 B18 e2 W2).
    rewrite <- (sp3 _ _ _ _ _ _ _ _ _ _ _ _ _ _ _ _ _ _ _ bd ft B0 B1 B2 B3 B4 B5 B6 B7 B8 B9 B10 B11 B12 B13 B14 B15 B16 B17 B18 e3 W3).
    rewrite <- (sp4 _ _ _ _ _ _ _ _ _ _ _ _ _ _ _ _ _ _ _ bd ft B0 B1 B2 B3 B4 B5 B6 B7 B8 B9 B10 B11 B12 B13 B14 B15 B16 B17 B18 e4 W4).
    rewrite <- (sp5 _ _ _ _ _ _ _ _ _ _ _ _ _ _ _ _ _ _ _ bd ft B0 B1 B2 B3 B4 B5 B6 B7 B8 B9 B10 B11 B12 B13 B14 B15 B16 B17 B18 e5 W5).
    rewrite <- (sp6 _ _ _ _ _ _ _ _ _ _ _ _ _ _ _ _ _ _ _ bd ft B0 B1 B2 B3 B4 B5 B6 B7 B8 B9 B10 B11 B12 B13 B14 B15 B16 B17 B18 e6 W6).
    rewrite <- (sp7 _ _ _ _ _ _ _ _ _ _ _ _ _ _ _ _ _ _ _ bd ft B0 B1 B2 B3 B4 B5 B6 B7 B8 B9 B10 B11 B12 B13 B14 B15 B16 B17 B18 e7 W7).
    rewrite <- (sp8 _ _ _ _ _ _ _ _ _ _ _ _ _ _ _ _ _ _ _ bd ft B0 B1 B2 B3 B4 B5 B6 B7 B8 B9 B10 B11 B12 B13 B14 B15 B16 B17 B18 e8 W8).
    rewrite <- (sp9 _ _ _ _ _ _ _ _ _ _ _ _ _ _ _ _ _ _ _ bd ft B0 B1 B2 B3 B4 B5 B6 B7 B8 B9 B10 B11 B12 B13 B14 B15 B16 B17 B18 e9 W9).
    rewrite <- (sp10 _ _ _ _ _ _ _ _ _ _ _ _ _ _ _ _ _ _ _ bd ft B0 B1 B2 B3 B4 B5 B6 B7 B8 B9 B10 B11 B12 B13 B14 B15 B16 B17 B18 e10 W10).
    rewrite <- (sp11 _ _ _ _ _ _ _ _ _ _ _ _ _ _ _ _ _ _ _ bd ft B0 B1 B2 B3 B4 B5 B6 B7 B8 B9 B10 B11 B12 B13 B14 B15 B16 B17 B18 e11 W11).
    rewrite <- (sp12 _ _ _ _ _ _ _ _ _ _ _ _ _ _ _ _ _ _ _ bd ft B0 B1 B2 B3 B4 B5 B6 B7 B8 B9 B10 B11 B12 B13 B14 B15 B16 B17 B18 e12 W12).
    rewrite <- (sp13 _ _ _ _ _ _ _ _ _ _ _ _ _ _ _ _ _ _ _ bd ft B0 B1 B2 B3 B4 B5 B6 B7 B8 B9 B10 B11 B12 B13 B14 B15 B16 B17 B18 e13 W13).
    rewrite <- (sp14 _ _ _ _ _ _ _ _ _ _ _ _ _ _ _ _ _ _ _ bd ft B0 B1 B2 B3 B4 B5 B6 B7 B8 B9 B10 B11 B12 B13 B14 B15 B16 B17 B18 e14 W14).
    rewrite <- (sp15 _ _ _ _ _ _ _ _ _ _ _ _ _ _ _ _ _ _ _ bd ft B0 B1 B2 B3 B4 B5 B6 B7 B8 B9 B10 B11 B12 B13 B14 B15 B16 B17 B18 e15 W15).
    exact Sh.
  - intros ck. rewrite Sh. rewrite p2d_closed. f_equal. f_equal. unfold set_ck. cbn [d_secret d_birthday d_features].
    exact (rt_all b0 b1 b2 b3 b4 b5 b6 b7 b8 b9 b10 b11 b12 b13 b14 b15 b16 b17 b18 bd ft
             B0 B1 B2 B3 B4 B5 B6 B7 B8 B9 B10 B11 B12 B13 B14 B15 B16 B17 B18 Hbd Hft
             ck e1 e2 e3 e4 e5 e6 e7 e8 e9 e10 e11 e12 e13 e14 e15
             W1 W2 W3 W4 W5 W6 W7 W8 W9 W10 W11 W12 W13 W14 W15).
Qed.

Theorem poly_unpack c : length c = 16%nat -> wf (tl c) ->
  exists d, poly_to_data_full c = Some (d, true) /\ Canon d /\ d_checksum d = hd 0 c /\
            data_to_poly_full d = Some (tl c, true).
Proof.
  intros Hl Hw.
  do 16 (destruct c as [|? c]; [discriminate|]). destruct c; [|discriminate]. clear Hl.
  cbn [tl hd] in *. unfold wf in Hw.
  repeat match goal with H : Forall _ (_ :: _) |- _ =>
    let a := fresh "A" in let b := fresh "F" in (apply Forall_cons_iff in H; destruct H as [a b]) end.
  rename n into c0, n0 into c1, n1 into c2, n2 into c3, n3 into c4, n4 into c5, n5 into c6, n6 into c7,
    n7 into c8, n8 into c9, n9 into c10, n10 into c11, n11 into c12, n12 into c13, n13 into c14, n14 into c15.
  assert (H1 : c1 < 2048) by assumption. assert (H2 : c2 < 2048) by assumption.
  assert (H3 : c3 < 2048) by assumption. assert (H4 : c4 < 2048) by assumption.
  assert (H5 : c5 < 2048) by assumption. assert (H6 : c6 < 2048) by assumption.
  assert (H7 : c7 < 2048) by assumption. assert (H8 : c8 < 2048) by assumption.
  assert (H9 : c9 < 2048) by assumption. assert (H10 : c10 < 2048) by assumption.
  assert (H11 : c11 < 2048) by assumption. assert (H12 : c12 < 2048) by assumption.
  assert (H13 : c13 < 2048) by assumption. assert (H14 : c14 < 2048) by assumption.
  assert (H15 : c15 < 2048) by assumption.
  exists (p2d_form c0 c1 c2 c3 c4 c5 c6 c7 c8 c9 c10 c11 c12 c13 c14 c15).
  split; [apply p2d_closed|].
  pose proof (t_secret c0 c1 c2 c3 c4 c5 c6 c7 c8 c9 c10 c11 c12 c13 c14 c15) as Hs.
  pose proof (fun j bnd (p : forall c0 c1 c2 c3 c4 c5 c6 c7 c8 c9 c10 c11 c12 c13 c14 c15,
      c1 < 2048 -> c2 < 2048 -> c3 < 2048 -> c4 < 2048 -> c5 < 2048 -> c6 < 2048 -> c7 < 2048 -> c8 < 2048 ->
      c9 < 2048 -> c10 < 2048 -> c11 < 2048 -> c12 < 2048 -> c13 < 2048 -> c14 < 2048 -> c15 < 2048 ->
      nth j (d_secret (p2d_form c0 c1 c2 c3 c4 c5 c6 c7 c8 c9 c10 c11 c12 c13 c14 c15)) 0 < bnd) =>
    p c0 c1 c2 c3 c4 c5 c6 c7 c8 c9 c10 c11 c12 c13 c14 c15 H1 H2 H3 H4 H5 H6 H7 H8 H9 H10 H11 H12 H13 H14 H15) as inst.
  pose proof (inst _ _ tl0) as B0. pose proof (inst _ _ tl1) as B1. pose proof (inst _ _ tl2) as B2.
  pose proof (inst _ _ tl3) as B3. pose proof (inst _ _ tl4) as B4. pose proof (inst _ _ tl5) as B5.
  pose proof (inst _ _ tl6) as B6. pose proof (inst _ _ tl7) as B7. pose proof (inst _ _ tl8) as B8.
  pose proof (inst _ _ tl9) as B9. pose proof (inst _ _ tl10) as B10. pose proof (inst _ _ tl11) as B11.
  pose proof (inst _ _ tl12) as B12. pose proof (inst _ _ tl13) as B13. pose proof (inst _ _ tl14) as B14.
  pose proof (inst _ _ tl15) as B15. pose proof (inst _ _ tl16) as B16. pose proof (inst _ _ tl17) as B17.
  pose proof (inst _ _ tl18) as B18. clear inst.
  pose proof (t_bd c0 c1 c2 c3 c4 c5 c6 c7 c8 c9 c10 c11 c12 c13 c14 c15) as Hbd.
  pose proof (t_ft c0 c1 c2 c3 c4 c5 c6 c7 c8 c9 c10 c11 c12 c13 c14 c15 H1 H2 H3 H4 H5 H6 H7 H8 H9 H10 H11 H12 H13 H14 H15) as Hft.
  pose proof (tr_all c0 c1 c2 c3 c4 c5 c6 c7 c8 c9 c10 c11 c12 c13 c14 c15
                H1 H2 H3 H4 H5 H6 H7 H8 H9 H10 H11 H12 H13 H14 H15) as Htr.
  set (D := p2d_form c0 c1 c2 c3 c4 c5 c6 c7 c8 c9 c10 c11 c12 c13 c14 c15) in *.
  assert (Hck : d_checksum D = c0) by reflexivity.
  clearbody D. destruct D as [bd ft sec ck]. cbn [d_secret d_birthday d_features d_checksum] in *.
  split; [|split; [exact Hck|]].
  - unfold Canon. cbn [d_secret d_birthday d_features]. rewrite Hs.
    split; [reflexivity|]. split.
    + unfold sec19. cbn [app repeat].
      repeat (apply Forall_cons; [first [assumption | lia]|]). apply Forall_nil.
    + split; [unfold sec19; cbn [app nth]; exact B18|]. split; [reflexivity|]. split; assumption.
  - rewrite Hs. rewrite d2p_closed. rewrite Htr. reflexivity.
Qed.
