(* C02 - the tie to the code: theorems about the Gallina that tools/c2coq.py generates from /repo's CURRENT
   sources on every run (Gen/CFuns.v, Gen/CApi.v).  Kept apart from Properties_C02.v so that a change to the C code
   which breaks a tie leaves the theorems about the model standing, and the other way round. *)
From PS Require Import Base GFDefs SpecDefs GFProofs ApiDefs SpecApi PackTheorems CoinProofs PhraseErrors ApiLemmas RefineProofs ApiTheorems RoundTrip.
From PS Require Import CTieBase CTieGF.
From PS.Gen Require CFuns.
From PS.Gen Require Import Consts Langs.
Local Open Scope N_scope.

(* ---- the tie to the code: gf.h as TRANSLATED from /repo's current source on this run (Gen/CFuns.v,
   tools/c2coq.py; Z values, unsigned results reduced mod 2^64).  The doubling table, the doubling
   rule on all 2048 elements (exhaustive computation) and the Horner loop on every 16 coefficients are
   the mirrors the theorems above are about *)
Theorem C02_code_tie :
  CFuns.polyseed_mul2_table = map Z.of_N Gen.PrivConsts.mul2_table /\
  (forall x, x < 2048 -> CFuns.gf_elem_mul2 CFuns.polyseed_mul2_table (Z.of_N x) = Z.of_N (mul2 x)) /\
  (forall c, length c = 16%nat -> wf c ->
     CFuns.gf_poly_eval CFuns.polyseed_mul2_table (map Z.of_N c) = Z.of_N (poly_eval c)).
Proof. exact (conj tie_table (conj tie_mul2 tie_eval)). Qed.
Print Assumptions C02_code_tie.
