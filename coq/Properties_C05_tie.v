(* C05 - the tie to the code: theorems about the Gallina that tools/c2coq.py generates from /repo's CURRENT
   sources on every run (Gen/CFuns.v, Gen/CApi.v).  Kept apart from Properties_C05.v so that a change to the C code
   which breaks a tie leaves the theorems about the model standing, and the other way round. *)
From PS Require Import Base GFDefs GFProofs ApiDefs SpecDefs SpecApi PackTheorems CoinProofs ApiLemmas RefineProofs ApiTheorems RoundTrip.
From PS Require Import CTieBase CTieGF.
From PS.Gen Require CFuns.
From PS.Gen Require Import Consts Langs.
Local Open Scope N_scope.

(* the evaluation the coin theorems are about is the translated gf_poly_eval of the current source *)
Theorem C05_code_tie : forall c, length c = 16%nat -> wf c ->
  CFuns.gf_poly_eval CFuns.polyseed_mul2_table (map Z.of_N c) = Z.of_N (poly_eval c).
Proof. exact tie_eval. Qed.
Print Assumptions C05_code_tie.
