(* C05 - the tie to the code: theorems about the Gallina that tools/c2coq.py generates from /repo's CURRENT
   sources on every run (Gen/CFuns.v, Gen/CApi.v).  Kept apart from Properties_C05.v so that a change to the C code
   which breaks a tie leaves the theorems about the model standing, and the other way round. *)
From PS Require Import Base GFDefs GFProofs ApiDefs SpecDefs SpecApi PackTheorems CoinProofs ApiLemmas RefineProofs ApiTheorems RoundTrip.
From PS Require Import CTieBase CTieGF.
From PS.Gen Require CFuns.
From PS.Gen Require Import Consts Langs.
Local Open Scope N_scope.

(* the evaluation the coin theorems are about is the translated gf_poly_eval of the current source *)
Theorem C05_code_tie : forall c, length c = 16%nat -> wf c ->
  CFuns.gf_poly_eval CFuns.polyseed_mul2_table (map Z.of_N c) = Z.of_N (poly_eval c).
Proof. exact tie_eval. Qed.
Print Assumptions C05_code_tie.

(* ---- the tie to the code: src/polyseed.c as TRANSLATED on this run (Gen/CApi.v) ---- *)
From Coq Require Import String.
From PS Require Import Base GFDefs PackDefs StoreDefs MiscDefs StrDefs LangDefs ApiDefs SpecDefs SpecApi GFProofs PackProofs StoreProofs RefineProofs RoundTrip TraceProofs FrameProofs SafetyProofs CTieBase CTieLang CTiePhrase CTiePhraseEv CTieSplit CTieApi CTieDecode CTieEncode CTieLocals CTieInject CTieCmp CTieSearch CTieClosed CodeTheorems HeldProofs CodeMachine.
From PS.Gen Require Import Consts PrivConsts Langs.
From PS.Gen Require CFuns.
From PS.Gen Require CApi.

(* the C types of the parameters of the translated functions (the coin is `enum polyseed_coin`, an int: every coin below 2048 reaches the xor unchanged), as clang reports them for the current headers *)
Theorem C05_code_tie_signatures :
  CApi.ctypes_gf_poly_check = ["bool"%string; "message : const gf_poly *"%string] /\
         CApi.ctypes_gf_poly_encode = ["void"%string; "message : gf_poly *"%string] /\
         CApi.ctypes_get_comparer = ["polyseed_cmp *"%string; "lang : const polyseed_lang *"%string] /\
         CApi.ctypes_polyseed_inject = ["void"%string; "deps : const polyseed_dependency *"%string] /\
         CApi.ctypes_lang_search =
         ["int"%string; "lang : const polyseed_lang *"%string; "word : const char *"%string;
          "cmp : polyseed_cmp *"%string] /\
         CApi.ctypes_polyseed_lang_find_word =
         ["int"%string; "lang : const polyseed_lang *"%string; "word : const char *"%string] /\
         CApi.ctypes_polyseed_free = ["void"%string; "seed : polyseed_data *"%string] /\
         CApi.ctypes_polyseed_get_birthday = ["uint64_t"%string; "data : const polyseed_data *"%string] /\
         CApi.ctypes_polyseed_get_feature =
         ["unsigned int"%string; "seed : const polyseed_data *"%string; "mask : unsigned int"%string] /\
         CApi.ctypes_polyseed_is_encrypted = ["int"%string; "seed : const polyseed_data *"%string] /\
         CApi.ctypes_polyseed_store =
         ["void"%string; "seed : const polyseed_data *"%string; "storage : uint8_t *"%string] /\
         CApi.ctypes_polyseed_load =
         ["polyseed_status"%string; "storage : const uint8_t *"%string; "seed_out : polyseed_data **"%string] /\
         CApi.ctypes_polyseed_create =
         ["polyseed_status"%string; "features : unsigned int"%string; "seed_out : polyseed_data **"%string] /\
         CApi.ctypes_polyseed_keygen =
         ["void"%string; "seed : const polyseed_data *"%string; "coin : enum polyseed_coin"%string;
          "key_size : unsigned long"%string; "key_out : uint8_t *"%string] /\
         CApi.ctypes_polyseed_crypt =
         ["void"%string; "seed : polyseed_data *"%string; "password : const char *"%string] /\
         CApi.ctypes_polyseed_phrase_decode =
         ["polyseed_status"%string; "phrase : const char *const *"%string; "idx_out : uint_fast16_t *"%string;
          "lang_out : const polyseed_lang **"%string] /\
         CApi.ctypes_str_split = ["int"%string; "str : char *"%string; "words : const char **"%string] /\
         CApi.ctypes_polyseed_decode =
         ["polyseed_status"%string; "str : const char *"%string; "coin : enum polyseed_coin"%string;
          "lang_out : const polyseed_lang **"%string; "seed_out : polyseed_data **"%string] /\
         CApi.ctypes_polyseed_decode_explicit =
         ["polyseed_status"%string; "str : const char *"%string; "coin : enum polyseed_coin"%string;
          "lang : const polyseed_lang *"%string; "seed_out : polyseed_data **"%string] /\
         CApi.ctypes_write_str = ["void"%string; "pos : char **"%string; "str : const char *"%string] /\
         CApi.ctypes_polyseed_encode =
         ["size_t"%string; "data : const polyseed_data *"%string; "lang : const polyseed_lang *"%string;
          "coin : enum polyseed_coin"%string; "str_out : char *"%string].
Proof. exact @tie_ctypes. Qed.
Print Assumptions C05_code_tie_signatures.
