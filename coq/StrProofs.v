(* dependency.h utf8_nfkd_lazy and polyseed.c str_split against their specifications,
   for EVERY byte string (any length, any bytes). *)
From PS Require Import Base StrDefs SpecDefs.
From PS.Gen Require Import Consts.
Local Open Scope N_scope.

(* ------------------------------------------------------------- utf8_nfkd_lazy *)
(* what the library hands on: NFKD of the whole input if a non-ASCII byte occurs among its
   first STR_SIZE-1 bytes, otherwise those first STR_SIZE-1 bytes (longer input is cut) *)
Definition lazy_spec (nfkd : transform) (str : bytes) : bytes * N * bool :=
  let head := firstn (N.to_nat (STR_SIZE - 1)) str in
  if existsb is_nonascii head then (fst (nfkd str), snd (nfkd str), true)
  else (head, N.of_nat (length head), false).

Lemma nfkd_scan_spec nfkd whole pos acc size :
  size = N.of_nat (length acc) -> size <= STR_SIZE - 1 ->
  nfkd_scan nfkd whole pos size acc =
    let head := firstn (N.to_nat (STR_SIZE - 1 - size)) pos in
    if existsb is_nonascii head then (fst (nfkd whole), snd (nfkd whole), true)
    else (rev acc ++ head, size + N.of_nat (length head), false).
Proof.
  revert acc size. induction pos as [|c pos IH]; intros acc size Hs Hle; cbn [nfkd_scan].
  - rewrite firstn_nil. cbn. rewrite app_nil_r, N.add_0_r. reflexivity.
  - destruct (size <? STR_SIZE - 1) eqn:E.
    + apply N.ltb_lt in E.
      replace (N.to_nat (STR_SIZE - 1 - size)) with (S (N.to_nat (STR_SIZE - 1 - (size + 1)))) by lia.
      cbn [firstn existsb]. destruct (is_nonascii c); [reflexivity|]. cbn [orb].
      rewrite (IH (c :: acc) (size + 1)) by (cbn [length]; lia). cbv zeta.
      destruct (existsb is_nonascii _); [reflexivity|].
      cbn [rev length]. rewrite <- app_assoc. cbn [app]. f_equal. f_equal. lia.
    + apply N.ltb_ge in E. replace (STR_SIZE - 1 - size) with 0 by lia. cbn.
      rewrite app_nil_r, N.add_0_r. reflexivity.
Qed.

Theorem nfkd_lazy_spec nfkd str : nfkd_lazy nfkd str = lazy_spec nfkd str.
Proof.
  unfold nfkd_lazy, lazy_spec. rewrite (nfkd_scan_spec nfkd str str [] 0) by (cbn; lia).
  cbv zeta. rewrite N.sub_0_r. destruct (existsb _ _); reflexivity.
Qed.

(* the copy branch never writes cell STR_SIZE-1 or beyond, so the terminator always fits *)
Corollary nfkd_lazy_fits nfkd str : existsb is_nonascii (firstn (N.to_nat (STR_SIZE - 1)) str) = false ->
  N.of_nat (length (fst (fst (nfkd_lazy nfkd str)))) < STR_SIZE.
Proof.
  intros H. rewrite nfkd_lazy_spec. unfold lazy_spec. rewrite H. cbn [fst].
  pose proof (firstn_le_length (N.to_nat (STR_SIZE - 1)) str). unfold STR_SIZE in *. lia.
Qed.

(* ------------------------------------------------------------------ str_split *)
Definition drop_last_empty (f : list bytes) : list bytes :=
  match rev f with [] :: r => rev r | _ => f end.

Lemma spec_tokens_eq s : spec_tokens s = drop_last_empty (sfields s []).
Proof. reflexivity. Qed.

Lemma sfields_nonnil s cur : sfields s cur <> [].
Proof. revert cur. induction s as [|c s IH]; intros cur; cbn; [discriminate|]. destruct (Byte.eqb c x20); [discriminate|apply IH]. Qed.

Lemma dle_cons a f : f <> [] -> drop_last_empty (a :: f) = a :: drop_last_empty f.
Proof.
  intros Hf. unfold drop_last_empty. cbn [rev].
  destruct (rev f) as [|x r] eqn:E.
  - exfalso. apply Hf. apply (f_equal (@rev _)) in E. rewrite rev_involutive in E. exact E.
  - cbn [app]. destruct x; [|reflexivity]. rewrite rev_app_distr. reflexivity.
Qed.

Lemma dle_app a f : f <> [] -> drop_last_empty (a ++ f) = a ++ drop_last_empty f.
Proof.
  intros Hf. induction a as [|x a IH]; [reflexivity|]. cbn [app].
  rewrite dle_cons, IH; [reflexivity|]. destruct a; [exact Hf|discriminate].
Qed.

(* a non-empty remainder always yields at least one token *)
Lemma tokens_nonnil s cur : (s <> [] \/ cur <> []) -> drop_last_empty (sfields s cur) <> [].
Proof.
  revert cur. induction s as [|c s IH]; intros cur H.
  - destruct H as [H|H]; [congruence|]. cbn. unfold drop_last_empty. cbn.
    destruct (rev cur) eqn:E; [|discriminate].
    apply (f_equal (@rev _)) in E. rewrite rev_involutive in E. cbn in E. congruence.
  - cbn [sfields]. destruct (Byte.eqb c x20).
    + rewrite dle_cons by apply sfields_nonnil. discriminate.
    + apply IH. right. discriminate.
Qed.

Lemma split_go_spec s cur w acc :
  w = length acc -> (w < 16)%nat -> (s <> [] \/ cur <> []) ->
  split_go s cur w acc =
    let toks := rev acc ++ drop_last_empty (sfields s cur) in
    (Nat.min (length toks) 17, firstn 16 toks).
Proof.
  revert cur w acc. induction s as [|c s IH]; intros cur w acc Hw Hlt Hne; cbn [split_go sfields].
  - destruct Hne as [Hne|Hne]; [congruence|].
    assert (E : drop_last_empty [rev cur] = [rev cur]).
    { unfold drop_last_empty. cbn. destruct (rev cur) eqn:E; [|reflexivity].
      apply (f_equal (@rev _)) in E. rewrite rev_involutive in E. cbn in E. congruence. }
    rewrite E. cbv zeta. cbn [rev]. rewrite app_length, rev_length. cbn [length].
    rewrite firstn_all2 by (rewrite app_length, rev_length; cbn; lia).
    f_equal. lia.
  - unfold is_space, SPACE. destruct (Byte.eqb c x20) eqn:Ec.
    + rewrite dle_cons by apply sfields_nonnil. cbv zeta.
      destruct (Nat.eqb (S w) 16) eqn:E16.
      * apply Nat.eqb_eq in E16.
        destruct s as [|c' s'].
        -- cbn [sfields]. change (drop_last_empty [rev []]) with (@nil bytes).
           cbn [rev]. rewrite app_length, rev_length. cbn [length].
           rewrite firstn_all2 by (rewrite app_length, rev_length; cbn; lia). f_equal. lia.
        -- assert (Hn : drop_last_empty (sfields (c' :: s') []) <> []) by (apply tokens_nonnil; left; discriminate).
           destruct (drop_last_empty (sfields (c' :: s') [])) as [|t ts]; [congruence|].
           rewrite app_length, rev_length. cbn [length].
           rewrite firstn_app, rev_length. rewrite firstn_all2 by (rewrite rev_length; lia).
           replace (16 - length acc)%nat with 1%nat by lia. cbn [firstn rev]. f_equal. lia.
      * apply Nat.eqb_neq in E16.
        destruct s as [|c' s'].
        -- cbn [sfields]. change (drop_last_empty [rev []]) with (@nil bytes).
           cbn [rev]. rewrite app_length, rev_length. cbn [length].
           rewrite firstn_all2 by (rewrite app_length, rev_length; cbn; lia). f_equal. lia.
        -- rewrite (IH [] (S w) (rev cur :: acc)) by (cbn [length]; first [lia | left; discriminate]).
           cbv zeta. cbn [rev]. rewrite <- app_assoc. reflexivity.
    + apply (IH (c :: cur) w acc Hw Hlt). right. discriminate.
Qed.

(* the C return value is the number of tokens, capped at 17, and words[] holds the first 16 *)
Theorem str_split_spec s :
  str_split s = (Nat.min (length (spec_tokens s)) 17, firstn 16 (spec_tokens s)).
Proof.
  destruct s as [|c s]; [reflexivity|]. unfold str_split.
  rewrite (split_go_spec (c :: s) [] 0 []) by (cbn; first [lia | left; discriminate]). reflexivity.
Qed.

Corollary str_split_16 s : fst (str_split s) = 16%nat <-> length (spec_tokens s) = 16%nat.
Proof. rewrite str_split_spec. cbn [fst]. lia. Qed.

Corollary str_split_words s : length (spec_tokens s) = 16%nat -> snd (str_split s) = spec_tokens s.
Proof. intros H. rewrite str_split_spec. cbn [snd]. apply firstn_all2. lia. Qed.

(* words[w] is only ever written with w < 16 *)
Corollary str_split_bound s : (length (snd (str_split s)) <= 16)%nat.
Proof. rewrite str_split_spec. cbn [snd]. rewrite firstn_length. lia. Qed.
