(* C12 - the password operation is a reversible mask on the secret. *)
From PS Require Import Base PackDefs ApiDefs SpecDefs SpecApi PackTheorems ApiLemmas RefineProofs ApiTheorems HeldProofs.
From PS.Gen Require Import Consts Langs.
Local Open Scope N_scope.

(* one call: exactly one KDF call, with the (lazily) NFKD-normalised password, the salt
   "POLYSEED mask" 00 FF FF (16 bytes), 10000 iterations, 32 bytes; the seed becomes spec_crypt of
   the old one under the returned mask: secret XOR mask on 19 bytes with the two top bits of byte
   18 cleared, birthday unchanged, feature bit 4 toggled and bits 0-3 unchanged; the new struct is
   valid (canonical, check value recomputed); every other seed is untouched *)
Theorem C12_effect : forall sgn cs a h d pw, R cs a -> heap_get (st_heap cs) h = Some d ->
  let r := step sgn langs cs (OpCrypt h pw) in
  let p := spec_norm (dp_nfkd (st_deps cs)) pw in
  let mask := dp_kdf (st_deps cs) (map bval (fst p)) (snd p) SPEC_MASK_SALT 16 10000 32 in
  outp r = OutUnit /\
  (exists d', heap_get (st_heap (stp r)) h = Some d' /\ Valid d' /\ abs_data d' = spec_crypt (abs_data d) mask) /\
  (forall h', h' <> h -> heap_get (st_heap (stp r)) h' = heap_get (st_heap cs) h') /\
  filter (fun e => match e with EvKdf _ _ _ _ _ _ => true | _ => false end) (evp r) =
    [EvKdf (map bval (fst p)) (snd p) SPEC_MASK_SALT 16 10000 32].
Proof. exact crypt_effect. Qed.
Print Assumptions C12_effect.

(* the same password twice: the same struct, byte for byte, for EVERY seed, password and KDF *)
Theorem C12_involution : forall sgn cs a h d pw, R cs a -> heap_get (st_heap cs) h = Some d ->
  let cs1 := stp (step sgn langs cs (OpCrypt h pw)) in
  heap_get (st_heap (stp (step sgn langs cs1 (OpCrypt h pw)))) h = Some d.
Proof. exact crypt_twice. Qed.
Print Assumptions C12_involution.

Theorem C12_mask_involution : forall s m, aseed_ok s -> spec_crypt (spec_crypt s m) m = s.
Proof. exact spec_crypt_involution. Qed.
Print Assumptions C12_mask_involution.

Theorem C12_stays_valid : forall s m, aseed_ok s -> Forall (fun b => b < 256) m -> aseed_ok (spec_crypt s m).
Proof. exact spec_crypt_ok. Qed.
Print Assumptions C12_stays_valid.

(* the mask is keyed by the normalised password only: canonically equivalent passwords (equal
   normal forms) give the same KDF call, hence the same result *)
Theorem C12_canonical_equivalence : forall (nfkd : bytes -> bytes * N) a b, spec_norm nfkd a = spec_norm nfkd b ->
  forall (kdf : list N -> N -> list N -> N -> N -> N -> list N),
  kdf (map bval (fst (spec_norm nfkd a))) (snd (spec_norm nfkd a)) SPEC_MASK_SALT 16 10000 32 =
  kdf (map bval (fst (spec_norm nfkd b))) (snd (spec_norm nfkd b)) SPEC_MASK_SALT 16 10000 32.
Proof. intros nfkd a b E kdf. rewrite E. reflexivity. Qed.
Print Assumptions C12_canonical_equivalence.

(* what "normalised" means in the code: the whole password goes to the injected NFKD if a
   non-ASCII byte occurs among its first STR_SIZE-1 bytes; otherwise the first STR_SIZE-1 bytes are
   used as they are - a longer ASCII password is CUT (known finding F6, recorded, not repaired) *)
Theorem C12_long_password_truncated : forall nfkd pw,
  existsb is_nonascii (firstn (N.to_nat (STR_SIZE - 1)) pw) = false ->
  fst (spec_norm nfkd pw) = firstn (N.to_nat (STR_SIZE - 1)) pw.
Proof. intros nfkd pw H. unfold spec_norm. rewrite H. reflexivity. Qed.
Print Assumptions C12_long_password_truncated.

Theorem C12_refuted_for_long_passwords : exists pw : bytes,
  fst (spec_norm (fun s => (s, N.of_nat (length s))) pw) <> pw.
Proof.
  exists (repeat x61 544). intros E. apply (f_equal (@length _)) in E. revert E. vm_compute. discriminate.
Qed.
Print Assumptions C12_refuted_for_long_passwords.

(* what polyseed_crypt does to a held seed does not depend on the feature set enabled when it is called: same KDF
   call, same new contents of the block *)
Theorem C12_crypt_independent_of_enabled_set : forall sgn st r h pw,
  snd (step sgn langs (with_reserved r st) (OpCrypt h pw)) = snd (step sgn langs st (OpCrypt h pw)) /\
  st_heap (fst (fst (step sgn langs (with_reserved r st) (OpCrypt h pw)))) = st_heap (fst (fst (step sgn langs st (OpCrypt h pw)))).
Proof. intros sgn st r h pw. rewrite (held_independent sgn langs st r (OpCrypt h pw) eq_refl). split; reflexivity. Qed.
Print Assumptions C12_crypt_independent_of_enabled_set.
