(* C13: every public function of polyseed.c, on the concrete state (structs with a 32-byte
   buffer and a stored check value, the reserved-feature mask, the dependency table), produces
   exactly the outputs of the abstract seed machine (SpecApi.astep: a seed is secret, birthday,
   features), and keeps every live struct valid - for EVERY operation with EVERY argument. *)
From PS Require Import Base GFDefs PackDefs StoreDefs MiscDefs StrDefs LangDefs ApiDefs SpecDefs SpecApi.
From PS Require Import GFProofs PackProofs PackTheorems StoreProofs StrProofs SeedProofs MiscProofs
  LangProofs LangData CoinProofs ApiLemmas.
From PS.Gen Require Import Consts PrivConsts Langs.
Local Open Scope N_scope.

(* what a dependency table must satisfy to be a table of C functions at all: the normaliser
   writes a C string (no NUL inside), the KDF writes bytes *)
Definition deps_ok (D : deps) : Prop :=
  (forall s, no_nul s -> no_nul (fst (dp_nfkd D s))) /\
  (forall pw n salt sl it kl, bytes_ok (dp_kdf D pw n salt sl it kl)).

(* what an operation must satisfy to be a C call at all: strings are C strings, the storage
   buffer has 32 bytes, the clock is a uint64_t, the coin is in its documented range *)
Definition op_ok (o : op) : Prop :=
  match o with
  | OpInject d => deps_ok d
  | OpCreate _ _ clock _ => clock < 2 ^ 64
  | OpLoad buf _ => length buf = 32%nat /\ bytes_ok buf
  | OpDecode str coin _ => no_nul str /\ coin < 2048
  | OpDecodeExplicit str coin _ _ => no_nul str /\ coin < 2048
  | OpEncode _ _ coin => coin < 2048
  | OpKeygen _ coin _ => coin < 2048
  | _ => True
  end.

Record R (cs : state) (a : astate) : Prop := mkR {
  R_deps : st_deps cs = as_deps a;
  R_res : st_reserved cs = spec_reserved (as_mask a);
  R_mask : as_mask a < 8;
  R_next : st_next cs = as_next a;
  R_heap : abs_heap (st_heap cs) = as_seeds a;
  R_valid : heap_valid (st_heap cs);
  R_dok : deps_ok (st_deps cs)
}.

Definition Sim (sgn : bool) (cs : state) (a : astate) (o : op) : Prop :=
  snd (fst (step sgn langs cs o)) = snd (astep langs a o) /\
  R (fst (fst (step sgn langs cs o))) (fst (astep langs a o)).


Ltac simstart := unfold Sim; cbn [step astep].

(* ---------------------------------------------------------------- the initial state *)
Lemma init_deps_ok : deps_ok init_deps.
Proof.
  split; [intros s H; exact H|]. intros. unfold init_deps, null_kdf. cbn [dp_kdf].
  apply Forall_forall. intros x Hx. apply repeat_spec in Hx. subst. reflexivity.
Qed.

Lemma R_init : R init_state ainit.
Proof. constructor; try reflexivity; [constructor | exact init_deps_ok]. Qed.

(* --------------------------------------------------------------------- set-up calls *)
Lemma sim_inject sgn cs a d : R cs a -> deps_ok d -> Sim sgn cs a (OpInject d).
Proof. intros [] Hd. simstart. split; [reflexivity|]. constructor; cbn; assumption || reflexivity. Qed.

Lemma land7_idem m : N.land (N.land m 7) 7 = N.land m 7.
Proof. rewrite <- N.land_assoc. reflexivity. Qed.

Lemma sim_enable sgn cs a m : R cs a -> Sim sgn cs a (OpEnable m).
Proof.
  intros []. simstart. rewrite enable_spec. cbn [fst snd]. split; [reflexivity|].
  constructor; cbn; try assumption.
  - unfold spec_reserved. rewrite land7_idem. reflexivity.
  - apply land7_lt.
Qed.

(* --------------------------------------------------------------------------- queries *)
Section WithHandle.
  Variables (sgn : bool) (cs : state) (a : astate) (h : N).
  Hypothesis HR : R cs a.

  Lemma get_cases :
    (heap_get (st_heap cs) h = None /\ aget (as_seeds a) h = None) \/
    (exists d, heap_get (st_heap cs) h = Some d /\ aget (as_seeds a) h = Some (abs_data d) /\ Valid d).
  Proof.
    destruct HR. rewrite <- R_heap0, aget_abs.
    destruct (heap_get (st_heap cs) h) as [d|] eqn:E; [right|left; split; reflexivity].
    exists d. split; [reflexivity|]. split; [reflexivity|]. apply (heap_get_valid _ _ _ R_valid0 E).
  Qed.

  Lemma sim_birthday : Sim sgn cs a (OpGetBirthday h).
  Proof.
    simstart. destruct get_cases as [[E1 E2]|(d&E1&E2&V)]; rewrite E1, E2; cbn [fst snd]; [split; [reflexivity|exact HR]|].
    split; [|exact HR]. f_equal. destruct V as [(_&_&_&_&Hb&_) _].
    unfold birthday_decode, spec_birthday_time, abs_data, EPOCH, TIME_STEP, U64, SPEC_EPOCH, SPEC_STEP. cbn [a_birthday].
    apply N.mod_small. lia.
  Qed.

  Lemma sim_feature m : Sim sgn cs a (OpGetFeature h m).
  Proof.
    simstart. destruct get_cases as [[E1 E2]|(d&E1&E2&V)]; rewrite E1, E2; cbn [fst snd]; [split; [reflexivity|exact HR]|].
    split; [|exact HR]. f_equal. apply get_features_spec.
  Qed.

  Lemma sim_isenc : Sim sgn cs a (OpIsEncrypted h).
  Proof.
    simstart. destruct get_cases as [[E1 E2]|(d&E1&E2&V)]; rewrite E1, E2; cbn [fst snd]; [split; [reflexivity|exact HR]|].
    split; [|exact HR]. f_equal. destruct V as [(_&_&_&_&_&Hf) _]. apply is_encrypted_spec, Hf.
  Qed.

  Lemma sim_free : Sim sgn cs a (OpFree h).
  Proof.
    simstart. destruct get_cases as [[E1 E2]|(d&E1&E2&V)]; rewrite E1, E2; cbn [fst snd]; [split; [reflexivity|exact HR]|].
    split; [reflexivity|]. destruct HR. constructor; cbn; try assumption.
    - rewrite adel_abs, R_heap0. reflexivity.
    - apply heap_del_valid, R_valid0.
  Qed.

  Lemma sim_store : Sim sgn cs a (OpStore h).
  Proof.
    simstart. destruct get_cases as [[E1 E2]|(d&E1&E2&V)]; rewrite E1, E2; cbn [fst snd]; [split; [reflexivity|exact HR]|].
    split; [|exact HR]. f_equal. destruct V as [HC Hck].
    rewrite (store_layout d HC) by (rewrite Hck; apply spec_checksum_lt).
    unfold spec_store, abs_data. cbn [a_secret a_birthday a_features]. rewrite Hck. reflexivity.
  Qed.

  Lemma sim_keygen coin size : coin < 2048 -> Sim sgn cs a (OpKeygen h coin size).
  Proof.
    intros Hc. simstart. destruct get_cases as [[E1 E2]|(d&E1&E2&V)]; rewrite E1, E2; cbn [fst snd]; [split; [reflexivity|exact HR]|].
    split; [|exact HR]. destruct HR. rewrite <- R_deps0. destruct V as [HC _].
    assert (Es : d_secret d = spec_kdf_password (abs_data d)) by (apply canon_secret, HC).
    assert (Et : keygen_salt coin d = spec_kdf_salt (abs_data d) coin).
    { destruct HC as (_&_&_&_&Hb&Hf). unfold keygen_salt, spec_kdf_salt, abs_data. cbn [a_birthday a_features].
      rewrite !store32_le32 by (unfold U32; lia). reflexivity. }
    rewrite Es, Et. reflexivity.
  Qed.
End WithHandle.

Lemma firstn_app_len {A} (l r : list A) n : length l = n -> firstn n (l ++ r) = l.
Proof. intros <-. rewrite firstn_app, Nat.sub_diag, firstn_O, app_nil_r. apply firstn_all. Qed.

Lemma abs_heap_cons h d hp : abs_heap ((h, d) :: hp) = (h, abs_data d) :: abs_heap hp.
Proof. reflexivity. Qed.

(* ---------------------------------------------------------------------------- create *)
Lemma supported_R cs a f : R cs a -> features_supported (st_reserved cs) f = spec_supported (as_mask a) f.
Proof. intros []. unfold features_supported, spec_supported. rewrite R_res0. reflexivity. Qed.

Lemma sim_create sgn cs a features rand clock ok : R cs a -> clock < 2 ^ 64 ->
  Sim sgn cs a (OpCreate features rand clock ok).
Proof.
  intros HR Hclk. simstart. rewrite (supported_R cs a _ HR).
  destruct (make_features_spec features) as [Ef Hf]. rewrite Ef in *.
  destruct (spec_supported (as_mask a) (N.land features 7)); cbn [negb fst snd]; [|split; [reflexivity|exact HR]].
  destruct ok; cbn [negb fst snd]; [|split; [reflexivity|exact HR]].
  set (sec := _ ++ repeat 0 (N.to_nat (SECRET_BUFFER_SIZE - SECRET_SIZE))).
  set (d0 := mkdata (birthday_encode clock) (N.land features 7) sec 0).
  assert (Esec : sec = (map (fun i => nth i rand 0 mod 256) (seq 0 18) ++ [(nth 18 rand 0 mod 256) mod 64]) ++ repeat 0 13).
  { unfold sec. change (N.to_nat SECRET_SIZE) with 19%nat. change (N.to_nat (SECRET_BUFFER_SIZE - SECRET_SIZE)) with 13%nat.
    cbn [seq map upd nth Nat.sub app]. rewrite land_63. reflexivity. }
  assert (HC : Canon d0).
  { unfold Canon, d0. cbn [d_secret d_birthday d_features]. rewrite Esec.
    cbn [seq map app]. split; [reflexivity|]. split.
    - repeat (apply Forall_cons; [first [apply N.mod_lt; discriminate | pose proof (N.mod_lt (nth 18 rand 0 mod 256) 64); lia | lia]|]).
      apply Forall_nil.
    - split; [cbn [nth]; apply N.mod_lt; discriminate|]. split; [reflexivity|].
      split; [apply encode_lt | lia]. }
  rewrite (canon_poly_of d0 0 HC). cbn [fst snd].
  destruct HR. split; [rewrite R_next0; reflexivity|].
  constructor; cbn [st_deps st_reserved st_heap st_next as_deps as_mask as_seeds as_next]; try assumption.
  - rewrite R_next0. reflexivity.
  - rewrite abs_heap_cons, R_heap0, R_next0. f_equal. f_equal.
    unfold abs_data. cbn [d_secret d_birthday d_features]. f_equal.
    + rewrite Esec. apply firstn_app_len. rewrite app_length, map_length, seq_length. reflexivity.
    + apply (bday_is_spec clock Hclk).
  - constructor; [|assumption]. cbn [snd].
    change (Valid (set_ck d0 (poly_eval (0 :: spec_data_words (abs_data d0))))).
    rewrite <- spec_checksum_eval. apply valid_set_ck, HC.
Qed.

(* ------------------------------------------------------------------------------ load *)
Lemma sim_load sgn cs a buf ok : R cs a -> length buf = 32%nat -> bytes_ok buf ->
  Sim sgn cs a (OpLoad buf ok).
Proof.
  intros HR Hl Hb. simstart.
  destruct ok; cbn [negb fst snd]; [|split; [reflexivity|exact HR]].
  pose proof (load_parse buf Hl Hb) as LP.
  destruct (data_load buf) as [|d] eqn:EL; rewrite LP.
  - cbn [fst snd]. split; [reflexivity|]. destruct HR. constructor; cbn; try assumption. rewrite R_next0. reflexivity.
  - apply (load_ok_iff buf d Hl Hb) in EL. destruct EL as (HC&Hck&_).
    rewrite (canon_poly_of d _ HC). rewrite (check_iff_spec _ _ Hck).
    rewrite (supported_R cs a _ HR). change (a_features (abs_data d)) with (d_features d).
    destruct (N.eqb_spec (d_checksum d) (spec_checksum (abs_data d))) as [Ek|Ek]; cbn [negb fst snd].
    + destruct (spec_supported (as_mask a) (d_features d)); cbn [negb fst snd].
      * destruct HR. split; [rewrite R_next0; reflexivity|].
        constructor; cbn [st_deps st_reserved st_heap st_next as_deps as_mask as_seeds as_next]; try assumption.
        -- rewrite R_next0. reflexivity.
        -- rewrite abs_heap_cons, R_heap0, R_next0. reflexivity.
        -- constructor; [|assumption]. split; assumption.
      * split; [reflexivity|]. destruct HR. constructor; cbn; try assumption. rewrite R_next0. reflexivity.
    + split; [reflexivity|]. destruct HR. constructor; cbn; try assumption. rewrite R_next0. reflexivity.
Qed.

(* ----------------------------------------------------------------------------- crypt *)
Lemma lazy_norm nfkd s : fst (nfkd_lazy nfkd s) = spec_norm nfkd s.
Proof.
  rewrite nfkd_lazy_spec. unfold lazy_spec, spec_norm.
  destruct (existsb is_nonascii _); cbn [fst]; [symmetry; apply surjective_pairing | reflexivity].
Qed.

Lemma sim_crypt sgn cs a h pw : R cs a -> Sim sgn cs a (OpCrypt h pw).
Proof.
  intros HR. simstart.
  destruct (get_cases cs a h HR) as [[E1 E2]|(d&E1&E2&V)]; rewrite E1, E2; cbn [fst snd]; [split; [reflexivity|exact HR]|].
  pose proof (lazy_norm (dp_nfkd (st_deps cs)) pw) as LN.
  destruct (nfkd_lazy (dp_nfkd (st_deps cs)) pw) as [[norm n] called]. cbn [fst] in LN.
  destruct HR. rewrite <- R_deps0, <- LN.
  change SPEC_MASK_SALT with MASK_SALT. change (map bval norm) with (bytesN norm).
  set (mask := dp_kdf (st_deps cs) (bytesN norm) n MASK_SALT 16 KDF_NUM_ITERATIONS 32).
  change (dp_kdf (st_deps cs) (bytesN norm) n MASK_SALT 16 10000 32) with mask.
  destruct V as [HC Hck]. change (N.to_nat SECRET_SIZE) with 19%nat. change (19 - 1)%nat with 18%nat.
  set (x := xor_bytes (firstn 19 (d_secret d)) mask).
  assert (Hx : x = sxor (a_secret (abs_data d)) mask) by reflexivity.
  assert (Hm : bytes_ok mask) by apply R_dok0.
  destruct (canon_abs_ok d HC) as (Al&Af&_&_&Aft).
  assert (Lx : length x = 19%nat) by (rewrite Hx, sxor_length; exact Al).
  assert (Bx : bytes_ok x) by (rewrite Hx; apply sxor_bytes; assumption).
  set (sec' := upd x 18 (N.land (nth 18 x 0) CLEAR_MASK) ++ skipn 19 (d_secret d)).
  assert (Es : sec' = (firstn 18 x ++ [nth 18 x 0 mod 64]) ++ repeat 0 13).
  { unfold sec'. rewrite (upd_last x 18) by exact Lx. rewrite land_63. destruct HC as (_&_&_&->&_). reflexivity. }
  set (d1 := mkdata (d_birthday d) (N.lxor (d_features d) ENCRYPTED_MASK) sec' 0).
  assert (A1 : abs_data d1 = spec_crypt (abs_data d) mask).
  { unfold abs_data, spec_crypt, d1. cbn [d_secret d_birthday d_features a_secret a_birthday a_features].
    change (sxor (firstn 19 (d_secret d)) mask) with x. f_equal. rewrite Es. apply firstn_app_len. rewrite app_length, firstn_length, Lx. reflexivity. }
  assert (C1 : Canon d1).
  { unfold Canon, d1. cbn [d_secret d_birthday d_features]. rewrite Es.
    assert (L18 : length (firstn 18 x) = 18%nat) by (rewrite firstn_length, Lx; reflexivity).
    split; [rewrite !app_length, L18; reflexivity|]. split.
    - apply Forall_app. split; [apply Forall_app; split|].
      + rewrite <- (firstn_skipn 18 x) in Bx. apply Forall_app in Bx. apply Bx.
      + constructor; [|constructor]. pose proof (N.mod_lt (nth 18 x 0) 64). lia.
      + apply Forall_forall. intros y Hy. apply repeat_spec in Hy. subst. reflexivity.
    - split.
      + rewrite <- app_assoc. rewrite app_nth2 by lia. rewrite L18. cbn [Nat.sub app nth]. apply N.mod_lt. discriminate.
      + split; [|split].
        * rewrite skipn_app. rewrite skipn_all2 by (rewrite app_length, L18; cbn; lia).
          rewrite app_length, L18. reflexivity.
        * apply HC.
        * apply lxor_lt_32; [apply HC | reflexivity]. }
  rewrite (canon_poly_of d1 0 C1). cbn [fst snd]. split; [reflexivity|].
  constructor; cbn [st_deps st_reserved st_heap st_next as_deps as_mask as_seeds as_next]; try assumption; try reflexivity.
  - rewrite aset_abs, R_heap0. f_equal. exact A1.
  - apply heap_set_valid; [assumption|].
    change (Valid (set_ck d1 (poly_eval (0 :: spec_data_words (abs_data d1))))).
    rewrite <- spec_checksum_eval. apply valid_set_ck, C1.
Qed.

(* ---------------------------------------------------------------------------- encode *)
Lemma sim_encode sgn cs a h li coin : R cs a -> coin < 2048 -> Sim sgn cs a (OpEncode h li coin).
Proof.
  intros HR Hc. simstart.
  destruct (get_cases cs a h HR) as [[E1 E2]|(d&E1&E2&V)]; rewrite E1, E2; cbn [fst snd]; [split; [reflexivity|exact HR]|].
  destruct (nth_error langs li) as [L|]; cbn [fst snd]; [|split; [reflexivity|exact HR]].
  destruct V as [HC Hck]. rewrite (canon_poly_of d _ HC).
  destruct (spec_data_words_wf (abs_data d)) as [W Len].
  assert (Ei : xor_coin (d_checksum d :: spec_data_words (abs_data d)) coin = spec_indices (abs_data d) coin).
  { unfold spec_indices. rewrite <- Hck. destruct (spec_data_words (abs_data d)) as [|w1 ws]; [discriminate|]. reflexivity. }
  rewrite Ei.
  assert (Wi : wf (spec_indices (abs_data d) coin)).
  { rewrite <- Ei. apply wf_xor_coin; [|exact Hc]. constructor; [rewrite Hck; apply spec_checksum_lt | exact W]. }
  replace (forallb (fun c => c <? LANG_SIZE) (spec_indices (abs_data d) coin)) with true
    by (symmetry; apply forallb_forall; intros y Hy; apply N.ltb_lt; unfold wf in Wi; rewrite Forall_forall in Wi; apply Wi, Hy).
  cbn [negb]. unfold write_phrase. rewrite join_sjoin.
  change (map (fun c => nth (N.to_nat c) (l_words L) []) (spec_indices (abs_data d) coin))
    with (map (spec_word L) (spec_indices (abs_data d) coin)).
  change (sjoin (l_separator L) (map (spec_word L) (spec_indices (abs_data d) coin))) with (spec_phrase_nfkd L (abs_data d) coin).
  destruct (N.of_nat (length (spec_phrase_nfkd L (abs_data d) coin)) <? STR_SIZE); cbn [negb fst snd]; [|split; [reflexivity|exact HR]].
  destruct HR. rewrite <- R_deps0.
  destruct (l_compose L).
  - destruct (dp_nfc (st_deps cs) (spec_phrase_nfkd L (abs_data d) coin)) as [o n]. cbn [fst snd].
    split; [reflexivity|]. constructor; assumption || reflexivity.
  - cbn [fst snd]. split; [reflexivity|]. constructor; assumption || reflexivity.
Qed.

(* ---------------------------------------------------------------------------- decode *)
Lemma sim_finish cs a idx coin ok lang : R cs a -> wf idx -> length idx = 16%nat -> coin < 2048 ->
  snd (fst (finish_decode cs idx coin ok lang)) = snd (afinish a idx coin ok lang) /\
  R (fst (fst (finish_decode cs idx coin ok lang))) (fst (afinish a idx coin ok lang)).
Proof.
  intros HR W Len Hc. unfold finish_decode, afinish. change (axor_coin idx coin) with (xor_coin idx coin).
  set (c := xor_coin idx coin).
  assert (Wc : wf c) by (apply wf_xor_coin; assumption).
  assert (Lc : length c = 16%nat) by (unfold c; rewrite xor_coin_length; exact Len).
  unfold poly_check. rewrite (eval_is_spec c Wc) by lia.
  destruct (spec_eval c =? 0) eqn:Ev; cbn [negb fst snd]; [|split; [reflexivity|exact HR]].
  destruct ok; cbn [negb fst snd]; [|split; [reflexivity|exact HR]].
  assert (Wt : wf (tl c)) by (destruct c; [constructor | inversion Wc; assumption]).
  destruct (poly_unpack c Lc Wt) as (d&P&HC&Hck&Hd).
  unfold poly_to_data. rewrite P.
  pose proof (abs_unpack c d Lc Wt P) as Ab.
  rewrite (supported_R cs a _ HR). change (d_features d) with (a_features (abs_data d)). rewrite Ab.
  destruct (spec_supported (as_mask a) (a_features (spec_seed_of_indices c))); cbn [negb fst snd].
  - destruct HR. split; [rewrite R_next0; reflexivity|].
    constructor; cbn [st_deps st_reserved st_heap st_next as_deps as_mask as_seeds as_next]; try assumption.
    + rewrite R_next0. reflexivity.
    + rewrite abs_heap_cons, R_heap0, R_next0, Ab. reflexivity.
    + constructor; [|assumption]. cbn [snd]. split; [exact HC|].
      destruct (canon_pack d HC) as (ws&Wf&Ws&_). rewrite Hd in Wf. injection Wf as Wf.
      destruct c as [|c0 ct]; [discriminate|]. cbn [tl hd] in *. rewrite Hck.
      assert (C0 : c0 < 2048) by (inversion Wc; assumption).
      pose proof (check_iff_spec (abs_data d) c0 C0) as CI. rewrite <- Ws, <- Wf in CI.
      unfold poly_check in CI. rewrite (eval_is_spec (c0 :: ct) Wc) in CI by lia. rewrite Ev in CI.
      symmetry in CI. apply N.eqb_eq in CI. exact CI.
  - split; [reflexivity|]. destruct HR. constructor; cbn; try assumption. rewrite R_next0. reflexivity.
Qed.

Lemma norm_nonul cs a s : R cs a -> no_nul s -> no_nul (fst (spec_norm (dp_nfkd (st_deps cs)) s)).
Proof.
  intros HR Hs. unfold spec_norm. destruct (existsb is_nonascii _).
  - apply HR, Hs.
  - cbn [fst]. apply no_nul_firstn, Hs.
Qed.

Lemma split_cases s :
  (fst (str_split s) = 16%nat /\ snd (str_split s) = spec_tokens s /\ length (spec_tokens s) = 16%nat) \/
  (fst (str_split s) <> 16%nat /\ length (spec_tokens s) <> 16%nat).
Proof.
  destruct (Nat.eq_dec (length (spec_tokens s)) 16) as [E|E].
  - left. split; [apply str_split_16, E|]. split; [apply str_split_words, E | exact E].
  - right. split; [|exact E]. intros H. apply str_split_16 in H. exact (E H).
Qed.

Lemma sim_decodex sgn cs a str coin li ok : R cs a -> no_nul str -> coin < 2048 ->
  Sim sgn cs a (OpDecodeExplicit str coin li ok).
Proof.
  intros HR Hs Hc. simstart.
  destruct (nth_error langs li) as [L|] eqn:EL; cbn [fst snd]; [|split; [reflexivity|exact HR]].
  apply nth_error_In in EL.
  pose proof (lazy_norm (dp_nfkd (st_deps cs)) str) as LN.
  destruct (nfkd_lazy (dp_nfkd (st_deps cs)) str) as [[norm n] called]. cbn [fst] in LN.
  pose proof (norm_nonul cs a str HR Hs) as Hn. rewrite <- LN in Hn. cbn [fst] in Hn.
  assert (Ed : dp_nfkd (st_deps cs) = dp_nfkd (as_deps a)) by (destruct HR; congruence).
  rewrite <- Ed, <- LN. cbn [fst].
  destruct (str_split norm) as [w words] eqn:ES.
  destruct (split_cases norm) as [(E16&Ew&El)|(E16&El)]; rewrite ES in *; cbn [fst snd] in *.
  - subst w words. rewrite El. cbn [Nat.eqb negb].
    unfold phrase_decode_explicit. rewrite (decode_words_spec sgn L _ EL (tokens_nonul norm Hn)).
    destruct (spec_lookup_all L (spec_tokens norm)) as [idx|] eqn:ELk; [|cbn [fst snd]; split; [reflexivity|exact HR]].
    destruct (lookup_all_wf L _ idx EL ELk) as [W Len]. rewrite El in Len.
    pose proof (sim_finish cs a idx coin ok None HR W Len Hc) as [F1 F2].
    destruct (finish_decode cs idx coin ok None) as [[cs' o'] ev]. destruct (afinish a idx coin ok None) as [a' ao].
    cbn [fst snd] in *. split; assumption.
  - replace (Nat.eqb w 16) with false by (symmetry; apply Nat.eqb_neq, E16).
    replace (Nat.eqb (length (spec_tokens norm)) 16) with false by (symmetry; apply Nat.eqb_neq, El).
    cbn [negb fst snd]. split; [reflexivity|exact HR].
Qed.

Lemma sim_decode sgn cs a str coin ok : R cs a -> no_nul str -> coin < 2048 ->
  Sim sgn cs a (OpDecode str coin ok).
Proof.
  intros HR Hs Hc. simstart.
  pose proof (lazy_norm (dp_nfkd (st_deps cs)) str) as LN.
  destruct (nfkd_lazy (dp_nfkd (st_deps cs)) str) as [[norm n] called]. cbn [fst] in LN.
  pose proof (norm_nonul cs a str HR Hs) as Hn. rewrite <- LN in Hn. cbn [fst] in Hn.
  assert (Ed : dp_nfkd (st_deps cs) = dp_nfkd (as_deps a)) by (destruct HR; congruence).
  rewrite <- Ed, <- LN. cbn [fst].
  destruct (str_split norm) as [w words] eqn:ES.
  destruct (split_cases norm) as [(E16&Ew&El)|(E16&El)]; rewrite ES in *; cbn [fst snd] in *.
  - subst w words. rewrite El. cbn [Nat.eqb negb].
    rewrite (phrase_decode_spec sgn _ (tokens_nonul norm Hn)).
    pose proof (matching_wf langs 0 (spec_tokens norm)) as MW.
    destruct (matching langs 0 (spec_tokens norm)) as [|[l idx] [|[l2 idx2] m]]; cbn [pd_of fst snd];
      try (split; [reflexivity|exact HR]).
    destruct (MW l idx (fun _ H => H) (or_introl eq_refl)) as [W Len]. rewrite El in Len.
    pose proof (sim_finish cs a idx coin ok (Some l) HR W Len Hc) as [F1 F2].
    destruct (finish_decode cs idx coin ok (Some l)) as [[cs' o'] ev]. destruct (afinish a idx coin ok (Some l)) as [a' ao].
    cbn [fst snd] in *. split; assumption.
  - replace (Nat.eqb w 16) with false by (symmetry; apply Nat.eqb_neq, E16).
    replace (Nat.eqb (length (spec_tokens norm)) 16) with false by (symmetry; apply Nat.eqb_neq, El).
    cbn [negb fst snd]. split; [reflexivity|exact HR].
Qed.

(* ------------------------------------------------------------------- one step, any op *)
Theorem step_refines sgn cs a o : R cs a -> op_ok o -> Sim sgn cs a o.
Proof.
  intros HR Ho. destruct o; cbn [op_ok] in Ho.
  - apply sim_inject; assumption.
  - apply sim_enable; assumption.
  - apply sim_create; assumption.
  - destruct Ho. apply sim_load; assumption.
  - destruct Ho. apply sim_decode; assumption.
  - destruct Ho. apply sim_decodex; assumption.
  - apply sim_encode; assumption.
  - apply sim_store; assumption.
  - apply sim_crypt; assumption.
  - apply sim_keygen; assumption.
  - apply sim_birthday; assumption.
  - apply sim_feature; assumption.
  - apply sim_isenc; assumption.
  - apply sim_free; assumption.
  - unfold Sim. cbn. split; [reflexivity|exact HR].
Qed.

(* ------------------------------------------------------------- any sequence of calls *)
Fixpoint arun (ls : list lang) (a : astate) (ops : list op) : astate * list out :=
  match ops with
  | [] => (a, [])
  | o :: ops' => let '(a1, o1) := astep ls a o in let '(af, os) := arun ls a1 ops' in (af, o1 :: os)
  end.

(* ops_ok: each op is a C call at all (op_ok) - checked against nothing but its own arguments *)
Theorem run_refines sgn ops : forall cs a, R cs a -> Forall op_ok ops ->
  map fst (snd (run sgn langs cs ops)) = snd (arun langs a ops) /\
  R (fst (run sgn langs cs ops)) (fst (arun langs a ops)).
Proof.
  induction ops as [|o ops IH]; intros cs a HR Hok; cbn [run arun].
  - split; [reflexivity|exact HR].
  - inversion Hok as [|? ? Ho Hops]; subst.
    destruct (step_refines sgn cs a o HR Ho) as [S1 S2].
    destruct (step sgn langs cs o) as [[cs1 o1] ev1]. destruct (astep langs a o) as [a1 ao1]. cbn [fst snd] in *.
    destruct (IH cs1 a1 S2 Hops) as [I1 I2].
    destruct (run sgn langs cs1 ops) as [csf outs]. destruct (arun langs a1 ops) as [af aouts]. cbn [fst snd map] in *.
    split; [congruence | exact I2].
Qed.

Corollary refinement sgn ops : Forall op_ok ops ->
  map fst (snd (run sgn langs init_state ops)) = snd (arun langs ainit ops) /\
  R (fst (run sgn langs init_state ops)) (fst (arun langs ainit ops)).
Proof. apply run_refines, R_init. Qed.

(* every seed the library has handed out and not yet freed is canonical and carries the check
   value of its data, after ANY sequence of calls *)
Corollary reachable_valid sgn ops : Forall op_ok ops ->
  heap_valid (st_heap (fst (run sgn langs init_state ops))).
Proof. intros H. apply (refinement sgn ops H). Qed.
