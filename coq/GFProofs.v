(* GF(2048): the doubling rule is multiplication by x modulo x^11+x^2+1,
   linear, injective, of order > 15 on every non-zero element; Horner
   evaluation is linear; single-coefficient and transposition errors never
   evaluate to zero.  Finite facts are exhaustive computations inside Coq
   (vm_compute over all 2048 elements), lifted to all polynomials by
   linearity / induction. *)
From PS Require Import Base GFDefs SpecDefs.
From PS.Gen Require Import PrivConsts.
Local Open Scope N_scope.

(* ---- finite sweeps ---- *)
Definition range (n : nat) : list N := map N.of_nat (seq 0 n).

Lemma in_range n x : x < N.of_nat n -> In x (range n).
Proof.
  intros H. unfold range. apply in_map_iff. exists (N.to_nat x). split; [lia|].
  apply in_seq. lia.
Qed.

Lemma sweep (P : N -> bool) n :
  forallb P (range n) = true -> forall x, x < N.of_nat n -> P x = true.
Proof. intros H x Hx. rewrite forallb_forall in H. apply H, in_range, Hx. Qed.

Lemma sweep2048 (P : N -> bool) :
  forallb P (range 2048) = true -> forall x, x < 2048 -> P x = true.
Proof. intros H x Hx. apply (sweep P 2048 H). exact Hx. Qed.

Lemma sweep2 (P : nat -> N -> bool) (ks : list nat) (n : nat) :
  forallb (fun k => forallb (P k) (range n)) ks = true ->
  forall k d, In k ks -> d < N.of_nat n -> P k d = true.
Proof.
  intros H k d Hk Hd. rewrite forallb_forall in H. specialize (H k Hk).
  rewrite forallb_forall in H. apply H, in_range, Hd.
Qed.

(* ---- the doubling rule ---- *)
Lemma mul2_is_spec x : x < 2048 -> mul2 x = mul2_spec x.
Proof.
  intros Hx. apply N.eqb_eq.
  apply (sweep2048 (fun x => mul2 x =? mul2_spec x)); [vm_compute; reflexivity | exact Hx].
Qed.

Lemma mul2_is_mulx x : x < 2048 -> mul2 x = gf_mulx x.
Proof.
  intros Hx. apply N.eqb_eq.
  apply (sweep2048 (fun x => mul2 x =? gf_mulx x)); [vm_compute; reflexivity | exact Hx].
Qed.

Lemma mul2_lt x : x < 2048 -> mul2 x < 2048.
Proof.
  intros Hx. apply N.ltb_lt.
  apply (sweep2048 (fun x => mul2 x <? 2048)); [vm_compute; reflexivity | exact Hx].
Qed.

Lemma mul2_0 : mul2 0 = 0.
Proof. reflexivity. Qed.

(* explicit inverse: division by x *)
Definition div2_gf (y : N) : N := if N.even y then y / 2 else (N.lxor y 2053) / 2.

Lemma div2_mul2 x : x < 2048 -> div2_gf (mul2 x) = x.
Proof.
  intros Hx. apply N.eqb_eq.
  apply (sweep2048 (fun x => div2_gf (mul2 x) =? x)); [vm_compute; reflexivity | exact Hx].
Qed.

Lemma mul2_inj a b : a < 2048 -> b < 2048 -> mul2 a = mul2 b -> a = b.
Proof.
  intros Ha Hb H. rewrite <- (div2_mul2 a Ha), <- (div2_mul2 b Hb), H. reflexivity.
Qed.

(* linearity, through the xor form of the rule *)
Lemma high_bit x : x < 2048 -> (2048 <=? 2 * x) = N.testbit x 10.
Proof.
  intros Hx. destruct (N.testbit x 10) eqn:E.
  - apply N.leb_le. apply N.testbit_true in E. change (2 ^ 10) with 1024 in E.
    assert (x / 1024 <> 0) by (intro Z; rewrite Z in E; discriminate).
    assert (1024 <= x); [|lia].
    destruct (N.lt_ge_cases x 1024) as [Hl|Hl]; [|exact Hl].
    rewrite N.div_small in H by exact Hl. congruence.
  - apply N.leb_gt. apply N.testbit_false in E. change (2 ^ 10) with 1024 in E.
    assert (x / 1024 < 2) by (apply N.div_lt_upper_bound; lia).
    assert (x / 1024 = 0) by (destruct (N.eq_dec (x / 1024) 0); [assumption|];
      assert (x / 1024 = 1) by lia; rewrite H0 in E; discriminate).
    apply N.div_small_iff in H0; lia.
Qed.

Lemma double_shiftl x : 2 * x = N.shiftl x 1.
Proof. rewrite N.shiftl_mul_pow2. change (2 ^ 1) with 2. apply N.mul_comm. Qed.

Lemma double_lxor a b : 2 * N.lxor a b = N.lxor (2 * a) (2 * b).
Proof. rewrite !double_shiftl. apply N.shiftl_lxor. Qed.

Lemma lxor_lt_2048 a b : a < 2048 -> b < 2048 -> N.lxor a b < 2048.
Proof.
  intros Ha Hb. change 2048 with (2 ^ 11).
  destruct (N.eq_dec (N.lxor a b) 0) as [Z|NZ]; [rewrite Z; reflexivity|].
  apply N.log2_lt_pow2; [lia|].
  eapply N.le_lt_trans; [apply N.log2_lxor|].
  apply N.max_lub_lt.
  - destruct (N.eq_dec a 0) as [->|]; [reflexivity|]. apply N.log2_lt_pow2; [lia|exact Ha].
  - destruct (N.eq_dec b 0) as [->|]; [reflexivity|]. apply N.log2_lt_pow2; [lia|exact Hb].
Qed.

Ltac xor_ring :=
  apply N.bits_inj; intro;
  rewrite ?N.lxor_spec, ?N.bits_0;
  repeat match goal with
         | |- context [N.testbit ?x ?n] => generalize (N.testbit x n); intro
         end;
  repeat match goal with b : bool |- _ => destruct b end; reflexivity.

Lemma mul2_xor a b : a < 2048 -> b < 2048 -> mul2 (N.lxor a b) = N.lxor (mul2 a) (mul2 b).
Proof.
  intros Ha Hb.
  rewrite !mul2_is_spec by (try apply lxor_lt_2048; assumption).
  unfold mul2_spec.
  rewrite !high_bit by (try apply lxor_lt_2048; assumption).
  rewrite N.lxor_spec, double_lxor.
  generalize (2 * a), (2 * b). intros u v.
  destruct (N.testbit a 10), (N.testbit b 10); cbn [xorb]; xor_ring.
Qed.

(* ---- polynomials ---- *)
Fixpoint iterN (n : nat) (f : N -> N) (x : N) : N :=
  match n with O => x | S n' => f (iterN n' f x) end.

Lemma iter_add a b f x : iterN (a + b) f x = iterN a f (iterN b f x).
Proof. induction a as [|a IH]; [reflexivity|]. cbn. rewrite IH. reflexivity. Qed.

Definition wf (c : list N) : Prop := Forall (fun x => x < 2048) c.

Fixpoint xorv (a b : list N) : list N :=
  match a, b with
  | x :: a', y :: b' => N.lxor x y :: xorv a' b'
  | _, _ => []
  end.

Fixpoint unitv (n i : nat) (d : N) : list N :=
  match n with
  | O => []
  | S n' => match i with O => d :: repeat 0 n' | S i' => 0 :: unitv n' i' d end
  end.

Lemma eval_cons x c : poly_eval (x :: c) = N.lxor (mul2 (poly_eval c)) x.
Proof. reflexivity. Qed.

Lemma eval_lt c : wf c -> poly_eval c < 2048.
Proof.
  induction 1 as [|x c Hx Hc IH]; [reflexivity|].
  rewrite eval_cons. apply lxor_lt_2048; [apply mul2_lt, IH | exact Hx].
Qed.

Lemma eval_xor a b : length a = length b -> wf a -> wf b ->
  poly_eval (xorv a b) = N.lxor (poly_eval a) (poly_eval b).
Proof.
  revert b. induction a as [|x a IH]; intros [|y b] Hl Ha Hb; try discriminate; [reflexivity|].
  inversion Ha as [|? ? Hx Ha']; inversion Hb as [|? ? Hy Hb']; subst.
  cbn [xorv]. rewrite !eval_cons, IH by (try assumption; simpl in Hl; lia).
  rewrite mul2_xor by (apply eval_lt; assumption).
  generalize (mul2 (poly_eval a)), (mul2 (poly_eval b)). intros u v. xor_ring.
Qed.

Lemma eval_zeros n : poly_eval (repeat 0 n) = 0.
Proof. induction n as [|n IH]; [reflexivity|]. cbn [repeat]. rewrite eval_cons, IH. reflexivity. Qed.

Lemma eval_unit n i d : (i < n)%nat -> poly_eval (unitv n i d) = iterN i mul2 d.
Proof.
  revert i. induction n as [|n IH]; intros i Hi; [lia|].
  destruct i as [|i]; cbn [unitv].
  - rewrite eval_cons, eval_zeros. cbn. apply N.lxor_0_l.
  - rewrite eval_cons, IH by lia. cbn [iterN]. apply N.lxor_0_r.
Qed.

Lemma wf_unit n i d : d < 2048 -> wf (unitv n i d).
Proof.
  intros Hd. revert i. induction n as [|n IH]; intros i; [constructor|].
  destruct i; cbn [unitv]; constructor; try assumption; try reflexivity.
  - clear. induction n; constructor; [reflexivity|assumption].
  - apply IH.
Qed.

Lemma length_unit n i d : length (unitv n i d) = n.
Proof.
  revert i. induction n as [|n IH]; intros i; [reflexivity|].
  destruct i; cbn [unitv length]; [rewrite repeat_length|rewrite IH]; reflexivity.
Qed.

Lemma length_upd {A} (l : list A) i v : length (upd l i v) = length l.
Proof. revert i. induction l as [|h t IH]; intros [|i]; cbn; try rewrite IH; reflexivity. Qed.

Lemma wf_upd c i v : wf c -> v < 2048 -> wf (upd c i v).
Proof.
  intros Hc Hv. revert i. induction Hc as [|x c Hx Hc IH]; intros [|i]; cbn;
    constructor; try assumption; apply IH.
Qed.

Lemma wf_nth c i : wf c -> nth i c 0 < 2048.
Proof.
  intros Hc. revert i. induction Hc as [|x c Hx Hc IH]; intros [|i]; cbn; try reflexivity; auto.
Qed.

(* updating a coefficient = adding a one-coefficient polynomial *)
Lemma upd_as_xor c i v : (i < length c)%nat ->
  upd c i v = xorv c (unitv (length c) i (N.lxor (nth i c 0) v)).
Proof.
  revert i. induction c as [|x c IH]; intros i Hi; [cbn in Hi; lia|].
  destruct i as [|i]; cbn [upd unitv xorv length nth].
  - f_equal.
    + rewrite <- N.lxor_assoc, N.lxor_nilpotent, N.lxor_0_l. reflexivity.
    + clear. induction c as [|y c IH]; [reflexivity|]. cbn. rewrite N.lxor_0_r, <- IH. reflexivity.
  - rewrite N.lxor_0_r. f_equal. apply IH. cbn in Hi; lia.
Qed.

Lemma iter_mul2_lt i d : d < 2048 -> iterN i mul2 d < 2048.
Proof. intros Hd. induction i as [|i IH]; [exact Hd|]. cbn. apply mul2_lt, IH. Qed.

Lemma iter_mul2_0 i d : d < 2048 -> iterN i mul2 d = 0 -> d = 0.
Proof.
  intros Hd. induction i as [|i IH]; [auto|]. cbn. intros H.
  apply IH. apply mul2_inj; [apply iter_mul2_lt, Hd | reflexivity | rewrite H; reflexivity].
Qed.

Lemma iter_mul2_inj i a b : a < 2048 -> b < 2048 ->
  iterN i mul2 a = iterN i mul2 b -> a = b.
Proof.
  intros Ha Hb. induction i as [|i IH]; [auto|]. cbn. intros H.
  apply IH, mul2_inj; try apply iter_mul2_lt; assumption.
Qed.

Lemma lxor_eq_0 a b : N.lxor a b = 0 -> a = b.
Proof. apply N.lxor_eq. Qed.

(* C02, first half: a single wrong coefficient never evaluates to zero *)
Theorem subst_detected c i j :
  wf c -> poly_eval c = 0 -> (i < length c)%nat -> j < 2048 -> j <> nth i c 0 ->
  poly_eval (upd c i j) <> 0.
Proof.
  intros Hc He Hi Hj Hne.
  rewrite upd_as_xor by exact Hi.
  assert (Hd : N.lxor (nth i c 0) j < 2048) by (apply lxor_lt_2048; [apply wf_nth, Hc|exact Hj]).
  rewrite eval_xor by (try rewrite length_unit; try apply wf_unit; auto).
  rewrite He, N.lxor_0_l, eval_unit by exact Hi.
  intros Z. apply iter_mul2_0 in Z; [|exact Hd]. apply lxor_eq_0 in Z. congruence.
Qed.

(* the order of x exceeds 15: x^k * d <> d for 1 <= k <= 15, d <> 0 *)
Definition iter_ne_P (k : nat) (d : N) : bool := (d =? 0) || negb (iterN k mul2 d =? d).

Lemma iter_ne_sweep_ok :
  forallb (fun k => forallb (iter_ne_P k) (range 2048)) (seq 1 15) = true.
Proof. vm_compute. reflexivity. Qed.

Lemma mul2_iter_ne k d : (1 <= k <= 15)%nat -> d < 2048 -> d <> 0 -> iterN k mul2 d <> d.
Proof.
  intros Hk Hd Hnz.
  assert (H : iter_ne_P k d = true).
  { apply (sweep2 iter_ne_P (seq 1 15) 2048 iter_ne_sweep_ok); [apply in_seq; lia | exact Hd]. }
  unfold iter_ne_P in H. apply orb_true_iff in H. destruct H as [H|H].
  - apply N.eqb_eq in H. contradiction.
  - apply negb_true_iff, N.eqb_neq in H. exact H.
Qed.

Definition swapv (c : list N) (i k : nat) : list N :=
  upd (upd c i (nth k c 0)) k (nth i c 0).

Lemma nth_upd_other {A} (l : list A) i k v d : i <> k -> nth k (upd l i v) d = nth k l d.
Proof.
  revert i k. induction l as [|h t IH]; intros [|i] [|k] H; cbn; try reflexivity; try congruence.
  apply IH. congruence.
Qed.

(* C02, second half: exchanging two unequal coefficients never evaluates to zero *)
Theorem swap_detected c i k :
  wf c -> poly_eval c = 0 -> (i < k)%nat -> (k < length c)%nat -> (length c <= 16)%nat ->
  nth i c 0 <> nth k c 0 -> poly_eval (swapv c i k) <> 0.
Proof.
  intros Hc He Hik Hk Hlen Hne. unfold swapv.
  set (ci := nth i c 0) in *. set (ck := nth k c 0) in *.
  assert (Hci : ci < 2048) by apply wf_nth, Hc.
  assert (Hck : ck < 2048) by apply wf_nth, Hc.
  assert (Hd : N.lxor ci ck < 2048) by (apply lxor_lt_2048; assumption).
  rewrite upd_as_xor by (rewrite length_upd; exact Hk).
  rewrite nth_upd_other by lia. fold ck. rewrite length_upd.
  rewrite eval_xor; [| rewrite length_upd, length_unit; reflexivity | apply wf_upd; assumption
                     | apply wf_unit; rewrite N.lxor_comm; exact Hd].
  rewrite (upd_as_xor c i ck) by lia. fold ci.
  rewrite eval_xor by (try rewrite length_unit; try apply wf_unit; auto).
  rewrite He, N.lxor_0_l, !eval_unit by lia.
  rewrite (N.lxor_comm ck ci).
  set (d := N.lxor ci ck) in *.
  intros Z. apply lxor_eq_0 in Z.
  replace k with (i + (k - i))%nat in Z by lia.
  rewrite iter_add in Z.
  apply iter_mul2_inj in Z; [| exact Hd | apply iter_mul2_lt, Hd].
  symmetry in Z. revert Z. apply mul2_iter_ne; [lia | exact Hd |].
  intros Z. apply lxor_eq_0 in Z. contradiction.
Qed.

(* exactly one check word validates 15 data words *)
Theorem unique_check_word (ws : list N) : wf ws ->
  forall c0 : N, c0 < 2048 -> (poly_eval (c0 :: ws) = 0 <-> c0 = poly_eval (0 :: ws)).
Proof.
  intros Hw c0 Hc0. rewrite !eval_cons, N.lxor_0_r. split.
  - intros H. apply lxor_eq_0 in H. symmetry. exact H.
  - intros ->. apply N.lxor_nilpotent.
Qed.

Lemma encode_checks (ws : list N) : poly_eval (poly_eval (0 :: ws) :: ws) = 0.
Proof. rewrite !eval_cons, N.lxor_0_r. apply N.lxor_nilpotent. Qed.

(* ---- the mirror evaluation is the textbook one: sum c_i * x^i in GF(2)[x]/(x^11+x^2+1) *)
Definition gf_mul_P (i : nat) (c : N) : bool := gf_mul c (gf_pow_x i) =? iterN i mul2 c.

Lemma gf_mul_sweep_ok :
  forallb (fun i => forallb (gf_mul_P i) (range 2048)) (seq 0 16) = true.
Proof. vm_compute. reflexivity. Qed.

Lemma gf_mul_pow i c : (i < 16)%nat -> c < 2048 -> gf_mul c (gf_pow_x i) = iterN i mul2 c.
Proof.
  intros Hi Hc. apply N.eqb_eq.
  apply (sweep2 gf_mul_P (seq 0 16) 2048 gf_mul_sweep_ok); [apply in_seq; lia | exact Hc].
Qed.

Lemma iter_mul2_xor i a b : a < 2048 -> b < 2048 ->
  iterN i mul2 (N.lxor a b) = N.lxor (iterN i mul2 a) (iterN i mul2 b).
Proof.
  intros Ha Hb. induction i as [|i IH]; [reflexivity|]. cbn. rewrite IH.
  apply mul2_xor; apply iter_mul2_lt; assumption.
Qed.

Lemma spec_eval_from_horner i c : wf c -> (i + length c <= 16)%nat ->
  spec_eval_from i c = iterN i mul2 (poly_eval c).
Proof.
  intros Hc. revert i. induction Hc as [|x c Hx Hc IH]; intros i Hi.
  - cbn. clear. induction i as [|i IH]; [reflexivity|]. cbn. rewrite <- IH. reflexivity.
  - cbn [spec_eval_from]. cbn [length] in Hi. rewrite IH by lia.
    rewrite gf_mul_pow by (try lia; exact Hx).
    rewrite eval_cons, iter_mul2_xor by (try apply mul2_lt, eval_lt; assumption).
    rewrite N.lxor_comm. f_equal.
    clear. induction i as [|i IH]; [reflexivity|]. cbn [iterN]. rewrite <- IH. reflexivity.
Qed.

Theorem eval_is_spec c : wf c -> (length c <= 16)%nat -> poly_eval c = spec_eval c.
Proof. intros Hc Hl. unfold spec_eval. rewrite spec_eval_from_horner by (auto; lia). reflexivity. Qed.
