(* lang.c comparers = lexicographic order on accent-stripped, possibly
   truncated strings; that order is total and transitive for either signedness
   of char; truncation is monotone; hence the comparers are monotone cuts of a
   sorted list and the binary search finds exactly the accepted word. *)
From PS Require Import Base LangDefs SpecDefs SearchProofs.
Local Open Scope Z_scope.

(* ------------------------------------------------------------ char values *)
Lemma bval_inj x y : bval x = bval y -> x = y.
Proof.
  unfold bval. intros H.
  assert (E : Some x = Some y) by (rewrite <- (Byte.of_to_N x), <- (Byte.of_to_N y), H; reflexivity).
  inversion E; reflexivity.
Qed.

Lemma bval_bound x : (bval x <= 255)%N.
Proof. apply Byte.to_N_bounded. Qed.

Lemma ord_inj sgn x y : ord sgn x = ord sgn y -> x = y.
Proof.
  unfold ord. intros H. apply bval_inj.
  pose proof (bval_bound x). pose proof (bval_bound y).
  destruct sgn; cbn [andb] in H;
    destruct (128 <=? Z.of_N (bval x)) eqn:E1; destruct (128 <=? Z.of_N (bval y)) eqn:E2; lia.
Qed.

Lemma ord_nul sgn : ord sgn x00 = 0.
Proof. destruct sgn; reflexivity. Qed.

Lemma ord_zero sgn x : ord sgn x = 0 -> x = x00.
Proof. intros H. apply (ord_inj sgn). rewrite ord_nul. exact H. Qed.

Lemma eqb_true x y : Byte.eqb x y = true -> x = y.
Proof. apply Byte.byte_dec_bl. Qed.
Lemma eqb_refl x : Byte.eqb x x = true.
Proof. apply Byte.byte_dec_lb. reflexivity. Qed.
Lemma eqb_false_ord sgn x y : Byte.eqb x y = false -> ord sgn x <> ord sgn y.
Proof. intros H E. apply ord_inj in E. subst. rewrite eqb_refl in H. discriminate. Qed.
Lemma eqb_sym x y : Byte.eqb x y = Byte.eqb y x.
Proof.
  destruct (Byte.eqb x y) eqn:E.
  - apply eqb_true in E. subst. symmetry. apply eqb_refl.
  - destruct (Byte.eqb y x) eqn:E2; [|reflexivity]. apply eqb_true in E2. subst.
    rewrite eqb_refl in E. discriminate.
Qed.

Lemma sign3_cases a b :
  (a < b /\ sign3 a b = -1) \/ (a = b /\ sign3 a b = 0) \/ (b < a /\ sign3 a b = 1).
Proof. unfold sign3. destruct (b <? a) eqn:E1; destruct (a <? b) eqn:E2; lia. Qed.

Ltac s3 :=
  repeat match goal with
         | H : context [sign3 ?a ?b] |- _ =>
           let c := fresh "C" in
           pose proof (sign3_cases a b) as c; generalize dependent (sign3 a b); intros
         | |- context [sign3 ?a ?b] =>
           let c := fresh "C" in
           pose proof (sign3_cases a b) as c; generalize dependent (sign3 a b); intros
         end.

Lemma no_nul_cons x s : no_nul (x :: s) -> x <> x00 /\ no_nul s.
Proof. unfold no_nul. cbn. intros H. split; intro; apply H; auto. Qed.

Lemma no_nul_nil : no_nul [].
Proof. intros []. Qed.

Lemma in_firstn {A} n (x : A) s : In x (firstn n s) -> In x s.
Proof.
  intros H. rewrite <- (firstn_skipn n s). apply in_or_app. left. exact H.
Qed.

Lemma no_nul_firstn n s : no_nul s -> no_nul (firstn n s).
Proof. unfold no_nul. intros H I. apply H. eapply in_firstn. exact I. Qed.

Lemma no_nul_filter p s : no_nul s -> no_nul (filter p s).
Proof. unfold no_nul. intros H I. apply H. apply filter_In in I. tauto. Qed.

Lemma ord_nz sgn x : x <> x00 -> ord sgn x <> 0.
Proof. intros H E. apply H, (ord_zero sgn), E. Qed.

(* ------------------------------------------------- the order: compare_str *)
Section Order.
  Variable sgn : bool.
  Notation cs := (compare_str sgn).

  Lemma cs_nil_l e : cs [] e = sign3 0 (ordc sgn e).
  Proof. reflexivity. Qed.

  Lemma ordc_nil : ordc sgn [] = 0.
  Proof. unfold ordc, cur. cbn. apply ord_nul. Qed.

  Lemma cs_refl a : cs a a = 0.
  Proof. induction a as [|x a IH]; cbn; [rewrite ordc_nil; reflexivity|]. rewrite eqb_refl. exact IH. Qed.

  Lemma cs_eq0 a b : no_nul a -> no_nul b -> cs a b = 0 -> a = b.
  Proof.
    revert b. induction a as [|x a IH]; intros [|y b] Ha Hb H; cbn in H.
    - reflexivity.
    - apply no_nul_cons in Hb. destruct Hb as [Hy _]. apply (ord_nz sgn) in Hy.
      unfold ordc, cur in H. cbn in H. s3. lia.
    - apply no_nul_cons in Ha. destruct Ha as [Hx _]. apply (ord_nz sgn) in Hx. s3. lia.
    - apply no_nul_cons in Ha. apply no_nul_cons in Hb. destruct Ha as [_ Ha], Hb as [_ Hb].
      destruct (Byte.eqb x y) eqn:E.
      + apply eqb_true in E. subst. f_equal. apply IH; assumption.
      + apply (eqb_false_ord sgn) in E. s3. lia.
  Qed.

  Lemma cs_anti a b : cs b a = - cs a b.
  Proof.
    revert b. induction a as [|x a IH]; intros [|y b]; cbn.
    - rewrite ordc_nil. reflexivity.
    - unfold ordc, cur. cbn. s3. lia.
    - unfold ordc, cur. cbn. s3. lia.
    - rewrite (eqb_sym y x). destruct (Byte.eqb x y); [apply IH|]. s3. lia.
  Qed.

  (* transitivity, weak and strict at once *)
  Lemma cs_trans a b c : no_nul a -> no_nul b -> no_nul c ->
    cs a b <= 0 -> cs b c <= 0 ->
    cs a c <= 0 /\ (cs a b < 0 \/ cs b c < 0 -> cs a c < 0).
  Proof.
    revert b c. induction a as [|x a IH]; intros [|y b] [|z c] Ha Hb Hc H1 H2;
      try (apply no_nul_cons in Ha; destruct Ha as [Hx Ha]; apply (ord_nz sgn) in Hx);
      try (apply no_nul_cons in Hb; destruct Hb as [Hy Hb]; apply (ord_nz sgn) in Hy);
      try (apply no_nul_cons in Hc; destruct Hc as [Hz Hc]; apply (ord_nz sgn) in Hz);
      cbn in *; unfold ordc, cur in *; cbn in *; rewrite ?ord_nul in *.
    - lia.
    - s3. lia.
    - s3. lia.
    - destruct (Byte.eqb y z) eqn:E.
      + apply eqb_true in E. subst z. s3. lia.
      + apply (eqb_false_ord sgn) in E. s3. lia.
    - s3. lia.
    - destruct (Byte.eqb x z) eqn:E.
      + apply eqb_true in E. subst z. s3. lia.
      + apply (eqb_false_ord sgn) in E. s3. lia.
    - destruct (Byte.eqb x y) eqn:E.
      + apply eqb_true in E. subst y. s3. lia.
      + apply (eqb_false_ord sgn) in E. s3. lia.
    - destruct (Byte.eqb x y) eqn:E1; destruct (Byte.eqb y z) eqn:E2.
      + apply eqb_true in E1, E2. subst. rewrite eqb_refl. apply IH; assumption.
      + apply eqb_true in E1. subst y. rewrite E2. apply (eqb_false_ord sgn) in E2. s3. lia.
      + apply eqb_true in E2. subst z. rewrite E1. apply (eqb_false_ord sgn) in E1. s3. lia.
      + apply (eqb_false_ord sgn) in E1, E2.
        destruct (Byte.eqb x z) eqn:E3.
        * apply eqb_true in E3. subst z. s3. lia.
        * apply (eqb_false_ord sgn) in E3. s3. lia.
  Qed.

  (* truncation is monotone *)
  Lemma cs_firstn n a b : cs a b <= 0 -> cs (firstn n a) (firstn n b) <= 0.
  Proof.
    revert a b. induction n as [|n IH]; intros a b H; [cbn; rewrite ordc_nil; cbn; lia|].
    destruct a as [|x a], b as [|y b]; cbn [firstn]; cbn in *; try exact H.
    destruct (Byte.eqb x y); [apply IH; exact H | exact H].
  Qed.

  (* ---- strictly increasing lists ---- *)
  Fixpoint sorted_b (l : list bytes) : bool :=
    match l with
    | a :: ((b :: _) as t) => (cs a b <? 0) && sorted_b t
    | _ => true
    end.

  Lemma sorted_nth l : sorted_b l = true -> Forall no_nul l ->
    forall i j, (i < j)%nat -> (j < length l)%nat -> cs (nth i l []) (nth j l []) < 0.
  Proof.
    induction l as [|a l IH]; intros Hs Hn i j Hij Hj; [cbn in Hj; lia|].
    inversion Hn as [|? ? Ha Hl]; subst.
    assert (Hs' : sorted_b l = true).
    { destruct l as [|b l']; [reflexivity|]. cbn [sorted_b] in Hs. apply andb_true_iff in Hs. tauto. }
    (* a is below every later element *)
    assert (Hall : forall k, (k < length l)%nat -> cs a (nth k l []) < 0).
    { intros k. induction k as [|k IHk]; intros Hk.
      - destruct l as [|b l']; [cbn in Hk; lia|]. cbn [sorted_b] in Hs.
        apply andb_true_iff in Hs. destruct Hs as [Hs _]. apply Z.ltb_lt in Hs. exact Hs.
      - assert (Hk' : (k < length l)%nat) by lia. specialize (IHk Hk').
        pose proof (IH Hs' Hl k (S k) ltac:(lia) Hk) as Hstep.
        assert (Nk : no_nul (nth k l [])) by (apply Forall_nth; [exact Hl | lia]).
        assert (Nk1 : no_nul (nth (S k) l [])) by (apply Forall_nth; [exact Hl | lia]).
        apply (cs_trans a (nth k l []) (nth (S k) l [])); try assumption; lia. }
    destruct i as [|i]; destruct j as [|j]; try lia; cbn [nth].
    - apply Hall. cbn in Hj. lia.
    - apply IH; try assumption; cbn in Hj; lia.
  Qed.
End Order.

(* -------------------------------------------- comparers as specifications *)
Definition strip_na (s : bytes) : bytes := filter (fun b => negb (is_nonascii b)) s.

Lemma skip_strip s :
  match skip_na s with
  | [] => strip_na s = []
  | e :: r => is_nonascii e = false /\ strip_na s = e :: strip_na r
  end.
Proof.
  induction s as [|c s IH]; [reflexivity|].
  cbn [skip_na]. destruct (is_nonascii c) eqn:E.
  - unfold strip_na in *. cbn [filter]. rewrite E. cbn [negb]. exact IH.
  - split; [exact E|]. unfold strip_na. cbn [filter]. rewrite E. reflexivity.
Qed.

Lemma cur_skip_strip sgn s : ordc sgn (skip_na s) = ordc sgn (strip_na s).
Proof.
  pose proof (skip_strip s) as H. destruct (skip_na s) as [|e r].
  - rewrite H. reflexivity.
  - destruct H as [_ H]. rewrite H. reflexivity.
Qed.

Lemma nil_skip_strip s : is_nil (skip_na s) = is_nil (strip_na s).
Proof.
  pose proof (skip_strip s) as H. destruct (skip_na s) as [|e r].
  - rewrite H. reflexivity.
  - destruct H as [_ H]. rewrite H. reflexivity.
Qed.

Section Comparers.
  Variable sgn : bool.
  Notation cs := (compare_str sgn).

  Lemma str_noaccent_spec key elm :
    compare_str_noaccent sgn key elm = cs (strip_na key) (strip_na elm).
  Proof.
    revert elm. induction key as [|k key IH]; intros elm.
    - cbn. apply f_equal, cur_skip_strip.
    - cbn [compare_str_noaccent]. unfold strip_na at 1. cbn [filter].
      destruct (is_nonascii k) eqn:E; cbn [negb]; [apply IH|].
      pose proof (skip_strip elm) as H. destruct (skip_na elm) as [|e r].
      + rewrite H. reflexivity.
      + destruct H as [_ H]. rewrite H. cbn [compare_str].
        destruct (Byte.eqb k e); [apply IH | reflexivity].
  Qed.

  Lemma prefix_noaccent_spec key elm i n :
    compare_prefix_noaccent sgn key elm i n = compare_prefix sgn (strip_na key) (strip_na elm) i n.
  Proof.
    revert elm i. induction key as [|k key IH]; intros elm i.
    - cbn. apply f_equal, cur_skip_strip.
    - cbn [compare_prefix_noaccent]. unfold strip_na at 1. cbn [filter].
      destruct (is_nonascii k) eqn:E; cbn [negb]; [apply IH|].
      cbn [compare_prefix]. fold (strip_na key). rewrite nil_skip_strip.
      destruct ((n <=? i)%N && is_nil (strip_na key)).
      + apply f_equal, cur_skip_strip.
      + pose proof (skip_strip elm) as H. destruct (skip_na elm) as [|e r].
        * rewrite H. reflexivity.
        * destruct H as [_ H]. rewrite H.
          destruct (Byte.eqb k e); [apply IH | reflexivity].
  Qed.

  (* compare_prefix: whole-string order, or order against the truncated element
     when the key is long enough *)
  Lemma ordc_cons e r : ordc sgn (e :: r) = ord sgn e.
  Proof. reflexivity. Qed.

  Lemma sign3_refl a : sign3 a a = 0.
  Proof. unfold sign3. rewrite Z.ltb_irrefl. reflexivity. Qed.

  Lemma prefix_spec key elm i n :
    compare_prefix sgn key elm i n =
    if (n <=? i + N.of_nat (length key) - 1)%N && negb (is_nil key)
    then cs key (firstn (length key) elm) else cs key elm.
  Proof.
    revert elm i. induction key as [|k key IH]; intros elm i.
    - cbn [compare_prefix is_nil negb]. rewrite andb_false_r. reflexivity.
    - cbn [compare_prefix is_nil negb length]. rewrite andb_true_r.
      destruct key as [|k2 key].
      + cbn [is_nil length]. rewrite andb_true_r.
        replace (i + N.of_nat 1 - 1)%N with i by lia.
        destruct (n <=? i)%N.
        * destruct elm as [|e elm]; cbn [firstn compare_str].
          -- rewrite (ordc_nil sgn). reflexivity.
          -- rewrite ordc_cons. destruct (Byte.eqb k e) eqn:E; [|reflexivity].
             apply eqb_true in E. subst. rewrite (ordc_nil sgn), !sign3_refl. reflexivity.
        * destruct elm as [|e elm]; cbn [compare_str compare_prefix]; [reflexivity|].
          destruct (Byte.eqb k e); reflexivity.
      + cbn [is_nil]. rewrite andb_false_r.
        destruct elm as [|e elm].
        * cbn [firstn compare_str]. destruct (_ <=? _)%N; reflexivity.
        * rewrite IH. cbn [is_nil negb]. rewrite andb_true_r.
          replace (i + 1 + N.of_nat (length (k2 :: key)) - 1)%N
            with (i + N.of_nat (S (length (k2 :: key))) - 1)%N by lia.
          destruct (n <=? i + N.of_nat (S (length (k2 :: key))) - 1)%N.
          -- cbn [firstn compare_str]. destruct (Byte.eqb k e); reflexivity.
          -- cbn [compare_str]. destruct (Byte.eqb k e); reflexivity.
  Qed.
End Comparers.
