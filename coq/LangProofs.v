(* lang.c comparers = lexicographic order on accent-stripped, possibly
   truncated strings; that order is total and transitive for either signedness
   of char; truncation is monotone; hence the comparers are monotone cuts of a
   sorted list and the binary search finds exactly the accepted word. *)
From PS Require Import Base LangDefs SpecDefs SearchProofs.
Local Open Scope Z_scope.

(* ------------------------------------------------------------ char values *)
Lemma bval_inj x y : bval x = bval y -> x = y.
Proof.
  unfold bval. intros H.
  assert (E : Some x = Some y) by (rewrite <- (Byte.of_to_N x), <- (Byte.of_to_N y), H; reflexivity).
  inversion E; reflexivity.
Qed.

Lemma bval_bound x : (bval x <= 255)%N.
Proof. apply Byte.to_N_bounded. Qed.

Lemma ord_inj sgn x y : ord sgn x = ord sgn y -> x = y.
Proof.
  unfold ord. intros H. apply bval_inj.
  pose proof (bval_bound x). pose proof (bval_bound y).
  destruct sgn; cbn [andb] in H;
    destruct (128 <=? Z.of_N (bval x)) eqn:E1; destruct (128 <=? Z.of_N (bval y)) eqn:E2; lia.
Qed.

Lemma ord_nul sgn : ord sgn x00 = 0.
Proof. destruct sgn; reflexivity. Qed.

Lemma ord_zero sgn x : ord sgn x = 0 -> x = x00.
Proof. intros H. apply (ord_inj sgn). rewrite ord_nul. exact H. Qed.

Lemma eqb_true x y : Byte.eqb x y = true -> x = y.
Proof. apply Byte.byte_dec_bl. Qed.
Lemma eqb_refl x : Byte.eqb x x = true.
Proof. apply Byte.byte_dec_lb. reflexivity. Qed.
Lemma eqb_false_ord sgn x y : Byte.eqb x y = false -> ord sgn x <> ord sgn y.
Proof. intros H E. apply ord_inj in E. subst. rewrite eqb_refl in H. discriminate. Qed.
Lemma eqb_sym x y : Byte.eqb x y = Byte.eqb y x.
Proof.
  destruct (Byte.eqb x y) eqn:E.
  - apply eqb_true in E. subst. symmetry. apply eqb_refl.
  - destruct (Byte.eqb y x) eqn:E2; [|reflexivity]. apply eqb_true in E2. subst.
    rewrite eqb_refl in E. discriminate.
Qed.

Lemma sign3_cases a b :
  (a < b /\ sign3 a b = -1) \/ (a = b /\ sign3 a b = 0) \/ (b < a /\ sign3 a b = 1).
Proof. unfold sign3. destruct (b <? a) eqn:E1; destruct (a <? b) eqn:E2; lia. Qed.

Ltac s3 :=
  repeat match goal with
         | H : context [sign3 ?a ?b] |- _ =>
           let c := fresh "C" in
           pose proof (sign3_cases a b) as c; generalize dependent (sign3 a b); intros
         | |- context [sign3 ?a ?b] =>
           let c := fresh "C" in
           pose proof (sign3_cases a b) as c; generalize dependent (sign3 a b); intros
         end.

Lemma no_nul_cons x s : no_nul (x :: s) -> x <> x00 /\ no_nul s.
Proof. unfold no_nul. cbn. intros H. split; intro; apply H; auto. Qed.

Lemma no_nul_nil : no_nul [].
Proof. intros []. Qed.

Lemma in_firstn {A} n (x : A) s : In x (firstn n s) -> In x s.
Proof.
  intros H. rewrite <- (firstn_skipn n s). apply in_or_app. left. exact H.
Qed.

Lemma no_nul_firstn n s : no_nul s -> no_nul (firstn n s).
Proof. unfold no_nul. intros H I. apply H. eapply in_firstn. exact I. Qed.

Lemma no_nul_filter p s : no_nul s -> no_nul (filter p s).
Proof. unfold no_nul. intros H I. apply H. apply filter_In in I. tauto. Qed.

Lemma ord_nz sgn x : x <> x00 -> ord sgn x <> 0.
Proof. intros H E. apply H, (ord_zero sgn), E. Qed.

(* ------------------------------------------------- the order: compare_str *)
Section Order.
  Variable sgn : bool.
  Notation cs := (compare_str sgn).

  Lemma cs_nil_l e : cs [] e = sign3 0 (ordc sgn e).
  Proof. reflexivity. Qed.

  Lemma ordc_nil : ordc sgn [] = 0.
  Proof. unfold ordc, cur. cbn. apply ord_nul. Qed.

  Lemma cs_refl a : cs a a = 0.
  Proof. induction a as [|x a IH]; cbn; [rewrite ordc_nil; reflexivity|]. rewrite eqb_refl. exact IH. Qed.

  Lemma cs_eq0 a b : no_nul a -> no_nul b -> cs a b = 0 -> a = b.
  Proof.
    revert b. induction a as [|x a IH]; intros [|y b] Ha Hb H; cbn in H.
    - reflexivity.
    - apply no_nul_cons in Hb. destruct Hb as [Hy _]. apply (ord_nz sgn) in Hy.
      unfold ordc, cur in H. cbn in H. s3. lia.
    - apply no_nul_cons in Ha. destruct Ha as [Hx _]. apply (ord_nz sgn) in Hx. s3. lia.
    - apply no_nul_cons in Ha. apply no_nul_cons in Hb. destruct Ha as [_ Ha], Hb as [_ Hb].
      destruct (Byte.eqb x y) eqn:E.
      + apply eqb_true in E. subst. f_equal. apply IH; assumption.
      + apply (eqb_false_ord sgn) in E. s3. lia.
  Qed.

  Lemma cs_anti a b : cs b a = - cs a b.
  Proof.
    revert b. induction a as [|x a IH]; intros [|y b]; cbn.
    - rewrite ordc_nil. reflexivity.
    - unfold ordc, cur. cbn. s3. lia.
    - unfold ordc, cur. cbn. s3. lia.
    - rewrite (eqb_sym y x). destruct (Byte.eqb x y); [apply IH|]. s3. lia.
  Qed.

  (* transitivity, weak and strict at once *)
  Lemma cs_trans a b c : no_nul a -> no_nul b -> no_nul c ->
    cs a b <= 0 -> cs b c <= 0 ->
    cs a c <= 0 /\ (cs a b < 0 \/ cs b c < 0 -> cs a c < 0).
  Proof.
    revert b c. induction a as [|x a IH]; intros [|y b] [|z c] Ha Hb Hc H1 H2;
      try (apply no_nul_cons in Ha; destruct Ha as [Hx Ha]; apply (ord_nz sgn) in Hx);
      try (apply no_nul_cons in Hb; destruct Hb as [Hy Hb]; apply (ord_nz sgn) in Hy);
      try (apply no_nul_cons in Hc; destruct Hc as [Hz Hc]; apply (ord_nz sgn) in Hz);
      cbn in *; unfold ordc, cur in *; cbn in *; rewrite ?ord_nul in *.
    - lia.
    - s3. lia.
    - s3. lia.
    - destruct (Byte.eqb y z) eqn:E.
      + apply eqb_true in E. subst z. s3. lia.
      + apply (eqb_false_ord sgn) in E. s3. lia.
    - s3. lia.
    - destruct (Byte.eqb x z) eqn:E.
      + apply eqb_true in E. subst z. s3. lia.
      + apply (eqb_false_ord sgn) in E. s3. lia.
    - destruct (Byte.eqb x y) eqn:E.
      + apply eqb_true in E. subst y. s3. lia.
      + apply (eqb_false_ord sgn) in E. s3. lia.
    - destruct (Byte.eqb x y) eqn:E1; destruct (Byte.eqb y z) eqn:E2.
      + apply eqb_true in E1, E2. subst. rewrite eqb_refl. apply IH; assumption.
      + apply eqb_true in E1. subst y. rewrite E2. apply (eqb_false_ord sgn) in E2. s3. lia.
      + apply eqb_true in E2. subst z. rewrite E1. apply (eqb_false_ord sgn) in E1. s3. lia.
      + apply (eqb_false_ord sgn) in E1, E2.
        destruct (Byte.eqb x z) eqn:E3.
        * apply eqb_true in E3. subst z. s3. lia.
        * apply (eqb_false_ord sgn) in E3. s3. lia.
  Qed.

  (* truncation is monotone *)
  Lemma cs_firstn n a b : cs a b <= 0 -> cs (firstn n a) (firstn n b) <= 0.
  Proof.
    revert a b. induction n as [|n IH]; intros a b H; [cbn; rewrite ordc_nil; cbn; lia|].
    destruct a as [|x a], b as [|y b]; cbn [firstn]; cbn in *; try exact H.
    destruct (Byte.eqb x y); [apply IH; exact H | exact H].
  Qed.

  (* ---- strictly increasing lists ---- *)
  Fixpoint sorted_b (l : list bytes) : bool :=
    match l with
    | a :: ((b :: _) as t) => (cs a b <? 0) && sorted_b t
    | _ => true
    end.

  Lemma sorted_nth l : sorted_b l = true -> Forall no_nul l ->
    forall i j, (i < j)%nat -> (j < length l)%nat -> cs (nth i l []) (nth j l []) < 0.
  Proof.
    induction l as [|a l IH]; intros Hs Hn i j Hij Hj; [cbn in Hj; lia|].
    inversion Hn as [|? ? Ha Hl]; subst.
    assert (Hs' : sorted_b l = true).
    { destruct l as [|b l']; [reflexivity|]. cbn [sorted_b] in Hs. apply andb_true_iff in Hs. tauto. }
    (* a is below every later element *)
    assert (Hall : forall k, (k < length l)%nat -> cs a (nth k l []) < 0).
    { intros k. induction k as [|k IHk]; intros Hk.
      - destruct l as [|b l']; [cbn in Hk; lia|]. cbn [sorted_b] in Hs.
        apply andb_true_iff in Hs. destruct Hs as [Hs _]. apply Z.ltb_lt in Hs. exact Hs.
      - assert (Hk' : (k < length l)%nat) by lia. specialize (IHk Hk').
        pose proof (IH Hs' Hl k (S k) ltac:(lia) Hk) as Hstep.
        assert (Nk : no_nul (nth k l [])) by (apply Forall_nth; [exact Hl | lia]).
        assert (Nk1 : no_nul (nth (S k) l [])) by (apply Forall_nth; [exact Hl | lia]).
        apply (cs_trans a (nth k l []) (nth (S k) l [])); try assumption; lia. }
    destruct i as [|i]; destruct j as [|j]; try lia; cbn [nth].
    - apply Hall. cbn in Hj. lia.
    - apply IH; try assumption; cbn in Hj; lia.
  Qed.
End Order.

(* -------------------------------------------- comparers as specifications *)
Definition strip_na (s : bytes) : bytes := filter (fun b => negb (is_nonascii b)) s.

Lemma skip_strip s :
  match skip_na s with
  | [] => strip_na s = []
  | e :: r => is_nonascii e = false /\ strip_na s = e :: strip_na r
  end.
Proof.
  induction s as [|c s IH]; [reflexivity|].
  cbn [skip_na]. destruct (is_nonascii c) eqn:E.
  - unfold strip_na in *. cbn [filter]. rewrite E. cbn [negb]. exact IH.
  - split; [exact E|]. unfold strip_na. cbn [filter]. rewrite E. reflexivity.
Qed.

Lemma cur_skip_strip sgn s : ordc sgn (skip_na s) = ordc sgn (strip_na s).
Proof.
  pose proof (skip_strip s) as H. destruct (skip_na s) as [|e r].
  - rewrite H. reflexivity.
  - destruct H as [_ H]. rewrite H. reflexivity.
Qed.

Lemma nil_skip_strip s : is_nil (skip_na s) = is_nil (strip_na s).
Proof.
  pose proof (skip_strip s) as H. destruct (skip_na s) as [|e r].
  - rewrite H. reflexivity.
  - destruct H as [_ H]. rewrite H. reflexivity.
Qed.

Section Comparers.
  Variable sgn : bool.
  Notation cs := (compare_str sgn).

  Lemma str_noaccent_spec key elm :
    compare_str_noaccent sgn key elm = cs (strip_na key) (strip_na elm).
  Proof.
    revert elm. induction key as [|k key IH]; intros elm.
    - cbn. apply f_equal, cur_skip_strip.
    - cbn [compare_str_noaccent]. unfold strip_na at 1. cbn [filter].
      destruct (is_nonascii k) eqn:E; cbn [negb]; [apply IH|].
      pose proof (skip_strip elm) as H. destruct (skip_na elm) as [|e r].
      + rewrite H. reflexivity.
      + destruct H as [_ H]. rewrite H. cbn [compare_str].
        destruct (Byte.eqb k e); [apply IH | reflexivity].
  Qed.

  Lemma prefix_noaccent_spec key elm i n :
    compare_prefix_noaccent sgn key elm i n = compare_prefix sgn (strip_na key) (strip_na elm) i n.
  Proof.
    revert elm i. induction key as [|k key IH]; intros elm i.
    - cbn. apply f_equal, cur_skip_strip.
    - cbn [compare_prefix_noaccent]. unfold strip_na at 1. cbn [filter].
      destruct (is_nonascii k) eqn:E; cbn [negb]; [apply IH|].
      cbn [compare_prefix]. fold (strip_na key). rewrite nil_skip_strip.
      destruct ((n <=? i)%N && is_nil (strip_na key)).
      + apply f_equal, cur_skip_strip.
      + pose proof (skip_strip elm) as H. destruct (skip_na elm) as [|e r].
        * rewrite H. reflexivity.
        * destruct H as [_ H]. rewrite H.
          destruct (Byte.eqb k e); [apply IH | reflexivity].
  Qed.

  (* compare_prefix: whole-string order, or order against the truncated element
     when the key is long enough *)
  Lemma ordc_cons e r : ordc sgn (e :: r) = ord sgn e.
  Proof. reflexivity. Qed.

  Lemma sign3_refl a : sign3 a a = 0.
  Proof. unfold sign3. rewrite Z.ltb_irrefl. reflexivity. Qed.

  Lemma prefix_spec key elm i n :
    compare_prefix sgn key elm i n =
    if (n <=? i + N.of_nat (length key) - 1)%N && negb (is_nil key)
    then cs key (firstn (length key) elm) else cs key elm.
  Proof.
    revert elm i. induction key as [|k key IH]; intros elm i.
    - cbn [compare_prefix is_nil negb]. rewrite andb_false_r. reflexivity.
    - cbn [compare_prefix is_nil negb length]. rewrite andb_true_r.
      destruct key as [|k2 key].
      + cbn [is_nil length]. rewrite andb_true_r.
        replace (i + N.of_nat 1 - 1)%N with i by lia.
        destruct (n <=? i)%N.
        * destruct elm as [|e elm]; cbn [firstn compare_str].
          -- rewrite (ordc_nil sgn). reflexivity.
          -- rewrite ordc_cons. destruct (Byte.eqb k e) eqn:E; [|reflexivity].
             apply eqb_true in E. subst. rewrite (ordc_nil sgn), !sign3_refl. reflexivity.
        * destruct elm as [|e elm]; cbn [compare_str compare_prefix]; [reflexivity|].
          destruct (Byte.eqb k e); reflexivity.
      + cbn [is_nil]. rewrite andb_false_r.
        destruct elm as [|e elm].
        * cbn [firstn compare_str]. destruct (_ <=? _)%N; reflexivity.
        * rewrite IH. cbn [is_nil negb]. rewrite andb_true_r.
          replace (i + 1 + N.of_nat (length (k2 :: key)) - 1)%N
            with (i + N.of_nat (S (length (k2 :: key))) - 1)%N by lia.
          destruct (n <=? i + N.of_nat (S (length (k2 :: key))) - 1)%N.
          -- cbn [firstn compare_str]. destruct (Byte.eqb k e); reflexivity.
          -- cbn [compare_str]. destruct (Byte.eqb k e); reflexivity.
  Qed.
End Comparers.

(* ------------------------------------------------ search = the token rule *)
Lemma bytes_eqb_eq a b : bytes_eqb a b = true <-> a = b.
Proof.
  revert b. induction a as [|x a IH]; intros [|y b]; cbn; split; intros H; try discriminate; try reflexivity.
  - apply andb_true_iff in H. destruct H as [H1 H2]. apply eqb_true in H1. apply IH in H2. congruence.
  - inversion H; subst. rewrite eqb_refl. cbn. apply IH. reflexivity.
Qed.

Lemma is_prefix_firstn k e : is_prefix k e = true <-> k = firstn (length k) e.
Proof.
  revert e. induction k as [|x k IH]; intros e; cbn [is_prefix length firstn].
  - split; reflexivity.
  - destruct e as [|y e]; cbn [firstn].
    + split; discriminate.
    + split; intros H.
      * apply andb_true_iff in H. destruct H as [H1 H2]. apply eqb_true in H1. apply IH in H2. congruence.
      * injection H as H1 H2. rewrite H1, eqb_refl. cbn [andb]. apply IH. exact H2.
Qed.

Lemma strip_is_strip_na L s : strip L s = if l_has_accents L then strip_na s else s.
Proof. reflexivity. Qed.

Lemma no_nul_strip L s : no_nul s -> no_nul (strip L s).
Proof. intros H. unfold strip. destruct (l_has_accents L); [apply no_nul_filter|]; exact H. Qed.

Lemma strip_nil L : strip L [] = [].
Proof. unfold strip. destruct (l_has_accents L); reflexivity. Qed.

Section SearchSpec.
  Variable sgn : bool.
  Notation cs := (compare_str sgn).

  Definition cmp_spec (L : lang) (k e : bytes) : Z :=
    if l_has_prefix L && (4 <=? length k)%nat then cs k (firstn (length k) e) else cs k e.

  Lemma prefix_cond (k : bytes) :
    ((NUM_CHARS_PREFIX <=? 1 + N.of_nat (length k) - 1)%N && negb (is_nil k)) = (4 <=? length k)%nat.
  Proof.
    unfold NUM_CHARS_PREFIX. destruct k as [|x k]; [reflexivity|]. cbn [is_nil negb]. rewrite andb_true_r.
    destruct (4 <=? length (x :: k))%nat eqn:E.
    - apply Nat.leb_le in E. apply N.leb_le. lia.
    - apply Nat.leb_gt in E. apply N.leb_gt. lia.
  Qed.

  Lemma comparer_spec L key elm :
    comparer sgn L key elm = cmp_spec L (strip L key) (strip L elm).
  Proof.
    unfold comparer, cmp_spec, strip. fold (strip_na key). fold (strip_na elm).
    destruct (l_has_prefix L), (l_has_accents L); cbn [andb].
    - rewrite prefix_noaccent_spec, prefix_spec, prefix_cond. reflexivity.
    - rewrite prefix_spec, prefix_cond. reflexivity.
    - apply str_noaccent_spec.
    - reflexivity.
  Qed.

  Lemma cs_zero_iff a b : no_nul a -> no_nul b -> (cs a b = 0 <-> a = b).
  Proof. intros Ha Hb. split; [apply cs_eq0; assumption | intros ->; apply cs_refl]. Qed.

  Lemma cmp_spec_zero L k e : no_nul k -> no_nul e ->
    (cmp_spec L k e = 0 <-> accepts_stripped L k e = true).
  Proof.
    intros Hk He. unfold cmp_spec, accepts_stripped.
    destruct (l_has_prefix L && (4 <=? length k)%nat) eqn:C.
    - rewrite cs_zero_iff by (try apply no_nul_firstn; assumption).
      rewrite orb_true_iff, bytes_eqb_eq, andb_true_iff, is_prefix_firstn. split.
      + intros H. right. tauto.
      + intros [H|[_ H]]; [|exact H]. subst e. rewrite firstn_all. reflexivity.
    - rewrite cs_zero_iff by assumption. cbn [andb]. rewrite orb_false_r, bytes_eqb_eq. tauto.
  Qed.

  (* monotone cut of a sorted list *)
  Lemma cmp_spec_mono L k sws : no_nul k -> Forall no_nul sws -> sorted_b sgn sws = true ->
    forall i j, (i <= j)%nat -> (j < length sws)%nat ->
    (cmp_spec L k (nth i sws []) <= 0 -> cmp_spec L k (nth j sws []) <= 0) /\
    (cmp_spec L k (nth i sws []) < 0 -> cmp_spec L k (nth j sws []) < 0).
  Proof.
    intros Hk Hn Hs i j Hij Hj.
    destruct (Nat.eq_dec i j) as [->|Hne]; [tauto|].
    assert (Hlt : cs (nth i sws []) (nth j sws []) < 0) by (apply sorted_nth; try assumption; lia).
    assert (Ni : no_nul (nth i sws [])) by (apply Forall_nth; [exact Hn | lia]).
    assert (Nj : no_nul (nth j sws [])) by (apply Forall_nth; [exact Hn | lia]).
    unfold cmp_spec. destruct (l_has_prefix L && (4 <=? length k)%nat).
    - set (n := length k).
      assert (Hle : cs (firstn n (nth i sws [])) (firstn n (nth j sws [])) <= 0) by (apply cs_firstn; lia).
      split; intros H;
        apply (cs_trans sgn k (firstn n (nth i sws [])) (firstn n (nth j sws [])));
        try apply no_nul_firstn; try assumption; try lia; auto.
    - split; intros H;
        apply (cs_trans sgn k (nth i sws []) (nth j sws [])); try assumption; try lia; auto.
  Qed.

  (* data predicate: what is computed on the generated lists *)
  Definition lang_ok (L : lang) : bool :=
    Nat.eqb (length (l_words L)) LANG_SIZE_nat && forallb no_nul_b (l_words L) &&
    (if l_is_sorted L then sorted_b sgn (map (strip L) (l_words L)) else true).

  Lemma no_nul_b_ok s : no_nul_b s = true -> no_nul s.
  Proof.
    unfold no_nul_b, no_nul. intros H I. apply negb_true_iff in H.
    assert (E : existsb (Byte.eqb x00) s = true) by (apply existsb_exists; exists x00; split; [exact I | apply eqb_refl]).
    congruence.
  Qed.

  Section OneLang.
    Variable L : lang.
    Hypothesis Hok : lang_ok L = true.
    Variable key : bytes.
    Hypothesis Hkey : no_nul key.

    Local Notation words := (l_words L).
    Local Notation sws := (map (strip L) (l_words L)).

    Lemma ok_len : length words = LANG_SIZE_nat.
    Proof. unfold lang_ok in Hok. apply andb_true_iff in Hok. destruct Hok as [H _].
           apply andb_true_iff in H. destruct H as [H _]. apply Nat.eqb_eq, H. Qed.

    Lemma ok_nonul : Forall no_nul words.
    Proof. unfold lang_ok in Hok. apply andb_true_iff in Hok. destruct Hok as [H _].
           apply andb_true_iff in H. destruct H as [_ H]. rewrite forallb_forall in H.
           apply Forall_forall. intros w Hw. apply no_nul_b_ok, H, Hw. Qed.

    Lemma ok_sws_nonul : Forall no_nul sws.
    Proof. apply Forall_forall. intros w Hw. apply in_map_iff in Hw.
           destruct Hw as [w0 [<- Hw0]]. apply no_nul_strip.
           pose proof ok_nonul as H. rewrite Forall_forall in H. apply H, Hw0. Qed.

    Lemma nth_sws j : nth j sws [] = strip L (nth j words []).
    Proof.
      transitivity (nth j (map (strip L) words) (strip L [])).
      - f_equal. symmetry. apply strip_nil.
      - apply map_nth.
    Qed.

    Let f (j : nat) : Z := comparer sgn L key (nth j words []).

    Lemma f_spec j : f j = cmp_spec L (strip L key) (nth j sws []).
    Proof. unfold f. rewrite comparer_spec, nth_sws. reflexivity. Qed.

    Lemma f_zero_iff j : (j < LANG_SIZE_nat)%nat ->
      (f j = 0 <-> accepts_b L key (nth j words []) = true).
    Proof.
      intros Hj. rewrite f_spec, nth_sws. unfold accepts_b.
      apply cmp_spec_zero; apply no_nul_strip; [exact Hkey|].
      apply Forall_nth; [exact ok_nonul | rewrite ok_len; exact Hj].
    Qed.

    Theorem lang_search_total : lang_search sgn L key <> None.
    Proof.
      unfold lang_search. destruct (l_is_sorted L); [|discriminate].
      apply (bsearch_total _ 12). unfold LANG_SIZE_nat. apply (proj1 (Nat.ltb_lt _ _)). vm_compute. reflexivity.
    Qed.

    Theorem lang_search_sound j :
      lang_search sgn L key = Some (Some j) ->
      (j < LANG_SIZE_nat)%nat /\ accepts_b L key (nth j words []) = true.
    Proof.
      unfold lang_search. destruct (l_is_sorted L) eqn:S; intros H.
      - apply bsearch_sound in H. destruct H as [H1 H2]. split; [lia|].
        apply f_zero_iff; [lia | exact H2].
      - inversion H as [H1]. apply linear_find_sound in H1. destruct H1 as [H1 H2].
        rewrite ok_len in H1. rewrite Nat.sub_0_r in H2.
        split; [lia|]. apply f_zero_iff; [lia | exact H2].
    Qed.

    Theorem lang_search_complete j :
      (j < LANG_SIZE_nat)%nat -> accepts_b L key (nth j words []) = true ->
      exists j', lang_search sgn L key = Some (Some j').
    Proof.
      intros Hj Hacc. apply f_zero_iff in Hacc; [|exact Hj].
      unfold lang_search. destruct (l_is_sorted L) eqn:S.
      - assert (Hs : sorted_b sgn sws = true).
        { unfold lang_ok in Hok. rewrite S in Hok. apply andb_true_iff in Hok. tauto. }
        assert (Hlen : length sws = LANG_SIZE_nat) by (rewrite map_length; apply ok_len).
        apply (bsearch_complete (fun j => comparer sgn L key (nth j (l_words L) [])) LANG_SIZE_nat) with (z := j);
          try exact Hacc; try (unfold LANG_SIZE_nat in *; first [lia | apply (proj1 (Nat.ltb_lt _ _)); vm_compute; reflexivity]).
        + intros a b Hab Hb. change (f a <= 0 -> f b <= 0). rewrite !f_spec.
          apply cmp_spec_mono; try assumption; [apply no_nul_strip, Hkey | apply ok_sws_nonul | lia].
        + intros a b Hab Hb. change (f a < 0 -> f b < 0). rewrite !f_spec.
          apply cmp_spec_mono; try assumption; [apply no_nul_strip, Hkey | apply ok_sws_nonul | lia].
      - destruct (linear_find_complete (comparer sgn L key) (l_words L) 0 j) as [j' Hj'].
        + eapply Nat.lt_le_trans; [exact Hj|]. apply Nat.eq_le_incl. symmetry. exact ok_len.
        + exact Hacc.
        + exists j'. rewrite Hj'. reflexivity.
    Qed.
  End OneLang.
End SearchSpec.

(* ---------------------------------------------------------- uniqueness *)
Fixpoint nodup_b (l : list bytes) : bool :=
  match l with
  | [] => true
  | x :: t => negb (existsb (bytes_eqb x) t) && nodup_b t
  end.

Lemma nodup_b_ok l : nodup_b l = true -> NoDup l.
Proof.
  induction l as [|x t IH]; intros H; [constructor|].
  cbn in H. apply andb_true_iff in H. destruct H as [H1 H2]. constructor; [|apply IH, H2].
  intros I. apply negb_true_iff in H1.
  assert (E : existsb (bytes_eqb x) t = true) by (apply existsb_exists; exists x; split; [exact I | apply bytes_eqb_eq; reflexivity]).
  congruence.
Qed.

(* the key that decides a token: the stripped word, cut to four letters where
   abbreviation is allowed *)
Definition uniq_keys (L : lang) : list bytes :=
  let sws := map (strip L) (l_words L) in
  if l_has_prefix L then map (firstn 4) sws else sws.

Lemma firstn_firstn_le {A} n m (l : list A) : (n <= m)%nat -> firstn n (firstn m l) = firstn n l.
Proof. intros H. rewrite firstn_firstn. f_equal. lia. Qed.

Lemma accepts_key4 L k e1 e2 :
  accepts_stripped L k e1 = true -> accepts_stripped L k e2 = true ->
  if l_has_prefix L then firstn 4 e1 = firstn 4 e2 else e1 = e2.
Proof.
  unfold accepts_stripped. intros H1 H2.
  apply orb_true_iff in H1. apply orb_true_iff in H2.
  destruct (l_has_prefix L); cbn [andb] in *.
  - assert (P : forall e, bytes_eqb k e = true \/ (4 <=? length k)%nat && is_prefix k e = true ->
                          k = e \/ ((4 <= length k)%nat /\ firstn 4 e = firstn 4 k)).
    { intros e [H|H]; [left; apply bytes_eqb_eq, H|]. right.
      apply andb_true_iff in H. destruct H as [Ha Hb]. apply Nat.leb_le in Ha.
      apply is_prefix_firstn in Hb. split; [exact Ha|].
      transitivity (firstn 4 (firstn (length k) e));
        [symmetry; apply firstn_firstn_le; exact Ha | f_equal; symmetry; exact Hb]. }
    destruct (P e1 H1) as [E1|[L1 E1]]; destruct (P e2 H2) as [E2|[L2 E2]]; try congruence.
  - destruct H1 as [H1|H1]; [|discriminate]. destruct H2 as [H2|H2]; [|discriminate].
    apply bytes_eqb_eq in H1, H2. congruence.
Qed.

Lemma nth_map_strip L ws j : nth j (map (strip L) ws) [] = strip L (nth j ws []).
Proof.
  transitivity (nth j (map (strip L) ws) (strip L [])).
  - f_equal. symmetry. apply strip_nil.
  - apply map_nth.
Qed.

Lemma sorted_nodup sgn l : sorted_b sgn l = true -> Forall no_nul l -> NoDup l.
Proof.
  intros Hs Hn. apply (NoDup_nth l []). intros i j Hi Hj E.
  destruct (Nat.lt_trichotomy i j) as [H|[H|H]]; [|exact H|].
  - pose proof (sorted_nth sgn l Hs Hn i j H Hj) as C. rewrite E, cs_refl in C. lia.
  - pose proof (sorted_nth sgn l Hs Hn j i H Hi) as C. rewrite E, cs_refl in C. lia.
Qed.

(* what is computed per language: O(n) for sorted lists, O(n^2) otherwise *)
Definition uniq_ok (sgn : bool) (L : lang) : bool :=
  if l_is_sorted L then sorted_b sgn (uniq_keys L) else nodup_b (uniq_keys L).

Lemma uniq_keys_nonul L : Forall no_nul (l_words L) -> Forall no_nul (uniq_keys L).
Proof.
  intros H. unfold uniq_keys.
  assert (S : Forall no_nul (map (strip L) (l_words L))).
  { apply Forall_forall. intros w Hw. apply in_map_iff in Hw. destruct Hw as [w0 [<- Hw0]].
    apply no_nul_strip. rewrite Forall_forall in H. apply H, Hw0. }
  destruct (l_has_prefix L); [|exact S].
  apply Forall_forall. intros w Hw. apply in_map_iff in Hw. destruct Hw as [w0 [<- Hw0]].
  apply no_nul_firstn. rewrite Forall_forall in S. apply S, Hw0.
Qed.

Lemma uniq_ok_nodup sgn L : uniq_ok sgn L = true -> Forall no_nul (l_words L) -> NoDup (uniq_keys L).
Proof.
  unfold uniq_ok. intros H Hn. destruct (l_is_sorted L).
  - apply (sorted_nodup sgn); [exact H | apply uniq_keys_nonul, Hn].
  - apply nodup_b_ok, H.
Qed.

Theorem accepts_unique L key i j :
  NoDup (uniq_keys L) ->
  (i < length (l_words L))%nat -> (j < length (l_words L))%nat ->
  accepts_b L key (nth i (l_words L) []) = true ->
  accepts_b L key (nth j (l_words L) []) = true -> i = j.
Proof.
  intros Hnd Hi Hj Hai Haj.
  unfold accepts_b in *.
  pose proof (accepts_key4 L _ _ _ Hai Haj) as K.
  pose proof (proj1 (NoDup_nth (uniq_keys L) []) Hnd) as Hn. apply (Hn i j).
  - unfold uniq_keys. destruct (l_has_prefix L); rewrite ?map_length; exact Hi.
  - unfold uniq_keys. destruct (l_has_prefix L); rewrite ?map_length; exact Hj.
  - unfold uniq_keys. destruct (l_has_prefix L).
    + change ([] : bytes) with (firstn 4 ([] : bytes)). rewrite !map_nth.
      rewrite !nth_map_strip. exact K.
    + rewrite !nth_map_strip. exact K.
Qed.
