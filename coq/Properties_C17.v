(* C17 - the public buffer size bounds every phrase the library can produce. *)
From PS Require Import Base StrDefs ApiDefs SpecDefs SpecApi StrProofs PackTheorems ApiLemmas RefineProofs ApiTheorems.
From PS.Gen Require Import Consts Langs.
Local Open Scope N_scope.

(* for every registered language: 16 x (longest word) + 15 x (separator) < POLYSEED_STR_SIZE,
   computed on the GENERATED lists against the GENERATED constant *)
Theorem C17_bounds : forallb (fun L => N.of_nat (phrase_bound L) <? STR_SIZE) langs = true.
Proof. exact bounds_ok. Qed.
Print Assumptions C17_bounds.

(* hence every phrase of 16 words - for ANY 16 indices - leaves room for its terminator in
   str_tmp (the internal, decomposed form: the longest the library ever handles) *)
Theorem C17_internal_fits : forall L idx, In L langs -> length idx = 16%nat ->
  N.of_nat (length (sjoin (l_separator L) (map (spec_word L) idx))) < STR_SIZE.
Proof. exact phrase_fits. Qed.
Print Assumptions C17_internal_fits.

Theorem C17_seed_phrase_fits : forall L s coin, In L langs -> N.of_nat (length (spec_phrase_nfkd L s coin)) < STR_SIZE.
Proof. exact seed_phrase_fits. Qed.
Print Assumptions C17_seed_phrase_fits.

(* the returned length is the length of the string written (non-composing languages; for the
   composing ones it is the value the injected NFC returned, C03_phrase) *)
Theorem C17_length_returned : forall sgn cs a h d li L coin, R cs a -> heap_get (st_heap cs) h = Some d ->
  nth_error langs li = Some L -> coin < 2048 ->
  let p := spec_phrase_nfkd L (abs_data d) coin in
  outp (step sgn langs cs (OpEncode h li coin)) =
    (if l_compose L then OutStr (fst (dp_nfc (st_deps cs) p)) (snd (dp_nfc (st_deps cs) p))
     else OutStr p (N.of_nat (length p))) /\
  stp (step sgn langs cs (OpEncode h li coin)) = cs.
Proof. exact encode_is_layout. Qed.
Print Assumptions C17_length_returned.

(* the lazy normaliser's copy never reaches the last cell *)
Theorem C17_copy_fits : forall nfkd str, existsb is_nonascii (firstn (N.to_nat (STR_SIZE - 1)) str) = false ->
  N.of_nat (length (fst (fst (nfkd_lazy nfkd str)))) < STR_SIZE.
Proof. exact nfkd_lazy_fits. Qed.
Print Assumptions C17_copy_fits.

(* exactness: the bounds per language (registry order); the Korean one is the largest *)
Example C17_bound_values : map phrase_bound langs = [143; 477; 543; 175; 207; 159; 143; 143; 63; 63]%nat.
Proof. vm_compute. reflexivity. Qed.
