(* C17 - the public buffer size bounds every phrase the library can produce. *)
From PS Require Import Base StrDefs ApiDefs SpecDefs SpecApi StrProofs PackTheorems ApiLemmas RefineProofs ApiTheorems.
From PS.Gen Require Import Consts Langs.
Local Open Scope N_scope.

(* for every registered language: 16 x (longest word) + 15 x (separator) < POLYSEED_STR_SIZE,
   computed on the GENERATED lists against the GENERATED constant *)
Theorem C17_bounds : forallb (fun L => N.of_nat (phrase_bound L) <? STR_SIZE) langs = true.
Proof. exact bounds_ok. Qed.
Print Assumptions C17_bounds.

(* hence every phrase of 16 words - for ANY 16 indices - leaves room for its terminator in
   str_tmp (the internal, decomposed form: the longest the library ever handles) *)
Theorem C17_internal_fits : forall L idx, In L langs -> length idx = 16%nat ->
  N.of_nat (length (sjoin (l_separator L) (map (spec_word L) idx))) < STR_SIZE.
Proof. exact phrase_fits. Qed.
Print Assumptions C17_internal_fits.

Theorem C17_seed_phrase_fits : forall L s coin, In L langs -> N.of_nat (length (spec_phrase_nfkd L s coin)) < STR_SIZE.
Proof. exact seed_phrase_fits. Qed.
Print Assumptions C17_seed_phrase_fits.

(* the returned length is the length of the string written (non-composing languages; for the
   composing ones it is the value the injected NFC returned, C03_phrase) *)
Theorem C17_length_returned : forall sgn cs a h d li L coin, R cs a -> heap_get (st_heap cs) h = Some d ->
  nth_error langs li = Some L -> coin < 2048 ->
  let p := spec_phrase_nfkd L (abs_data d) coin in
  outp (step sgn langs cs (OpEncode h li coin)) =
    (if l_compose L then OutStr (fst (dp_nfc (st_deps cs) p)) (snd (dp_nfc (st_deps cs) p))
     else OutStr p (N.of_nat (length p))) /\
  stp (step sgn langs cs (OpEncode h li coin)) = cs.
Proof. exact encode_is_layout. Qed.
Print Assumptions C17_length_returned.

(* the lazy normaliser's copy never reaches the last cell *)
Theorem C17_copy_fits : forall nfkd str, existsb is_nonascii (firstn (N.to_nat (STR_SIZE - 1)) str) = false ->
  N.of_nat (length (fst (fst (nfkd_lazy nfkd str)))) < STR_SIZE.
Proof. exact nfkd_lazy_fits. Qed.
Print Assumptions C17_copy_fits.

(* exactness: the bounds per language (registry order); the Korean one is the largest *)
Example C17_bound_values : map phrase_bound langs = [143; 477; 543; 175; 207; 159; 143; 143; 63; 63]%nat.
Proof. vm_compute. reflexivity. Qed.

(* ---- the tie to the code: src/polyseed.c as TRANSLATED on this run (Gen/CApi.v) ---- *)
From Coq Require Import String.
From PS Require Import Base GFDefs PackDefs StoreDefs MiscDefs StrDefs LangDefs ApiDefs GFProofs PackProofs StoreProofs CTieBase CTieLang CTiePhrase CTiePhraseEv CTieSplit CTieApi CTieDecode CTieEncode.
From PS.Gen Require Import Consts PrivConsts Langs.
From PS.Gen Require CFuns.
From PS.Gen Require CApi.

(* write_str as translated: the bytes of the word at the offset, the offset advanced by its length - while it fits the buffer *)
Theorem C17_code_tie_write_str :
  forall (fuel : nat) (sgn : bool) (M : nat) (w : bytes) (a : list byte),
         no_nul w ->
         (Datatypes.length a + Datatypes.length w <= M)%nat ->
         (Datatypes.length w + 1 <= fuel)%nat ->
         CApi.write_str fuel sgn (zs a ++ repeat 0%Z (M - Datatypes.length a)) (Z.of_nat (Datatypes.length a))
           (zs w) =
         Some (zs (a ++ w) ++ repeat 0%Z (M - Datatypes.length (a ++ w)), Z.of_nat (Datatypes.length (a ++ w))).
Proof. exact @tie_write_str. Qed.
Print Assumptions C17_code_tie_write_str.

(* polyseed_encode as translated: every write stays inside str_tmp exactly when the joined phrase is shorter than POLYSEED_STR_SIZE (the case C17_bounds shows is the only one), and the length returned is the length written *)
Theorem C17_code_tie_api_encode :
  forall (sgn : bool) (st : state) (fuel li : nat) (L : lang),
         nth_error langs li = Some L ->
         (forall j : nat, (Datatypes.length (nth j (l_words L) []) + 1 <= fuel)%nat) ->
         (Datatypes.length (l_separator L) + 1 <= fuel)%nat ->
         (forall x : bytes, snd (dp_nfc (st_deps st) x) < 2 ^ 64) ->
         forall (h : N) (d : data) (coin : N) (out0 : list Z),
         heap_get (st_heap st) h = Some d ->
         Canon d ->
         d_checksum d < 2048 ->
         coin < 2048 ->
         (1 <= Datatypes.length out0)%nat ->
         match step sgn langs st (OpEncode h li coin) with
         | (st', OutStr o nn, evs) =>
             exists (cevs : list CApi.cev) (rest : list Z),
               CApi.polyseed_encode fuel sgn (znfc (st_deps st))
                 (fun _ i : Z => zs (nth (Z.to_nat i) (l_words L) [])) (fun _ : Z => zs (l_separator L))
                 (fun _ : Z => if l_compose L then 1%Z else 0%Z) (Z.of_N (d_birthday d))
                 (Z.of_N (d_features d)) (map Z.of_N (d_secret d)) (Z.of_N (d_checksum d)) 
                 (Z.of_nat li) (Z.of_N coin) out0 = Some (cevs, zs o ++ 0%Z :: rest, Z.of_N nn) /\
               evs_of (st_deps st) cevs = evs /\ st' = st
         | (st', OutFault, _) | (st', OutUnit, _) | (st', OutNum _, _) | (st', OutStatus _ _ _, _) |
           (st', OutBytes _, _) => True
         end.
Proof. exact @tie_encode. Qed.
Print Assumptions C17_code_tie_api_encode.
