(* gf.c: polyseed_data_to_poly / polyseed_poly_to_data.  Mirror definitions
   following the C loops, counters included.  `unsigned` values stay below
   2^16 here (proved in PackProofs), so 32-bit wrap-around is not modelled;
   the uint8_t store in poly_to_data IS modelled (mod 256). *)
From PS Require Import Base.
From PS.Gen Require Import PrivConsts.
Local Open Scope N_scope.

(* struct polyseed_data (storage.h) *)
Record data := mkdata {
  d_birthday : N;
  d_features : N;
  d_secret : list N;     (* SECRET_BUFFER_SIZE = 32 bytes *)
  d_checksum : N
}.

Definition SHARE_BITS : N := 10.
Definition CHAR_BIT : N := 8.
Definition DATA_WORDS : nat := 15.

(* state of the encoder loop *)
Record enc_st := mkenc {
  e_word_bits : N; e_word_val : N;
  e_secret_idx : nat; e_secret_val : N; e_secret_bits : N; e_seed_rem_bits : N
}.

(* while (word_bits < SHARE_BITS) { ... }   None = fault (index out of the
   secret buffer, or fuel exhausted = non-termination) *)
Fixpoint enc_fill (fuel : nat) (sec : list N) (s : enc_st) : option enc_st :=
  match fuel with
  | O => None
  | S fuel' =>
    if e_word_bits s <? SHARE_BITS then
      let refill :=
        if e_secret_bits s =? 0 then
          let idx := S (e_secret_idx s) in
          let sb := N.min (e_seed_rem_bits s) CHAR_BIT in
          match nth_error sec idx with
          | None => None
          | Some v => Some (idx, v, sb, e_seed_rem_bits s - sb)
          end
        else Some (e_secret_idx s, e_secret_val s, e_secret_bits s, e_seed_rem_bits s) in
      match refill with
      | None => None
      | Some (idx, sval, sbits, rem) =>
        let chunk := N.min sbits (SHARE_BITS - e_word_bits s) in
        let sbits' := sbits - chunk in
        let wv := N.lor (N.shiftl (e_word_val s) chunk)
                        (N.land (N.shiftr sval sbits') (N.ones chunk)) in
        enc_fill fuel' sec (mkenc (e_word_bits s + chunk) wv idx sval sbits' rem)
      end
    else Some s
  end.

(* for (i = 0; i < DATA_WORDS; ++i) *)
Fixpoint enc_words (n : nat) (sec : list N) (extra_val extra_bits : N) (s : enc_st)
  : option (list N * enc_st * N) :=
  match n with
  | O => Some ([], s, extra_bits)
  | S n' =>
    match enc_fill 12 sec s with
    | None => None
    | Some s1 =>
      let eb := extra_bits - 1 in
      let wv := N.lor (N.shiftl (e_word_val s1) 1) (N.land (N.shiftr extra_val eb) 1) in
      match enc_words n' sec extra_val eb
              (mkenc 0 0 (e_secret_idx s1) (e_secret_val s1) (e_secret_bits s1) (e_seed_rem_bits s1)) with
      | None => None
      | Some (ws, sf, ebf) => Some (wv :: ws, sf, ebf)
      end
    end
  end.

(* polyseed_data_to_poly: returns coeff[1..15]; coeff[0] is left to the caller.
   The three trailing asserts of the C code are returned as a boolean. *)
Definition data_to_poly_full (d : data) : option (list N * bool) :=
  let extra_val := N.lor (N.shiftl (d_features d) DATE_BITS) (d_birthday d) in
  let extra_bits := FEATURE_BITS + DATE_BITS in
  match nth_error (d_secret d) 0 with
  | None => None
  | Some v0 =>
    match enc_words DATA_WORDS (d_secret d) extra_val extra_bits
            (mkenc 0 0 0 v0 CHAR_BIT (SECRET_BITS - CHAR_BIT)) with
    | None => None
    | Some (ws, sf, ebf) =>
      Some (ws, (e_seed_rem_bits sf =? 0) && (e_secret_bits sf =? 0) && (ebf =? 0))
    end
  end.

Definition data_to_poly (d : data) : option (list N) :=
  match data_to_poly_full d with Some (ws, _) => Some ws | None => None end.

(* ---- decoder ---- *)
Record dec_st := mkdec {
  x_secret : list N; x_secret_idx : nat; x_secret_bits : N; x_seed_bits : N
}.

(* while (word_bits > 0) { ... } *)
Fixpoint dec_drain (fuel : nat) (word_val word_bits : N) (s : dec_st) : option dec_st :=
  match fuel with
  | O => None
  | S fuel' =>
    if 0 <? word_bits then
      let '(idx, sbits, seedb) :=
        if x_secret_bits s =? CHAR_BIT
        then (S (x_secret_idx s), 0, x_seed_bits s + x_secret_bits s)
        else (x_secret_idx s, x_secret_bits s, x_seed_bits s) in
      let chunk := N.min word_bits (CHAR_BIT - sbits) in
      let wb := word_bits - chunk in
      let mask := N.ones chunk in
      match nth_error (x_secret s) idx with
      | None => None
      | Some cur =>
        let cur1 := if chunk <? CHAR_BIT then (N.shiftl cur chunk) mod 256 else cur in
        let cur2 := (N.lor cur1 (N.land (N.shiftr word_val wb) mask)) mod 256 in
        dec_drain fuel' word_val wb (mkdec (upd (x_secret s) idx cur2) idx (sbits + chunk) seedb)
      end
    else Some s
  end.

Fixpoint dec_words (ws : list N) (extra_val extra_bits : N) (s : dec_st)
  : option (dec_st * N * N) :=
  match ws with
  | [] => Some (s, extra_val, extra_bits)
  | w :: ws' =>
    let ev := N.lor (N.shiftl extra_val 1) (N.land w 1) in
    match dec_drain 12 (N.shiftr w 1) (GF_BITS - 1) s with
    | None => None
    | Some s1 => dec_words ws' ev (extra_bits + 1) s1
    end
  end.

(* polyseed_poly_to_data: c = all 16 coefficients *)
Definition poly_to_data_full (c : list N) : option (data * bool) :=
  match c with
  | [] => None
  | c0 :: ws =>
    match dec_words ws 0 0 (mkdec (repeat 0 (N.to_nat SECRET_BUFFER_SIZE)) 0 0 0) with
    | None => None
    | Some (sf, ev, eb) =>
      Some (mkdata (N.land ev DATE_MASK) (N.shiftr ev DATE_BITS) (x_secret sf) c0,
            (x_seed_bits sf + x_secret_bits sf =? SECRET_BITS) && (eb =? FEATURE_BITS + DATE_BITS))
    end
  end.

Definition poly_to_data (c : list N) : option data :=
  match poly_to_data_full c with Some (d, _) => Some d | None => None end.
