(* The tie between the Gallina the translator tools/c2coq.py produces from /repo's CURRENT C
   sources (Gen/CFuns.v, regenerated on every run; values are Z, every unsigned result reduced
   mod 2^width) and the hand-written mirrors the theorems are about.  A change to one of these C
   functions changes Gen/CFuns.v, and the lemma below that mentions it is re-checked by Coq:
   finite domains by an exhaustive computation, unbounded ones by lia. *)
From PS Require Import Base GFDefs MiscDefs SpecDefs GFProofs MiscProofs.
From PS.Gen Require Import PrivConsts.
From PS.Gen Require CFuns.
Local Open Scope N_scope.

Notation zN := Z.of_N (only parsing).

Lemma zN_lxor a b : zN (N.lxor a b) = Z.lxor (zN a) (zN b).
Proof. destruct a, b; reflexivity. Qed.
Lemma zN_land a b : zN (N.land a b) = Z.land (zN a) (zN b).
Proof. destruct a, b; reflexivity. Qed.
Lemma zN_lor a b : zN (N.lor a b) = Z.lor (zN a) (zN b).
Proof. destruct a, b; reflexivity. Qed.

