(* C02 on the words of a phrase (indices AFTER the coin is applied): replacing one word by any
   other word, or exchanging two different words, never yields a phrase that validates for the
   same coin - including the second word, which carries the coin. *)
From PS Require Import Base GFDefs GFProofs ApiDefs CoinProofs.
Local Open Scope N_scope.

Lemma nth_upd_same {A} (l : list A) i v d : (i < length l)%nat -> nth i (upd l i v) d = v.
Proof. revert i. induction l as [|x l IH]; intros [|i] H; cbn in *; try lia; [reflexivity|]. apply IH. lia. Qed.

Lemma upd_upd_same {A} (l : list A) i v w : upd (upd l i v) i w = upd l i w.
Proof. revert i. induction l as [|x l IH]; intros [|i]; cbn; try reflexivity. f_equal. apply IH. Qed.

Lemma upd_comm {A} (l : list A) i k v w : i <> k -> upd (upd l i v) k w = upd (upd l k w) i v.
Proof.
  revert i k. induction l as [|x l IH]; intros [|i] [|k] H; cbn; try reflexivity; try congruence.
  f_equal. apply IH. congruence.
Qed.

(* two coefficients off by the same non-zero amount: never zero (x has order > 15) *)
Theorem double_error c i k d :
  wf c -> poly_eval c = 0 -> (i < k)%nat -> (k < length c)%nat -> (length c <= 16)%nat ->
  d < 2048 -> d <> 0 ->
  poly_eval (upd (upd c i (N.lxor (nth i c 0) d)) k (N.lxor (nth k c 0) d)) <> 0.
Proof.
  intros Hc He Hik Hk Hlen Hd Hnz.
  assert (Hci : nth i c 0 < 2048) by apply wf_nth, Hc.
  assert (Hck : nth k c 0 < 2048) by apply wf_nth, Hc.
  rewrite upd_as_xor by (rewrite length_upd; exact Hk).
  rewrite nth_upd_other by lia. rewrite length_upd.
  replace (N.lxor (nth k c 0) (N.lxor (nth k c 0) d)) with d
    by (rewrite <- N.lxor_assoc, N.lxor_nilpotent, N.lxor_0_l; reflexivity).
  rewrite eval_xor; [| rewrite length_upd, length_unit; reflexivity
                     | apply wf_upd; [assumption | apply lxor_lt_2048; assumption]
                     | apply wf_unit; exact Hd].
  rewrite (upd_as_xor c i) by lia.
  replace (N.lxor (nth i c 0) (N.lxor (nth i c 0) d)) with d
    by (rewrite <- N.lxor_assoc, N.lxor_nilpotent, N.lxor_0_l; reflexivity).
  rewrite eval_xor by (try rewrite length_unit; try apply wf_unit; auto).
  rewrite He, N.lxor_0_l, !eval_unit by lia.
  intros Z. apply lxor_eq_0 in Z.
  replace k with (i + (k - i))%nat in Z by lia.
  rewrite iter_add in Z.
  apply iter_mul2_inj in Z; [| exact Hd | apply iter_mul2_lt, Hd].
  symmetry in Z. revert Z. apply mul2_iter_ne; [lia | exact Hd | exact Hnz].
Qed.

Lemma nth_xor_coin c coin i : (2 <= length c)%nat ->
  nth i (xor_coin c coin) 0 = if Nat.eqb i 1 then N.lxor (nth i c 0) coin else nth i c 0.
Proof.
  intros H. rewrite (xor_coin_upd c coin H). destruct (Nat.eqb_spec i 1) as [->|Hne].
  - apply nth_upd_same. lia.
  - apply nth_upd_other. congruence.
Qed.

Lemma xor_coin_of_upd w coin i j : (2 <= length w)%nat -> (i < length w)%nat ->
  xor_coin (upd w i j) coin = upd (xor_coin w coin) i (if Nat.eqb i 1 then N.lxor j coin else j).
Proof.
  intros H Hi. rewrite !xor_coin_upd by (rewrite ?length_upd; exact H).
  destruct (Nat.eqb_spec i 1) as [->|Hne].
  - rewrite nth_upd_same by lia. rewrite !upd_upd_same. reflexivity.
  - rewrite nth_upd_other by congruence. apply upd_comm. exact Hne.
Qed.

(* w = the indices of the words of a phrase that validates for `coin` *)
Theorem phrase_substitution w coin i j :
  wf w -> length w = 16%nat -> coin < 2048 -> poly_eval (xor_coin w coin) = 0 ->
  (i < 16)%nat -> j < 2048 -> j <> nth i w 0 ->
  poly_eval (xor_coin (upd w i j) coin) <> 0.
Proof.
  intros W Len Hc He Hi Hj Hne.
  rewrite xor_coin_of_upd by lia.
  apply subst_detected; try assumption.
  - apply wf_xor_coin; assumption.
  - rewrite xor_coin_length. lia.
  - destruct (Nat.eqb i 1); [apply lxor_lt_2048; assumption | exact Hj].
  - rewrite nth_xor_coin by lia. destruct (Nat.eqb i 1); [|exact Hne].
    intros E. apply Hne. apply (f_equal (fun x => N.lxor x coin)) in E.
    rewrite !N.lxor_assoc, N.lxor_nilpotent, !N.lxor_0_r in E. exact E.
Qed.

Theorem phrase_transposition w coin i k :
  wf w -> length w = 16%nat -> coin < 2048 -> poly_eval (xor_coin w coin) = 0 ->
  (i < k)%nat -> (k < 16)%nat -> nth i w 0 <> nth k w 0 ->
  poly_eval (xor_coin (swapv w i k) coin) <> 0.
Proof.
  intros W Len Hc He Hik Hk Hne.
  set (d := N.lxor (nth i w 0) (nth k w 0)).
  assert (Hd : d < 2048) by (apply lxor_lt_2048; apply wf_nth, W).
  assert (Hnz : d <> 0) by (intros Z; apply lxor_eq_0 in Z; contradiction).
  assert (K1 : (k < length (xor_coin w coin))%nat) by (rewrite xor_coin_length; lia).
  assert (K2 : (length (xor_coin w coin) <= 16)%nat) by (rewrite xor_coin_length; lia).
  pose proof (double_error (xor_coin w coin) i k d (wf_xor_coin _ _ W Hc) He Hik K1 K2 Hd Hnz) as DE.
  unfold swapv. rewrite xor_coin_of_upd by (rewrite ?length_upd; lia).
  rewrite xor_coin_of_upd by lia.
  assert (A : (if Nat.eqb i 1 then N.lxor (nth k w 0) coin else nth k w 0) = N.lxor (nth i (xor_coin w coin) 0) d).
  { rewrite nth_xor_coin by lia. unfold d. generalize (nth i w 0), (nth k w 0). intros u v.
    destruct (Nat.eqb i 1); xor_ring. }
  assert (B : (if Nat.eqb k 1 then N.lxor (nth i w 0) coin else nth i w 0) = N.lxor (nth k (xor_coin w coin) 0) d).
  { rewrite nth_xor_coin by lia. unfold d. generalize (nth i w 0), (nth k w 0). intros u v.
    destruct (Nat.eqb k 1); xor_ring. }
  rewrite A, B. exact DE.
Qed.
