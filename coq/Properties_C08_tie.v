(* C08 - the tie to the code: theorems about the Gallina that tools/c2coq.py generates from /repo's CURRENT
   sources on every run (Gen/CFuns.v, Gen/CApi.v).  Kept apart from Properties_C08.v so that a change to the C code
   which breaks a tie leaves the theorems about the model standing, and the other way round. *)
From PS Require Import Base LangDefs SpecDefs LangProofs LangData.
From PS Require Import CTieLang.
From PS.Gen Require CFuns.
From PS.Gen Require Import Langs.

(* ---- the tie to the code: the four comparers of lang.c as TRANSLATED from /repo's current source on
   this run (Gen/CFuns.v: `char*` walks as list suffixes, for(;;)/break as a fuelled loop), assembled as
   get_comparer assembles them with the prefix length the wrappers pass, compute the mirror comparer
   that C08_accept_iff is about: for EVERY key without NUL, EVERY word, either signedness of char, and
   any fuel exceeding both lengths by two (None would mean the loop did not terminate within the fuel) *)
Theorem C08_code_tie : forall sgn L key elm fuel, no_nul key ->
  (length key + 2 <= fuel)%nat -> (length elm + 2 <= fuel)%nat ->
  c_comparer fuel sgn L key elm = Some (comparer sgn L key elm).
Proof. exact tie_comparer. Qed.
Print Assumptions C08_code_tie.

(* ---- the tie to the code: src/polyseed.c as TRANSLATED on this run (Gen/CApi.v) ---- *)
From Coq Require Import String.
From PS Require Import Base GFDefs PackDefs StoreDefs MiscDefs StrDefs LangDefs ApiDefs SpecDefs SpecApi GFProofs PackProofs StoreProofs RefineProofs RoundTrip TraceProofs FrameProofs SafetyProofs CTieBase CTieLang CTiePhrase CTiePhraseEv CTieSplit CTieApi CTieDecode CTieEncode CTieLocals CTieInject CTieCmp CTieSearch CTieClosed CodeTheorems HeldProofs CodeMachine.
From PS.Gen Require Import Consts PrivConsts Langs.
From PS.Gen Require CFuns.
From PS.Gen Require CApi.

(* get_comparer as translated: the comparer selected for a language from its two flags, run as translated, is the mirror comparer of the one token rule *)
Theorem C08_code_tie_get_comparer :
  forall (sgn : bool) (L : lang) (li : Z) (key : bytes) (elm : list byte) (fuel : nat),
         no_nul key ->
         (Datatypes.length key + 2 <= fuel)%nat ->
         (Datatypes.length elm + 2 <= fuel)%nat ->
         cmp_by_code (CApi.get_comparer (flag (l_has_prefix L)) (flag (l_has_accents L)) li) fuel sgn 
           (zs key) (zs elm) = Some (comparer sgn L key elm).
Proof. exact @tie_get_comparer. Qed.
Print Assumptions C08_code_tie_get_comparer.

(* lang_search as translated: binary search or linear scan by the is_sorted flag, first match of the scan, index or -1 - the mirror search, for every NUL-free token (libc bsearch by contract) *)
Theorem C08_code_tie_lang_search :
  forall (sgn : bool) (L : lang) (li : Z) (fuel fuelc : nat) (BS : Z -> list Z -> Z -> Z -> Z),
         In L langs ->
         (2050 <= fuel)%nat ->
         (forall j : nat, (Datatypes.length (nth j (l_words L) []) + 2 <= fuelc)%nat) ->
         (forall key : bytes,
          no_nul key ->
          BS li (zs key) 2048%Z (CApi.get_comparer (flag (l_has_prefix L)) (flag (l_has_accents L)) li) =
          enc (bsearch_loop 13 (fun j : nat => comparer sgn L key (nth j (l_words L) [])) 0 LANG_SIZE_nat)) ->
         forall key : bytes,
         no_nul key ->
         (Datatypes.length key + 2 <= fuelc)%nat ->
         CApi.lang_search fuel (flag (l_is_sorted L)) BS (fun _ i : Z => zs (nth (Z.to_nat i) (l_words L) []))
           (CC sgn fuelc) li (zs key) (CApi.get_comparer (flag (l_has_prefix L)) (flag (l_has_accents L)) li) =
         Some (enc (lang_search sgn L key)).
Proof. exact @tie_lang_search. Qed.
Print Assumptions C08_code_tie_lang_search.

(* polyseed_lang_find_word as translated: get_comparer, then lang_search *)
Theorem C08_code_tie_find_word :
  forall (sgn : bool) (L : lang) (li : Z) (fuel fuelc : nat) (BS : Z -> list Z -> Z -> Z -> Z),
         In L langs ->
         (2050 <= fuel)%nat ->
         (forall j : nat, (Datatypes.length (nth j (l_words L) []) + 2 <= fuelc)%nat) ->
         (forall key : bytes,
          no_nul key ->
          BS li (zs key) 2048%Z (CApi.get_comparer (flag (l_has_prefix L)) (flag (l_has_accents L)) li) =
          enc (bsearch_loop 13 (fun j : nat => comparer sgn L key (nth j (l_words L) [])) 0 LANG_SIZE_nat)) ->
         forall key : bytes,
         no_nul key ->
         (Datatypes.length key + 2 <= fuelc)%nat ->
         CApi.polyseed_lang_find_word fuel (flag (l_has_prefix L)) (flag (l_has_accents L))
           (flag (l_is_sorted L)) BS (fun _ i : Z => zs (nth (Z.to_nat i) (l_words L) [])) 
           (CC sgn fuelc) li (zs key) = Some (enc (lang_search sgn L key)).
Proof. exact @tie_lang_find_word. Qed.
Print Assumptions C08_code_tie_find_word.
