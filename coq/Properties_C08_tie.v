(* C08 - the tie to the code: theorems about the Gallina that tools/c2coq.py generates from /repo's CURRENT
   sources on every run (Gen/CFuns.v, Gen/CApi.v).  Kept apart from Properties_C08.v so that a change to the C code
   which breaks a tie leaves the theorems about the model standing, and the other way round. *)
From PS Require Import Base LangDefs SpecDefs LangProofs LangData.
From PS Require Import CTieLang.
From PS.Gen Require CFuns.
From PS.Gen Require Import Langs.

(* ---- the tie to the code: the four comparers of lang.c as TRANSLATED from /repo's current source on
   this run (Gen/CFuns.v: `char*` walks as list suffixes, for(;;)/break as a fuelled loop), assembled as
   get_comparer assembles them with the prefix length the wrappers pass, compute the mirror comparer
   that C08_accept_iff is about: for EVERY key without NUL, EVERY word, either signedness of char, and
   any fuel exceeding both lengths by two (None would mean the loop did not terminate within the fuel) *)
Theorem C08_code_tie : forall sgn L key elm fuel, no_nul key ->
  (length key + 2 <= fuel)%nat -> (length elm + 2 <= fuel)%nat ->
  c_comparer fuel sgn L key elm = Some (comparer sgn L key elm).
Proof. exact tie_comparer. Qed.
Print Assumptions C08_code_tie.
