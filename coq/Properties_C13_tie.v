(* C13 - the tie to the code: theorems about the Gallina that tools/c2coq.py generates from /repo's CURRENT
   sources on every run (Gen/CFuns.v, Gen/CApi.v).  Kept apart from Properties_C13.v so that a change to the C code
   which breaks a tie leaves the theorems about the model standing, and the other way round. *)
From PS Require Import Base PackDefs ApiDefs SpecDefs SpecApi PackProofs PackTheorems ApiLemmas RefineProofs
  ApiTheorems TraceProofs FrameProofs.
From PS Require Import GFProofs CTiePack.
From PS.Gen Require CFuns.
From PS.Gen Require Import Langs.
Local Open Scope N_scope.

(* no reliance on what the allocator returned: polyseed_poly_to_data as TRANSLATED from /repo's current
   gf.c on this run fills every field of the struct - all 32 secret bytes, padding included - with the
   same values whatever the block held before (`sec` is arbitrary) *)
Theorem C13_code_tie_unpack : forall c sec d, length c = 16%nat -> wf (tl c) -> hd 0 c < 2 ^ 64 ->
  poly_to_data_full c = Some (d, true) ->
  CFuns.polyseed_poly_to_data (map Z.of_N c) sec =
  (Z.of_N (d_birthday d), Z.of_N (d_features d), map Z.of_N (d_secret d), Z.of_N (d_checksum d)).
Proof. exact tie_poly_to_data. Qed.
Print Assumptions C13_code_tie_unpack.

(* non-vacuity: the initial state is related, and a history that creates, encrypts, stores and
   reloads a seed is well-formed and leaves two live, valid seeds *)
Example C13_witness :
  let ops := [OpEnable 1; OpCreate 1 (map N.of_nat (seq 1 19)) 1700000000 true; OpCrypt 0 [x70; x77];
              OpStore 0; OpLoad (match snd (fst (step true langs (fst (run true langs init_state
                 [OpEnable 1; OpCreate 1 (map N.of_nat (seq 1 19)) 1700000000 true; OpCrypt 0 [x70; x77]])) (OpStore 0)))
                 with OutBytes b => b | _ => [] end) true] in
  length (st_heap (fst (run true langs init_state ops))) = 2%nat.
Proof. vm_compute. reflexivity. Qed.

(* ---- the tie to the code: src/polyseed.c as TRANSLATED on this run (Gen/CApi.v) ---- *)
From Coq Require Import String.
From PS Require Import Base GFDefs PackDefs StoreDefs MiscDefs StrDefs LangDefs ApiDefs SpecDefs SpecApi GFProofs PackProofs StoreProofs RefineProofs RoundTrip TraceProofs FrameProofs SafetyProofs CTieBase CTieLang CTiePhrase CTiePhraseEv CTieSplit CTieApi CTieDecode CTieEncode CTieLocals CTieInject CTieCmp CTieSearch CTieClosed CodeTheorems HeldProofs CodeMachine.
From PS.Gen Require Import Consts PrivConsts Langs.
From PS.Gen Require CFuns.
From PS.Gen Require CApi.

(* THE TRANSLATED CODE AS A MACHINE: one call of the Gallina generated from the current polyseed.c (every public function except polyseed_inject, which is tied separately) on a state - table, mask, heap of blocks, allocator counter - gives the same next state, output and events as the mirror step, for every well-formed call *)
Theorem C13_code_tie_machine :
  forall (sgn : bool) (fuel : nat) (ext : Z -> list Z -> Z) (OKW : bytes -> Prop),
         (forall (li : nat) (L : lang) (w : bytes),
          OKW w -> nth_error langs li = Some L -> ext (Z.of_nat li) (zs w) = enc (lang_search sgn L w)) ->
         (forall t : bytes, no_nul t -> (Datatypes.length t + 2 <= fuel)%nat -> OKW t) ->
         (18 <= fuel)%nat ->
         forall (st : state) (o : op), op_ready sgn fuel st o -> cstep sgn fuel ext st o = step sgn langs st o.
Proof. exact @cstep_ok. Qed.
Print Assumptions C13_code_tie_machine.

(* ... and so does every history of calls *)
Theorem C13_code_tie_machine_run :
  forall (sgn : bool) (fuel : nat) (ext : Z -> list Z -> Z) (OKW : bytes -> Prop),
         (forall (li : nat) (L : lang) (w : bytes),
          OKW w -> nth_error langs li = Some L -> ext (Z.of_nat li) (zs w) = enc (lang_search sgn L w)) ->
         (forall t : bytes, no_nul t -> (Datatypes.length t + 2 <= fuel)%nat -> OKW t) ->
         (18 <= fuel)%nat ->
         forall (st : state) (ops : list op),
         Ready sgn fuel st ops -> crun sgn fuel ext st ops = run sgn langs st ops.
Proof. exact @crun_run. Qed.
Print Assumptions C13_code_tie_machine_run.

(* the premise Ready is not vacuous: from every state related to an abstract state (every reachable state) every history of calls that take no strings is runnable, given the C preconditions and integer arguments in range *)
Theorem C13_code_tie_machine_ready :
  forall (sgn : bool) (fuel : nat) (ext : Z -> list Z -> Z) (OKW : bytes -> Prop),
         (forall (li : nat) (L : lang) (w : bytes),
          OKW w -> nth_error langs li = Some L -> ext (Z.of_nat li) (zs w) = enc (lang_search sgn L w)) ->
         (18 <= fuel)%nat ->
         forall (ops : list op) (cs : state) (a : astate),
         R cs a -> Forall simple_ok ops -> Ready sgn fuel cs ops.
Proof. exact @ready_simple. Qed.
Print Assumptions C13_code_tie_machine_ready.

(* composed with C13_refinement: any history of calls of the translated code gives, call by call, the outputs of the abstract seed machine and ends in a related state *)
Theorem C13_code_tie_code_refinement :
  forall (sgn : bool) (fuel : nat) (ext : Z -> list Z -> Z) (OKW : bytes -> Prop),
         (forall (li : nat) (L : lang) (w : bytes),
          OKW w -> nth_error langs li = Some L -> ext (Z.of_nat li) (zs w) = enc (lang_search sgn L w)) ->
         (forall t : bytes, no_nul t -> (Datatypes.length t + 2 <= fuel)%nat -> OKW t) ->
         (18 <= fuel)%nat ->
         forall (ops : list op) (cs : state) (a : astate),
         R cs a ->
         Forall op_ok ops ->
         Ready sgn fuel cs ops ->
         map fst (snd (crun sgn fuel ext cs ops)) = snd (arun langs a ops) /\
         R (fst (crun sgn fuel ext cs ops)) (fst (arun langs a ops)).
Proof. exact @code_refinement. Qed.
Print Assumptions C13_code_tie_code_refinement.

(* polyseed_create as translated = the mirror step the refinement is about *)
Theorem C13_code_tie_api_create :
  forall (sgn : bool) (langs : list lang) (st : state) (features : N) (rand : list N) 
           (clock : N) (ok : bool) (gb gf : Z) (gs : list Z) (gc so0 : Z),
         features < 2 ^ 32 ->
         clock < 2 ^ 64 ->
         let
         '(st', out0, evs) := step sgn langs st (OpCreate features rand clock ok) in
          exists (cevs : list CApi.cev) (b f : Z) (s : list Z) (c so status : Z),
            CApi.polyseed_create (alloc_ptr st ok) (Z.of_N clock) (map Z.of_N rand) CFuns.polyseed_mul2_table
              (Z.of_N (st_reserved st)) (Z.of_N features) gb gf gs gc so0 = (cevs, b, f, s, c, so, status) /\
            evs_of (st_deps st) cevs = evs /\
            out0 = OutStatus (Z.to_N status) (if (status =? 0)%Z then Some (st_next st) else None) None /\
            (if (status =? 0)%Z
             then
              so = ptr (st_next st) /\
              (exists d : data, st_heap st' = (st_next st, d) :: st_heap st /\ (b, f, s, c) = zd d)
             else so = so0 /\ st_heap st' = st_heap st).
Proof. exact @tie_create. Qed.
Print Assumptions C13_code_tie_api_create.

(* polyseed_load as translated = the mirror step *)
Theorem C13_code_tie_api_load :
  forall (sgn : bool) (langs : list lang) (st : state) (buf : list N) (ok : bool) 
           (gb gf : Z) (gs : list Z) (gc so0 : Z),
         Datatypes.length buf = 32%nat ->
         bytes_ok buf ->
         let
         '(st', out0, evs) := step sgn langs st (OpLoad buf ok) in
          exists (cevs : list CApi.cev) (b f : Z) (s : list Z) (c so status : Z),
            CApi.polyseed_load (alloc_ptr st ok) CFuns.polyseed_mul2_table (Z.of_N (st_reserved st))
              (map Z.of_N buf) gb gf gs gc so0 = (cevs, b, f, s, c, so, status) /\
            evs_of (st_deps st) cevs = evs /\
            out0 = OutStatus (Z.to_N status) (if (status =? 0)%Z then Some (st_next st) else None) None /\
            (if (status =? 0)%Z
             then
              so = ptr (st_next st) /\
              (exists d : data, st_heap st' = (st_next st, d) :: st_heap st /\ (b, f, s, c) = zd d)
             else so = so0 /\ st_heap st' = st_heap st).
Proof. exact @tie_load. Qed.
Print Assumptions C13_code_tie_api_load.

(* polyseed_decode as translated = the mirror step (up to the wipe of `idx`, which is inside polyseed_phrase_decode) *)
Theorem C13_code_tie_api_decode :
  forall (sgn : bool) (st : state) (fuel : nat) (D : list Z -> list Z * Z) (ext : Z -> list Z -> Z)
           (OKW : bytes -> Prop),
         (forall (li : nat) (L : lang) (w : bytes),
          OKW w -> nth_error langs li = Some L -> ext (Z.of_nat li) (zs w) = enc (lang_search sgn L w)) ->
         (forall t : bytes, no_nul t -> (Datatypes.length t + 2 <= fuel)%nat -> OKW t) ->
         (18 <= fuel)%nat ->
         forall (str : bytes) (coin : N) (ok : bool) (lo lo0 gb gf : Z) (gs : list Z) (gc so0 : Z),
         no_nul str ->
         coin < 2048 ->
         (Datatypes.length str + 2 <= fuel)%nat ->
         D (zs str) = (zs (fst (dp_nfkd (st_deps st) str)), Z.of_N (snd (dp_nfkd (st_deps st) str))) ->
         no_nul (fst (dp_nfkd (st_deps st) str)) ->
         (Datatypes.length (fst (dp_nfkd (st_deps st) str)) + 2 <= fuel)%nat ->
         let
         '(st', out0, evs) := step sgn langs st (OpDecode str coin ok) in
          exists (cevs : list CApi.cev) (lo' b f : Z) (s : list Z) (c so status : Z),
            CApi.polyseed_decode fuel sgn D ext (alloc_ptr st ok) CFuns.polyseed_mul2_table
              (Z.of_N (st_reserved st)) (zs str) (Z.of_N coin) lo lo0 gb gf gs gc so0 =
            Some (cevs, lo', b, f, s, c, so, status) /\
            evs_of (st_deps st) cevs = evs /\
            (exists li : nat,
               out0 =
               OutStatus (Z.to_N status) (if (status =? 0)%Z then Some (st_next st) else None)
                 (if (status =? 0)%Z then Some li else None) /\
               (status = 0%Z -> (lo <> 0%Z -> lo' = Z.of_nat li) /\ (lo = 0%Z -> lo' = lo0))) /\
            (if (status =? 0)%Z
             then
              so = ptr (st_next st) /\
              (exists d : data, st_heap st' = (st_next st, d) :: st_heap st /\ (b, f, s, c) = zd d)
             else so = so0 /\ st_heap st' = st_heap st).
Proof. exact @tie_decode. Qed.
Print Assumptions C13_code_tie_api_decode.

(* polyseed_decode_explicit as translated = the mirror step *)
Theorem C13_code_tie_api_decode_explicit :
  forall (sgn : bool) (st : state) (fuel : nat) (D : list Z -> list Z * Z) (ext : Z -> list Z -> Z)
           (OKW : bytes -> Prop),
         (forall (li : nat) (L : lang) (w : bytes),
          OKW w -> nth_error langs li = Some L -> ext (Z.of_nat li) (zs w) = enc (lang_search sgn L w)) ->
         (forall t : bytes, no_nul t -> (Datatypes.length t + 2 <= fuel)%nat -> OKW t) ->
         (18 <= fuel)%nat ->
         forall (str : bytes) (coin : N) (li : nat) (L : lang) (ok : bool) (gb gf : Z) 
           (gs : list Z) (gc so0 : Z),
         nth_error langs li = Some L ->
         no_nul str ->
         coin < 2048 ->
         (Datatypes.length str + 2 <= fuel)%nat ->
         D (zs str) = (zs (fst (dp_nfkd (st_deps st) str)), Z.of_N (snd (dp_nfkd (st_deps st) str))) ->
         no_nul (fst (dp_nfkd (st_deps st) str)) ->
         (Datatypes.length (fst (dp_nfkd (st_deps st) str)) + 2 <= fuel)%nat ->
         let
         '(st', out0, evs) := step sgn langs st (OpDecodeExplicit str coin li ok) in
          exists (cevs : list CApi.cev) (b f : Z) (s : list Z) (c so status : Z),
            CApi.polyseed_decode_explicit fuel sgn D ext (alloc_ptr st ok) CFuns.polyseed_mul2_table
              (Z.of_N (st_reserved st)) (zs str) (Z.of_N coin) (Z.of_nat li) gb gf gs gc so0 =
            Some (cevs, b, f, s, c, so, status) /\
            evs_of (st_deps st) cevs = evs /\
            out0 = OutStatus (Z.to_N status) (if (status =? 0)%Z then Some (st_next st) else None) None /\
            (if (status =? 0)%Z
             then
              so = ptr (st_next st) /\
              (exists d : data, st_heap st' = (st_next st, d) :: st_heap st /\ (b, f, s, c) = zd d)
             else so = so0 /\ st_heap st' = st_heap st).
Proof. exact @tie_decode_explicit. Qed.
Print Assumptions C13_code_tie_api_decode_explicit.

(* polyseed_crypt as translated = the mirror step *)
Theorem C13_code_tie_api_crypt :
  forall (sgn : bool) (langs : list lang) (st : state) (h : N) (pw : bytes) 
           (d : data) (fuel : nat) (D : list Z -> list Z * Z),
         heap_get (st_heap st) h = Some d ->
         Canon d ->
         no_nul pw ->
         (Datatypes.length pw + 2 <= fuel)%nat ->
         let dp := st_deps st in
         let nf := dp_nfkd dp in
         D (zs pw) = (zs (fst (nf pw)), Z.of_N (snd (nf pw))) ->
         snd (nf pw) = N.of_nat (Datatypes.length (fst (nf pw))) ->
         snd (nf pw) < 2 ^ 64 ->
         (forall (p : list N) (n : N) (salt : list N) (sl it kl : N), bytes_ok (dp_kdf dp p n salt sl it kl)) ->
         let
         '(st', out0, evs) := step sgn langs st (OpCrypt h pw) in
          exists (cevs : list CApi.cev) (d2 : data),
            CApi.polyseed_crypt fuel sgn D (zkdf dp) CFuns.polyseed_mul2_table (Z.of_N (d_birthday d))
              (Z.of_N (d_features d)) (map Z.of_N (d_secret d)) (Z.of_N (d_checksum d)) 
              (zs pw) =
            Some
              (cevs, Z.of_N (d_birthday d2), Z.of_N (d_features d2), map Z.of_N (d_secret d2),
               Z.of_N (d_checksum d2)) /\
            evs_of dp cevs = evs /\
            out0 = OutUnit /\ st_heap st' = heap_set (st_heap st) h d2 /\ st_next st' = st_next st.
Proof. exact @tie_crypt. Qed.
Print Assumptions C13_code_tie_api_crypt.
