(* The constants of the public header, as regenerated from /repo's current include/polyseed.h on this run
   (Gen/Consts.v), are those of the published format: phrase length, list size, storage size, the status codes and
   the coin identifiers (a coin identifier is part of every phrase: C05). *)
From Coq Require Import NArith.
From PS.Gen Require Import Consts.
Local Open Scope N_scope.

Lemma coin_ids_frozen : COIN_MONERO = 0 /\ COIN_AEON = 1 /\ COIN_WOWNERO = 2.
Proof. repeat split; reflexivity. Qed.

Lemma public_consts_frozen :
  NUM_WORDS = 16 /\ LANG_SIZE = 2048 /\ STORAGE_SIZE = 32 /\
  ST_OK = 0 /\ ST_NUM_WORDS = 1 /\ ST_LANG = 2 /\ ST_CHECKSUM = 3 /\ ST_UNSUPPORTED = 4 /\ ST_FORMAT = 5 /\
  ST_MEMORY = 6 /\ ST_MULT_LANG = 7.
Proof. repeat split; reflexivity. Qed.
