(* C18 - the tie to the code: theorems about the Gallina that tools/c2coq.py generates from /repo's CURRENT
   sources on every run (Gen/CFuns.v, Gen/CApi.v).  Kept apart from Properties_C18.v so that a change to the C code
   which breaks a tie leaves the theorems about the model standing, and the other way round. *)
From PS Require Import Base ApiDefs SpecDefs SpecApi PackTheorems ApiLemmas RefineProofs TraceProofs.
From PS.Gen Require Import Consts PrivConsts Langs.
Local Open Scope N_scope.

(* ---- the tie to the code: src/polyseed.c as TRANSLATED on this run (Gen/CApi.v) ---- *)
From Coq Require Import String.
From PS Require Import Base GFDefs PackDefs StoreDefs MiscDefs StrDefs LangDefs ApiDefs SpecDefs SpecApi GFProofs PackProofs StoreProofs RefineProofs RoundTrip TraceProofs FrameProofs SafetyProofs CTieBase CTieLang CTiePhrase CTiePhraseEv CTieSplit CTieApi CTieDecode CTieEncode CTieLocals CTieInject CTieCmp CTieSearch CTieClosed CodeTheorems HeldProofs CodeMachine.
From PS.Gen Require Import Consts PrivConsts Langs.
From PS.Gen Require CFuns.
From PS.Gen Require CApi.

(* polyseed_create as translated: one allocation, one clock read, one request for 19 random bytes - all through the table - and the secret is those bytes *)
Theorem C18_code_tie_api_create :
  forall (sgn : bool) (langs : list lang) (st : state) (features : N) (rand : list N) 
           (clock : N) (ok : bool) (gb gf : Z) (gs : list Z) (gc so0 : Z),
         features < 2 ^ 32 ->
         clock < 2 ^ 64 ->
         let
         '(st', out0, evs) := step sgn langs st (OpCreate features rand clock ok) in
          exists (cevs : list CApi.cev) (b f : Z) (s : list Z) (c so status : Z),
            CApi.polyseed_create (alloc_ptr st ok) (Z.of_N clock) (map Z.of_N rand) CFuns.polyseed_mul2_table
              (Z.of_N (st_reserved st)) (Z.of_N features) gb gf gs gc so0 = (cevs, b, f, s, c, so, status) /\
            evs_of (st_deps st) cevs = evs /\
            out0 = OutStatus (Z.to_N status) (if (status =? 0)%Z then Some (st_next st) else None) None /\
            (if (status =? 0)%Z
             then
              so = ptr (st_next st) /\
              (exists d : data, st_heap st' = (st_next st, d) :: st_heap st /\ (b, f, s, c) = zd d)
             else so = so0 /\ st_heap st' = st_heap st).
Proof. exact @tie_create. Qed.
Print Assumptions C18_code_tie_api_create.

(* polyseed_keygen as translated: the key is what the injected KDF wrote *)
Theorem C18_code_tie_api_keygen :
  forall (dp : deps) (d : data) (coin size : N) (ko : list Z),
         Canon d ->
         coin < 2 ^ 32 ->
         CApi.polyseed_keygen (zkdf dp) (Z.of_N (d_birthday d)) (Z.of_N (d_features d))
           (map Z.of_N (d_secret d)) (Z.of_N (d_checksum d)) (Z.of_N coin) (Z.of_N size) ko =
         ([CApi.CKdf (map Z.of_N (d_secret d)) 32 (map Z.of_N (keygen_salt coin d)) 32 10000 (Z.of_N size)],
          map Z.of_N
            (dp_kdf dp (d_secret d) SECRET_BUFFER_SIZE (keygen_salt coin d) 32 KDF_NUM_ITERATIONS size)) /\
         evs_of dp
           [CApi.CKdf (map Z.of_N (d_secret d)) 32 (map Z.of_N (keygen_salt coin d)) 32 10000 (Z.of_N size)] =
         [EvKdf (d_secret d) SECRET_BUFFER_SIZE (keygen_salt coin d) 32 KDF_NUM_ITERATIONS size].
Proof. exact @tie_keygen. Qed.
Print Assumptions C18_code_tie_api_keygen.

(* ON THE CODE: every event of a call of the translated code goes through the table in place *)
Theorem C18_code_tie_machine_uses_table :
  forall (sgn : bool) (fuel : nat) (ext : Z -> list Z -> Z) (OKW : bytes -> Prop),
         (forall (li : nat) (L : lang) (w : bytes),
          OKW w -> nth_error langs li = Some L -> ext (Z.of_nat li) (zs w) = enc (lang_search sgn L w)) ->
         (forall t : bytes, no_nul t -> (Datatypes.length t + 2 <= fuel)%nat -> OKW t) ->
         (18 <= fuel)%nat ->
         forall (st : state) (o : op),
         op_ready sgn fuel st o -> forallb (ev_uses (st_deps st)) (snd (cstep sgn fuel ext st o)) = true.
Proof. exact @code_uses_table. Qed.
Print Assumptions C18_code_tie_machine_uses_table.

(* polyseed_inject as translated (release build): the table in place afterwards is a copy of the one handed in, NULL time / alloc / free replaced each by its own libc default, every entry replaced, nothing kept from the previous table *)
Theorem C18_code_tie_inject :
  forall r k z c d t a f r0 k0 z0 c0 d0 t0 a0 f0 : Z,
         CApi.polyseed_inject r k z c d t a f r0 k0 z0 c0 d0 t0 a0 f0 =
         (r, k, z, c, d, if (t =? 0)%Z then LIBC_TIME else t, if (a =? 0)%Z then LIBC_MALLOC else a,
          if (f =? 0)%Z then LIBC_FREE else f).
Proof. exact @tie_inject. Qed.
Print Assumptions C18_code_tie_inject.
