(* What a call on a HELD seed does is independent of the feature set enabled at the time of the call (model level;
   CodeMachine.code_held_independent carries it to the translated code).  Found worth stating by four independent
   seeded changes (C04-f, C10-f, C03-g, C12-g) that all hid a dependence on `reserved_features` in such a call. *)
From PS Require Import Base GFDefs PackDefs StoreDefs MiscDefs StrDefs LangDefs ApiDefs.
Local Open Scope N_scope.

(* ops that USE a seed the caller already holds (or no seed at all): everything but injection, enabling and the
   four constructors *)
Definition uses_held (o : op) : bool :=
  match o with
  | OpEncode _ _ _ | OpStore _ | OpCrypt _ _ | OpKeygen _ _ _ | OpGetBirthday _ | OpGetFeature _ _
  | OpIsEncrypted _ | OpFree _ | OpFreeNull => true
  | _ => false
  end.

Definition with_reserved (r : N) (st : state) : state :=
  mkstate (st_deps st) r (st_heap st) (st_next st).

Lemma held_independent sgn langs st r o : uses_held o = true ->
  step sgn langs (with_reserved r st) o =
  (with_reserved r (fst (fst (step sgn langs st o))), snd (fst (step sgn langs st o)), snd (step sgn langs st o)).
Proof.
  intros H. destruct o; try discriminate H; unfold step, with_reserved;
    cbn [st_deps st_reserved st_heap st_next];
    repeat match goal with
    | |- context [match ?x with _ => _ end] =>
        match x with
        | heap_get _ _ => destruct x
        | nth_error _ _ => destruct x
        | poly_of _ _ => destruct x
        | write_phrase _ _ => destruct x
        | nfkd_lazy _ _ => destruct x as [[? ?] ?]
        | dp_nfc _ _ => destruct x as [? ?]
        | negb _ => destruct x
        | l_compose _ => destruct x
        end
    end; try reflexivity.
Qed.

(* ... and so for every history of such calls: whatever the enabled set is changed to while seeds are held, every
   later result and every later call of a dependency is the same; only the recorded set itself differs *)
Lemma held_run_independent sgn langs ops : forall st r, forallb uses_held ops = true ->
  run sgn langs (with_reserved r st) ops =
  (with_reserved r (fst (run sgn langs st ops)), snd (run sgn langs st ops)).
Proof.
  induction ops as [|o ops IH]; intros st r H.
  - reflexivity.
  - cbn [forallb] in H. apply andb_prop in H. destruct H as [Ho Hops].
    cbn [run]. rewrite (held_independent sgn langs st r o Ho).
    destruct (step sgn langs st o) as [[st1 out1] ev1]. cbn [fst snd].
    rewrite (IH st1 r Hops).
    destruct (run sgn langs st1 ops) as [stf outs]. reflexivity.
Qed.

(* enabling between two uses changes nothing but the recorded set *)
Lemma enable_then_use sgn langs st m ops : forallb uses_held ops = true ->
  snd (run sgn langs (fst (fst (step sgn langs st (OpEnable m)))) ops) = snd (run sgn langs st ops).
Proof.
  intros H. unfold step. destruct (enable_features m) as [r n]. cbn [fst].
  change (mkstate (st_deps st) r (st_heap st) (st_next st)) with (with_reserved r st).
  rewrite (held_run_independent sgn langs ops st r H). reflexivity.
Qed.
