(* polyseed_encode and write_str of polyseed.c as TRANSLATED (Gen/CApi.v: `pos`/`loc` are offsets into
   str_tmp, the 31 calls of write_str of the unrolled loop, the terminator, the composition or the copy,
   the two wipes) against ApiDefs.step. *)
From Coq Require Import String.
From PS Require Import Base GFDefs PackDefs StoreDefs MiscDefs StrDefs LangDefs ApiDefs SpecDefs SpecApi.
From PS Require Import GFProofs MiscProofs CoinProofs PackProofs PackTheorems StoreProofs SeedProofs ApiLemmas.
From PS Require Import StrProofs LangData CTieBase CTieTac CTieGF CTiePack CTieLang CTieStr CTieSplit CTieApi.
From PS.Gen Require Import Consts PrivConsts Langs.
From PS.Gen Require CFuns CApi.
Local Open Scope N_scope.

Lemma ord_mod sgn c : (ord sgn c mod 256)%Z = zb c.
Proof. destruct sgn; destruct c; reflexivity. Qed.
Lemma ord_nul sgn c : (ord sgn c =? 0)%Z = Byte.eqb c x00.
Proof. destruct sgn; destruct c; reflexivity. Qed.

Lemma upd_app_repeat (a : list Z) k v : (1 <= k)%nat ->
  CFuns.upd (a ++ repeat 0%Z k) (length a) v = a ++ v :: repeat 0%Z (k - 1).
Proof.
  intros H. destruct k as [|k]; [lia|]. cbn [repeat]. rewrite upd_mid. replace (S k - 1)%nat with k by lia. reflexivity.
Qed.

Lemma tie_write_str fuel sgn M : forall w a, no_nul w -> (length a + length w <= M)%nat -> (length w + 1 <= fuel)%nat ->
  CApi.write_str fuel sgn (zs a ++ repeat 0%Z (M - length a)) (Z.of_nat (length a)) (zs w) =
  Some (zs (a ++ w) ++ repeat 0%Z (M - length (a ++ w)), Z.of_nat (length (a ++ w))).
Proof.
  intros w a Hn Hl Hf. unfold CApi.write_str. cbv zeta.
  match goal with |- context [CFuns.whileF fuel ?c ?b _] => set (C := c); set (B := b) end.
  assert (L : forall w a f, no_nul w -> (length a + length w <= M)%nat -> (length w + 1 <= f)%nat ->
    CFuns.whileF f C B (zs a ++ repeat 0%Z (M - length a), Z.of_nat (length a), zs w) =
    Some (zs (a ++ w) ++ repeat 0%Z (M - length (a ++ w)), Z.of_nat (length (a ++ w)), [])).
  { clear. induction w as [|c w IH]; intros a f Hn Hl Hf.
    - destruct f as [|f]; [cbn in Hf; lia|]. rewrite app_nil_r. reflexivity.
    - destruct f as [|f]; [cbn in Hf; lia|]. rewrite whileF_S. unfold C at 1. cbv beta iota.
      cbn [zs map]. rewrite rdc_cons, ord_nul. apply no_nul_cons in Hn. destruct Hn as [Hc Hn]. rewrite Hc. cbn [negb].
      unfold B at 1. cbv beta iota zeta. rewrite rdc_cons, ord_mod, Nat2Z.id. cbn [tl].
      replace (length a) with (length (zs a)) at 2 by (unfold zs; apply map_length).
      rewrite upd_app_repeat by (cbn [length] in Hl; lia).
      replace (zs a ++ zb c :: repeat 0%Z (M - length a - 1)) with (zs (a ++ [c]) ++ repeat 0%Z (M - length (a ++ [c])))
        by (unfold zs; rewrite map_app, <- app_assoc, app_length; cbn [map app length]; do 3 f_equal; lia).
      replace (Z.of_nat (length a) + 1)%Z with (Z.of_nat (length (a ++ [c]))) by (rewrite app_length; cbn [length]; lia).
      change (map zb w) with (zs w).
      rewrite (IH (a ++ [c]) f Hn); [rewrite <- app_assoc; reflexivity | rewrite app_length; cbn [length] in *; lia | cbn [length] in Hf; lia]. }
  rewrite (L w a fuel Hn Hl Hf). reflexivity.
Qed.

Lemma sep_nonul L : In L langs -> no_nul (l_separator L).
Proof.
  intros H.
  assert (F : forallb (fun L => no_nul_b (l_separator L)) langs = true) by (vm_compute; reflexivity).
  rewrite forallb_forall in F. specialize (F L H). unfold no_nul_b in F. apply negb_true_iff in F.
  intros I. assert (T : existsb (Byte.eqb x00) (l_separator L) = true); [|congruence].
  apply existsb_exists. exists x00. split; [exact I | reflexivity].
Qed.

Lemma word_nonul L j : In L langs -> no_nul (nth j (l_words L) []).
Proof.
  intros H. pose proof (words_nonul L H) as F. destruct (Nat.lt_ge_cases j (length (l_words L))) as [Hj|Hj].
  - rewrite Forall_forall in F. apply F, nth_In, Hj.
  - rewrite nth_overflow by exact Hj. intros [].
Qed.

(* the injected composer as the translated code calls it: it reads the C string in str_tmp and writes a C string *)
Definition znfc (dp : deps) : list Z -> list Z * Z :=
  fun buf => let r := dp_nfc dp (bytes_of (CApi.cstr buf)) in (zs (fst r) ++ [0%Z], zN (snd r)).

Lemma cstr_repeat s k : no_nul s -> CApi.cstr (zs s ++ repeat 0%Z k) = zs s.
Proof. intros H. apply cstr_zs; [exact H|]. destruct k; [left; reflexivity | right; eexists; reflexivity]. Qed.

Lemma no_nul_app_intro a b : no_nul a -> no_nul b -> no_nul (a ++ b).
Proof. unfold no_nul. intros Ha Hb I. apply in_app_or in I. destruct I; [apply Ha | apply Hb]; assumption. Qed.

Lemma upd_zero_same (a : list Z) k : (1 <= k)%nat -> CFuns.upd (a ++ repeat 0%Z k) (length a) 0%Z = a ++ repeat 0%Z k.
Proof. intros H. rewrite upd_app_repeat by exact H. destruct k; [lia|]. cbn [repeat]. replace (S k - 1)%nat with k by lia. reflexivity. Qed.

Lemma firstn_zs_repeat s k : (1 <= k)%nat -> firstn (length s + 1) (zs s ++ repeat 0%Z k) = zs s ++ [0%Z].
Proof.
  intros H. destruct k; [lia|]. cbn [repeat].
  replace (zs s ++ 0%Z :: repeat 0%Z k) with ((zs s ++ [0%Z]) ++ repeat 0%Z k) by (rewrite <- app_assoc; reflexivity).
  replace (length s + 1)%nat with (length (zs s ++ [0%Z])) by (rewrite app_length; unfold zs; rewrite map_length; reflexivity).
  rewrite firstn_app, Nat.sub_diag, firstn_O, app_nil_r. apply firstn_all.
Qed.

Section Encode.
  Variables (sgn : bool) (st : state) (fuel : nat) (li : nat) (L : lang).
  Hypothesis HL : nth_error langs li = Some L.
  Hypothesis Hfw : forall j, (length (nth j (l_words L) []) + 1 <= fuel)%nat.
  Hypothesis Hfs : (length (l_separator L) + 1 <= fuel)%nat.
  Hypothesis Hnfc : forall x, snd (dp_nfc (st_deps st) x) < 2 ^ 64.
  Let dp := st_deps st.
  Let LW : Z -> Z -> list Z := fun _ i => zs (nth (Z.to_nat i) (l_words L) []).
  Let LS : Z -> list Z := fun _ => zs (l_separator L).
  Let LC : Z -> Z := fun _ => if l_compose L then 1%Z else 0%Z.

  Theorem tie_encode h d coin out0 : heap_get (st_heap st) h = Some d -> Canon d -> d_checksum d < 2048 -> coin < 2048 ->
    (1 <= length out0)%nat ->
    let '(st', out, evs) := step sgn langs st (OpEncode h li coin) in
    match out with
    | OutStr o nn =>
      exists cevs rest,
        CApi.polyseed_encode fuel sgn (znfc dp) LW LS LC (zN (d_birthday d)) (zN (d_features d)) (map zN (d_secret d))
          (zN (d_checksum d)) (Z.of_nat li) (zN coin) out0 = Some (cevs, zs o ++ 0%Z :: rest, zN nn) /\
        evs_of dp cevs = evs /\ st' = st
    | _ => True     (* the mirror's fault value: the phrase does not fit str_tmp (excluded by C17) *)
    end.
  Proof.
    intros Hg HC Hck Hcoin Hout. cbn [step]. rewrite Hg, HL. fold dp.
    assert (InL : In L langs) by (apply nth_error_In in HL; exact HL).
    rewrite (canon_poly_of d _ HC).
    destruct (spec_data_words_wf (abs_data d)) as [W Len].
    destruct (spec_data_words (abs_data d)) as [|x1 [|x2 [|x3 [|x4 [|x5 [|x6 [|x7 [|x8 [|x9 [|x10 [|x11 [|x12 [|x13 [|x14 [|x15 [|?]]]]]]]]]]]]]]]] eqn:ESW; try discriminate.
    clear Len.
    unfold wf in W.
    repeat match goal with H : Forall _ (_ :: _) |- _ =>
      let a := fresh "A" in let b := fresh "F" in (apply Forall_cons_iff in H; destruct H as [a b]) end.
    cbn [xor_coin].
    assert (Hx1 : N.lxor x1 coin < 2048) by (apply (lxor_lt_pow2 x1 coin 11); assumption).
    replace (forallb (fun c => c <? LANG_SIZE) (d_checksum d :: N.lxor x1 coin :: x2 :: x3 :: x4 :: x5 :: x6 :: x7 :: x8 :: x9 :: x10 :: x11 :: x12 :: x13 :: x14 :: x15 :: [])) with true
      by (symmetry; cbn [forallb]; change LANG_SIZE with 2048; repeat (rewrite (proj2 (N.ltb_lt _ _)) by assumption); reflexivity).
    cbn [negb map].
    unfold write_phrase. cbv zeta.
    set (w0 := nth (N.to_nat (d_checksum d)) (l_words L) []).
    set (w1 := nth (N.to_nat (N.lxor x1 coin)) (l_words L) []).
    set (w2 := nth (N.to_nat x2) (l_words L) []).
    set (w3 := nth (N.to_nat x3) (l_words L) []).
    set (w4 := nth (N.to_nat x4) (l_words L) []).
    set (w5 := nth (N.to_nat x5) (l_words L) []).
    set (w6 := nth (N.to_nat x6) (l_words L) []).
    set (w7 := nth (N.to_nat x7) (l_words L) []).
    set (w8 := nth (N.to_nat x8) (l_words L) []).
    set (w9 := nth (N.to_nat x9) (l_words L) []).
    set (w10 := nth (N.to_nat x10) (l_words L) []).
    set (w11 := nth (N.to_nat x11) (l_words L) []).
    set (w12 := nth (N.to_nat x12) (l_words L) []).
    set (w13 := nth (N.to_nat x13) (l_words L) []).
    set (w14 := nth (N.to_nat x14) (l_words L) []).
    set (w15 := nth (N.to_nat x15) (l_words L) []).
    set (sep := l_separator L).
    set (s := join sep [w0; w1; w2; w3; w4; w5; w6; w7; w8; w9; w10; w11; w12; w13; w14; w15]).
    destruct (N.of_nat (length s) <? STR_SIZE) eqn:Efit; [|exact I].
    apply N.ltb_lt in Efit. change STR_SIZE with 544 in Efit.
    assert (Hns : no_nul sep) by (apply sep_nonul, InL).
    assert (Hn0 : no_nul w0) by (apply word_nonul, InL).
    assert (Hn1 : no_nul w1) by (apply word_nonul, InL).
    assert (Hn2 : no_nul w2) by (apply word_nonul, InL).
    assert (Hn3 : no_nul w3) by (apply word_nonul, InL).
    assert (Hn4 : no_nul w4) by (apply word_nonul, InL).
    assert (Hn5 : no_nul w5) by (apply word_nonul, InL).
    assert (Hn6 : no_nul w6) by (apply word_nonul, InL).
    assert (Hn7 : no_nul w7) by (apply word_nonul, InL).
    assert (Hn8 : no_nul w8) by (apply word_nonul, InL).
    assert (Hn9 : no_nul w9) by (apply word_nonul, InL).
    assert (Hn10 : no_nul w10) by (apply word_nonul, InL).
    assert (Hn11 : no_nul w11) by (apply word_nonul, InL).
    assert (Hn12 : no_nul w12) by (apply word_nonul, InL).
    assert (Hn13 : no_nul w13) by (apply word_nonul, InL).
    assert (Hn14 : no_nul w14) by (apply word_nonul, InL).
    assert (Hn15 : no_nul w15) by (apply word_nonul, InL).
    (* the translated code *)
    unfold CApi.polyseed_encode. cbv beta iota zeta.
    rewrite (Z.mod_small (zN (d_checksum d))) by lia.
    change [zN (d_checksum d); 0; 0; 0; 0; 0; 0; 0; 0; 0; 0; 0; 0; 0; 0; 0]%Z
      with (map zN [d_checksum d; 0; 0; 0; 0; 0; 0; 0; 0; 0; 0; 0; 0; 0; 0; 0]).
    rewrite (tie_data_to_poly d [d_checksum d; 0; 0; 0; 0; 0; 0; 0; 0; 0; 0; 0; 0; 0; 0; 0] HC eq_refl). cbn [hd].
    rewrite ESW. cbn [map nth].
    rewrite (Z.mod_small (zN coin)) by lia. rewrite <- zN_lxor. rewrite (Z.mod_small (zN (N.lxor x1 coin))) by lia.
    unfold LW, LS. rewrite <- !(Z_N_nat (zN _)), !N2Z.id.
    fold w0 w1 w2 w3 w4 w5 w6 w7 w8 w9 w10 w11 w12 w13 w14 w15 sep.
    change (CApi.write_str fuel sgn (repeat 0%Z 544) 0 (zs w0))
      with (CApi.write_str fuel sgn (zs [] ++ repeat 0%Z (544 - length (@nil byte))) (Z.of_nat (length (@nil byte))) (zs w0)).
    assert (Ls : length s = (length w0 + (length sep + (length w1 + (length sep + (length w2 + (length sep + (length w3 + (length sep + (length w4 + (length sep + (length w5 + (length sep + (length w6 + (length sep + (length w7 + (length sep + (length w8 + (length sep + (length w9 + (length sep + (length w10 + (length sep + (length w11 + (length sep + (length w12 + (length sep + (length w13 + (length sep + (length w14 + (length sep + (length w15)))))))))))))))))))))))))))))))%nat) by (unfold s; cbn [join]; rewrite !app_length; reflexivity).
    assert (Lb : (length s < 544)%nat) by lia.
    repeat match goal with
    | |- context [CApi.write_str fuel sgn (zs ?a ++ repeat 0%Z (544 - length ?a)) (Z.of_nat (length ?a)) (zs ?w)] =>
      rewrite (tie_write_str fuel sgn 544 w a)
        by (first [assumption | exact Hfs | apply Hfw | rewrite ?app_length; cbn [length]; lia]);
      cbv beta iota
    end.
    match goal with |- context [CFuns.upd (zs ?a ++ _) _ _] => set (AA := a) in * end.
    assert (EA : AA = s) by (unfold AA, s; cbn [join app]; rewrite <- !app_assoc; reflexivity).
    clearbody AA. subst AA.
    assert (Nns : no_nul s) by (unfold s; cbn [join]; repeat (apply no_nul_app_intro; [assumption|]); assumption).
    rewrite Nat2Z.id.
    replace (CFuns.upd (zs s ++ repeat 0%Z (544 - length s)) (length s) 0%Z) with (zs s ++ repeat 0%Z (544 - length s))
      by (symmetry; replace (length s) with (length (zs s)) at 2 by (unfold zs; apply map_length); apply upd_zero_same; lia).
    unfold LC. destruct (l_compose L).
    - change (negb (1 =? 0)%Z) with true. cbv beta iota.
      unfold znfc. rewrite (cstr_repeat s _ Nns), bytes_of_zs. fold dp.
      pose proof (Hnfc s) as Hn. fold dp in Hn. destruct (dp_nfc dp s) as [o n]. cbn [fst snd] in *.
      rewrite (Z.mod_small (zN n)) by lia.
      do 2 eexists. split; [reflexivity|]. split; [|reflexivity].
      unfold evs_of. cbn [flat_map ev_of app cobj]. rewrite (cstr_repeat s _ Nns), bytes_of_zs. reflexivity.
    - change (negb (0 =? 0)%Z) with false. cbv beta iota.
      rewrite (Z.mod_small (Z.of_nat (length s))) by lia.
      rewrite (Z.mod_small (Z.of_nat (length s) + 1)) by lia.
      replace (Z.to_nat (Z.of_nat (length s) + 1)) with (length s + 1)%nat by lia.
      rewrite (firstn_zs_repeat s) by lia.
      exists [CApi.CWipe "poly" (zN sizeof_poly); CApi.CWipe "str_tmp" 544], (skipn (length s + 1) out0).
      replace ((zs s ++ [0%Z]) ++ skipn (length s + 1) out0) with (zs s ++ 0%Z :: skipn (length s + 1) out0)
        by (rewrite <- app_assoc; reflexivity).
      split; [rewrite nat_N_Z; reflexivity|]. split; reflexivity.
  Qed.
End Encode.
