(* C19 - the tie to the code: theorems about the Gallina that tools/c2coq.py generates from /repo's CURRENT
   sources on every run (Gen/CFuns.v, Gen/CApi.v).  Kept apart from Properties_C19.v so that a change to the C code
   which breaks a tie leaves the theorems about the model standing, and the other way round. *)
From PS Require Import Base LangDefs SpecDefs LangProofs LangData ApiDefs RefineProofs SgnProofs.
From PS Require Import CTieLang.
From PS.Gen Require CFuns.
From PS.Gen Require Import Langs.

(* the translated comparers of the current lang.c compute the mirror comparer for BOTH settings of
   `sgn` (the parameter `sgn` of the translation is how a plain char read through a pointer is
   widened); with C19_search_sgn_independent the search result is the same in both *)
Theorem C19_code_tie : forall sgn L key elm fuel, no_nul key ->
  (length key + 2 <= fuel)%nat -> (length elm + 2 <= fuel)%nat ->
  c_comparer fuel sgn L key elm = Some (comparer sgn L key elm).
Proof. exact tie_comparer. Qed.
Print Assumptions C19_code_tie.
