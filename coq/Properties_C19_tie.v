(* C19 - the tie to the code: theorems about the Gallina that tools/c2coq.py generates from /repo's CURRENT
   sources on every run (Gen/CFuns.v, Gen/CApi.v).  Kept apart from Properties_C19.v so that a change to the C code
   which breaks a tie leaves the theorems about the model standing, and the other way round. *)
From PS Require Import Base LangDefs SpecDefs LangProofs LangData ApiDefs RefineProofs SgnProofs.
From PS Require Import CTieLang.
From PS.Gen Require CFuns.
From PS.Gen Require Import Langs.

(* the translated comparers of the current lang.c compute the mirror comparer for BOTH settings of
   `sgn` (the parameter `sgn` of the translation is how a plain char read through a pointer is
   widened); with C19_search_sgn_independent the search result is the same in both *)
Theorem C19_code_tie : forall sgn L key elm fuel, no_nul key ->
  (length key + 2 <= fuel)%nat -> (length elm + 2 <= fuel)%nat ->
  c_comparer fuel sgn L key elm = Some (comparer sgn L key elm).
Proof. exact tie_comparer. Qed.
Print Assumptions C19_code_tie.

(* ---- the tie to the code: src/polyseed.c as TRANSLATED on this run (Gen/CApi.v) ---- *)
From Coq Require Import String.
From PS Require Import Base GFDefs PackDefs StoreDefs MiscDefs StrDefs LangDefs ApiDefs SpecDefs SpecApi GFProofs PackProofs StoreProofs RefineProofs RoundTrip TraceProofs FrameProofs SafetyProofs CTieBase CTieLang CTiePhrase CTiePhraseEv CTieSplit CTieApi CTieDecode CTieEncode CTieLocals CTieInject CTieCmp CTieSearch CTieClosed CodeTheorems HeldProofs CodeMachine.
From PS.Gen Require Import Consts PrivConsts Langs.
From PS.Gen Require CFuns.
From PS.Gen Require CApi.

(* str_split as translated reads plain chars through the signedness parameter; for either setting it computes the mirror split, which does not mention signedness *)
Theorem C19_code_tie_split :
  forall (fuel : nat) (sgn : bool) (tail : list Z),
         tail = [] \/ (exists r : list Z, tail = 0%Z :: r) ->
         forall (content : bytes) (words0 : list Z),
         no_nul content ->
         Datatypes.length words0 = 16%nat ->
         (Datatypes.length content + 2 <= fuel)%nat ->
         exists Bf' words' : list Z,
           CApi.str_split fuel sgn (zs content ++ tail) words0 =
           Some (Bf', words', Z.of_nat (fst (str_split content))) /\
           Datatypes.length words' = 16%nat /\ Q Bf' words' (snd (str_split content)).
Proof. exact @tie_str_split. Qed.
Print Assumptions C19_code_tie_split.
