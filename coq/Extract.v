(* Extraction of the executable model (mirror definitions + generated data).
   ExtrOcamlBasic only: bool, option, unit, list, prod, sumbool, sumor mapped
   to OCaml's; N, Z, positive, nat, byte stay the extracted inductive types. *)
From Coq Require Extraction.
From Coq Require Import ExtrOcamlBasic.
From PS Require Import Base GFDefs PackDefs StoreDefs MiscDefs StrDefs LangDefs ApiDefs SpecDefs SpecApi.
From PS.Gen Require Consts PrivConsts Langs.

Extraction Language OCaml.
Extraction "model.ml"
  ApiDefs.step ApiDefs.init_state ApiDefs.mkdeps
  Gen.Langs.langs Gen.Consts.char_signed Gen.Consts.STR_SIZE
  GFDefs.mul2 GFDefs.poly_eval
  SpecApi.astep SpecApi.ainit SpecDefs.accepts_b SpecDefs.spec_find MiscDefs.RESERVED_DEFAULT.
