(* features.h / features.c as translated from the current source against the mirrors. *)
From PS Require Import Base GFDefs MiscDefs SpecDefs GFProofs MiscProofs CTieBase.
From PS.Gen Require Import PrivConsts.
From PS.Gen Require CFuns.
Local Open Scope N_scope.

(* ---- features.h / features.c: every unsigned argument *)
Theorem tie_make_features u : CFuns.make_features (zN u) = zN (make_features u).
Proof. unfold CFuns.make_features, make_features, USER_FEATURES_MASK. rewrite zN_land. reflexivity. Qed.

Theorem tie_get_features f m : CFuns.get_features (zN f) (zN m) = zN (get_features f m).
Proof. unfold CFuns.get_features, get_features, USER_FEATURES_MASK. rewrite !zN_land. reflexivity. Qed.

Theorem tie_is_encrypted f : CFuns.is_encrypted (zN f) = if is_encrypted f then 1%Z else 0%Z.
Proof.
  unfold CFuns.is_encrypted, is_encrypted, ENCRYPTED_MASK. change 16%Z with (zN 16). rewrite <- zN_land.
  destruct (N.eqb_spec (N.land f 16) 0) as [E|E].
  - rewrite E. reflexivity.
  - replace (zN (N.land f 16) =? 0)%Z with false by (symmetry; apply Z.eqb_neq; lia). reflexivity.
Qed.

Theorem tie_features_supported r f :
  CFuns.polyseed_features_supported (zN r) (zN f) = if features_supported r f then 1%Z else 0%Z.
Proof.
  unfold CFuns.polyseed_features_supported, features_supported. rewrite <- zN_land.
  destruct (N.eqb_spec (N.land f r) 0) as [E|E].
  - rewrite E. reflexivity.
  - replace (zN (N.land f r) =? 0)%Z with false by (symmetry; apply Z.eqb_neq; lia). reflexivity.
Qed.

(* polyseed_enable_features: the result depends on the three low bits of the argument only *)
Lemma land_low_bits q r f : r < 8 -> f < 8 -> N.land (8 * q + r) f = N.land r f.
Proof.
  intros Hr Hf. apply N.bits_inj. intro n. rewrite !N.land_spec.
  destruct (N.lt_ge_cases n 3) as [H|H].
  - f_equal. rewrite N.add_comm. change 8 with (2 ^ 3). rewrite N.mul_comm.
    rewrite <- (N.mod_pow2_bits_low (r + q * 2 ^ 3) 3 n H), N.mod_add by discriminate.
    apply N.mod_pow2_bits_low, H.
  - assert (N.testbit f n = false) as ->.
    { destruct (N.eq_dec f 0) as [->|Hz]; [apply N.bits_0|]. apply N.bits_above_log2.
      assert (N.log2 f < 3) by (apply N.log2_lt_pow2; lia). lia. }
    rewrite !andb_false_r. reflexivity.
Qed.

Theorem tie_enable_features r0 m : m < 2 ^ 32 ->
  CFuns.polyseed_enable_features r0 (zN m) = (zN (fst (enable_features m)), zN (snd (enable_features m))).
Proof.
  intros Hm. rewrite enable_spec. cbn [fst snd]. unfold spec_reserved. rewrite !land_7.
  assert (Hr : m mod 8 < 8) by (apply N.mod_lt; discriminate).
  replace (zN m) with (zN (8 * (m / 8) + m mod 8)) by (f_equal; symmetry; apply N.div_mod; discriminate).
  unfold CFuns.polyseed_enable_features. cbv zeta.
  change 1%Z with (zN 1). change 2%Z with (zN 2). change 4%Z with (zN 4).
  rewrite <- !zN_land, !land_low_bits by (try exact Hr; reflexivity).
  revert Hr. generalize (m mod 8). intros r Hr.
  assert (C : r = 0 \/ r = 1 \/ r = 2 \/ r = 3 \/ r = 4 \/ r = 5 \/ r = 6 \/ r = 7) by lia.
  destruct C as [->|[->|[->|[->|[->|[->|[->| ->]]]]]]]; reflexivity.
Qed.
