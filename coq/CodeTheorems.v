(* Theorems stated directly about the code as TRANSLATED on this run (Gen/CApi.v), obtained by composing the ties
   with the theorems about the model: what a caller of the C functions can rely on, for every input. *)
From Coq Require Import String.
From PS Require Import Base GFDefs PackDefs StoreDefs MiscDefs StrDefs LangDefs ApiDefs SpecDefs SpecApi.
From PS Require Import GFProofs MiscProofs PackProofs PackTheorems StoreProofs SeedProofs ApiLemmas RefineProofs ApiTheorems.
From PS Require Import FrameProofs RoundTrip LangData CTieBase CTieLang CTieStore CTieApi CTieCmp CTiePhrase CTieEncode CTieClosed.
From PS.Gen Require Import Consts PrivConsts Langs.
From PS.Gen Require CFuns CApi.
Local Open Scope N_scope.

Lemma le16_bytes u : bytes_ok (le16 u).
Proof.
  unfold le16, bytes_ok. repeat constructor; apply N.mod_lt; discriminate.
Qed.

Lemma store_bytes_ok d : Canon d -> d_checksum d < 2048 -> bytes_ok (data_store d).
Proof.
  intros HC Hc. rewrite (store_layout d HC Hc). unfold bytes_ok.
  repeat (apply Forall_app; split); try apply le16_bytes.
  - unfold POLYSEED_ASCII. repeat constructor.
  - destruct HC as (_&Hb&_). unfold bytes_ok in Hb.
    rewrite <- (firstn_skipn 19 (d_secret d)) in Hb. apply Forall_app in Hb. apply Hb.
  - repeat constructor.
Qed.

(* C06 on the code: what polyseed_store writes for a live seed, polyseed_load turns back into the same struct *)
Theorem code_store_load (sgn : bool) cs a h d st0 gb gf gs gc so0 :
  R cs a -> heap_get (st_heap cs) h = Some d -> spec_supported (as_mask a) (d_features d) = true ->
  exists cevs,
    CApi.polyseed_load (ptr (st_next cs)) CFuns.polyseed_mul2_table (zN (st_reserved cs))
      (CApi.polyseed_store (zN (d_birthday d)) (zN (d_features d)) (map zN (d_secret d)) (zN (d_checksum d)) st0)
      gb gf gs gc so0
    = (cevs, zN (d_birthday d), zN (d_features d), map zN (d_secret d), zN (d_checksum d), ptr (st_next cs), 0%Z) /\
    evs_of (st_deps cs) cevs = [EvAlloc (dp_alloc_libc (st_deps cs)) sizeof_data (Some (st_next cs)); wipe_poly].
Proof.
  intros HR Hg Hs.
  pose proof (heap_get_valid _ _ _ (R_valid _ _ HR) Hg) as V. destruct V as [HC Ek].
  assert (K : d_checksum d < 2048) by (rewrite Ek; apply spec_checksum_lt).
  rewrite (tie_store d st0 HC K).
  pose proof (tie_load sgn langs cs (data_store d) true gb gf gs gc so0 (store_length d HC) (store_bytes_ok d HC K)) as T.
  cbn [step negb] in T. rewrite (load_store d HC K) in T.
  rewrite (canon_poly_of d _ HC), (check_iff_spec _ _ K), Ek, N.eqb_refl in T. cbn [negb] in T.
  rewrite (supported_R cs a _ HR), Hs in T. cbn [negb] in T.
  destruct T as (cevs&b&f&s&c&so&status&E&Ev&Eo&Eh).
  assert (Est : status = 0%Z).
  { destruct (status =? 0)%Z eqn:Z0; [apply Z.eqb_eq, Z0|]. discriminate Eo. }
  subst status. cbn [Z.eqb] in Eh. destruct Eh as (-> & d' & Hh & Ed).
  cbn [st_heap] in Hh. injection Hh as <-.
  unfold zd in Ed. injection Ed as -> -> -> ->.
  exists cevs. split; [exact E | exact Ev].
Qed.

(* C12 on the code: polyseed_crypt applied twice with the same password gives the struct back, byte for byte *)
Theorem code_crypt_twice (sgn : bool) cs a h d pw fuel D :
  R cs a -> heap_get (st_heap cs) h = Some d ->
  no_nul pw -> (length pw + 2 <= fuel)%nat ->
  let dp := st_deps cs in
  let nf := dp_nfkd dp in
  D (zs pw) = (zs (fst (nf pw)), zN (snd (nf pw))) ->
  snd (nf pw) = N.of_nat (length (fst (nf pw))) -> snd (nf pw) < 2 ^ 64 ->
  exists c1 d1 c2,
    CApi.polyseed_crypt fuel sgn D (zkdf dp) CFuns.polyseed_mul2_table
      (zN (d_birthday d)) (zN (d_features d)) (map zN (d_secret d)) (zN (d_checksum d)) (zs pw)
    = Some (c1, zN (d_birthday d1), zN (d_features d1), map zN (d_secret d1), zN (d_checksum d1)) /\
    CApi.polyseed_crypt fuel sgn D (zkdf dp) CFuns.polyseed_mul2_table
      (zN (d_birthday d1)) (zN (d_features d1)) (map zN (d_secret d1)) (zN (d_checksum d1)) (zs pw)
    = Some (c2, zN (d_birthday d), zN (d_features d), map zN (d_secret d), zN (d_checksum d)).
Proof.
  intros HR Hg Hs Hf dp nf HD Hlen Hsz.
  pose proof (heap_get_valid _ _ _ (R_valid _ _ HR) Hg) as V. destruct V as [HC _].
  assert (Hk : forall p n salt sl it kl, bytes_ok (dp_kdf dp p n salt sl it kl)) by (apply (R_dok _ _ HR)).
  pose proof (tie_crypt sgn langs cs h pw d fuel D Hg HC Hs Hf HD Hlen Hsz Hk) as T1.
  pose proof (crypt_twice sgn cs a h d pw HR Hg) as TW. cbv zeta in TW.
  destruct (sim_crypt sgn cs a h pw HR) as [_ R1].
  unfold stp in TW, R1.
  destruct (step sgn langs cs (OpCrypt h pw)) as [[cs1 o1] e1] eqn:E1. cbn [fst snd] in TW, R1.
  destruct T1 as (c1&d1&C1&_&_&H1&_).
  assert (Ed : st_deps cs1 = dp).
  { cbn [step] in E1. rewrite Hg in E1. destruct (nfkd_lazy _ pw) as [[? ?] ?].
    match type of E1 with context [poly_of 0 ?x] => destruct (poly_of 0 x) end; injection E1 as <- _ _; reflexivity. }
  assert (G1 : heap_get (st_heap cs1) h = Some d1) by (rewrite H1, FrameProofs.get_set, N.eqb_refl, Hg; reflexivity).
  pose proof (heap_get_valid _ _ _ (R_valid _ _ R1) G1) as V1. destruct V1 as [HC1 _].
  pose proof (tie_crypt sgn langs cs1 h pw d1 fuel D G1 HC1 Hs Hf) as T2. cbv zeta in T2. rewrite Ed in T2.
  specialize (T2 HD Hlen Hsz Hk).
  destruct (step sgn langs cs1 (OpCrypt h pw)) as [[cs2 o2] e2] eqn:E2. cbn [fst] in TW.
  destruct T2 as (c2&d2&C2&_&_&H2&_).
  rewrite H2, FrameProofs.get_set, N.eqb_refl, G1 in TW. injection TW as ->.
  exists c1, d1, c2. split; [exact C1 | exact C2].
Qed.

(* C01 on the code: the phrase the translated polyseed_encode writes for a live seed, handed (as the C string it is)
   to the translated polyseed_decode_explicit with the same coin and language, gives a new block holding the same
   struct.  The search inside is the translated polyseed_lang_find_word (CTieClosed); hypotheses: libc bsearch, the
   injected normalisers (NormOK: decomposing the published phrase gives back the words joined by single spaces;
   proved for the ASCII lists, C01_premise_ascii), fuel. *)
Theorem code_roundtrip_explicit (sgn : bool) cs a h d li L coin fuel BS D out0 gb gf gs gc so0 :
  R cs a -> heap_get (st_heap cs) h = Some d -> nth_error langs li = Some L -> coin < 2048 ->
  spec_supported (as_mask a) (d_features d) = true ->
  let dp := st_deps cs in
  let P := published dp L (abs_data d) coin in
  NormOK dp L (abs_data d) coin -> no_nul P ->
  (2050 <= fuel)%nat -> (length P + 2 <= fuel)%nat ->
  (forall li L key, nth_error langs li = Some L -> no_nul key ->
     BS (Z.of_nat li) (zs key) 2048%Z (CApi.get_comparer (CTieCmp.flag (l_has_prefix L)) (CTieCmp.flag (l_has_accents L)) (Z.of_nat li)) =
     CTiePhrase.enc (bsearch_loop 13 (fun j => comparer sgn L key (nth j (l_words L) [])) 0 LANG_SIZE_nat)) ->
  (forall x, snd (dp_nfc dp x) < 2 ^ 64) ->
  D (zs P) = (zs (fst (dp_nfkd dp P)), zN (snd (dp_nfkd dp P))) -> no_nul (fst (dp_nfkd dp P)) ->
  (length (fst (dp_nfkd dp P)) + 2 <= fuel)%nat -> (1 <= length out0)%nat ->
  exists c1 rest n c2,
    CApi.polyseed_encode fuel sgn (CTieEncode.znfc dp)
      (fun _ i => zs (nth (Z.to_nat i) (l_words L) [])) (fun _ => zs (l_separator L)) (fun _ => if l_compose L then 1%Z else 0%Z)
      (zN (d_birthday d)) (zN (d_features d)) (map zN (d_secret d)) (zN (d_checksum d)) (Z.of_nat li) (zN coin) out0
    = Some (c1, zs P ++ 0%Z :: rest, n) /\
    CApi.polyseed_decode_explicit fuel sgn D (CTieClosed.ext_code sgn fuel BS) (ptr (st_next cs)) CFuns.polyseed_mul2_table
      (zN (st_reserved cs)) (zs P) (zN coin) (Z.of_nat li) gb gf gs gc so0
    = Some (c2, zN (d_birthday d), zN (d_features d), map zN (d_secret d), zN (d_checksum d), ptr (st_next cs), 0%Z).
Proof.
  intros HR Hg HL Hc Hsup dp P HN Hnn Hfuel HfP HBS Hnfc HD Hnn2 Hfn Hout.
  pose proof (heap_get_valid _ _ _ (R_valid _ _ HR) Hg) as V. destruct V as [HC Ek].
  assert (K : d_checksum d < 2048) by (rewrite Ek; apply spec_checksum_lt).
  assert (InL : In L langs) by (apply nth_error_In in HL; exact HL).
  destruct (roundtrip_explicit sgn cs a h d li L coin HR Hg HL Hc Hsup HN Hnn) as (n & E1 & E2 & E3).
  fold dp in E1, E2, E3. fold P in E1, E2, E3.
  (* encode *)
  assert (Hfw : forall j, (length (nth j (l_words L) []) + 1 <= fuel)%nat) by (intros j; pose proof (CTieClosed.words_short L j InL); lia).
  assert (Hfs : (length (l_separator L) + 1 <= fuel)%nat).
  { assert (F : forallb (fun L => Nat.leb (length (l_separator L)) 8) langs = true) by (vm_compute; reflexivity).
    rewrite forallb_forall in F. specialize (F L InL). apply Nat.leb_le in F.
    apply (Nat.le_trans _ (8 + 1)); [apply Nat.add_le_mono_r; exact F | lia]. }
  pose proof (CTieEncode.tie_encode sgn cs fuel li L HL Hfw Hfs Hnfc h d coin out0 Hg HC K Hc Hout) as TE.
  unfold outp in E1.
  destruct (step sgn langs cs (OpEncode h li coin)) as [[st1 o1] e1]. cbn [fst snd] in E1. subst o1.
  destruct TE as (c1 & rest & CE & _ & _).
  (* decode *)
  pose proof (CTieClosed.tie_decode_explicit_closed sgn fuel BS Hfuel HBS cs D P coin li L true gb gf gs gc so0 HL Hnn Hc HfP HD Hnn2 Hfn) as TD.
  unfold outp, stp in E2, E3.
  destruct (step sgn langs cs (OpDecodeExplicit P coin li true)) as [[st2 o2] e2]. cbn [fst snd] in E2, E3. subst o2.
  destruct TD as (c2 & b & f & s & c & so & status & CD & _ & Eo & Eh).
  assert (Est : status = 0%Z) by (destruct (status =? 0)%Z eqn:Z0; [apply Z.eqb_eq, Z0 | discriminate Eo]).
  subst status. cbn [Z.eqb] in Eh. destruct Eh as (-> & d' & Hh & Ed).
  rewrite Hh in E3. cbn [heap_get] in E3. rewrite N.eqb_refl in E3. injection E3 as ->.
  unfold zd in Ed. injection Ed as -> -> -> ->.
  exists c1, rest, (zN n), c2. split; [exact CE | exact CD].
Qed.
