(* Theorems stated directly about the code as TRANSLATED on this run (Gen/CApi.v), obtained by composing the ties
   with the theorems about the model: what a caller of the C functions can rely on, for every input. *)
From Coq Require Import String.
From PS Require Import Base GFDefs PackDefs StoreDefs MiscDefs StrDefs LangDefs ApiDefs SpecDefs SpecApi.
From PS Require Import GFProofs MiscProofs PackProofs PackTheorems StoreProofs SeedProofs ApiLemmas RefineProofs ApiTheorems.
From PS Require Import FrameProofs CTieBase CTieLang CTieStore CTieApi.
From PS.Gen Require Import Consts PrivConsts Langs.
From PS.Gen Require CFuns CApi.
Local Open Scope N_scope.

Lemma le16_bytes u : bytes_ok (le16 u).
Proof.
  unfold le16, bytes_ok. repeat constructor; apply N.mod_lt; discriminate.
Qed.

Lemma store_bytes_ok d : Canon d -> d_checksum d < 2048 -> bytes_ok (data_store d).
Proof.
  intros HC Hc. rewrite (store_layout d HC Hc). unfold bytes_ok.
  repeat (apply Forall_app; split); try apply le16_bytes.
  - unfold POLYSEED_ASCII. repeat constructor.
  - destruct HC as (_&Hb&_). unfold bytes_ok in Hb.
    rewrite <- (firstn_skipn 19 (d_secret d)) in Hb. apply Forall_app in Hb. apply Hb.
  - repeat constructor.
Qed.

(* C06 on the code: what polyseed_store writes for a live seed, polyseed_load turns back into the same struct *)
Theorem code_store_load (sgn : bool) cs a h d st0 gb gf gs gc so0 :
  R cs a -> heap_get (st_heap cs) h = Some d -> spec_supported (as_mask a) (d_features d) = true ->
  exists cevs,
    CApi.polyseed_load (ptr (st_next cs)) CFuns.polyseed_mul2_table (zN (st_reserved cs))
      (CApi.polyseed_store (zN (d_birthday d)) (zN (d_features d)) (map zN (d_secret d)) (zN (d_checksum d)) st0)
      gb gf gs gc so0
    = (cevs, zN (d_birthday d), zN (d_features d), map zN (d_secret d), zN (d_checksum d), ptr (st_next cs), 0%Z) /\
    evs_of (st_deps cs) cevs = [EvAlloc (dp_alloc_libc (st_deps cs)) sizeof_data (Some (st_next cs)); wipe_poly].
Proof.
  intros HR Hg Hs.
  pose proof (heap_get_valid _ _ _ (R_valid _ _ HR) Hg) as V. destruct V as [HC Ek].
  assert (K : d_checksum d < 2048) by (rewrite Ek; apply spec_checksum_lt).
  rewrite (tie_store d st0 HC K).
  pose proof (tie_load sgn langs cs (data_store d) true gb gf gs gc so0 (store_length d HC) (store_bytes_ok d HC K)) as T.
  cbn [step negb] in T. rewrite (load_store d HC K) in T.
  rewrite (canon_poly_of d _ HC), (check_iff_spec _ _ K), Ek, N.eqb_refl in T. cbn [negb] in T.
  rewrite (supported_R cs a _ HR), Hs in T. cbn [negb] in T.
  destruct T as (cevs&b&f&s&c&so&status&E&Ev&Eo&Eh).
  assert (Est : status = 0%Z).
  { destruct (status =? 0)%Z eqn:Z0; [apply Z.eqb_eq, Z0|]. discriminate Eo. }
  subst status. cbn [Z.eqb] in Eh. destruct Eh as (-> & d' & Hh & Ed).
  cbn [st_heap] in Hh. injection Hh as <-.
  unfold zd in Ed. injection Ed as -> -> -> ->.
  exists cevs. split; [exact E | exact Ev].
Qed.

(* C12 on the code: polyseed_crypt applied twice with the same password gives the struct back, byte for byte *)
Theorem code_crypt_twice (sgn : bool) cs a h d pw fuel D :
  R cs a -> heap_get (st_heap cs) h = Some d ->
  no_nul pw -> (length pw + 2 <= fuel)%nat ->
  let dp := st_deps cs in
  let nf := dp_nfkd dp in
  D (zs pw) = (zs (fst (nf pw)), zN (snd (nf pw))) ->
  snd (nf pw) = N.of_nat (length (fst (nf pw))) -> snd (nf pw) < 2 ^ 64 ->
  exists c1 d1 c2,
    CApi.polyseed_crypt fuel sgn D (zkdf dp) CFuns.polyseed_mul2_table
      (zN (d_birthday d)) (zN (d_features d)) (map zN (d_secret d)) (zN (d_checksum d)) (zs pw)
    = Some (c1, zN (d_birthday d1), zN (d_features d1), map zN (d_secret d1), zN (d_checksum d1)) /\
    CApi.polyseed_crypt fuel sgn D (zkdf dp) CFuns.polyseed_mul2_table
      (zN (d_birthday d1)) (zN (d_features d1)) (map zN (d_secret d1)) (zN (d_checksum d1)) (zs pw)
    = Some (c2, zN (d_birthday d), zN (d_features d), map zN (d_secret d), zN (d_checksum d)).
Proof.
  intros HR Hg Hs Hf dp nf HD Hlen Hsz.
  pose proof (heap_get_valid _ _ _ (R_valid _ _ HR) Hg) as V. destruct V as [HC _].
  assert (Hk : forall p n salt sl it kl, bytes_ok (dp_kdf dp p n salt sl it kl)) by (apply (R_dok _ _ HR)).
  pose proof (tie_crypt sgn langs cs h pw d fuel D Hg HC Hs Hf HD Hlen Hsz Hk) as T1.
  pose proof (crypt_twice sgn cs a h d pw HR Hg) as TW. cbv zeta in TW.
  destruct (sim_crypt sgn cs a h pw HR) as [_ R1].
  unfold stp in TW, R1.
  destruct (step sgn langs cs (OpCrypt h pw)) as [[cs1 o1] e1] eqn:E1. cbn [fst snd] in TW, R1.
  destruct T1 as (c1&d1&C1&_&_&H1&_).
  assert (Ed : st_deps cs1 = dp).
  { cbn [step] in E1. rewrite Hg in E1. destruct (nfkd_lazy _ pw) as [[? ?] ?].
    match type of E1 with context [poly_of 0 ?x] => destruct (poly_of 0 x) end; injection E1 as <- _ _; reflexivity. }
  assert (G1 : heap_get (st_heap cs1) h = Some d1) by (rewrite H1, FrameProofs.get_set, N.eqb_refl, Hg; reflexivity).
  pose proof (heap_get_valid _ _ _ (R_valid _ _ R1) G1) as V1. destruct V1 as [HC1 _].
  pose proof (tie_crypt sgn langs cs1 h pw d1 fuel D G1 HC1 Hs Hf) as T2. cbv zeta in T2. rewrite Ed in T2.
  specialize (T2 HD Hlen Hsz Hk).
  destruct (step sgn langs cs1 (OpCrypt h pw)) as [[cs2 o2] e2] eqn:E2. cbn [fst] in TW.
  destruct T2 as (c2&d2&C2&_&_&H2&_).
  rewrite H2, FrameProofs.get_set, N.eqb_refl, G1 in TW. injection TW as ->.
  exists c1, d1, c2. split; [exact C1 | exact C2].
Qed.
