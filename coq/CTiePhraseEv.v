(* polyseed_phrase_decode translated twice: as a pure function (Gen/CFuns.v, tied to the mirror in
   CTiePhrase) and with its calls through the dependency table as events (Gen/CApi.v).  The two agree, and
   the events are exactly one wipe of `idx` - on the MULT_LANG return as on the normal one. *)
From Coq Require Import String.
From PS Require Import Base CTieBase.
From PS.Gen Require Import Consts.
From PS.Gen Require CFuns CApi.
Local Open Scope Z_scope.

Lemma whileF_sim {S T} (R : S -> T -> Prop) (c1 : S -> bool) b1 (c2 : T -> bool) b2 :
  (forall s t, R s t -> c1 s = c2 t) ->
  (forall s t, R s t -> c1 s = true ->
     match b1 s, b2 t with Some s', Some t' => R s' t' | None, None => True | _, _ => False end) ->
  forall f s t, R s t ->
    match CFuns.whileF f c1 b1 s, CFuns.whileF f c2 b2 t with
    | Some s', Some t' => R s' t' | None, None => True | _, _ => False end.
Proof.
  intros Hc Hb. induction f as [|f IH]; intros s t HR; cbn [CFuns.whileF]; [exact I|].
  rewrite <- (Hc s t HR). destruct (c1 s) eqn:E; [|exact HR].
  specialize (Hb s t HR E). destruct (b1 s), (b2 t); try contradiction; [apply IH, Hb | exact I].
Qed.

Definition WIPE_IDX : CApi.cev := CApi.CWipe "idx" (Z.of_N sizeof_idx).

Theorem tie_phrase_decode_ev fuel ext ph io lo lo0 :
  CApi.polyseed_phrase_decode fuel ext ph io lo lo0 =
  match CFuns.polyseed_phrase_decode fuel ext ph io lo lo0 with
  | Some (io', lo', r) => Some ([WIPE_IDX], io', lo', r)
  | None => None
  end.
Proof.
  unfold CApi.polyseed_phrase_decode, CFuns.polyseed_phrase_decode. cbv zeta.
  match goal with |- match CFuns.whileF fuel ?c1 ?b1 ?i1 with _ => _ end = match match CFuns.whileF fuel ?c2 ?b2 ?i2 with _ => _ end with _ => _ end =>
    set (C1 := c1); set (B1 := b1); set (C2 := c2); set (B2 := b2); set (I1 := i1); set (I2 := i2) end.
  set (R := fun (s : bool * bool * Z * list CApi.cev * Z * list Z * list Z * Z * Z) (t : bool * bool * Z * Z * list Z * list Z * Z * Z) =>
    let '(b, rf, rv, ev, h, idx, o, l, li) := s in let '(b', rf', rv', h', idx', o', l', li') := t in
    b = b' /\ rf = rf' /\ rv = rv' /\ h = h' /\ idx = idx' /\ o = o' /\ l = l' /\ li = li' /\
    ev = (if rf then [WIPE_IDX] else []) /\ (rf = true -> b = true)).
  assert (HS : match CFuns.whileF fuel C1 B1 I1, CFuns.whileF fuel C2 B2 I2 with
               | Some s', Some t' => R s' t' | None, None => True | _, _ => False end).
  { apply (whileF_sim R).
    - intros [[[[[[[[b rf] rv] ev] h] idx] o] l] li] [[[[[[[b' rf'] rv'] h'] idx'] o'] l'] li'] HR.
      cbv beta iota in HR. destruct HR as (-> & -> & -> & -> & -> & -> & -> & -> & _ & _). reflexivity.
    - intros [[[[[[[[b rf] rv] ev] h] idx] o] l] li] [[[[[[[b' rf'] rv'] h'] idx'] o'] l'] li'] HR HC.
      cbv beta iota in HR. destruct HR as (-> & -> & -> & -> & -> & -> & -> & -> & Hev & Hrb).
      unfold C1 in HC. cbv beta iota in HC. apply andb_prop in HC. destruct HC as [Hb _].
      assert (Erf : rf' = false) by (destruct rf'; [rewrite Hrb in Hb by reflexivity; discriminate | reflexivity]).
      subst rf'. subst ev.
      unfold B1, B2. cbv beta iota zeta.
      match goal with |- context [match CFuns.whileF fuel ?c ?b ?i with _ => _ end] => destruct (CFuns.whileF fuel c b i) as [[[[bi idxi] succ] wi]|] end; [|exact I].
      destruct (negb (negb (succ =? 0))); [cbv beta iota; repeat split; first [reflexivity | discriminate | intros; reflexivity]|].
      destruct (negb (h' =? 0)); cbv beta iota; repeat split; first [reflexivity | discriminate | intros; reflexivity].
    - unfold R, I1, I2. cbv beta iota. repeat split. discriminate. }
  destruct (CFuns.whileF fuel C1 B1 I1) as [[[[[[[[[b rf] rv] ev] h] idx] o] l] li]|],
           (CFuns.whileF fuel C2 B2 I2) as [[[[[[[[b' rf'] rv'] h'] idx'] o'] l'] li']|]; try contradiction; [|reflexivity].
  cbv beta iota in HS. destruct HS as (-> & -> & -> & -> & -> & -> & -> & -> & -> & _).
  destruct rf'; reflexivity.
Qed.
