(* polyseed_inject of dependency.c as TRANSLATED (Gen/CApi.v, release build: the self-test is under
   #ifndef NDEBUG; a table entry is an integer, 0 = NULL; the libc defaults are the codes -1 stdlib_time,
   -2 malloc, -3 free of tools/c2coq.py): the table in place after the call is a copy of the one handed in with
   NULL time / alloc / free replaced by the libc defaults - every entry replaced, each default chosen by its
   own entry only, nothing kept from the table in place before (ApiDefs.step (OpInject d): the state's table
   becomes d, whose three flags say which optional entries were NULL). *)
From Coq Require Import ZArith.
From PS.Gen Require CApi.
Local Open Scope Z_scope.

Definition LIBC_TIME := -1.
Definition LIBC_MALLOC := -2.
Definition LIBC_FREE := -3.

Theorem tie_inject r k z c d t a f r0 k0 z0 c0 d0 t0 a0 f0 :
  CApi.polyseed_inject r k z c d t a f r0 k0 z0 c0 d0 t0 a0 f0 =
  (r, k, z, c, d, (if t =? 0 then LIBC_TIME else t), (if a =? 0 then LIBC_MALLOC else a), (if f =? 0 then LIBC_FREE else f)).
Proof. reflexivity. Qed.
