(* C01 - encoding a seed and decoding the phrase gives back the same seed. *)
From PS Require Import Base PackDefs ApiDefs SpecDefs SpecApi PackProofs PackTheorems ApiLemmas RefineProofs
  ApiTheorems RoundTrip.
From PS Require Import GFProofs.
From PS.Gen Require Import Consts Langs.
Local Open Scope N_scope.

(* For EVERY live seed (any 150-bit secret, any birthday, any feature bits incl. the encrypted bit)
   of EVERY reachable state, EVERY registered language and EVERY coin < 2048:
   polyseed_encode returns the published phrase, and polyseed_decode_explicit of that phrase with
   the same coin and language returns OK and a block holding the SAME STRUCT (secret buffer incl.
   padding, birthday, features, stored check value) - hence the same storage image and the same
   KDF inputs.  Premises: the seed's features are enabled; NormOK = normalising the returned
   phrase yields the sixteen words separated by single spaces (a fact about the injected
   normalisers; proved below for the ASCII lists, evaluated against the real normaliser for the
   others); the phrase is a C string. *)
Theorem C01_roundtrip_explicit : forall sgn cs a h d li L coin,
  R cs a -> heap_get (st_heap cs) h = Some d -> nth_error langs li = Some L -> coin < 2048 ->
  spec_supported (as_mask a) (d_features d) = true -> NormOK (st_deps cs) L (abs_data d) coin ->
  no_nul (published (st_deps cs) L (abs_data d) coin) ->
  exists n,
    outp (step sgn langs cs (OpEncode h li coin)) = OutStr (published (st_deps cs) L (abs_data d) coin) n /\
    let r := step sgn langs cs (OpDecodeExplicit (published (st_deps cs) L (abs_data d) coin) coin li true) in
    outp r = OutStatus ST_OK (Some (st_next cs)) None /\
    heap_get (st_heap (stp r)) (st_next cs) = Some d.
Proof. exact roundtrip_explicit. Qed.
Print Assumptions C01_roundtrip_explicit.

(* automatic detection: the same seed and the language, unless another registered language
   recognises all sixteen words - then, and only then, MULT_LANG *)
Theorem C01_roundtrip_auto : forall sgn cs a h d li L coin,
  R cs a -> heap_get (st_heap cs) h = Some d -> nth_error langs li = Some L -> coin < 2048 ->
  spec_supported (as_mask a) (d_features d) = true -> NormOK (st_deps cs) L (abs_data d) coin ->
  no_nul (published (st_deps cs) L (abs_data d) coin) ->
  let P := published (st_deps cs) L (abs_data d) coin in
  let words := map (spec_word L) (spec_indices (abs_data d) coin) in
  let r := step sgn langs cs (OpDecode P coin true) in
  ((forall li' L', nth_error langs li' = Some L' -> li' <> li -> spec_lookup_all L' words = None) ->
     outp r = OutStatus ST_OK (Some (st_next cs)) (Some li) /\ heap_get (st_heap (stp r)) (st_next cs) = Some d) /\
  ((exists li' L', nth_error langs li' = Some L' /\ li' <> li /\ spec_lookup_all L' words <> None) ->
     outp r = OutStatus ST_MULT_LANG None None).
Proof. exact roundtrip_auto. Qed.
Print Assumptions C01_roundtrip_auto.

(* the normaliser premise holds outright for the lists that are pure ASCII, separated by U+0020
   and not composed (no oracle is called on such a phrase) *)
Theorem C01_premise_ascii : forall D L s coin, In L langs -> ascii_lang L = true -> coin < 2048 -> NormOK D L s coin.
Proof. exact norm_ok_ascii. Qed.
Print Assumptions C01_premise_ascii.

(* which registered lists those are (registry order), and non-vacuity of the MULT_LANG branch: the
   first 16 words shared by the two Chinese lists are recognised by both *)
Example C01_ascii_lists : map ascii_lang langs = [true; false; false; false; false; true; true; true; false; false].
Proof. vm_compute. reflexivity. Qed.

(* the packing round trip underneath, on the concrete struct *)
Theorem C01_unpack_pack : forall d, Canon d ->
  exists ws, data_to_poly_full d = Some (ws, true) /\ ws = spec_data_words (abs_data d) /\
             (forall ck, poly_to_data_full (ck :: ws) = Some (set_ck d ck, true)).
Proof. exact canon_pack. Qed.
Print Assumptions C01_unpack_pack.
