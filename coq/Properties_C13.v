(* C13 - any sequence of API calls behaves like the abstract seed model.
   Concrete machine: ApiDefs.step (C-like structs: 32-byte secret buffer, stored check value,
   reserved-feature mask, dependency table, event traces).  Abstract machine: SpecApi.astep
   (a seed is secret, birthday, features; built from SpecDefs only). *)
From PS Require Import Base PackDefs ApiDefs SpecDefs SpecApi PackProofs PackTheorems ApiLemmas RefineProofs
  ApiTheorems TraceProofs FrameProofs.
From PS Require Import GFProofs CTiePack.
From PS.Gen Require CFuns.
From PS.Gen Require Import Langs.
Local Open Scope N_scope.

(* every op of every finite history produces the abstract machine's output, and the final states
   are related (same table, same mask, same handles, each struct's abstraction = the abstract seed) *)
Theorem C13_refinement : forall (sgn : bool) (ops : list op), Forall op_ok ops ->
  map fst (snd (run sgn langs init_state ops)) = snd (arun langs ainit ops) /\
  R (fst (run sgn langs init_state ops)) (fst (arun langs ainit ops)).
Proof. exact refinement. Qed.
Print Assumptions C13_refinement.

(* one step, from ANY related pair of states *)
Theorem C13_step : forall sgn cs a o, R cs a -> op_ok o ->
  snd (fst (step sgn langs cs o)) = snd (astep langs a o) /\
  R (fst (fst (step sgn langs cs o))) (fst (astep langs a o)).
Proof. exact step_refines. Qed.
Print Assumptions C13_step.

(* in every reachable state every live seed is canonical (padding zero, two top bits of byte 18
   clear, birthday < 1024, features < 32) and its stored check value is the evaluation of its data *)
Theorem C13_canonical : forall sgn ops, Forall op_ok ops ->
  Forall (fun p => Canon (snd p) /\ d_checksum (snd p) = spec_checksum (abs_data (snd p)))
         (st_heap (fst (run sgn langs init_state ops))).
Proof. exact reachable_valid. Qed.
Print Assumptions C13_canonical.

(* two valid structs with the same (secret, birthday, features) are equal byte for byte *)
Theorem C13_struct_determined : forall d1 d2, Valid d1 -> Valid d2 -> abs_data d1 = abs_data d2 -> d1 = d2.
Proof. exact valid_abs_inj. Qed.
Print Assumptions C13_struct_determined.

(* isolation: a call on seed h changes no other seed *)
Theorem C13_isolation : forall sgn ls cs o h k, Distinct cs -> touches o = Some h -> k <> h ->
  heap_get (st_heap (TraceProofs.stp (step sgn ls cs o))) k = heap_get (st_heap cs) k.
Proof. exact handle_frame. Qed.
Print Assumptions C13_isolation.

(* no reliance on what the allocator returned: polyseed_poly_to_data as TRANSLATED from /repo's current
   gf.c on this run fills every field of the struct - all 32 secret bytes, padding included - with the
   same values whatever the block held before (`sec` is arbitrary) *)
Theorem C13_code_tie_unpack : forall c sec d, length c = 16%nat -> wf (tl c) -> hd 0 c < 2 ^ 64 ->
  poly_to_data_full c = Some (d, true) ->
  CFuns.polyseed_poly_to_data (map Z.of_N c) sec =
  (Z.of_N (d_birthday d), Z.of_N (d_features d), map Z.of_N (d_secret d), Z.of_N (d_checksum d)).
Proof. exact tie_poly_to_data. Qed.
Print Assumptions C13_code_tie_unpack.

(* non-vacuity: the initial state is related, and a history that creates, encrypts, stores and
   reloads a seed is well-formed and leaves two live, valid seeds *)
Example C13_witness :
  let ops := [OpEnable 1; OpCreate 1 (map N.of_nat (seq 1 19)) 1700000000 true; OpCrypt 0 [x70; x77];
              OpStore 0; OpLoad (match snd (fst (step true langs (fst (run true langs init_state
                 [OpEnable 1; OpCreate 1 (map N.of_nat (seq 1 19)) 1700000000 true; OpCrypt 0 [x70; x77]])) (OpStore 0)))
                 with OutBytes b => b | _ => [] end) true] in
  length (st_heap (fst (run true langs init_state ops))) = 2%nat.
Proof. vm_compute. reflexivity. Qed.
