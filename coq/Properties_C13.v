(* C13 - any sequence of API calls behaves like the abstract seed model.
   Concrete machine: ApiDefs.step (C-like structs: 32-byte secret buffer, stored check value,
   reserved-feature mask, dependency table, event traces).  Abstract machine: SpecApi.astep
   (a seed is secret, birthday, features; built from SpecDefs only). *)
From PS Require Import Base PackDefs ApiDefs SpecDefs SpecApi PackProofs PackTheorems ApiLemmas RefineProofs
  ApiTheorems TraceProofs FrameProofs.
From PS Require Import GFProofs.
From PS.Gen Require Import Langs.
Local Open Scope N_scope.

(* every op of every finite history produces the abstract machine's output, and the final states
   are related (same table, same mask, same handles, each struct's abstraction = the abstract seed) *)
Theorem C13_refinement : forall (sgn : bool) (ops : list op), Forall op_ok ops ->
  map fst (snd (run sgn langs init_state ops)) = snd (arun langs ainit ops) /\
  R (fst (run sgn langs init_state ops)) (fst (arun langs ainit ops)).
Proof. exact refinement. Qed.
Print Assumptions C13_refinement.

(* one step, from ANY related pair of states *)
Theorem C13_step : forall sgn cs a o, R cs a -> op_ok o ->
  snd (fst (step sgn langs cs o)) = snd (astep langs a o) /\
  R (fst (fst (step sgn langs cs o))) (fst (astep langs a o)).
Proof. exact step_refines. Qed.
Print Assumptions C13_step.

(* in every reachable state every live seed is canonical (padding zero, two top bits of byte 18
   clear, birthday < 1024, features < 32) and its stored check value is the evaluation of its data *)
Theorem C13_canonical : forall sgn ops, Forall op_ok ops ->
  Forall (fun p => Canon (snd p) /\ d_checksum (snd p) = spec_checksum (abs_data (snd p)))
         (st_heap (fst (run sgn langs init_state ops))).
Proof. exact reachable_valid. Qed.
Print Assumptions C13_canonical.

(* two valid structs with the same (secret, birthday, features) are equal byte for byte *)
Theorem C13_struct_determined : forall d1 d2, Valid d1 -> Valid d2 -> abs_data d1 = abs_data d2 -> d1 = d2.
Proof. exact valid_abs_inj. Qed.
Print Assumptions C13_struct_determined.

(* isolation: a call on seed h changes no other seed *)
Theorem C13_isolation : forall sgn ls cs o h k, Distinct cs -> touches o = Some h -> k <> h ->
  heap_get (st_heap (TraceProofs.stp (step sgn ls cs o))) k = heap_get (st_heap cs) k.
Proof. exact handle_frame. Qed.
Print Assumptions C13_isolation.
