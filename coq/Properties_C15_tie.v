(* C15 - the tie to the code: theorems about the Gallina that tools/c2coq.py generates from /repo's CURRENT
   sources on every run (Gen/CFuns.v, Gen/CApi.v).  Kept apart from Properties_C15.v so that a change to the C code
   which breaks a tie leaves the theorems about the model standing, and the other way round. *)
From PS Require Import Base ApiDefs TraceProofs.
From PS.Gen Require Import Consts.
Local Open Scope N_scope.

(* ---- the tie to the code: src/polyseed.c as TRANSLATED on this run (Gen/CApi.v) ---- *)
From Coq Require Import String.
From PS Require Import Base GFDefs PackDefs StoreDefs MiscDefs StrDefs LangDefs ApiDefs SpecDefs SpecApi GFProofs PackProofs StoreProofs RefineProofs RoundTrip TraceProofs FrameProofs SafetyProofs CTieBase CTieLang CTiePhrase CTiePhraseEv CTieSplit CTieApi CTieDecode CTieEncode CTieLocals CTieInject CTieCmp CTieSearch CTieClosed CodeTheorems HeldProofs CodeMachine.
From PS.Gen Require Import Consts PrivConsts Langs.
From PS.Gen Require CFuns.
From PS.Gen Require CApi.

(* polyseed_load as translated: the allocation and free events of every exit *)
Theorem C15_code_tie_api_load :
  forall (sgn : bool) (langs : list lang) (st : state) (buf : list N) (ok : bool) 
           (gb gf : Z) (gs : list Z) (gc so0 : Z),
         Datatypes.length buf = 32%nat ->
         bytes_ok buf ->
         let
         '(st', out0, evs) := step sgn langs st (OpLoad buf ok) in
          exists (cevs : list CApi.cev) (b f : Z) (s : list Z) (c so status : Z),
            CApi.polyseed_load (alloc_ptr st ok) CFuns.polyseed_mul2_table (Z.of_N (st_reserved st))
              (map Z.of_N buf) gb gf gs gc so0 = (cevs, b, f, s, c, so, status) /\
            evs_of (st_deps st) cevs = evs /\
            out0 = OutStatus (Z.to_N status) (if (status =? 0)%Z then Some (st_next st) else None) None /\
            (if (status =? 0)%Z
             then
              so = ptr (st_next st) /\
              (exists d : data, st_heap st' = (st_next st, d) :: st_heap st /\ (b, f, s, c) = zd d)
             else so = so0 /\ st_heap st' = st_heap st).
Proof. exact @tie_load. Qed.
Print Assumptions C15_code_tie_api_load.

(* polyseed_free as translated: wipe, then free, of the block *)
Theorem C15_code_tie_api_free :
  forall (dp : deps) (h : N), evs_of dp (CApi.polyseed_free (ptr h)) = free_events dp h.
Proof. exact @tie_free. Qed.
Print Assumptions C15_code_tie_api_free.

(* polyseed_free(NULL) as translated: no event *)
Theorem C15_code_tie_api_free_null :
  forall dp : deps, evs_of dp (CApi.polyseed_free 0) = [].
Proof. exact @tie_free_null. Qed.
Print Assumptions C15_code_tie_api_free_null.

(* polyseed_decode as translated: the allocation and free events of every exit *)
Theorem C15_code_tie_api_decode :
  forall (sgn : bool) (st : state) (fuel : nat) (D : list Z -> list Z * Z) (ext : Z -> list Z -> Z)
           (OKW : bytes -> Prop),
         (forall (li : nat) (L : lang) (w : bytes),
          OKW w -> nth_error langs li = Some L -> ext (Z.of_nat li) (zs w) = enc (lang_search sgn L w)) ->
         (forall t : bytes, no_nul t -> (Datatypes.length t + 2 <= fuel)%nat -> OKW t) ->
         (18 <= fuel)%nat ->
         forall (str : bytes) (coin : N) (ok : bool) (lo lo0 gb gf : Z) (gs : list Z) (gc so0 : Z),
         no_nul str ->
         coin < 2048 ->
         (Datatypes.length str + 2 <= fuel)%nat ->
         D (zs str) = (zs (fst (dp_nfkd (st_deps st) str)), Z.of_N (snd (dp_nfkd (st_deps st) str))) ->
         no_nul (fst (dp_nfkd (st_deps st) str)) ->
         (Datatypes.length (fst (dp_nfkd (st_deps st) str)) + 2 <= fuel)%nat ->
         let
         '(st', out0, evs) := step sgn langs st (OpDecode str coin ok) in
          exists (cevs : list CApi.cev) (lo' b f : Z) (s : list Z) (c so status : Z),
            CApi.polyseed_decode fuel sgn D ext (alloc_ptr st ok) CFuns.polyseed_mul2_table
              (Z.of_N (st_reserved st)) (zs str) (Z.of_N coin) lo lo0 gb gf gs gc so0 =
            Some (cevs, lo', b, f, s, c, so, status) /\
            evs_of (st_deps st) cevs = evs /\
            (exists li : nat,
               out0 =
               OutStatus (Z.to_N status) (if (status =? 0)%Z then Some (st_next st) else None)
                 (if (status =? 0)%Z then Some li else None) /\
               (status = 0%Z -> (lo <> 0%Z -> lo' = Z.of_nat li) /\ (lo = 0%Z -> lo' = lo0))) /\
            (if (status =? 0)%Z
             then
              so = ptr (st_next st) /\
              (exists d : data, st_heap st' = (st_next st, d) :: st_heap st /\ (b, f, s, c) = zd d)
             else so = so0 /\ st_heap st' = st_heap st).
Proof. exact @tie_decode. Qed.
Print Assumptions C15_code_tie_api_decode.

(* ON THE CODE: the ledger theorem read off the events of one call of the translated code (CodeMachine.cstep), for every well-formed call on a fresh state *)
Theorem C15_code_tie_machine_ledger :
  forall (sgn : bool) (fuel : nat) (ext : Z -> list Z -> Z) (OKW : bytes -> Prop),
         (forall (li : nat) (L : lang) (w : bytes),
          OKW w -> nth_error langs li = Some L -> ext (Z.of_nat li) (zs w) = enc (lang_search sgn L w)) ->
         (forall t : bytes, no_nul t -> (Datatypes.length t + 2 <= fuel)%nat -> OKW t) ->
         (18 <= fuel)%nat ->
         forall (st : state) (o : op),
         op_ready sgn fuel st o ->
         Fresh st ->
         let r := cstep sgn fuel ext st o in
         ledger (handles st) (snd r) = Some (handles (fst (fst r))) /\ Fresh (fst (fst r)).
Proof. exact @code_ledger. Qed.
Print Assumptions C15_code_tie_machine_ledger.
