(* C16 - secrets are wiped from every temporary and from every freed seed (partial: the calls to
   the injected memzero; copies made by the compiler are observed, not proved - DESIGN.md). *)
From PS Require Import Base ApiDefs TraceProofs.
From PS.Gen Require Import Consts.
Local Open Scope N_scope.

(* every free of a seed block, in every call and on every exit path, is IMMEDIATELY preceded by a
   wipe of that block over at least sizeof(polyseed_data) bytes *)
Theorem C16_free_wiped : forall sgn ls cs o, frees_wiped None (evp (step sgn ls cs o)) = true.
Proof. exact step_frees_wiped. Qed.
Print Assumptions C16_free_wiped.

(* every automatic object that received secret-derived data on the exit path taken (taints: read
   off the statement order of polyseed.c / lang.c) is wiped in full before the function returns *)
Theorem C16_frames_clean : forall sgn ls cs o, frame_clean o (step sgn ls cs o) = true.
Proof. exact step_frame_clean. Qed.
Print Assumptions C16_frames_clean.

(* non-vacuity: which objects that is, for the exits that matter *)
Example C16_taints :
  taints (OpDecode [] 0 true) (OutStatus ST_CHECKSUM None None) =
    [(OStrTmp, sizeof_str); (OWords, sizeof_phrase); (OIdx, sizeof_idx); (OPoly, sizeof_poly)] /\
  taints (OpCrypt 0 []) OutUnit = [(OPassNorm, sizeof_str); (OMask, 32); (OPoly, sizeof_poly)] /\
  taints (OpEncode 0 0 0) (OutStr [] 0) = [(OPoly, sizeof_poly); (OStrTmp, sizeof_str)].
Proof. repeat split. Qed.
