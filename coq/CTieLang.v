(* lang.c: the four string comparers as TRANSLATED from /repo's current source (Gen/CFuns.v: `char*`
   walks as list suffixes, `for(;;)`/`break` as a fuelled loop with a flag) equal the mirrors
   LangDefs.compare_* that the search theorems (C08) are about - for EVERY key and word without NUL,
   for signed and unsigned plain char, whenever the fuel exceeds the length of the key by two. *)
From PS Require Import Base LangDefs LangProofs.
From PS.Gen Require CFuns.
Local Open Scope Z_scope.

Definition zb (b : byte) : Z := Z.of_N (bval b).
Definition zs (s : bytes) : list Z := map zb s.

Lemma rdc_cons sgn b s : CFuns.rdc sgn (zb b :: s) = ord sgn b.
Proof. reflexivity. Qed.
Lemma rdc_nil sgn : CFuns.rdc sgn [] = 0.
Proof. reflexivity. Qed.
Lemma rdc_zs sgn s : CFuns.rdc sgn (zs s) = ordc sgn s.
Proof. destruct s; [unfold ordc, cur; cbn; rewrite ord_nul; reflexivity | reflexivity]. Qed.

Lemma sign3_gt a b : (if a >? b then 1 else 0) - (if a <? b then 1 else 0) = sign3 a b.
Proof. unfold sign3. rewrite Z.gtb_ltb. reflexivity. Qed.

Lemma ord_eqb sgn x y : (ord sgn x =? ord sgn y) = Byte.eqb x y.
Proof.
  destruct (Byte.eqb x y) eqn:E.
  - apply eqb_true in E. subst. apply Z.eqb_refl.
  - apply Z.eqb_neq. apply (eqb_false_ord sgn), E.
Qed.

Lemma ord_eqb0 sgn x : x <> x00 -> (ord sgn x =? 0) = false.
Proof. intros H. apply Z.eqb_neq. apply ord_nz, H. Qed.

Lemma whileF_stop {S} fuel (c : S -> bool) b s : c s = false -> CFuns.whileF (Datatypes.S fuel) c b s = Some s.
Proof. intros H. cbn. rewrite H. reflexivity. Qed.

Lemma whileF_step {S} fuel (c : S -> bool) b s s' : c s = true -> b s = Some s' ->
  CFuns.whileF (Datatypes.S fuel) c b s = CFuns.whileF fuel c b s'.
Proof. intros H1 H2. cbn. rewrite H1, H2. reflexivity. Qed.

(* ------------------------------------------------------------------ compare_str *)
Theorem tie_compare_str sgn key elm fuel : no_nul key -> (length key + 2 <= fuel)%nat ->
  CFuns.compare_str fuel sgn (zs key) (zs elm) = Some (compare_str sgn key elm).
Proof.
  unfold CFuns.compare_str. revert elm fuel.
  induction key as [|k key IH]; intros elm fuel Hk Hf.
  - destruct fuel as [|[|fuel]]; try (cbn in Hf; lia).
    rewrite (whileF_step _ _ _ _ (true, zs elm, zs [])); [|reflexivity|reflexivity].
    rewrite whileF_stop by reflexivity. cbv beta iota zeta.
    rewrite rdc_nil, rdc_zs, sign3_gt. reflexivity.
  - apply no_nul_cons in Hk. destruct Hk as [Hk0 Hk].
    destruct fuel as [|fuel]; [cbn in Hf; lia|].
    destruct elm as [|e elm].
    + rewrite (whileF_step _ _ _ _ (true, zs [], zs (k :: key))).
      * destruct fuel as [|fuel]; [cbn in Hf; lia|]. rewrite whileF_stop by reflexivity. cbv beta iota zeta.
        cbn [zs map]. rewrite rdc_cons, rdc_nil, sign3_gt. reflexivity.
      * reflexivity.
      * cbv beta iota zeta. cbn [zs map]. rewrite rdc_cons, rdc_nil, (ord_eqb0 sgn k Hk0).
        replace (ord sgn k =? 0) with false by (symmetry; apply ord_eqb0, Hk0). reflexivity.
    + cbn [compare_str]. destruct (Byte.eqb k e) eqn:E.
      * rewrite (whileF_step _ _ _ _ (false, zs elm, zs key)).
        -- apply IH; [exact Hk | cbn in Hf; lia].
        -- reflexivity.
        -- cbv beta iota zeta. cbn [zs map tl]. rewrite !rdc_cons, (ord_eqb0 sgn k Hk0), ord_eqb, E. reflexivity.
      * rewrite (whileF_step _ _ _ _ (true, zs (e :: elm), zs (k :: key))).
        -- destruct fuel as [|fuel]; [cbn in Hf; lia|]. rewrite whileF_stop by reflexivity. cbv beta iota zeta.
           cbn [zs map]. rewrite !rdc_cons, sign3_gt. reflexivity.
        -- reflexivity.
        -- cbv beta iota zeta. cbn [zs map]. rewrite !rdc_cons, (ord_eqb0 sgn k Hk0), ord_eqb, E. reflexivity.
Qed.

(* ------------------------------------------------------------------ compare_prefix *)
Lemma geb_N i n : (Z.of_N i >=? Z.of_N n) = (n <=? i)%N.
Proof. rewrite Z.geb_leb. destruct (N.leb_spec n i); [apply Z.leb_le|apply Z.leb_gt]; lia. Qed.

Lemma ordc_zero_nil sgn s : no_nul s -> (ordc sgn s =? 0) = is_nil s.
Proof.
  intros H. destruct s as [|x s]; [unfold ordc, cur; cbn; rewrite ord_nul; reflexivity|].
  apply no_nul_cons in H. destruct H as [Hx _]. unfold ordc, cur. cbn. apply ord_eqb0, Hx.
Qed.

Theorem tie_compare_prefix sgn key elm n fuel : no_nul key -> (length key + 2 <= fuel)%nat ->
  CFuns.compare_prefix fuel sgn (zs key) (zs elm) (Z.of_N n) = Some (compare_prefix sgn key elm 1 n).
Proof.
  unfold CFuns.compare_prefix.
  match goal with |- context [CFuns.whileF _ ?c ?b _] => set (C := c); set (B := b) end.
  assert (L : forall key elm i fuel, no_nul key -> (length key + 2 <= fuel)%nat ->
    match CFuns.whileF fuel C B (false, zs elm, Z.of_N i, zs key) with
    | None => None
    | Some st => let '(brk, elm0, i0, key0) := st in
      Some ((if CFuns.rdc sgn key0 >? CFuns.rdc sgn elm0 then 1 else 0) - (if CFuns.rdc sgn key0 <? CFuns.rdc sgn elm0 then 1 else 0))
    end = Some (compare_prefix sgn key elm i n)); [|intros Hk Hf; exact (L key elm 1%N fuel Hk Hf)].
  clear key elm fuel. unfold C, B. clear C B.
  induction key as [|k key IH]; intros elm i fuel Hk Hf.
  - destruct fuel as [|[|fuel]]; try (cbn in Hf; lia).
    rewrite (whileF_step _ _ _ _ (true, zs elm, Z.of_N i, zs [])); [|reflexivity|reflexivity].
    rewrite whileF_stop by reflexivity. cbv beta iota zeta.
    rewrite rdc_nil, rdc_zs, sign3_gt. reflexivity.
  - apply no_nul_cons in Hk. destruct Hk as [Hk0 Hk].
    destruct fuel as [|fuel]; [cbn in Hf; lia|].
    cbn [compare_prefix].
    destruct ((n <=? i)%N && is_nil key) eqn:Elast.
    + (* the last letter of the key, at or beyond position n: break *)
      rewrite (whileF_step _ _ _ _ (true, zs elm, Z.of_N i, zs (k :: key))).
      * destruct fuel as [|fuel]; [cbn in Hf; lia|]. rewrite whileF_stop by reflexivity. cbv beta iota zeta.
        cbn [zs map]. rewrite rdc_cons. fold (zs elm). rewrite rdc_zs, sign3_gt. reflexivity.
      * reflexivity.
      * cbv beta iota zeta. cbn [zs map skipn]. rewrite rdc_cons, (ord_eqb0 sgn k Hk0).
        fold (zs key). rewrite rdc_zs, geb_N, (ordc_zero_nil sgn key Hk), Elast. reflexivity.
    + destruct elm as [|e elm].
      * rewrite (whileF_step _ _ _ _ (true, zs [], Z.of_N i, zs (k :: key))).
        -- destruct fuel as [|fuel]; [cbn in Hf; lia|]. rewrite whileF_stop by reflexivity. cbv beta iota zeta.
           cbn [zs map]. rewrite rdc_cons, rdc_nil, sign3_gt. reflexivity.
        -- reflexivity.
        -- cbv beta iota zeta. cbn [zs map skipn]. rewrite rdc_cons, rdc_nil, (ord_eqb0 sgn k Hk0).
           fold (zs key). rewrite rdc_zs, geb_N, (ordc_zero_nil sgn key Hk), Elast. cbn [negb]. reflexivity.
      * destruct (Byte.eqb k e) eqn:E.
        -- rewrite (whileF_step _ _ _ _ (false, zs elm, Z.of_N (i + 1), zs key)).
           ++ apply IH; [exact Hk | cbn in Hf; lia].
           ++ reflexivity.
           ++ cbv beta iota zeta. cbn [zs map skipn tl]. rewrite !rdc_cons, (ord_eqb0 sgn k Hk0).
              fold (zs key). rewrite rdc_zs, geb_N, (ordc_zero_nil sgn key Hk), Elast, ord_eqb, E. cbn [negb].
              rewrite N2Z.inj_add. reflexivity.
        -- rewrite (whileF_step _ _ _ _ (true, zs (e :: elm), Z.of_N i, zs (k :: key))).
           ++ destruct fuel as [|fuel]; [cbn in Hf; lia|]. rewrite whileF_stop by reflexivity. cbv beta iota zeta.
              cbn [zs map]. rewrite !rdc_cons, sign3_gt. reflexivity.
           ++ reflexivity.
           ++ cbv beta iota zeta. cbn [zs map skipn]. rewrite !rdc_cons, (ord_eqb0 sgn k Hk0).
              fold (zs key). rewrite rdc_zs, geb_N, (ordc_zero_nil sgn key Hk), Elast, ord_eqb, E. reflexivity.
Qed.

(* ------------------------------------------------------------------ skipping non-ASCII bytes *)
Lemma nonascii_test sgn b : negb (Z.land (ord sgn b) 128 =? 0) = is_nonascii b.
Proof. destruct sgn; destruct b; reflexivity. Qed.

Lemma skip_loop sgn (c : list Z -> bool) (b : list Z -> option (list Z)) :
  (forall l, c l = negb (Z.land (CFuns.rdc sgn l) 128 =? 0)) -> (forall l, b l = Some (tl l)) ->
  forall s fuel, (length s + 1 <= fuel)%nat -> CFuns.whileF fuel c b (zs s) = Some (zs (skip_na s)).
Proof.
  intros Hc Hb. induction s as [|x s IH]; intros fuel Hf.
  - destruct fuel as [|fuel]; [cbn in Hf; lia|]. apply whileF_stop. rewrite Hc. reflexivity.
  - destruct fuel as [|fuel]; [cbn in Hf; lia|]. cbn [skip_na].
    destruct (is_nonascii x) eqn:E.
    + rewrite (whileF_step _ _ _ _ (zs s)).
      * apply IH. cbn in Hf. lia.
      * rewrite Hc. cbn [zs map]. rewrite rdc_cons, nonascii_test. exact E.
      * rewrite Hb. reflexivity.
    + apply whileF_stop. rewrite Hc. cbn [zs map]. rewrite rdc_cons, nonascii_test. exact E.
Qed.

Lemma skip_na_idem s : skip_na (skip_na s) = skip_na s.
Proof.
  induction s as [|x s IH]; [reflexivity|]. cbn [skip_na]. destruct (is_nonascii x) eqn:E; [exact IH|].
  cbn [skip_na]. rewrite E. reflexivity.
Qed.

Lemma skip_na_length s : (length (skip_na s) <= length s)%nat.
Proof. induction s as [|x s IH]; [cbn; lia|]. cbn [skip_na]. destruct (is_nonascii x); cbn [length]; lia. Qed.

Lemma skip_na_head s k t : skip_na s = k :: t -> is_nonascii k = false /\ In k s.
Proof.
  induction s as [|x s IH]; [discriminate|]. cbn [skip_na]. destruct (is_nonascii x) eqn:E.
  - intros H. destruct (IH H) as [A B]. split; [exact A | right; exact B].
  - intros H. injection H as -> ->. split; [exact E | left; reflexivity].
Qed.

Lemma skip_na_tail_length s k t : skip_na s = k :: t -> (length t < length s)%nat.
Proof. intros H. pose proof (skip_na_length s). rewrite H in *. cbn [length] in *. lia. Qed.

Lemma no_nul_skip s : no_nul s -> no_nul (skip_na s).
Proof.
  intros H. induction s as [|x s IH]; [exact H|]. cbn [skip_na]. destruct (is_nonascii x); [|exact H].
  apply IH. apply no_nul_cons in H. apply H.
Qed.

(* the mirrors depend on the key and the word only through their skipped forms *)
Lemma csn_skip_key sgn key elm : compare_str_noaccent sgn key elm = compare_str_noaccent sgn (skip_na key) elm.
Proof.
  induction key as [|k key IH]; [reflexivity|]. cbn [skip_na]. destruct (is_nonascii k) eqn:E.
  - cbn [compare_str_noaccent]. rewrite E. exact IH.
  - reflexivity.
Qed.

Lemma cpn_skip_key sgn key elm i n :
  compare_prefix_noaccent sgn key elm i n = compare_prefix_noaccent sgn (skip_na key) elm i n.
Proof.
  induction key as [|k key IH]; [reflexivity|]. cbn [skip_na]. destruct (is_nonascii k) eqn:E.
  - cbn [compare_prefix_noaccent]. rewrite E. exact IH.
  - reflexivity.
Qed.

(* ------------------------------------------------------------------ compare_str_noaccent *)
Theorem tie_compare_str_noaccent sgn key elm fuel : no_nul key ->
  (length key + 2 <= fuel)%nat -> (length elm + 2 <= fuel)%nat ->
  CFuns.compare_str_noaccent fuel sgn (zs key) (zs elm) = Some (compare_str_noaccent sgn key elm).
Proof.
  unfold CFuns.compare_str_noaccent.
  match goal with |- context [CFuns.whileF fuel ?c ?b (false, _, _)] => set (C := c); set (B := b) end.
  assert (L : forall n key elm f, (length key <= n)%nat -> no_nul key ->
    (length key + 2 <= f)%nat -> (length key + 2 <= fuel)%nat -> (length elm + 2 <= fuel)%nat ->
    match CFuns.whileF f C B (false, zs elm, zs key) with
    | None => None
    | Some st => let '(brk, elm0, key0) := st in
      Some ((if CFuns.rdc sgn key0 >? CFuns.rdc sgn elm0 then 1 else 0) - (if CFuns.rdc sgn key0 <? CFuns.rdc sgn elm0 then 1 else 0))
    end = Some (compare_str_noaccent sgn key elm));
    [|intros Hk Hf He; exact (L (length key) key elm fuel (Nat.le_refl _) Hk Hf Hf He)].
  clear key elm.
  induction n as [|n IH]; intros key elm f Hn Hk Hf0 Hf He.
  - destruct key; [|cbn in Hn; lia].
    destruct f as [|[|f]]; try (cbn in Hf0; lia).
    rewrite (whileF_step _ _ _ _ (true, zs (skip_na elm), zs [])); [|reflexivity|].
    + rewrite whileF_stop by reflexivity. cbv beta iota zeta. rewrite rdc_nil, rdc_zs, sign3_gt. reflexivity.
    + unfold B. cbv beta iota zeta.
      rewrite (skip_loop sgn _ _ (fun _ => eq_refl) (fun _ => eq_refl) [] _) by (cbn; lia).
      rewrite (skip_loop sgn _ _ (fun _ => eq_refl) (fun _ => eq_refl) elm _) by lia.
      cbn [skip_na]. rewrite rdc_nil. reflexivity.
  - destruct f as [|f]; [lia|].
    rewrite (csn_skip_key sgn key elm).
    assert (Bstep : B (false, zs elm, zs key) =
      let K1 := skip_na key in let E1 := skip_na elm in
      if (CFuns.rdc sgn (zs K1) =? 0) || negb (CFuns.rdc sgn (zs K1) =? CFuns.rdc sgn (zs E1))
      then Some (true, zs E1, zs K1) else Some (false, tl (zs E1), tl (zs K1))).
    { unfold B. cbv beta iota zeta.
      rewrite (skip_loop sgn _ _ (fun _ => eq_refl) (fun _ => eq_refl) key _) by lia.
      rewrite (skip_loop sgn _ _ (fun _ => eq_refl) (fun _ => eq_refl) elm _) by lia. reflexivity. }
    cbv zeta in Bstep.
    pose proof (no_nul_skip key Hk) as Hk1. pose proof (skip_na_length key) as Lk. pose proof (skip_na_length elm) as Le.
    destruct (skip_na key) as [|k K'] eqn:EK.
    + (* nothing but accents left in the key *)
      rewrite (whileF_step _ _ _ _ (true, zs (skip_na elm), zs [])); [|reflexivity|rewrite Bstep; reflexivity].
      destruct f as [|f]; [lia|]. rewrite whileF_stop by reflexivity. cbv beta iota zeta.
      rewrite rdc_nil, rdc_zs, sign3_gt. reflexivity.
    + apply no_nul_cons in Hk1. destruct Hk1 as [Hk0 HK'].
      destruct (skip_na_head _ _ _ EK) as [Hasc _].
      cbn [compare_str_noaccent]. rewrite Hasc.
      cbn [zs map] in Bstep. rewrite rdc_cons, (ord_eqb0 sgn k Hk0) in Bstep. cbn [orb] in Bstep.
      destruct (skip_na elm) as [|e E'] eqn:EE.
      * cbn [zs map] in Bstep. rewrite rdc_nil, (ord_eqb0 sgn k Hk0) in Bstep. cbn [negb] in Bstep.
        rewrite (whileF_step _ _ _ _ (true, zs [], zs (k :: K'))); [|reflexivity|exact Bstep].
        destruct f as [|f]; [lia|]. rewrite whileF_stop by reflexivity. cbv beta iota zeta.
        cbn [zs map]. rewrite rdc_cons, rdc_nil, sign3_gt. reflexivity.
      * cbn [zs map] in Bstep. rewrite rdc_cons, ord_eqb in Bstep.
        destruct (Byte.eqb k e) eqn:E; cbn [negb tl] in Bstep.
        -- rewrite (whileF_step _ _ _ _ (false, zs E', zs K')); [|reflexivity|exact Bstep].
           apply IH; [cbn [length] in *; lia | exact HK' | cbn [length] in *; lia | cbn [length] in *; lia | cbn [length] in *; lia].
        -- rewrite (whileF_step _ _ _ _ (true, zs (e :: E'), zs (k :: K'))); [|reflexivity|exact Bstep].
           destruct f as [|f]; [lia|]. rewrite whileF_stop by reflexivity. cbv beta iota zeta.
           cbn [zs map]. rewrite !rdc_cons, sign3_gt. reflexivity.
Qed.

(* ------------------------------------------------------------------ compare_prefix_noaccent *)
Lemma skipn1_zs s : skipn 1 (zs s) = zs (tl s).
Proof. destruct s; reflexivity. Qed.
Lemma tl_zs s : tl (zs s) = zs (tl s).
Proof. destruct s; reflexivity. Qed.

Theorem tie_compare_prefix_noaccent sgn key elm n fuel : no_nul key ->
  (length key + 2 <= fuel)%nat -> (length elm + 2 <= fuel)%nat ->
  CFuns.compare_prefix_noaccent fuel sgn (zs key) (zs elm) (Z.of_N n) = Some (compare_prefix_noaccent sgn key elm 1 n).
Proof.
  intros Hk Hf He. unfold CFuns.compare_prefix_noaccent.
  match goal with |- context [CFuns.whileF fuel ?c ?b (false, _, _, _)] => set (C := c); set (B := b) end.
  assert (L : forall m key elm i f, (length key <= m)%nat -> no_nul key ->
    (length key + 2 <= f)%nat -> (length key + 2 <= fuel)%nat -> (length elm + 2 <= fuel)%nat ->
    exists E K i', CFuns.whileF f C B (false, zs elm, Z.of_N i, zs key) = Some (true, zs E, i', zs K) /\
      skip_na K = K /\ skip_na E = E /\ (length K <= length key)%nat /\ (length E <= length elm)%nat /\
      sign3 (ordc sgn K) (ordc sgn E) = compare_prefix_noaccent sgn key elm i n).
  { clear key elm Hk Hf He.
    induction m as [|m IH]; intros key elm i f Hm Hk Hf0 Hf He.
    - destruct key; [|cbn in Hm; lia].
      destruct f as [|[|f]]; try (cbn in Hf0; lia).
      exists (skip_na elm), [], (Z.of_N i).
      split; [|split; [reflexivity|split; [apply skip_na_idem|split; [cbn; lia|split; [apply skip_na_length|
        unfold ordc at 1, cur; cbn [hd]; rewrite ord_nul; reflexivity]]]]].
      rewrite (whileF_step _ _ _ _ (true, zs (skip_na elm), Z.of_N i, zs [])); [apply whileF_stop; reflexivity|reflexivity|].
      unfold B. cbv beta iota zeta.
      rewrite (skip_loop sgn _ _ (fun _ => eq_refl) (fun _ => eq_refl) [] _) by (cbn; lia).
      rewrite (skip_loop sgn _ _ (fun _ => eq_refl) (fun _ => eq_refl) elm _) by lia.
      cbn [skip_na]. rewrite rdc_nil. reflexivity.
    - destruct f as [|f]; [lia|].
      rewrite (cpn_skip_key sgn key elm i n).
      pose proof (no_nul_skip key Hk) as Hk1. pose proof (skip_na_length key) as Lk. pose proof (skip_na_length elm) as Le.
      assert (Bstep : B (false, zs elm, Z.of_N i, zs key) =
        let K1 := skip_na key in let E1 := skip_na elm in
        if CFuns.rdc sgn (zs K1) =? 0 then Some (true, zs E1, Z.of_N i, zs K1)
        else if (Z.of_N i >=? Z.of_N n) && (CFuns.rdc sgn (zs (skip_na (tl K1))) =? 0) then Some (true, zs E1, Z.of_N i, zs K1)
        else if negb (CFuns.rdc sgn (zs K1) =? CFuns.rdc sgn (zs E1)) then Some (true, zs E1, Z.of_N i, zs K1)
        else Some (false, zs (tl E1), Z.of_N i + 1, zs (tl K1))).
      { unfold B. cbv beta iota zeta.
        rewrite (skip_loop sgn _ _ (fun _ => eq_refl) (fun _ => eq_refl) key _) by lia.
        rewrite (skip_loop sgn _ _ (fun _ => eq_refl) (fun _ => eq_refl) elm _) by lia.
        destruct (CFuns.rdc sgn (zs (skip_na key)) =? 0); [reflexivity|].
        destruct (Z.of_N i >=? Z.of_N n); cbn [andb].
        - rewrite skipn1_zs.
          rewrite (skip_loop sgn _ _ (fun _ => eq_refl) (fun _ => eq_refl) (tl (skip_na key)) _)
            by (destruct (skip_na key); cbn [tl length] in *; lia).
          destruct (CFuns.rdc sgn (zs (skip_na (tl (skip_na key)))) =? 0); [reflexivity|].
          rewrite !tl_zs. reflexivity.
        - rewrite !tl_zs. reflexivity. }
      cbv zeta in Bstep. rewrite geb_N in Bstep.
      destruct (skip_na key) as [|k K'] eqn:EK.
      + exists (skip_na elm), [], (Z.of_N i).
        split; [|split; [reflexivity|split; [apply skip_na_idem|split; [cbn; lia|split; [exact Le|
          unfold ordc at 1, cur; cbn [hd]; rewrite ord_nul; reflexivity]]]]].
        rewrite (whileF_step _ _ _ _ (true, zs (skip_na elm), Z.of_N i, zs [])); [|reflexivity|rewrite Bstep; reflexivity].
        destruct f as [|f]; [lia|]. apply whileF_stop. reflexivity.
      + apply no_nul_cons in Hk1. destruct Hk1 as [Hk0 HK'].
        destruct (skip_na_head _ _ _ EK) as [Hasc _].
        assert (SK : skip_na (k :: K') = k :: K') by (cbn [skip_na]; rewrite Hasc; reflexivity).
        cbn [compare_prefix_noaccent]. rewrite Hasc.
        cbn [zs map tl] in Bstep. rewrite rdc_cons, (ord_eqb0 sgn k Hk0) in Bstep.
        fold (zs (skip_na K')) in Bstep. rewrite rdc_zs, (ordc_zero_nil sgn _ (no_nul_skip K' HK')) in Bstep.
        destruct ((n <=? i)%N && is_nil (skip_na K')) eqn:Elast.
        * exists (skip_na elm), (k :: K'), (Z.of_N i).
          split; [|split; [exact SK|split; [apply skip_na_idem|split; [cbn [length] in *; lia|split; [exact Le|reflexivity]]]]].
          rewrite (whileF_step _ _ _ _ (true, zs (skip_na elm), Z.of_N i, zs (k :: K'))); [|reflexivity|exact Bstep].
          destruct f as [|f]; [lia|]. apply whileF_stop. reflexivity.
        * destruct (skip_na elm) as [|e E'] eqn:EE.
          -- cbn [zs map] in Bstep. rewrite rdc_nil, (ord_eqb0 sgn k Hk0) in Bstep. cbn [negb] in Bstep.
             exists [], (k :: K'), (Z.of_N i).
             split; [|split; [exact SK|split; [reflexivity|split; [cbn [length] in *; lia|split; [cbn; lia|]]]]].
             ++ rewrite (whileF_step _ _ _ _ (true, zs [], Z.of_N i, zs (k :: K'))); [|reflexivity|exact Bstep].
                destruct f as [|f]; [lia|]. apply whileF_stop. reflexivity.
             ++ unfold ordc, cur. cbn [hd]. rewrite ord_nul. reflexivity.
          -- cbn [zs map tl] in Bstep. rewrite rdc_cons, ord_eqb in Bstep.
             assert (SE : skip_na (e :: E') = e :: E') by (rewrite <- EE; apply skip_na_idem).
             destruct (Byte.eqb k e) eqn:E; cbn [negb] in Bstep.
             ++ replace (Z.of_N i + 1) with (Z.of_N (i + 1)) in Bstep by lia.
                destruct (IH K' E' (i + 1)%N f) as (E2&K2&i2&W&S1&S2&L1&L2&R);
                  [cbn [length] in *; lia | exact HK' | cbn [length] in *; lia | cbn [length] in *; lia | cbn [length] in *; lia|].
                exists E2, K2, i2. split; [|split; [exact S1|split; [exact S2|split; [cbn [length] in *; lia|split; [cbn [length] in *; lia|exact R]]]]].
                rewrite (whileF_step _ _ _ _ (false, zs E', Z.of_N (i + 1), zs K')); [exact W|reflexivity|exact Bstep].
             ++ exists (e :: E'), (k :: K'), (Z.of_N i).
                split; [|split; [exact SK|split; [exact SE|split; [cbn [length] in *; lia|split; [cbn [length] in *; lia|reflexivity]]]]].
                rewrite (whileF_step _ _ _ _ (true, zs (e :: E'), Z.of_N i, zs (k :: K'))); [|reflexivity|exact Bstep].
                destruct f as [|f]; [lia|]. apply whileF_stop. reflexivity. }
  destruct (L (length key) key elm 1%N fuel (Nat.le_refl _) Hk Hf Hf He) as (E2&K2&i2&W&S1&S2&L1&L2&R).
  change 1 with (Z.of_N 1) at 1. rewrite W.
  rewrite (skip_loop sgn _ _ (fun _ => eq_refl) (fun _ => eq_refl) K2 _) by lia.
  rewrite (skip_loop sgn _ _ (fun _ => eq_refl) (fun _ => eq_refl) E2 _) by lia.
  rewrite S1, S2, !rdc_zs, sign3_gt, R. reflexivity.
Qed.

(* ------------------------------------------------------------------ get_comparer *)
(* the comparer polyseed_lang_find_word uses for a language, assembled as get_comparer does from the
   translated functions and the prefix length its wrappers pass (translated too), is the mirror's comparer *)
Definition c_comparer (fuel : nat) (sgn : bool) (L : lang) (key elm : bytes) : option Z :=
  if l_has_prefix L then
    if l_has_accents L then CFuns.compare_prefix_noaccent fuel sgn (zs key) (zs elm) CFuns.compare_prefix_noaccent_wrap_n
    else CFuns.compare_prefix fuel sgn (zs key) (zs elm) CFuns.compare_prefix_wrap_n
  else
    if l_has_accents L then CFuns.compare_str_noaccent fuel sgn (zs key) (zs elm)
    else CFuns.compare_str fuel sgn (zs key) (zs elm).

Theorem tie_comparer sgn L key elm fuel : no_nul key ->
  (length key + 2 <= fuel)%nat -> (length elm + 2 <= fuel)%nat ->
  c_comparer fuel sgn L key elm = Some (comparer sgn L key elm).
Proof.
  intros Hk Hf He. unfold c_comparer, comparer, NUM_CHARS_PREFIX.
  destruct (l_has_prefix L), (l_has_accents L).
  - apply (tie_compare_prefix_noaccent sgn key elm 4); assumption.
  - apply (tie_compare_prefix sgn key elm 4); assumption.
  - apply tie_compare_str_noaccent; assumption.
  - apply tie_compare_str; assumption.
Qed.
