(* C16 - the tie to the code: theorems about the Gallina that tools/c2coq.py generates from /repo's CURRENT
   sources on every run (Gen/CFuns.v, Gen/CApi.v).  Kept apart from Properties_C16.v so that a change to the C code
   which breaks a tie leaves the theorems about the model standing, and the other way round. *)
From PS Require Import Base ApiDefs TraceProofs.
From PS.Gen Require Import Consts.
Local Open Scope N_scope.

(* ---- the tie to the code: src/polyseed.c as TRANSLATED on this run (Gen/CApi.v) ---- *)
From Coq Require Import String.
From PS Require Import Base GFDefs PackDefs StoreDefs MiscDefs StrDefs LangDefs ApiDefs SpecDefs SpecApi GFProofs PackProofs StoreProofs RefineProofs RoundTrip TraceProofs FrameProofs SafetyProofs CTieBase CTieLang CTiePhrase CTiePhraseEv CTieSplit CTieApi CTieDecode CTieEncode CTieLocals CTieInject CTieCmp CTieSearch CTieClosed CodeTheorems HeldProofs CodeMachine.
From PS.Gen Require Import Consts PrivConsts Langs.
From PS.Gen Require CFuns.
From PS.Gen Require CApi.

(* polyseed_free as translated: MEMZERO_PTR of the whole struct immediately before FREE *)
Theorem C16_code_tie_api_free :
  forall (dp : deps) (h : N), evs_of dp (CApi.polyseed_free (ptr h)) = free_events dp h.
Proof. exact @tie_free. Qed.
Print Assumptions C16_code_tie_api_free.

(* polyseed_decode as translated: str_tmp, words and poly are wiped on every exit *)
Theorem C16_code_tie_api_decode :
  forall (sgn : bool) (st : state) (fuel : nat) (D : list Z -> list Z * Z) (ext : Z -> list Z -> Z)
           (OKW : bytes -> Prop),
         (forall (li : nat) (L : lang) (w : bytes),
          OKW w -> nth_error langs li = Some L -> ext (Z.of_nat li) (zs w) = enc (lang_search sgn L w)) ->
         (forall t : bytes, no_nul t -> (Datatypes.length t + 2 <= fuel)%nat -> OKW t) ->
         (18 <= fuel)%nat ->
         forall (str : bytes) (coin : N) (ok : bool) (lo lo0 gb gf : Z) (gs : list Z) (gc so0 : Z),
         no_nul str ->
         coin < 2048 ->
         (Datatypes.length str + 2 <= fuel)%nat ->
         D (zs str) = (zs (fst (dp_nfkd (st_deps st) str)), Z.of_N (snd (dp_nfkd (st_deps st) str))) ->
         no_nul (fst (dp_nfkd (st_deps st) str)) ->
         (Datatypes.length (fst (dp_nfkd (st_deps st) str)) + 2 <= fuel)%nat ->
         let
         '(st', out0, evs) := step sgn langs st (OpDecode str coin ok) in
          exists (cevs : list CApi.cev) (lo' b f : Z) (s : list Z) (c so status : Z),
            CApi.polyseed_decode fuel sgn D ext (alloc_ptr st ok) CFuns.polyseed_mul2_table
              (Z.of_N (st_reserved st)) (zs str) (Z.of_N coin) lo lo0 gb gf gs gc so0 =
            Some (cevs, lo', b, f, s, c, so, status) /\
            evs_of (st_deps st) cevs = evs /\
            (exists li : nat,
               out0 =
               OutStatus (Z.to_N status) (if (status =? 0)%Z then Some (st_next st) else None)
                 (if (status =? 0)%Z then Some li else None) /\
               (status = 0%Z -> (lo <> 0%Z -> lo' = Z.of_nat li) /\ (lo = 0%Z -> lo' = lo0))) /\
            (if (status =? 0)%Z
             then
              so = ptr (st_next st) /\
              (exists d : data, st_heap st' = (st_next st, d) :: st_heap st /\ (b, f, s, c) = zd d)
             else so = so0 /\ st_heap st' = st_heap st).
Proof. exact @tie_decode. Qed.
Print Assumptions C16_code_tie_api_decode.

(* polyseed_crypt as translated: poly, mask and pass_norm are wiped *)
Theorem C16_code_tie_api_crypt :
  forall (sgn : bool) (langs : list lang) (st : state) (h : N) (pw : bytes) 
           (d : data) (fuel : nat) (D : list Z -> list Z * Z),
         heap_get (st_heap st) h = Some d ->
         Canon d ->
         no_nul pw ->
         (Datatypes.length pw + 2 <= fuel)%nat ->
         let dp := st_deps st in
         let nf := dp_nfkd dp in
         D (zs pw) = (zs (fst (nf pw)), Z.of_N (snd (nf pw))) ->
         snd (nf pw) = N.of_nat (Datatypes.length (fst (nf pw))) ->
         snd (nf pw) < 2 ^ 64 ->
         (forall (p : list N) (n : N) (salt : list N) (sl it kl : N), bytes_ok (dp_kdf dp p n salt sl it kl)) ->
         let
         '(st', out0, evs) := step sgn langs st (OpCrypt h pw) in
          exists (cevs : list CApi.cev) (d2 : data),
            CApi.polyseed_crypt fuel sgn D (zkdf dp) CFuns.polyseed_mul2_table (Z.of_N (d_birthday d))
              (Z.of_N (d_features d)) (map Z.of_N (d_secret d)) (Z.of_N (d_checksum d)) 
              (zs pw) =
            Some
              (cevs, Z.of_N (d_birthday d2), Z.of_N (d_features d2), map Z.of_N (d_secret d2),
               Z.of_N (d_checksum d2)) /\
            evs_of dp cevs = evs /\
            out0 = OutUnit /\ st_heap st' = heap_set (st_heap st) h d2 /\ st_next st' = st_next st.
Proof. exact @tie_crypt. Qed.
Print Assumptions C16_code_tie_api_crypt.

(* polyseed_phrase_decode translated with its events: exactly one wipe of idx on every return, the MULT_LANG one included; otherwise it is the pure translation tied in C09 *)
Theorem C16_code_tie_idx :
  forall (fuel : nat) (ext : Z -> list Z -> Z) (ph : list (list Z)) (io : list Z) (lo lo0 : Z),
         CApi.polyseed_phrase_decode fuel ext ph io lo lo0 =
         match CFuns.polyseed_phrase_decode fuel ext ph io lo lo0 with
         | Some (io', lo', r) => Some ([WIPE_IDX], io', lo', r)
         | None => None
         end.
Proof. exact @tie_phrase_decode_ev. Qed.
Print Assumptions C16_code_tie_idx.

(* polyseed_encode as translated: poly and str_tmp are wiped *)
Theorem C16_code_tie_api_encode :
  forall (sgn : bool) (st : state) (fuel li : nat) (L : lang),
         nth_error langs li = Some L ->
         (forall j : nat, (Datatypes.length (nth j (l_words L) []) + 1 <= fuel)%nat) ->
         (Datatypes.length (l_separator L) + 1 <= fuel)%nat ->
         (forall x : bytes, snd (dp_nfc (st_deps st) x) < 2 ^ 64) ->
         forall (h : N) (d : data) (coin : N) (out0 : list Z),
         heap_get (st_heap st) h = Some d ->
         Canon d ->
         d_checksum d < 2048 ->
         coin < 2048 ->
         (1 <= Datatypes.length out0)%nat ->
         match step sgn langs st (OpEncode h li coin) with
         | (st', OutStr o nn, evs) =>
             exists (cevs : list CApi.cev) (rest : list Z),
               CApi.polyseed_encode fuel sgn (znfc (st_deps st))
                 (fun _ i : Z => zs (nth (Z.to_nat i) (l_words L) [])) (fun _ : Z => zs (l_separator L))
                 (fun _ : Z => if l_compose L then 1%Z else 0%Z) (Z.of_N (d_birthday d))
                 (Z.of_N (d_features d)) (map Z.of_N (d_secret d)) (Z.of_N (d_checksum d)) 
                 (Z.of_nat li) (Z.of_N coin) out0 = Some (cevs, zs o ++ 0%Z :: rest, Z.of_N nn) /\
               evs_of (st_deps st) cevs = evs /\ st' = st
         | (st', OutFault, _) | (st', OutUnit, _) | (st', OutNum _, _) | (st', OutStatus _ _ _, _) |
           (st', OutBytes _, _) => True
         end.
Proof. exact @tie_encode. Qed.
Print Assumptions C16_code_tie_api_encode.

(* ON THE CODE: every free among the events of a call of the translated code is preceded by the wipe of the whole block *)
Theorem C16_code_tie_machine_frees_wiped :
  forall (sgn : bool) (fuel : nat) (ext : Z -> list Z -> Z) (OKW : bytes -> Prop),
         (forall (li : nat) (L : lang) (w : bytes),
          OKW w -> nth_error langs li = Some L -> ext (Z.of_nat li) (zs w) = enc (lang_search sgn L w)) ->
         (forall t : bytes, no_nul t -> (Datatypes.length t + 2 <= fuel)%nat -> OKW t) ->
         (18 <= fuel)%nat ->
         forall (st : state) (o : op),
         op_ready sgn fuel st o -> frees_wiped None (snd (cstep sgn fuel ext st o)) = true.
Proof. exact @code_frees_wiped. Qed.
Print Assumptions C16_code_tie_machine_frees_wiped.

(* ON THE CODE: every automatic object tainted on the exit taken is wiped among the events of the call of the translated code *)
Theorem C16_code_tie_machine_frame_clean :
  forall (sgn : bool) (fuel : nat) (ext : Z -> list Z -> Z) (OKW : bytes -> Prop),
         (forall (li : nat) (L : lang) (w : bytes),
          OKW w -> nth_error langs li = Some L -> ext (Z.of_nat li) (zs w) = enc (lang_search sgn L w)) ->
         (forall t : bytes, no_nul t -> (Datatypes.length t + 2 <= fuel)%nat -> OKW t) ->
         (18 <= fuel)%nat ->
         forall (st : state) (o : op), op_ready sgn fuel st o -> frame_clean o (cstep sgn fuel ext st o) = true.
Proof. exact @code_frame_clean. Qed.
Print Assumptions C16_code_tie_machine_frame_clean.

(* the automatic arrays and structs of every translated API function, as found in the current source, are the objects the wipe accounting knows plus the two public salts: a new temporary breaks this *)
Theorem C16_code_tie_locals :
  CApi.locals_polyseed_create = ["poly"%string] /\
         CApi.locals_polyseed_load = ["poly"%string] /\
         CApi.locals_polyseed_decode = ["str_tmp"%string; "words"%string; "poly"%string] /\
         CApi.locals_polyseed_decode_explicit = ["str_tmp"%string; "words"%string; "poly"%string] /\
         CApi.locals_polyseed_phrase_decode = ["idx"%string] /\
         CApi.locals_polyseed_encode = ["poly"%string; "str_tmp"%string] /\
         CApi.locals_polyseed_crypt = ["pass_norm"%string; "mask"%string; "salt"%string; "poly"%string] /\
         CApi.locals_polyseed_keygen = ["salt"%string] /\
         CApi.locals_polyseed_free = [] /\
         CApi.locals_polyseed_store = [] /\
         CApi.locals_str_split = [] /\
         CApi.locals_write_str = [] /\
         CApi.locals_polyseed_get_birthday = [] /\
         CApi.locals_polyseed_get_feature = [] /\
         CApi.locals_polyseed_is_encrypted = [] /\ CApi.locals_get_comparer = [].
Proof. exact @tie_locals. Qed.
Print Assumptions C16_code_tie_locals.

(* each of them maps to an object of the mirror (CTieApi.cobj) or is a salt *)
Theorem C16_code_tie_locals_accounted :
  forallb
           (fun s : string => (s =? "salt")%string || match cobj s with
                                                      | Some _ => true
                                                      | None => false
                                                      end)
           (CApi.locals_polyseed_create ++
            CApi.locals_polyseed_load ++
            CApi.locals_polyseed_decode ++
            CApi.locals_polyseed_decode_explicit ++
            CApi.locals_polyseed_phrase_decode ++
            CApi.locals_polyseed_encode ++ CApi.locals_polyseed_crypt ++ CApi.locals_polyseed_keygen) = true.
Proof. exact @locals_accounted. Qed.
Print Assumptions C16_code_tie_locals_accounted.
