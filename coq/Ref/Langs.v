(* Committed reference: the language registry of the pinned release (frozen) *)
From Coq Require Import List.
From Coq.Init Require Import Byte.
Import ListNotations.
From PS Require Import LangRec.
From PS.Ref Require W0.
From PS.Ref Require W1.
From PS.Ref Require W2.
From PS.Ref Require W3.
From PS.Ref Require W4.
From PS.Ref Require W5.
From PS.Ref Require W6.
From PS.Ref Require W7.
From PS.Ref Require W8.
From PS.Ref Require W9.
Definition langs : list lang := [
 {| l_name := [x45;x6e;x67;x6c;x69;x73;x68];
    l_name_en := [x45;x6e;x67;x6c;x69;x73;x68];
    l_separator := [x20];
    l_is_sorted := true; l_has_prefix := true; l_has_accents := false; l_compose := false;
    l_words := W0.words |};
 {| l_name := [xe6;x97;xa5;xe6;x9c;xac;xe8;xaa;x9e];
    l_name_en := [x4a;x61;x70;x61;x6e;x65;x73;x65];
    l_separator := [xe3;x80;x80];
    l_is_sorted := true; l_has_prefix := false; l_has_accents := false; l_compose := true;
    l_words := W1.words |};
 {| l_name := [xed;x95;x9c;xea;xb5;xad;xec;x96;xb4];
    l_name_en := [x4b;x6f;x72;x65;x61;x6e];
    l_separator := [x20];
    l_is_sorted := true; l_has_prefix := false; l_has_accents := false; l_compose := true;
    l_words := W2.words |};
 {| l_name := [x65;x73;x70;x61;xc3;xb1;x6f;x6c];
    l_name_en := [x53;x70;x61;x6e;x69;x73;x68];
    l_separator := [x20];
    l_is_sorted := true; l_has_prefix := true; l_has_accents := true; l_compose := true;
    l_words := W3.words |};
 {| l_name := [x66;x72;x61;x6e;xc3;xa7;x61;x69;x73];
    l_name_en := [x46;x72;x65;x6e;x63;x68];
    l_separator := [x20];
    l_is_sorted := true; l_has_prefix := true; l_has_accents := true; l_compose := true;
    l_words := W4.words |};
 {| l_name := [x69;x74;x61;x6c;x69;x61;x6e;x6f];
    l_name_en := [x49;x74;x61;x6c;x69;x61;x6e];
    l_separator := [x20];
    l_is_sorted := true; l_has_prefix := true; l_has_accents := false; l_compose := false;
    l_words := W5.words |};
 {| l_name := [xc4;x8d;x65;xc5;xa1;x74;x69;x6e;x61];
    l_name_en := [x43;x7a;x65;x63;x68];
    l_separator := [x20];
    l_is_sorted := true; l_has_prefix := true; l_has_accents := false; l_compose := false;
    l_words := W6.words |};
 {| l_name := [x70;x6f;x72;x74;x75;x67;x75;xc3;xaa;x73];
    l_name_en := [x50;x6f;x72;x74;x75;x67;x75;x65;x73;x65];
    l_separator := [x20];
    l_is_sorted := true; l_has_prefix := true; l_has_accents := false; l_compose := false;
    l_words := W7.words |};
 {| l_name := [xe4;xb8;xad;xe6;x96;x87;x28;xe7;xae;x80;xe4;xbd;x93;x29];
    l_name_en := [x43;x68;x69;x6e;x65;x73;x65;x20;x28;x53;x69;x6d;x70;x6c;x69;x66;x69;x65;x64;x29];
    l_separator := [x20];
    l_is_sorted := false; l_has_prefix := false; l_has_accents := false; l_compose := false;
    l_words := W8.words |};
 {| l_name := [xe4;xb8;xad;xe6;x96;x87;x28;xe7;xb9;x81;xe9;xab;x94;x29];
    l_name_en := [x43;x68;x69;x6e;x65;x73;x65;x20;x28;x54;x72;x61;x64;x69;x74;x69;x6f;x6e;x61;x6c;x29];
    l_separator := [x20];
    l_is_sorted := false; l_has_prefix := false; l_has_accents := false; l_compose := false;
    l_words := W9.words |}
].
