(* Committed copy of the pinned release (fallback when tools/dumpconsts.c no longer compiles) *)
From Coq Require Import NArith ZArith List.
Import ListNotations.
Local Open Scope N_scope.
Definition mul2_table : list N := [5; 7; 1; 3; 13; 15; 9; 11].
Definition GF_BITS : N := 11.
Definition GF_SIZE : N := 2048.
Definition GF_MASK : N := 2047.
Definition NUM_CHECK_DIGITS : N := 1.
Definition SECRET_BUFFER_SIZE : N := 32.
Definition SECRET_BITS : N := 150.
Definition SECRET_SIZE : N := 19.
Definition CLEAR_MASK : N := 63.
Definition DATE_BITS : N := 10.
Definition DATE_MASK : N := 1023.
Definition FEATURE_BITS : N := 5.
Definition FEATURE_MASK : N := 31.
Definition USER_FEATURES : N := 3.
Definition USER_FEATURES_MASK : N := 7.
Definition ENCRYPTED_MASK : N := 16.
Definition EPOCH : N := 1635768000.
Definition TIME_STEP : N := 2629746.
