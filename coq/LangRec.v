(* The shape of a registered language (struct polyseed_lang, src/lang.h).
   Strings are C strings without their terminator. *)
From Coq Require Import List Bool.
From Coq.Init Require Import Byte.
Import ListNotations.

Definition bytes := list byte.

Record lang := {
  l_name : bytes;
  l_name_en : bytes;
  l_separator : bytes;
  l_is_sorted : bool;
  l_has_prefix : bool;
  l_has_accents : bool;
  l_compose : bool;
  l_words : list bytes
}.
