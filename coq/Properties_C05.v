(* C05 - a phrase is bound to its coin. *)
From PS Require Import Base GFDefs GFProofs ApiDefs SpecDefs SpecApi PackTheorems CoinProofs ApiLemmas RefineProofs ApiTheorems RoundTrip.
From PS.Gen Require Import Consts Langs.
Local Open Scope N_scope.

(* c = the 16 coefficients before the coin is applied (they validate); the phrase for coin A
   carries xor_coin c A; decoding for coin B evaluates xor_coin (xor_coin c A) B *)
Theorem C05_other_coin : forall (c : list N) (A B : N),
  wf c -> (2 <= length c)%nat -> poly_eval c = 0 -> A < 2048 -> B < 2048 -> A <> B ->
  poly_eval (xor_coin (xor_coin c A) B) <> 0.
Proof. exact other_coin_detected. Qed.
Print Assumptions C05_other_coin.

Theorem C05_same_coin : forall (c : list N) (A : N), xor_coin (xor_coin c A) A = c.
Proof. exact xor_coin_same. Qed.
Print Assumptions C05_same_coin.

Theorem C05_second_word_only : forall (c : list N) (A B : N) (i : nat),
  (2 <= length c)%nat -> A <> B ->
  (nth i (xor_coin c A) 0 = nth i (xor_coin c B) 0 <-> i <> 1%nat).
Proof. exact second_word_only. Qed.
Print Assumptions C05_second_word_only.

(* at the API: the phrase polyseed_encode returns for coin A, given to polyseed_decode_explicit with
   any other coin B < 2048, is refused with CHECKSUM - for EVERY seed, language, A <> B *)
Theorem C05_decode_other_coin : forall sgn cs a h d li L A B ok, R cs a -> heap_get (st_heap cs) h = Some d ->
  nth_error langs li = Some L -> A < 2048 -> B < 2048 -> A <> B ->
  NormOK (st_deps cs) L (abs_data d) A -> no_nul (published (st_deps cs) L (abs_data d) A) ->
  outp (step sgn langs cs (OpDecodeExplicit (published (st_deps cs) L (abs_data d) A) B li ok)) =
    OutStatus ST_CHECKSUM None None.
Proof. exact other_coin_checksum. Qed.
Print Assumptions C05_decode_other_coin.

(* same coin: C01_roundtrip_explicit.  The phrases for two coins differ in the second word only:
   the index vectors differ at position 1 only (C05_second_word_only) and words are distinct (C07). *)
Theorem C05_indices : forall s A B i, A <> B ->
  (nth i (spec_indices s A) 0 = nth i (spec_indices s B) 0 <-> i <> 1%nat).
Proof.
  intros s A B i Hne. rewrite !indices_layout. destruct i as [|[|i]]; cbn [nth].
  - split; [discriminate|reflexivity].
  - split; [|congruence]. intros E. exfalso. apply Hne.
    apply (f_equal (N.lxor (nth 0 (spec_data_words s) 0))) in E.
    rewrite <- !N.lxor_assoc, N.lxor_nilpotent, !N.lxor_0_l in E. exact E.
  - split; [discriminate|reflexivity].
Qed.
Print Assumptions C05_indices.

(* the coin identifiers of the public header are the published ones: a phrase written for Monero carries coin 0 *)
From PS Require Import ConstsFrozen.
Theorem C05_coin_identifiers : COIN_MONERO = 0 /\ COIN_AEON = 1 /\ COIN_WOWNERO = 2.
Proof. exact coin_ids_frozen. Qed.
Print Assumptions C05_coin_identifiers.
