(* C05 - a phrase is bound to its coin. *)
From PS Require Import Base GFDefs GFProofs ApiDefs CoinProofs.
Local Open Scope N_scope.

(* c = the 16 coefficients before the coin is applied (they validate); the phrase for coin A
   carries xor_coin c A; decoding for coin B evaluates xor_coin (xor_coin c A) B *)
Theorem C05_other_coin : forall (c : list N) (A B : N),
  wf c -> (2 <= length c)%nat -> poly_eval c = 0 -> A < 2048 -> B < 2048 -> A <> B ->
  poly_eval (xor_coin (xor_coin c A) B) <> 0.
Proof. exact other_coin_detected. Qed.
Print Assumptions C05_other_coin.

Theorem C05_same_coin : forall (c : list N) (A : N), xor_coin (xor_coin c A) A = c.
Proof. exact xor_coin_same. Qed.
Print Assumptions C05_same_coin.

Theorem C05_second_word_only : forall (c : list N) (A B : N) (i : nat),
  (2 <= length c)%nat -> A <> B ->
  (nth i (xor_coin c A) 0 = nth i (xor_coin c B) 0 <-> i <> 1%nat).
Proof. exact second_word_only. Qed.
Print Assumptions C05_second_word_only.
