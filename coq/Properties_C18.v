(* C18 - injected dependencies are honoured (partial: a direct libc call in the C text cannot be
   exhibited by the model; it is observed by the correspondence's wrap counters - DESIGN.md). *)
From PS Require Import Base ApiDefs SpecDefs SpecApi PackTheorems ApiLemmas RefineProofs TraceProofs.
From PS.Gen Require Import Consts PrivConsts Langs.
Local Open Scope N_scope.

(* every allocation, free and clock reading of every call goes through the table in force when
   the call is made (the libc default exactly when that entry was injected as NULL) *)
Theorem C18_only_through_table : forall sgn ls cs o,
  forallb (ev_uses (st_deps cs)) (evp (step sgn ls cs o)) = true.
Proof. exact step_uses_table. Qed.
Print Assumptions C18_only_through_table.

(* injection replaces the whole table - nothing is kept from the previous one - and nothing else *)
Theorem C18_inject : forall sgn ls cs d,
  stp (step sgn ls cs (OpInject d)) = mkstate d (st_reserved cs) (st_heap cs) (st_next cs).
Proof. exact inject_replaces. Qed.
Print Assumptions C18_inject.

(* a successful create: one allocation of sizeof(polyseed_data), one clock reading, one request for
   exactly SECRET_SIZE = 19 random bytes, the wipe of the polynomial, nothing else; a refused
   create (unsupported features) calls nothing *)
Theorem C18_create_trace : forall sgn ls cs features rand clock,
  let r := step sgn ls cs (OpCreate features rand clock true) in
  match outp r with
  | OutStatus st (Some h) _ =>
    evp r = [EvAlloc (dp_alloc_libc (st_deps cs)) sizeof_data (Some h); EvTime (dp_time_libc (st_deps cs));
             EvRand SECRET_SIZE; EvWipe OPoly sizeof_poly]
  | OutStatus _ None _ => evp r = []
  | _ => True
  end.
Proof. exact create_trace. Qed.
Print Assumptions C18_create_trace.

(* the seed created: its 19 secret bytes are the delivered bytes with the two top bits of byte 18
   cleared (so two random outputs give the same seed iff they agree on those 150 bits), its
   birthday is the month index of the clock value, its features the requested user bits: this is
   the abstract machine's create, which the concrete one refines *)
Theorem C18_create_seed : forall sgn cs a features rand clock ok, R cs a -> clock < 2 ^ 64 ->
  snd (fst (step sgn langs cs (OpCreate features rand clock ok))) = snd (astep langs a (OpCreate features rand clock ok)) /\
  R (fst (fst (step sgn langs cs (OpCreate features rand clock ok)))) (fst (astep langs a (OpCreate features rand clock ok))).
Proof. exact sim_create. Qed.
Print Assumptions C18_create_seed.

Example C18_abstract_create : forall a features rand clock,
  spec_supported (as_mask a) (N.land features 7) = true ->
  fst (astep langs a (OpCreate features rand clock true)) =
  mkastate (as_deps a) (as_mask a)
    ((as_next a, mkaseed (map (fun i => nth i rand 0 mod 256) (seq 0 18) ++ [(nth 18 rand 0 mod 256) mod 64])
                         (spec_birthday_index clock) (N.land features 7)) :: as_seeds a) (as_next a + 1).
Proof. intros a features rand clock H. cbn [astep]. rewrite H. reflexivity. Qed.

(* ---- the tie to the code: src/polyseed.c as TRANSLATED on this run (Gen/CApi.v) ---- *)
From Coq Require Import String.
From PS Require Import Base GFDefs PackDefs StoreDefs MiscDefs StrDefs LangDefs ApiDefs GFProofs PackProofs StoreProofs CTieBase CTieLang CTiePhrase CTiePhraseEv CTieSplit CTieApi CTieDecode CTieEncode.
From PS.Gen Require Import Consts PrivConsts Langs.
From PS.Gen Require CFuns.
From PS.Gen Require CApi.

(* polyseed_create as translated: one allocation, one clock read, one request for 19 random bytes - all through the table - and the secret is those bytes *)
Theorem C18_code_tie_api_create :
  forall (sgn : bool) (langs : list lang) (st : state) (features : N) (rand : list N) 
           (clock : N) (ok : bool) (gb gf : Z) (gs : list Z) (gc so0 : Z),
         features < 2 ^ 32 ->
         clock < 2 ^ 64 ->
         let
         '(st', out0, evs) := step sgn langs st (OpCreate features rand clock ok) in
          exists (cevs : list CApi.cev) (b f : Z) (s : list Z) (c so status : Z),
            CApi.polyseed_create (alloc_ptr st ok) (Z.of_N clock) (map Z.of_N rand) CFuns.polyseed_mul2_table
              (Z.of_N (st_reserved st)) (Z.of_N features) gb gf gs gc so0 = (cevs, b, f, s, c, so, status) /\
            evs_of (st_deps st) cevs = evs /\
            out0 = OutStatus (Z.to_N status) (if (status =? 0)%Z then Some (st_next st) else None) None /\
            (if (status =? 0)%Z
             then
              so = ptr (st_next st) /\
              (exists d : data, st_heap st' = (st_next st, d) :: st_heap st /\ (b, f, s, c) = zd d)
             else so = so0 /\ st_heap st' = st_heap st).
Proof. exact @tie_create. Qed.
Print Assumptions C18_code_tie_api_create.

(* polyseed_keygen as translated: the key is what the injected KDF wrote *)
Theorem C18_code_tie_api_keygen :
  forall (dp : deps) (d : data) (coin size : N) (ko : list Z),
         Canon d ->
         coin < 2 ^ 32 ->
         CApi.polyseed_keygen (zkdf dp) (Z.of_N (d_birthday d)) (Z.of_N (d_features d))
           (map Z.of_N (d_secret d)) (Z.of_N (d_checksum d)) (Z.of_N coin) (Z.of_N size) ko =
         ([CApi.CKdf (map Z.of_N (d_secret d)) 32 (map Z.of_N (keygen_salt coin d)) 32 10000 (Z.of_N size)],
          map Z.of_N
            (dp_kdf dp (d_secret d) SECRET_BUFFER_SIZE (keygen_salt coin d) 32 KDF_NUM_ITERATIONS size)) /\
         evs_of dp
           [CApi.CKdf (map Z.of_N (d_secret d)) 32 (map Z.of_N (keygen_salt coin d)) 32 10000 (Z.of_N size)] =
         [EvKdf (d_secret d) SECRET_BUFFER_SIZE (keygen_salt coin d) 32 KDF_NUM_ITERATIONS size].
Proof. exact @tie_keygen. Qed.
Print Assumptions C18_code_tie_api_keygen.
