(* C18 - injected dependencies are honoured (partial: a direct libc call in the C text cannot be
   exhibited by the model; it is observed by the correspondence's wrap counters - DESIGN.md). *)
From PS Require Import Base ApiDefs SpecDefs SpecApi PackTheorems ApiLemmas RefineProofs TraceProofs.
From PS.Gen Require Import Consts PrivConsts Langs.
Local Open Scope N_scope.

(* every allocation, free and clock reading of every call goes through the table in force when
   the call is made (the libc default exactly when that entry was injected as NULL) *)
Theorem C18_only_through_table : forall sgn ls cs o,
  forallb (ev_uses (st_deps cs)) (evp (step sgn ls cs o)) = true.
Proof. exact step_uses_table. Qed.
Print Assumptions C18_only_through_table.

(* injection replaces the whole table - nothing is kept from the previous one - and nothing else *)
Theorem C18_inject : forall sgn ls cs d,
  stp (step sgn ls cs (OpInject d)) = mkstate d (st_reserved cs) (st_heap cs) (st_next cs).
Proof. exact inject_replaces. Qed.
Print Assumptions C18_inject.

(* a successful create: one allocation of sizeof(polyseed_data), one clock reading, one request for
   exactly SECRET_SIZE = 19 random bytes, the wipe of the polynomial, nothing else; a refused
   create (unsupported features) calls nothing *)
Theorem C18_create_trace : forall sgn ls cs features rand clock,
  let r := step sgn ls cs (OpCreate features rand clock true) in
  match outp r with
  | OutStatus st (Some h) _ =>
    evp r = [EvAlloc (dp_alloc_libc (st_deps cs)) sizeof_data (Some h); EvTime (dp_time_libc (st_deps cs));
             EvRand SECRET_SIZE; EvWipe OPoly sizeof_poly]
  | OutStatus _ None _ => evp r = []
  | _ => True
  end.
Proof. exact create_trace. Qed.
Print Assumptions C18_create_trace.

(* the seed created: its 19 secret bytes are the delivered bytes with the two top bits of byte 18
   cleared (so two random outputs give the same seed iff they agree on those 150 bits), its
   birthday is the month index of the clock value, its features the requested user bits: this is
   the abstract machine's create, which the concrete one refines *)
Theorem C18_create_seed : forall sgn cs a features rand clock ok, R cs a -> clock < 2 ^ 64 ->
  snd (fst (step sgn langs cs (OpCreate features rand clock ok))) = snd (astep langs a (OpCreate features rand clock ok)) /\
  R (fst (fst (step sgn langs cs (OpCreate features rand clock ok)))) (fst (astep langs a (OpCreate features rand clock ok))).
Proof. exact sim_create. Qed.
Print Assumptions C18_create_seed.

Example C18_abstract_create : forall a features rand clock,
  spec_supported (as_mask a) (N.land features 7) = true ->
  fst (astep langs a (OpCreate features rand clock true)) =
  mkastate (as_deps a) (as_mask a)
    ((as_next a, mkaseed (map (fun i => nth i rand 0 mod 256) (seq 0 18) ++ [(nth 18 rand 0 mod 256) mod 64])
                         (spec_birthday_index clock) (N.land features 7)) :: as_seeds a) (as_next a + 1).
Proof. intros a features rand clock H. cbn [astep]. rewrite H. reflexivity. Qed.
