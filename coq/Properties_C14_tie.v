(* C14 - the tie to the code: theorems about the Gallina that tools/c2coq.py generates from /repo's CURRENT
   sources on every run (Gen/CFuns.v, Gen/CApi.v).  Kept apart from Properties_C14.v so that a change to the C code
   which breaks a tie leaves the theorems about the model standing, and the other way round. *)
From PS Require Import Base GFDefs PackDefs StrDefs LangDefs ApiDefs SpecDefs SpecApi GFProofs PackProofs StrProofs ApiLemmas
  RefineProofs FrameProofs SafetyProofs.
From PS Require Import CTieLang CTieStr.
From PS.Gen Require CFuns.
From PS.Gen Require Import Consts Langs.
Local Open Scope N_scope.

(* ---- the tie to the code: utf8_nfkd_lazy (dependency.h) as TRANSLATED from /repo's current source on
   this run (Gen/CFuns.v) computes what the mirror StrDefs.nfkd_lazy computes - for EVERY C string,
   EVERY injected normaliser D (its result taken as given), EVERY previous content of the destination
   buffer of POLYSEED_STR_SIZE cells: either D's result, or the copied prefix followed by the
   terminator with every other cell untouched (so no cell at or beyond POLYSEED_STR_SIZE is written) *)
Theorem C14_code_tie_lazy : forall sgn (nf : transform) (D : list Z -> list Z * Z) s norm0 fuel,
  no_nul s -> length norm0 = N.to_nat STR_SIZE -> (length s + 2 <= fuel)%nat ->
  (D (zs s) = (zs (fst (nf s)), Z.of_N (snd (nf s)))) ->
  CFuns.utf8_nfkd_lazy fuel sgn D (zs s) norm0 =
    let '(content, size, called) := nfkd_lazy nf s in
    if called then Some (zs content, Z.of_N size)
    else Some (zs content ++ 0%Z :: skipn (S (length content)) norm0, Z.of_N size).
Proof. exact tie_nfkd_lazy_mirror. Qed.
Print Assumptions C14_code_tie_lazy.
