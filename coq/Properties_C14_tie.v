(* C14 - the tie to the code: theorems about the Gallina that tools/c2coq.py generates from /repo's CURRENT
   sources on every run (Gen/CFuns.v, Gen/CApi.v).  Kept apart from Properties_C14.v so that a change to the C code
   which breaks a tie leaves the theorems about the model standing, and the other way round. *)
From PS Require Import Base GFDefs PackDefs StrDefs LangDefs ApiDefs SpecDefs SpecApi GFProofs PackProofs StrProofs ApiLemmas
  RefineProofs FrameProofs SafetyProofs.
From PS Require Import CTieLang CTieStr.
From PS.Gen Require CFuns.
From PS.Gen Require Import Consts Langs.
Local Open Scope N_scope.

(* ---- the tie to the code: utf8_nfkd_lazy (dependency.h) as TRANSLATED from /repo's current source on
   this run (Gen/CFuns.v) computes what the mirror StrDefs.nfkd_lazy computes - for EVERY C string,
   EVERY injected normaliser D (its result taken as given), EVERY previous content of the destination
   buffer of POLYSEED_STR_SIZE cells: either D's result, or the copied prefix followed by the
   terminator with every other cell untouched (so no cell at or beyond POLYSEED_STR_SIZE is written) *)
Theorem C14_code_tie_lazy : forall sgn (nf : transform) (D : list Z -> list Z * Z) s norm0 fuel,
  no_nul s -> length norm0 = N.to_nat STR_SIZE -> (length s + 2 <= fuel)%nat ->
  (D (zs s) = (zs (fst (nf s)), Z.of_N (snd (nf s)))) ->
  CFuns.utf8_nfkd_lazy fuel sgn D (zs s) norm0 =
    let '(content, size, called) := nfkd_lazy nf s in
    if called then Some (zs content, Z.of_N size)
    else Some (zs content ++ 0%Z :: skipn (S (length content)) norm0, Z.of_N size).
Proof. exact tie_nfkd_lazy_mirror. Qed.
Print Assumptions C14_code_tie_lazy.

(* ---- the tie to the code: src/polyseed.c as TRANSLATED on this run (Gen/CApi.v) ---- *)
From Coq Require Import String.
From PS Require Import Base GFDefs PackDefs StoreDefs MiscDefs StrDefs LangDefs ApiDefs SpecDefs SpecApi GFProofs PackProofs StoreProofs RefineProofs RoundTrip TraceProofs FrameProofs SafetyProofs CTieBase CTieLang CTiePhrase CTiePhraseEv CTieSplit CTieApi CTieDecode CTieEncode CTieLocals CTieInject CTieCmp CTieSearch CTieClosed CodeTheorems HeldProofs CodeMachine.
From PS.Gen Require Import Consts PrivConsts Langs.
From PS.Gen Require CFuns.
From PS.Gen Require CApi.

(* ON THE CODE: on every well-formed call the translated code terminates within the fuel and does not reach the fault value (it equals the mirror step, which never faults) *)
Theorem C14_code_tie_machine_no_fault :
  forall (sgn : bool) (fuel : nat) (ext : Z -> list Z -> Z) (OKW : bytes -> Prop),
         (forall (li : nat) (L : lang) (w : bytes),
          OKW w -> nth_error langs li = Some L -> ext (Z.of_nat li) (zs w) = enc (lang_search sgn L w)) ->
         (forall t : bytes, no_nul t -> (Datatypes.length t + 2 <= fuel)%nat -> OKW t) ->
         (18 <= fuel)%nat ->
         forall (cs : state) (a : astate) (o : op),
         R cs a ->
         op_ok o ->
         lang_ok_op o ->
         op_ready sgn fuel cs o ->
         (forall h : N, touches o = Some h -> heap_get (st_heap cs) h <> None) ->
         snd (fst (cstep sgn fuel ext cs o)) <> OutFault.
Proof. exact @code_no_fault. Qed.
Print Assumptions C14_code_tie_machine_no_fault.

(* ON THE CODE: the status a constructor of the translated code returns is one of those documented for it *)
Theorem C14_code_tie_machine_status_range :
  forall (sgn : bool) (fuel : nat) (ext : Z -> list Z -> Z) (OKW : bytes -> Prop),
         (forall (li : nat) (L : lang) (w : bytes),
          OKW w -> nth_error langs li = Some L -> ext (Z.of_nat li) (zs w) = enc (lang_search sgn L w)) ->
         (forall t : bytes, no_nul t -> (Datatypes.length t + 2 <= fuel)%nat -> OKW t) ->
         (18 <= fuel)%nat ->
         forall (cs : state) (a : astate) (o : op),
         R cs a ->
         op_ok o ->
         op_ready sgn fuel cs o ->
         match o with
         | OpCreate _ _ _ _ =>
             status_in [ST_OK; ST_UNSUPPORTED; ST_MEMORY] (snd (fst (cstep sgn fuel ext cs o)))
         | OpLoad _ _ =>
             status_in [ST_OK; ST_FORMAT; ST_CHECKSUM; ST_UNSUPPORTED; ST_MEMORY]
               (snd (fst (cstep sgn fuel ext cs o)))
         | OpDecode _ _ _ =>
             status_in [ST_OK; ST_NUM_WORDS; ST_LANG; ST_MULT_LANG; ST_CHECKSUM; ST_UNSUPPORTED; ST_MEMORY]
               (snd (fst (cstep sgn fuel ext cs o)))
         | OpDecodeExplicit _ _ _ _ =>
             status_in [ST_OK; ST_NUM_WORDS; ST_LANG; ST_CHECKSUM; ST_UNSUPPORTED; ST_MEMORY]
               (snd (fst (cstep sgn fuel ext cs o)))
         | _ => True
         end.
Proof. exact @code_status_range. Qed.
Print Assumptions C14_code_tie_machine_status_range.
