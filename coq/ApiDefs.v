(* polyseed.c, dependency.c: every public function, over a concrete state
   (dependency table, reserved-feature mask, heap of seed structs), with the
   trace of calls made to injected functions.  The environment's answers
   (random bytes, clock, allocation success) are part of the operation. *)
From PS Require Import Base GFDefs PackDefs StoreDefs MiscDefs StrDefs LangDefs.
From PS.Gen Require Import Consts PrivConsts.
Local Open Scope N_scope.

Definition kdf_fun := list N -> N -> list N -> N -> N -> N -> list N.
  (* pw pwlen salt saltlen iterations keylen -> key bytes written *)

Record deps := mkdeps {
  dp_tag : N;               (* identifies the table in outputs *)
  dp_nfc : transform;
  dp_nfkd : transform;
  dp_kdf : kdf_fun;
  dp_time_libc : bool;      (* optional entry was NULL: libc default *)
  dp_alloc_libc : bool;
  dp_free_libc : bool
}.

Inductive obj :=
| OPoly | OStrTmp | OWords | OMask | OPassNorm | OIdx   (* automatic objects *)
| OSeed (h : N).                                        (* a heap block *)

Inductive event :=
| EvAlloc (libc : bool) (n : N) (res : option N)   (* request, block handle or NULL *)
| EvFree (libc : bool) (h : N)
| EvWipe (o : obj) (len : N)
| EvRand (n : N)
| EvTime (libc : bool)
| EvKdf (pw : list N) (pwlen : N) (salt : list N) (saltlen iters keylen : N)
| EvNfkd (s : bytes)
| EvNfc (s : bytes).

Record state := mkstate {
  st_deps : deps;
  st_reserved : N;
  st_heap : list (N * data);
  st_next : N                 (* number of blocks handed out so far *)
}.

Inductive op :=
| OpInject (d : deps)
| OpEnable (mask : N)
| OpCreate (features : N) (rand : list N) (clock : N) (alloc_ok : bool)
| OpLoad (buf : list N) (alloc_ok : bool)
| OpDecode (str : bytes) (coin : N) (alloc_ok : bool)
| OpDecodeExplicit (str : bytes) (coin : N) (li : nat) (alloc_ok : bool)
| OpEncode (h : N) (li : nat) (coin : N)
| OpStore (h : N)
| OpCrypt (h : N) (pw : bytes)
| OpKeygen (h : N) (coin : N) (size : N)
| OpGetBirthday (h : N)
| OpGetFeature (h : N) (mask : N)
| OpIsEncrypted (h : N)
| OpFree (h : N)
| OpFreeNull.

Inductive out :=
| OutFault                                            (* undefined behaviour in C *)
| OutUnit
| OutNum (n : N)
| OutStatus (st : N) (seed : option N) (lang : option nat)
| OutStr (s : bytes) (n : N)
| OutBytes (b : list N).

Definition KDF_NUM_ITERATIONS : N := 10000.

Fixpoint heap_get (hp : list (N * data)) (h : N) : option data :=
  match hp with
  | [] => None
  | (k, d) :: hp' => if k =? h then Some d else heap_get hp' h
  end.

Fixpoint heap_set (hp : list (N * data)) (h : N) (d : data) : list (N * data) :=
  match hp with
  | [] => []
  | (k, d0) :: hp' => if k =? h then (k, d) :: hp' else (k, d0) :: heap_set hp' h d
  end.

Fixpoint heap_del (hp : list (N * data)) (h : N) : list (N * data) :=
  match hp with
  | [] => []
  | (k, d0) :: hp' => if k =? h then hp' else (k, d0) :: heap_del hp' h
  end.

Definition wipe_poly := EvWipe OPoly sizeof_poly.
Definition wipe_str := EvWipe OStrTmp sizeof_str.
Definition wipe_words := EvWipe OWords sizeof_phrase.
Definition wipe_idx := EvWipe OIdx sizeof_idx.

(* polyseed_free(seed) for a live block *)
Definition free_events (dp : deps) (h : N) : list event :=
  [EvWipe (OSeed h) sizeof_data; EvFree (dp_free_libc dp) h].

Definition store32 (u : N) : list N :=
  let u32 := u mod U32 in
  [u32 mod 256; (u32 / 256) mod 256; (u32 / 65536) mod 256; (u32 / 16777216) mod 256].

Definition bytesN (s : bytes) : list N := map bval s.

Definition KEY_SALT_PREFIX : list N :=   (* "POLYSEED key" *)
  [80; 79; 76; 89; 83; 69; 69; 68; 32; 107; 101; 121].
Definition MASK_SALT : list N :=         (* "POLYSEED mask" 00 FF FF *)
  [80; 79; 76; 89; 83; 69; 69; 68; 32; 109; 97; 115; 107; 0; 255; 255].

Definition keygen_salt (coin : N) (d : data) : list N :=
  KEY_SALT_PREFIX ++ [0; 255; 255; 255]
  ++ store32 coin ++ store32 (d_birthday d) ++ store32 (d_features d) ++ [0; 0; 0; 0].

(* the poly built from a struct: coeff[0] given, coeff[1..15] from the data *)
Definition poly_of (c0 : N) (d : data) : option (list N) :=
  match data_to_poly d with Some ws => Some (c0 :: ws) | None => None end.

Definition xor_coin (c : list N) (coin : N) : list N :=
  match c with
  | c0 :: c1 :: t => c0 :: N.lxor c1 coin :: t
  | _ => c
  end.

Fixpoint xor_bytes (a b : list N) : list N :=
  match a, b with
  | x :: a', y :: b' => N.lxor x y :: xor_bytes a' b'
  | _, _ => a
  end.

(* common tail of both decoders, after the indices are known *)
Definition finish_decode (st : state) (idx : list N) (coin : N) (alloc_ok : bool)
  (lang : option nat) : state * out * list event :=
  let dp := st_deps st in
  let poly := xor_coin idx coin in
  if negb (poly_check poly) then (st, OutStatus ST_CHECKSUM None None, [])
  else
    let h := st_next st in
    if negb alloc_ok then
      (st, OutStatus ST_MEMORY None None, [EvAlloc (dp_alloc_libc dp) sizeof_data None])
    else
      let st1 := mkstate dp (st_reserved st) (st_heap st) (h + 1) in
      match poly_to_data poly with
      | None => (st, OutFault, [])
      | Some d =>
        if negb (features_supported (st_reserved st) (d_features d)) then
          (st1, OutStatus ST_UNSUPPORTED None None,
           EvAlloc (dp_alloc_libc dp) sizeof_data (Some h) :: free_events dp h)
        else
          (mkstate dp (st_reserved st) ((h, d) :: st_heap st) (h + 1),
           OutStatus ST_OK (Some h) lang,
           [EvAlloc (dp_alloc_libc dp) sizeof_data (Some h)])
      end.

Definition cleanup_decode : list event := [wipe_str; wipe_words; wipe_poly].

Definition step (sgn : bool) (langs : list lang) (st : state) (o : op)
  : state * out * list event :=
  let dp := st_deps st in
  match o with
  | OpInject d => (mkstate d (st_reserved st) (st_heap st) (st_next st), OutUnit, [])

  | OpEnable mask =>
    let '(r, n) := enable_features mask in
    (mkstate dp r (st_heap st) (st_next st), OutNum n, [])

  | OpCreate features rand clock alloc_ok =>
    let f := make_features features in
    if negb (features_supported (st_reserved st) f) then (st, OutStatus ST_UNSUPPORTED None None, [])
    else if negb alloc_ok then
      (st, OutStatus ST_MEMORY None None, [EvAlloc (dp_alloc_libc dp) sizeof_data None])
    else
      let h := st_next st in
      let sec0 := map (fun i => nth i rand 0 mod 256) (seq 0 (N.to_nat SECRET_SIZE)) in
      let sec1 := upd sec0 (N.to_nat SECRET_SIZE - 1) (N.land (nth (N.to_nat SECRET_SIZE - 1) sec0 0) CLEAR_MASK) in
      let sec := sec1 ++ repeat 0 (N.to_nat (SECRET_BUFFER_SIZE - SECRET_SIZE)) in
      let d0 := mkdata (birthday_encode clock) f sec 0 in
      match poly_of 0 d0 with
      | None => (st, OutFault, [])
      | Some poly =>
        let d := mkdata (d_birthday d0) f sec (poly_eval poly) in
        (mkstate dp (st_reserved st) ((h, d) :: st_heap st) (h + 1),
         OutStatus ST_OK (Some h) None,
         [EvAlloc (dp_alloc_libc dp) sizeof_data (Some h); EvTime (dp_time_libc dp);
          EvRand SECRET_SIZE; wipe_poly])
      end

  | OpFree h =>
    match heap_get (st_heap st) h with
    | None => (st, OutFault, [])          (* not a live seed: undefined *)
    | Some _ => (mkstate dp (st_reserved st) (heap_del (st_heap st) h) (st_next st),
                 OutUnit, free_events dp h)
    end
  | OpFreeNull => (st, OutUnit, [])

  | OpGetBirthday h =>
    match heap_get (st_heap st) h with
    | None => (st, OutFault, [])
    | Some d => (st, OutNum (birthday_decode (d_birthday d)), [])
    end
  | OpGetFeature h mask =>
    match heap_get (st_heap st) h with
    | None => (st, OutFault, [])
    | Some d => (st, OutNum (get_features (d_features d) mask), [])
    end
  | OpIsEncrypted h =>
    match heap_get (st_heap st) h with
    | None => (st, OutFault, [])
    | Some d => (st, OutNum (if is_encrypted (d_features d) then 1 else 0), [])
    end

  | OpEncode h li coin =>
    match heap_get (st_heap st) h, nth_error langs li with
    | Some d, Some L =>
      match poly_of (d_checksum d) d with
      | None => (st, OutFault, [])
      | Some poly0 =>
        let poly := xor_coin poly0 coin in
        let ws := map (fun c => nth (N.to_nat c) (l_words L) []) poly in
        if negb (forallb (fun c => c <? LANG_SIZE) poly) then (st, OutFault, []) else
        match write_phrase (l_separator L) ws with
        | None => (st, OutFault, [])      (* str_tmp overrun *)
        | Some s =>
          if l_compose L then
            let '(o, n) := dp_nfc dp s in
            (st, OutStr o n, [EvNfc s; wipe_poly; wipe_str])
          else (st, OutStr s (N.of_nat (length s)), [wipe_poly; wipe_str])
        end
      end
    | _, _ => (st, OutFault, [])
    end

  | OpDecode str coin alloc_ok =>
    let '(norm, _, called) := nfkd_lazy (dp_nfkd dp) str in
    let ev0 := if called then [EvNfkd str] else [] in
    let '(w, words) := str_split norm in
    if negb (Nat.eqb w 16) then (st, OutStatus ST_NUM_WORDS None None, ev0 ++ cleanup_decode)
    else match phrase_decode sgn langs words with
         | PdFault => (st, OutFault, [])
         | PdLang => (st, OutStatus ST_LANG None None, ev0 ++ wipe_idx :: cleanup_decode)
         | PdMult => (st, OutStatus ST_MULT_LANG None None, ev0 ++ wipe_idx :: cleanup_decode)
         | PdOk idx li =>
           let '(st', o', ev) := finish_decode st idx coin alloc_ok (Some li) in
           (st', o', ev0 ++ wipe_idx :: ev ++ cleanup_decode)
         end

  | OpDecodeExplicit str coin li alloc_ok =>
    match nth_error langs li with
    | None => (st, OutFault, [])
    | Some L =>
      let '(norm, _, called) := nfkd_lazy (dp_nfkd dp) str in
      let ev0 := if called then [EvNfkd str] else [] in
      let '(w, words) := str_split norm in
      if negb (Nat.eqb w 16) then (st, OutStatus ST_NUM_WORDS None None, ev0 ++ cleanup_decode)
      else match phrase_decode_explicit sgn L words with
           | None => (st, OutFault, [])
           | Some None => (st, OutStatus ST_LANG None None, ev0 ++ cleanup_decode)
           | Some (Some idx) =>
             let '(st', o', ev) := finish_decode st idx coin alloc_ok None in
             (st', o', ev0 ++ ev ++ cleanup_decode)
           end
    end

  | OpKeygen h coin size =>
    match heap_get (st_heap st) h with
    | None => (st, OutFault, [])
    | Some d =>
      let salt := keygen_salt coin d in
      (st, OutBytes (dp_kdf dp (d_secret d) SECRET_BUFFER_SIZE salt 32 KDF_NUM_ITERATIONS size),
       [EvKdf (d_secret d) SECRET_BUFFER_SIZE salt 32 KDF_NUM_ITERATIONS size])
    end

  | OpStore h =>
    match heap_get (st_heap st) h with
    | None => (st, OutFault, [])
    | Some d => (st, OutBytes (data_store d), [])
    end

  | OpLoad buf alloc_ok =>
    if negb alloc_ok then
      (st, OutStatus ST_MEMORY None None, [EvAlloc (dp_alloc_libc dp) sizeof_data None])
    else
      let h := st_next st in
      let ev_alloc := EvAlloc (dp_alloc_libc dp) sizeof_data (Some h) in
      let st1 := mkstate dp (st_reserved st) (st_heap st) (h + 1) in
      match data_load buf with
      | LoadFormat => (st1, OutStatus ST_FORMAT None None, ev_alloc :: free_events dp h)
      | LoadOk d =>
        match poly_of (d_checksum d) d with
        | None => (st, OutFault, [])
        | Some poly =>
          if negb (poly_check poly) then
            (st1, OutStatus ST_CHECKSUM None None, ev_alloc :: free_events dp h ++ [wipe_poly])
          else if negb (features_supported (st_reserved st) (d_features d)) then
            (st1, OutStatus ST_UNSUPPORTED None None, ev_alloc :: free_events dp h ++ [wipe_poly])
          else
            (mkstate dp (st_reserved st) ((h, d) :: st_heap st) (h + 1),
             OutStatus ST_OK (Some h) None, [ev_alloc; wipe_poly])
        end
      end

  | OpCrypt h pw =>
    match heap_get (st_heap st) h with
    | None => (st, OutFault, [])
    | Some d =>
      let '(norm, n, called) := nfkd_lazy (dp_nfkd dp) pw in
      let ev0 := if called then [EvNfkd pw] else [] in
      let pwN := bytesN norm in
      let mask := dp_kdf dp pwN n MASK_SALT 16 KDF_NUM_ITERATIONS 32 in
      let sec19 := xor_bytes (firstn (N.to_nat SECRET_SIZE) (d_secret d)) mask in
      let last := (N.to_nat SECRET_SIZE - 1)%nat in
      let sec19' := upd sec19 last (N.land (nth last sec19 0) CLEAR_MASK) in
      let sec := sec19' ++ skipn (N.to_nat SECRET_SIZE) (d_secret d) in
      let d1 := mkdata (d_birthday d) (N.lxor (d_features d) ENCRYPTED_MASK) sec 0 in
      match poly_of 0 d1 with
      | None => (st, OutFault, [])
      | Some poly =>
        let d2 := mkdata (d_birthday d1) (d_features d1) sec (poly_eval poly) in
        (mkstate dp (st_reserved st) (heap_set (st_heap st) h d2) (st_next st), OutUnit,
         ev0 ++ [EvKdf pwN n MASK_SALT 16 KDF_NUM_ITERATIONS 32;
                 wipe_poly; EvWipe OMask 32; EvWipe OPassNorm sizeof_str])
      end
    end
  end.

Definition null_transform : transform := fun s => (s, N.of_nat (length s)).
Definition null_kdf : kdf_fun := fun _ _ _ _ _ keylen => repeat 0 (N.to_nat keylen).
Definition init_deps : deps := mkdeps 0 null_transform null_transform null_kdf false false false.
Definition init_state : state := mkstate init_deps RESERVED_DEFAULT [] 0.

Fixpoint run (sgn : bool) (langs : list lang) (st : state) (ops : list op)
  : state * list (out * list event) :=
  match ops with
  | [] => (st, [])
  | o :: ops' =>
    let '(st1, out1, ev1) := step sgn langs st o in
    let '(stf, outs) := run sgn langs st1 ops' in
    (stf, (out1, ev1) :: outs)
  end.
