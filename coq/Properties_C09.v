(* C09 - automatic language detection never guesses; tokens and statuses follow one rule. *)
From PS Require Import Base StrDefs ApiDefs SpecDefs SpecApi StrProofs LangData ApiLemmas RefineProofs ApiTheorems.
From PS Require Import LangDefs.
From PS.Gen Require Import Consts Langs.
Local Open Scope N_scope.

(* tokens: the C return value is the number of fields of a split on U+0020 - empty fields
   included, one trailing empty field dropped - capped at 17, and words[] holds the first 16 *)
Theorem C09_tokens : forall s,
  str_split s = (Nat.min (length (spec_tokens s)) 17, firstn 16 (spec_tokens s)).
Proof. exact str_split_spec. Qed.
Print Assumptions C09_tokens.

(* what is split: NFKD of the whole input if a non-ASCII byte occurs among its first STR_SIZE-1
   bytes, otherwise those first STR_SIZE-1 bytes *)
Theorem C09_normalised : forall nfkd str, fst (nfkd_lazy nfkd str) = spec_norm nfkd str.
Proof. exact lazy_norm. Qed.
Print Assumptions C09_normalised.

(* polyseed_decode, for EVERY C string, coin < 2048, allocator answer and related state *)
Theorem C09_auto : forall sgn cs a str coin ok, R cs a -> no_nul str -> coin < 2048 ->
  let toks := spec_tokens (fst (spec_norm (dp_nfkd (st_deps cs)) str)) in
  outp (step sgn langs cs (OpDecode str coin ok)) =
    if negb (Nat.eqb (length toks) 16) then OutStatus ST_NUM_WORDS None None
    else match matching langs 0 toks with
         | [] => OutStatus ST_LANG None None
         | [(li, idx)] => finish_out a (st_next cs) idx coin ok (Some li)
         | _ => OutStatus ST_MULT_LANG None None
         end.
Proof. exact decode_auto_spec. Qed.
Print Assumptions C09_auto.

Theorem C09_explicit : forall sgn cs a str coin li L ok, R cs a -> no_nul str -> coin < 2048 ->
  nth_error langs li = Some L ->
  let toks := spec_tokens (fst (spec_norm (dp_nfkd (st_deps cs)) str)) in
  outp (step sgn langs cs (OpDecodeExplicit str coin li ok)) =
    if negb (Nat.eqb (length toks) 16) then OutStatus ST_NUM_WORDS None None
    else match spec_lookup_all L toks with
         | None => OutStatus ST_LANG None None
         | Some idx => finish_out a (st_next cs) idx coin ok None
         end.
Proof. exact decode_explicit_spec. Qed.
Print Assumptions C09_explicit.

(* the candidate list is exactly: registered languages (registry position li) that recognise
   every token, with the indices found *)
Theorem C09_candidates : forall toks li idx,
  In (li, idx) (matching langs 0 toks) <->
  exists L, nth_error langs (li - 0) = Some L /\ (0 <= li)%nat /\ spec_lookup_all L toks = Some idx.
Proof. exact (matching_iff langs 0). Qed.
Print Assumptions C09_candidates.

Theorem C09_recognises : forall L toks idx, In L langs -> Forall no_nul toks ->
  (spec_lookup_all L toks = Some idx <->
   Forall2 (fun t i => exists j, i = N.of_nat j /\ (j < 2048)%nat /\ accepts_b L t (nth j (l_words L) []) = true) toks idx).
Proof. exact lookup_all_iff. Qed.
Print Assumptions C09_recognises.

(* after the language is settled: CHECKSUM, then MEMORY, then UNSUPPORTED, then OK *)
Theorem C09_tail : forall a next idx coin ok lang,
  finish_out a next idx coin ok lang =
    if negb (spec_eval (axor_coin idx coin) =? 0) then OutStatus ST_CHECKSUM None None
    else if negb ok then OutStatus ST_MEMORY None None
    else if negb (spec_supported (as_mask a) (a_features (spec_seed_of_indices (axor_coin idx coin))))
         then OutStatus ST_UNSUPPORTED None None
    else OutStatus ST_OK (Some next) lang.
Proof. reflexivity. Qed.
Print Assumptions C09_tail.

(* examples: one leading, one doubled, two trailing spaces change the count; one trailing does not *)
Example C09_token_examples :
  length (spec_tokens [x61; x20; x62]) = 2%nat /\ length (spec_tokens [x61; x20; x62; x20]) = 2%nat /\
  length (spec_tokens [x61; x20; x62; x20; x20]) = 3%nat /\ length (spec_tokens [x20; x61; x20; x62]) = 3%nat /\
  length (spec_tokens [x61; x20; x20; x62]) = 3%nat /\ length (spec_tokens []) = 0%nat.
Proof. repeat split. Qed.
