(* The translated API as a MACHINE: a state (dependency table, reserved-feature mask, heap of blocks, the allocator's
   counter) stepped by calling the Gallina generated from /repo's current polyseed.c (Gen/CApi.v) - and the theorem
   that this machine IS the mirror machine ApiDefs.step the refinement, ledger, wipe and frame theorems are about:
   same next state, same output, same events, for every well-formed call.  Composed with C13_refinement this gives:
   any sequence of calls of the translated code behaves like the abstract seed model. *)
From Coq Require Import String.
From PS Require Import Base GFDefs PackDefs StoreDefs MiscDefs StrDefs LangDefs ApiDefs SpecDefs SpecApi.
From PS Require Import HeldProofs.
From PS Require Import GFProofs MiscProofs PackProofs PackTheorems StoreProofs SeedProofs ApiLemmas RefineProofs ApiTheorems TraceProofs FrameProofs SafetyProofs.
From PS Require Import CTieBase CTieLang CTiePhrase CTieFeat CTieStore CTieSplit CTieApi CTieDecode CTieEncode CTieInject.
From PS.Gen Require Import Consts PrivConsts Langs.
From PS.Gen Require CFuns CApi.
Local Open Scope N_scope.

Definition is_alloc_some (e : event) : bool := match e with EvAlloc _ _ (Some _) => true | _ => false end.
Definition allocd (cevs : list CApi.cev) : bool :=
  existsb (fun e => match e with CApi.CAlloc _ r => negb (r =? 0)%Z | _ => false end) cevs.

Lemma allocd_evs dp cevs : existsb is_alloc_some (evs_of dp cevs) = allocd cevs.
Proof.
  unfold evs_of, allocd. induction cevs as [|e cevs IH]; [reflexivity|].
  cbn [flat_map existsb]. rewrite existsb_app, IH. f_equal.
  destruct e; cbn [ev_of existsb is_alloc_some orb]; try reflexivity.
  - destruct (res =? 0)%Z; reflexivity.
  - destruct (cobj obj); reflexivity.
  - destruct (nfkd_lazy _ _) as [[? ?] c]. destruct c; reflexivity.
Qed.

(* what a call that is not a set-up call leaves of the state besides the heap *)
Lemma step_rest sgn cs o : is_setup o = false ->
  let r := step sgn langs cs o in
  stp r = mkstate (st_deps cs) (st_reserved cs) (st_heap (stp r))
            (if existsb is_alloc_some (evp r) then st_next cs + 1 else st_next cs).
Proof.
  intros Hs. cbv zeta. destruct (globals_frame sgn langs cs o Hs) as [Ed Er].
  assert (En : st_next (stp (step sgn langs cs o)) =
               if existsb is_alloc_some (evp (step sgn langs cs o)) then st_next cs + 1 else st_next cs).
  { assert (FN : forall idx coin ok lang,
      st_next (fst (fst (finish_decode cs idx coin ok lang))) =
      if existsb is_alloc_some (snd (finish_decode cs idx coin ok lang)) then st_next cs + 1 else st_next cs).
    { intros. unfold finish_decode, free_events.
      repeat (match goal with |- context [match ?x with _ => _ end] =>
                lazymatch x with context [existsb] => fail | _ => destruct x end end; cbn [negb fst snd app]).
      all: cbn [existsb is_alloc_some orb st_next]; reflexivity. }
    assert (WN : forall X, existsb is_alloc_some (X ++ cleanup_decode) = existsb is_alloc_some X).
    { intros X. rewrite existsb_app. unfold cleanup_decode, wipe_poly, wipe_str, wipe_words. cbn. apply orb_false_r. }
    destruct o; try discriminate; unfold stp, evp; cbn [step].
    4:{ (* decode_explicit *)
      destruct (nth_error langs li) as [L|]; [|reflexivity].
      destruct (nfkd_lazy _ str) as [[norm n] called]. destruct (str_split norm) as [w words].
      destruct (negb (Nat.eqb w 16)); [cbn [fst snd]; rewrite WN; destruct called; reflexivity|].
      destruct (phrase_decode_explicit sgn L words) as [[idx|]|]; cbn [fst snd]; [| rewrite WN; destruct called; reflexivity | reflexivity].
      specialize (FN idx coin alloc_ok None). destruct (finish_decode cs idx coin alloc_ok None) as [[s o] l0].
      cbn [fst snd] in *. rewrite app_assoc, WN, existsb_app. destruct called; cbn [existsb orb]; exact FN. }
    3:{ (* decode *)
      destruct (nfkd_lazy _ str) as [[norm n] called]. destruct (str_split norm) as [w words].
      destruct (negb (Nat.eqb w 16)); [cbn [fst snd]; rewrite WN; destruct called; reflexivity|].
      destruct (phrase_decode sgn langs words) as [| | |idx li]; cbn [fst snd]; try reflexivity.
      1,2: change (wipe_idx :: cleanup_decode) with ([wipe_idx] ++ cleanup_decode); rewrite app_assoc, WN, existsb_app; destruct called; reflexivity.
      specialize (FN idx coin alloc_ok (Some li)). destruct (finish_decode cs idx coin alloc_ok (Some li)) as [[s o] l0].
      cbn [fst snd] in *. change (wipe_idx :: l0 ++ cleanup_decode) with (([wipe_idx] ++ l0) ++ cleanup_decode).
      rewrite app_assoc, WN, !existsb_app. destruct called; cbn [existsb is_alloc_some orb]; exact FN. }
    all: unfold free_events.
    all: repeat (match goal with
         | |- context [match ?x with _ => _ end] =>
           lazymatch x with context [existsb] => fail | _ => destruct x end
         end; cbn [negb fst snd app]).
    all: unfold wipe_poly, wipe_str, wipe_words, wipe_idx; cbn [existsb is_alloc_some orb app st_next]; try reflexivity. }
  revert Ed Er En. unfold stp, TraceProofs.stp, evp, TraceProofs.evp.
  destruct (step sgn langs cs o) as [[st' out] evs]. cbn [fst snd]. destruct st' as [d r h n].
  cbn [st_deps st_reserved st_next st_heap]. intros -> -> ->. reflexivity.
Qed.

Definition undata (b f : Z) (s : list Z) (c : Z) : data := mkdata (Z.to_N b) (Z.to_N f) (map Z.to_N s) (Z.to_N c).

Lemma undata_zd d b f s c : (b, f, s, c) = zd d -> undata b f s c = d.
Proof.
  unfold zd. intros E. injection E as -> -> -> ->. unfold undata. rewrite !N2Z.id, map_toN_zN. destruct d; reflexivity.
Qed.

Section Machine.
  Variables (sgn : bool) (fuel : nat) (ext : Z -> list Z -> Z).

  (* the injected decomposer as the translated code calls it *)
  Definition Dz (dp : deps) : list Z -> list Z * Z :=
    fun zl => let r := dp_nfkd dp (bytes_of zl) in (zs (fst r), zN (snd r)).

  Lemma Dz_zs dp s : Dz dp (zs s) = (zs (fst (dp_nfkd dp s)), zN (snd (dp_nfkd dp s))).
  Proof. unfold Dz. rewrite bytes_of_zs. reflexivity. Qed.

  (* after a constructor call: the new block is entered under the name the allocator gave it *)
  Definition after_ctor (st : state) (cevs : list CApi.cev) (b f : Z) (s : list Z) (c so status : Z) (lang : option nat)
    : state * out * list event :=
    (mkstate (st_deps st) (st_reserved st)
       (if (status =? 0)%Z then (hnd so, undata b f s c) :: st_heap st else st_heap st)
       (if allocd cevs then st_next st + 1 else st_next st),
     OutStatus (Z.to_N status) (if (status =? 0)%Z then Some (hnd so) else None) (if (status =? 0)%Z then lang else None),
     evs_of (st_deps st) cevs).

  (* one call of the translated code *)
  Definition cstep (st : state) (o : op) : state * out * list event :=
    let tbl := CFuns.polyseed_mul2_table in
    let res := zN (st_reserved st) in
    match o with
    | OpCreate features rand clock ok =>
      let '(cevs, b, f, s, c, so, status) :=
        CApi.polyseed_create (alloc_ptr st ok) (zN clock) (map zN rand) tbl res (zN features) 0 0 [] 0 0 in
      after_ctor st cevs b f s c so status None
    | OpLoad buf ok =>
      let '(cevs, b, f, s, c, so, status) := CApi.polyseed_load (alloc_ptr st ok) tbl res (map zN buf) 0 0 [] 0 0 in
      after_ctor st cevs b f s c so status None
    | OpDecode str coin ok =>
      match CApi.polyseed_decode fuel sgn (Dz (st_deps st)) ext (alloc_ptr st ok) tbl res (zs str) (zN coin) 1 0 0 0 [] 0 0 with
      | Some (cevs, lo', b, f, s, c, so, status) => after_ctor st cevs b f s c so status (Some (Z.to_nat lo'))
      | None => (st, OutFault, [])
      end
    | OpDecodeExplicit str coin li ok =>
      match CApi.polyseed_decode_explicit fuel sgn (Dz (st_deps st)) ext (alloc_ptr st ok) tbl res (zs str) (zN coin)
              (Z.of_nat li) 0 0 [] 0 0 with
      | Some (cevs, b, f, s, c, so, status) => after_ctor st cevs b f s c so status None
      | None => (st, OutFault, [])
      end
    | OpFree h =>
      match heap_get (st_heap st) h with
      | None => (st, OutFault, [])
      | Some _ => (mkstate (st_deps st) (st_reserved st) (heap_del (st_heap st) h) (st_next st), OutUnit,
                   evs_of (st_deps st) (CApi.polyseed_free (ptr h)))
      end
    | OpFreeNull => (st, OutUnit, evs_of (st_deps st) (CApi.polyseed_free 0))
    | OpStore h =>
      match heap_get (st_heap st) h with
      | None => (st, OutFault, [])
      | Some d => (st, OutBytes (map Z.to_N (CApi.polyseed_store (zN (d_birthday d)) (zN (d_features d)) (map zN (d_secret d))
                                              (zN (d_checksum d)) (repeat 0%Z 32))), [])
      end
    | OpGetBirthday h =>
      match heap_get (st_heap st) h with
      | None => (st, OutFault, [])
      | Some d => (st, OutNum (Z.to_N (CApi.polyseed_get_birthday (zN (d_birthday d)) (zN (d_features d)) (map zN (d_secret d))
                                         (zN (d_checksum d)))), [])
      end
    | OpGetFeature h mask =>
      match heap_get (st_heap st) h with
      | None => (st, OutFault, [])
      | Some d => (st, OutNum (Z.to_N (CApi.polyseed_get_feature (zN (d_birthday d)) (zN (d_features d)) (map zN (d_secret d))
                                         (zN (d_checksum d)) (zN mask))), [])
      end
    | OpIsEncrypted h =>
      match heap_get (st_heap st) h with
      | None => (st, OutFault, [])
      | Some d => (st, OutNum (Z.to_N (CApi.polyseed_is_encrypted (zN (d_birthday d)) (zN (d_features d)) (map zN (d_secret d))
                                         (zN (d_checksum d)))), [])
      end
    | OpKeygen h coin size =>
      match heap_get (st_heap st) h with
      | None => (st, OutFault, [])
      | Some d =>
        let '(cevs, key) := CApi.polyseed_keygen (zkdf (st_deps st)) (zN (d_birthday d)) (zN (d_features d)) (map zN (d_secret d))
                              (zN (d_checksum d)) (zN coin) (zN size) [] in
        (st, OutBytes (map Z.to_N key), evs_of (st_deps st) cevs)
      end
    | OpCrypt h pw =>
      match heap_get (st_heap st) h with
      | None => (st, OutFault, [])
      | Some d =>
        match CApi.polyseed_crypt fuel sgn (Dz (st_deps st)) (zkdf (st_deps st)) tbl (zN (d_birthday d)) (zN (d_features d))
                (map zN (d_secret d)) (zN (d_checksum d)) (zs pw) with
        | Some (cevs, b, f, s, c) =>
          (mkstate (st_deps st) (st_reserved st) (heap_set (st_heap st) h (undata b f s c)) (st_next st), OutUnit,
           evs_of (st_deps st) cevs)
        | None => (st, OutFault, [])
        end
      end
    | OpEncode h li coin =>
      match heap_get (st_heap st) h, nth_error langs li with
      | Some d, Some L =>
        match CApi.polyseed_encode fuel sgn (znfc (st_deps st)) (fun _ i => zs (nth (Z.to_nat i) (l_words L) []))
                (fun _ => zs (l_separator L)) (fun _ => if l_compose L then 1%Z else 0%Z)
                (zN (d_birthday d)) (zN (d_features d)) (map zN (d_secret d)) (zN (d_checksum d)) (Z.of_nat li) (zN coin)
                (repeat 0%Z 544) with
        | Some (cevs, outbuf, n) => (st, OutStr (bytes_of (CApi.cstr outbuf)) (Z.to_N n), evs_of (st_deps st) cevs)
        | None => (st, OutFault, [])
        end
      | _, _ => (st, OutFault, [])
      end
    | OpInject d =>
      (* the table handed in, one integer per entry: the five mandatory entries are non-NULL, an optional entry is
         NULL exactly when the mirror's flag says so; the table in place afterwards is read back from what the
         translated polyseed_inject returns (an entry equal to a libc default code sets the flag) *)
      let code (libc : bool) (k : Z) : Z := if libc then 0%Z else k in
      let old (libc : bool) (k : Z) : Z := if libc then k else 1%Z in
      let dp := st_deps st in
      let '(_, _, _, _, _, t, a, f) :=
        CApi.polyseed_inject 1%Z 1%Z 1%Z 1%Z 1%Z (code (dp_time_libc d) 1%Z) (code (dp_alloc_libc d) 1%Z) (code (dp_free_libc d) 1%Z)
          1%Z 1%Z 1%Z 1%Z 1%Z (old (dp_time_libc dp) LIBC_TIME) (old (dp_alloc_libc dp) LIBC_MALLOC) (old (dp_free_libc dp) LIBC_FREE) in
      (mkstate (mkdeps (dp_tag d) (dp_nfc d) (dp_nfkd d) (dp_kdf d) (t =? LIBC_TIME)%Z (a =? LIBC_MALLOC)%Z (f =? LIBC_FREE)%Z)
         (st_reserved st) (st_heap st) (st_next st), OutUnit, [])
    | OpEnable mask =>
      let '(r, n) := CFuns.polyseed_enable_features res (zN mask) in
      (mkstate (st_deps st) (Z.to_N r) (st_heap st) (st_next st), OutNum (Z.to_N n), [])
    end.

  (* the shape every constructor tie has, turned into the equality of the two machines *)
  Lemma ctor_eq st o cevs b f s c so status lang (mlang : option nat) :
    is_setup o = false ->
    (let '(st', out, evs) := step sgn langs st o in
     evs_of (st_deps st) cevs = evs /\
     out = OutStatus (Z.to_N status) (if (status =? 0)%Z then Some (st_next st) else None) (if (status =? 0)%Z then mlang else None) /\
     (if (status =? 0)%Z
      then so = ptr (st_next st) /\ exists d, st_heap st' = (st_next st, d) :: st_heap st /\ (b, f, s, c) = zd d
      else so = 0%Z /\ st_heap st' = st_heap st)) ->
    ((status =? 0)%Z = true -> lang = mlang) ->
    after_ctor st cevs b f s c so status lang = step sgn langs st o.
  Proof.
    intros Hs H Hl. pose proof (step_rest sgn st o Hs) as SR. cbv zeta in SR. unfold stp, evp, TraceProofs.stp, TraceProofs.evp in SR.
    destruct (step sgn langs st o) as [[st' out] evs]. cbn [fst snd] in SR.
    destruct H as (Ev & Eo & Eh). subst out. rewrite SR. unfold after_ctor. rewrite <- Ev, allocd_evs.
    destruct (status =? 0)%Z.
    - destruct Eh as (-> & d & Hh & Ed). rewrite Hh, hnd_ptr, (undata_zd d b f s c Ed), (Hl eq_refl). reflexivity.
    - destruct Eh as (_ & Hh). rewrite Hh. reflexivity.
  Qed.

  Theorem cstep_load st buf ok : length buf = 32%nat -> bytes_ok buf ->
    cstep st (OpLoad buf ok) = step sgn langs st (OpLoad buf ok).
  Proof.
    intros Hl Hb. unfold cstep. cbv zeta.
    pose proof (tie_load sgn langs st buf ok 0%Z 0%Z [] 0%Z 0%Z Hl Hb) as T.
    destruct (step sgn langs st (OpLoad buf ok)) as [[st' out] evs] eqn:ES.
    destruct T as (cevs&b&f&s&c&so&status&E&Ev&Eo&Eh). rewrite E. rewrite <- ES.
    apply (ctor_eq st (OpLoad buf ok) cevs b f s c so status None None eq_refl); [|reflexivity].
    rewrite ES. destruct (status =? 0)%Z; repeat split; assumption || apply Eh.
  Qed.

  Theorem cstep_create st features rand clock ok : features < 2 ^ 32 -> clock < 2 ^ 64 ->
    cstep st (OpCreate features rand clock ok) = step sgn langs st (OpCreate features rand clock ok).
  Proof.
    intros Hf Hc. unfold cstep. cbv zeta.
    pose proof (tie_create sgn langs st features rand clock ok 0%Z 0%Z [] 0%Z 0%Z Hf Hc) as T.
    destruct (step sgn langs st (OpCreate features rand clock ok)) as [[st' out] evs] eqn:ES.
    destruct T as (cevs&b&f&s&c&so&status&E&Ev&Eo&Eh). rewrite E. rewrite <- ES.
    apply (ctor_eq st (OpCreate features rand clock ok) cevs b f s c so status None None eq_refl); [|reflexivity].
    rewrite ES. destruct (status =? 0)%Z; repeat split; assumption || apply Eh.
  Qed.

  Variable OKW : bytes -> Prop.
  Hypothesis Hext : forall li L w, OKW w -> nth_error langs li = Some L -> ext (Z.of_nat li) (zs w) = CTiePhrase.enc (lang_search sgn L w).
  Hypothesis Hokw : forall t, no_nul t -> (length t + 2 <= fuel)%nat -> OKW t.
  Hypothesis Hfuel18 : (18 <= fuel)%nat.

  Theorem cstep_decode st str coin ok : no_nul str -> coin < 2048 -> (length str + 2 <= fuel)%nat ->
    no_nul (fst (dp_nfkd (st_deps st) str)) -> (length (fst (dp_nfkd (st_deps st) str)) + 2 <= fuel)%nat ->
    cstep st (OpDecode str coin ok) = step sgn langs st (OpDecode str coin ok).
  Proof.
    intros Hs Hc Hf Hnn Hfn. unfold cstep. cbv zeta.
    pose proof (tie_decode sgn st fuel (Dz (st_deps st)) ext OKW Hext Hokw Hfuel18 str coin ok 1%Z 0%Z 0%Z 0%Z [] 0%Z 0%Z
                  Hs Hc Hf (Dz_zs _ str) Hnn Hfn) as T.
    destruct (step sgn langs st (OpDecode str coin ok)) as [[st' out] evs] eqn:ES.
    destruct T as (cevs&lo'&b&f&s&c&so&status&E&Ev&(li&Eo&El)&Eh). rewrite E. rewrite <- ES.
    apply (ctor_eq st (OpDecode str coin ok) cevs b f s c so status (Some (Z.to_nat lo')) (Some li) eq_refl).
    - rewrite ES. destruct (status =? 0)%Z; repeat split; assumption || apply Eh.
    - intros Z0. apply Z.eqb_eq in Z0. destruct (El Z0) as [El1 _]. rewrite El1 by discriminate. rewrite Nat2Z.id. reflexivity.
  Qed.

  Theorem cstep_decode_explicit st str coin li L ok : nth_error langs li = Some L ->
    no_nul str -> coin < 2048 -> (length str + 2 <= fuel)%nat ->
    no_nul (fst (dp_nfkd (st_deps st) str)) -> (length (fst (dp_nfkd (st_deps st) str)) + 2 <= fuel)%nat ->
    cstep st (OpDecodeExplicit str coin li ok) = step sgn langs st (OpDecodeExplicit str coin li ok).
  Proof.
    intros HL Hs Hc Hf Hnn Hfn. unfold cstep. cbv zeta.
    pose proof (tie_decode_explicit sgn st fuel (Dz (st_deps st)) ext OKW Hext Hokw Hfuel18 str coin li L ok 0%Z 0%Z [] 0%Z 0%Z
                  HL Hs Hc Hf (Dz_zs _ str) Hnn Hfn) as T.
    destruct (step sgn langs st (OpDecodeExplicit str coin li ok)) as [[st' out] evs] eqn:ES.
    destruct T as (cevs&b&f&s&c&so&status&E&Ev&Eo&Eh). rewrite E. rewrite <- ES.
    apply (ctor_eq st (OpDecodeExplicit str coin li ok) cevs b f s c so status None None eq_refl); [|reflexivity].
    rewrite ES. destruct (status =? 0)%Z; repeat split; assumption || apply Eh.
  Qed.

  Definition live_valid (st : state) (h : N) : Prop :=
    match heap_get (st_heap st) h with Some d => Valid d | None => True end.

  Theorem cstep_simple st o : (match o with
      | OpFree h | OpStore h | OpGetBirthday h | OpGetFeature h _ | OpIsEncrypted h => live_valid st h
      | OpKeygen h coin _ => live_valid st h /\ coin < 2 ^ 32
      | OpEnable mask => mask < 2 ^ 32
      | OpFreeNull => True
      | _ => False end) -> cstep st o = step sgn langs st o.
  Proof.
    destruct o; try contradiction; unfold cstep, live_valid; cbv zeta; cbn [step].
    - (* enable *) intros Hm. rewrite (tie_enable_features (zN (st_reserved st)) mask Hm).
      destruct (enable_features mask) as [r n]. cbn [fst snd]. rewrite !N2Z.id. reflexivity.
    - (* store *) destruct (heap_get (st_heap st) h) as [d|]; [|reflexivity]. intros [HC Ek].
      assert (K : d_checksum d < 2048) by (rewrite Ek; apply spec_checksum_lt).
      rewrite (tie_store d _ HC K), map_toN_zN. reflexivity.
    - (* keygen *) destruct (heap_get (st_heap st) h) as [d|]; [|reflexivity]. intros [[HC Ek] Hc].
      destruct (tie_keygen (st_deps st) d coin size [] HC Hc) as [E Ev]. rewrite E, Ev, map_toN_zN. reflexivity.
    - (* birthday *) destruct (heap_get (st_heap st) h) as [d|]; [|reflexivity]. intros [HC Ek].
      rewrite (tie_get_birthday d), N2Z.id; [reflexivity|]. destruct HC as (_&_&_&_&B&_). lia.
    - (* feature *) destruct (heap_get (st_heap st) h) as [d|]; [|reflexivity]. intros _.
      rewrite (tie_get_feature d mask), N2Z.id. reflexivity.
    - (* is_encrypted *) destruct (heap_get (st_heap st) h) as [d|]; [|reflexivity]. intros _.
      rewrite (tie_is_encrypted_api d). destruct (is_encrypted _); reflexivity.
    - (* free *) destruct (heap_get (st_heap st) h) as [d|]; [|reflexivity]. intros _. rewrite tie_free. reflexivity.
    - (* free NULL *) intros _. rewrite tie_free_null. reflexivity.
  Qed.

  Theorem cstep_crypt st h pw : live_valid st h -> no_nul pw -> (length pw + 2 <= fuel)%nat ->
    snd (dp_nfkd (st_deps st) pw) = N.of_nat (length (fst (dp_nfkd (st_deps st) pw))) -> snd (dp_nfkd (st_deps st) pw) < 2 ^ 64 ->
    (forall p n salt sl it kl, bytes_ok (dp_kdf (st_deps st) p n salt sl it kl)) ->
    cstep st (OpCrypt h pw) = step sgn langs st (OpCrypt h pw).
  Proof.
    unfold live_valid, cstep. cbv zeta. destruct (heap_get (st_heap st) h) as [d|] eqn:Hg; [|intros; cbn [step]; rewrite Hg; reflexivity].
    intros [HC _] Hs Hf Hlen Hsz Hk.
    pose proof (tie_crypt sgn langs st h pw d fuel (Dz (st_deps st)) Hg HC Hs Hf (Dz_zs _ pw) Hlen Hsz Hk) as T.
    pose proof (step_rest sgn st (OpCrypt h pw) eq_refl) as SR. cbv zeta in SR. unfold stp, evp, TraceProofs.stp, TraceProofs.evp in SR.
    destruct (step sgn langs st (OpCrypt h pw)) as [[st' out] evs]. cbn [fst snd] in SR.
    destruct T as (cevs & d2 & E & Ev & -> & Hh & Hn). rewrite E. subst evs.
    rewrite SR. rewrite SR in Hn. cbn [st_next] in Hn. rewrite Hn, Hh.
    unfold undata. rewrite !N2Z.id, map_toN_zN. destruct d2; reflexivity.
  Qed.

  Theorem cstep_encode st h li coin :
    live_valid st h -> coin < 2048 ->
    (forall L j, nth_error langs li = Some L -> (length (nth j (l_words L) []) + 1 <= fuel)%nat) ->
    (forall L, nth_error langs li = Some L -> (length (l_separator L) + 1 <= fuel)%nat) ->
    (forall x, snd (dp_nfc (st_deps st) x) < 2 ^ 64) ->
    (* the phrase fits str_tmp (C17) and has no NUL *)
    match snd (fst (step sgn langs st (OpEncode h li coin))) with OutStr o _ => no_nul o | OutFault => heap_get (st_heap st) h = None \/ nth_error langs li = None | _ => False end ->
    cstep st (OpEncode h li coin) = step sgn langs st (OpEncode h li coin).
  Proof.
    unfold live_valid, cstep. cbv zeta. intros HV Hc Hfw Hfs Hnfc Hout.
    destruct (heap_get (st_heap st) h) as [d|] eqn:Hg.
    2:{ cbn [step]. rewrite Hg. reflexivity. }
    destruct (nth_error langs li) as [L|] eqn:HL.
    2:{ cbn [step]. rewrite Hg, HL. reflexivity. }
    destruct HV as [HC Ek]. assert (K : d_checksum d < 2048) by (rewrite Ek; apply spec_checksum_lt).
    pose proof (tie_encode sgn st fuel li L HL (fun j => Hfw L j eq_refl) (Hfs L eq_refl) Hnfc h d coin (repeat 0%Z 544) Hg HC K Hc
                  ltac:(cbn; lia)) as T.
    destruct (step sgn langs st (OpEncode h li coin)) as [[st' out] evs]. cbn [fst snd] in Hout.
    destruct out; try contradiction.
    - destruct Hout as [H|H]; congruence.
    - destruct T as (cevs & rest & E & Ev & ->). rewrite E. subst evs.
      rewrite (cstr_zs s (0%Z :: rest) Hout) by (right; eexists; reflexivity). rewrite bytes_of_zs, N2Z.id. reflexivity.
  Qed.

  Theorem cstep_inject st d : cstep st (OpInject d) = step sgn langs st (OpInject d).
  Proof.
    unfold cstep. cbv zeta. rewrite tie_inject. cbn [step].
    destruct d as [tag nfc nfkd kdf tl al fl]. cbn [dp_tag dp_nfc dp_nfkd dp_kdf dp_time_libc dp_alloc_libc dp_free_libc].
    destruct tl, al, fl; reflexivity.
  Qed.

  (* what a call must satisfy for the generated code to be run on it with this much fuel *)
  Definition op_ready (st : state) (o : op) : Prop :=
    match o with
    | OpCreate features _ clock _ => features < 2 ^ 32 /\ clock < 2 ^ 64
    | OpLoad buf _ => length buf = 32%nat /\ bytes_ok buf
    | OpDecode str coin _ =>
        no_nul str /\ coin < 2048 /\ (length str + 2 <= fuel)%nat /\
        no_nul (fst (dp_nfkd (st_deps st) str)) /\ (length (fst (dp_nfkd (st_deps st) str)) + 2 <= fuel)%nat
    | OpDecodeExplicit str coin li _ =>
        (exists L, nth_error langs li = Some L) /\ no_nul str /\ coin < 2048 /\ (length str + 2 <= fuel)%nat /\
        no_nul (fst (dp_nfkd (st_deps st) str)) /\ (length (fst (dp_nfkd (st_deps st) str)) + 2 <= fuel)%nat
    | OpFree h | OpStore h | OpGetBirthday h | OpGetFeature h _ | OpIsEncrypted h => live_valid st h
    | OpKeygen h coin _ => live_valid st h /\ coin < 2 ^ 32
    | OpEnable mask => mask < 2 ^ 32
    | OpCrypt h pw =>
        live_valid st h /\ no_nul pw /\ (length pw + 2 <= fuel)%nat /\
        snd (dp_nfkd (st_deps st) pw) = N.of_nat (length (fst (dp_nfkd (st_deps st) pw))) /\ snd (dp_nfkd (st_deps st) pw) < 2 ^ 64 /\
        (forall p n salt sl it kl, bytes_ok (dp_kdf (st_deps st) p n salt sl it kl))
    | OpEncode h li coin =>
        live_valid st h /\ coin < 2048 /\
        (forall L j, nth_error langs li = Some L -> (length (nth j (l_words L) []) + 1 <= fuel)%nat) /\
        (forall L, nth_error langs li = Some L -> (length (l_separator L) + 1 <= fuel)%nat) /\
        (forall x, snd (dp_nfc (st_deps st) x) < 2 ^ 64) /\
        match snd (fst (step sgn langs st (OpEncode h li coin))) with
        | OutStr o _ => no_nul o | OutFault => heap_get (st_heap st) h = None \/ nth_error langs li = None | _ => False end
    | _ => True
    end.

  Theorem cstep_ok st o : op_ready st o -> cstep st o = step sgn langs st o.
  Proof.
    destruct o; cbn [op_ready]; intros H; try reflexivity; try (apply cstep_simple; exact H); try apply cstep_inject.
    - destruct H. apply cstep_create; assumption.
    - destruct H. apply cstep_load; assumption.
    - destruct H as (?&?&?&?&?). apply cstep_decode; assumption.
    - destruct H as ((L&HL)&?&?&?&?&?). apply (cstep_decode_explicit st str coin li L); assumption.
    - destruct H as (?&?&?&?&?&?). apply cstep_encode; assumption.
    - destruct H as (?&?&?&?&?&?). apply cstep_crypt; assumption.
  Qed.

  (* a whole history *)
  Fixpoint crun (st : state) (ops : list op) : state * list (out * list event) :=
    match ops with
    | [] => (st, [])
    | o :: ops' =>
      let '(st1, out1, ev1) := cstep st o in
      let '(stf, outs) := crun st1 ops' in
      (stf, (out1, ev1) :: outs)
    end.

  Fixpoint Ready (st : state) (ops : list op) : Prop :=
    match ops with
    | [] => True
    | o :: ops' => op_ready st o /\ Ready (fst (fst (step sgn langs st o))) ops'
    end.

  Theorem crun_run st ops : Ready st ops -> crun st ops = run sgn langs st ops.
  Proof.
    revert st. induction ops as [|o ops IH]; intros st H; [reflexivity|].
    cbn [crun run Ready] in *. destruct H as [H1 H2]. rewrite (cstep_ok st o H1).
    destruct (step sgn langs st o) as [[st1 out1] ev1]. cbn [fst] in H2. rewrite (IH st1 H2). reflexivity.
  Qed.

  (* Ready is not vacuous: for every state related to an abstract state (every reachable state: reachable_valid) and
     every history of calls that take no strings, the C preconditions and the bounds of the integer arguments suffice *)
  Definition simple_ok (o : op) : Prop :=
    match o with
    | OpEnable mask => mask < 2 ^ 32
    | OpCreate features _ clock _ => features < 2 ^ 32 /\ clock < 2 ^ 64
    | OpLoad buf _ => length buf = 32%nat /\ bytes_ok buf
    | OpKeygen _ coin _ => coin < 2048
    | OpStore _ | OpGetBirthday _ | OpGetFeature _ _ | OpIsEncrypted _ | OpFree _ | OpFreeNull => True
    | _ => False
    end.

  Lemma simple_op_ok o : simple_ok o -> op_ok o.
  Proof. destruct o; cbn; tauto. Qed.

  Lemma live_valid_R cs a h : R cs a -> live_valid cs h.
  Proof.
    intros HR. unfold live_valid. destruct (heap_get (st_heap cs) h) as [d|] eqn:E; [|exact I].
    exact (heap_get_valid _ _ _ (R_valid _ _ HR) E).
  Qed.

  Theorem ready_simple ops : forall cs a, R cs a -> Forall simple_ok ops -> Ready cs ops.
  Proof.
    induction ops as [|o ops IH]; intros cs a HR Hok; [exact I|].
    inversion Hok as [|? ? Ho Hops]; subst. cbn [Ready]. split.
    - destruct o; cbn [simple_ok] in Ho; try contradiction; cbn [op_ready]; try exact Ho; try exact I;
        try (apply (live_valid_R cs a _ HR)).
      split; [apply (live_valid_R cs a _ HR) | lia].
    - destruct (step_refines sgn cs a o HR (simple_op_ok o Ho)) as [_ R1]. exact (IH _ _ R1 Hops).
  Qed.

  (* ... and for a call that takes a string: the first phrase of the repository's tests, on the initial state *)
  Definition test_phrase : bytes := [x72; x61; x76; x65; x6e; x20; x74; x61; x69; x6c; x20; x73; x77; x65; x61; x72; x20; x69; x6e; x66; x61; x6e; x74; x20; x67; x72; x69; x65; x66; x20; x61; x73; x73; x69; x73; x74; x20; x72; x65; x67; x75; x6c; x61; x72; x20; x6c; x61; x6d; x70; x20; x64; x75; x63; x6b; x20; x76; x61; x6c; x69; x64; x20; x73; x6f; x6d; x65; x6f; x6e; x65; x20; x6c; x69; x74; x74; x6c; x65; x20; x68; x61; x72; x73; x68; x20; x70; x75; x70; x70; x79; x20; x61; x69; x72; x70; x6f; x72; x74; x20; x6c; x61; x6e; x67; x75; x61; x67; x65].

  Example ready_decode : (600 <= fuel)%nat ->
    Ready init_state [OpDecode test_phrase 0 true] /\ Ready init_state [OpDecodeExplicit test_phrase 0 0%nat true].
  Proof.
    intros Hf.
    assert (Nn : no_nul test_phrase).
    { unfold no_nul. intros I. assert (T : existsb (Byte.eqb x00) test_phrase = true) by (apply existsb_exists; exists x00; split; [exact I|reflexivity]).
      vm_compute in T. discriminate T. }
    assert (Ln : (length test_phrase + 2 <= fuel)%nat).
    { assert (L98 : length test_phrase = 104%nat) by (vm_compute; reflexivity). rewrite L98. lia. }
    assert (Id : fst (dp_nfkd (st_deps init_state) test_phrase) = test_phrase) by reflexivity.
    split; cbn [Ready op_ready]; rewrite Id; (split; [|exact I]).
    - split; [exact Nn|]. split; [reflexivity|]. split; [exact Ln|]. split; [exact Nn | exact Ln].
    - split.
      { destruct (nth_error langs 0) as [L|] eqn:E; [exists L; reflexivity|]. exfalso. apply nth_error_None in E.
        assert (Hl : length langs = 10%nat) by (vm_compute; reflexivity). rewrite Hl in E. lia. }
      split; [exact Nn|]. split; [reflexivity|]. split; [exact Ln|]. split; [exact Nn | exact Ln].
  Qed.

  (* with C13_refinement: any history of calls of the TRANSLATED code gives, call by call, the outputs of the abstract
     seed machine (a seed is secret, birthday, features), and ends in a related state *)
  Theorem code_refinement ops : forall cs a, R cs a -> Forall op_ok ops -> Ready cs ops ->
    map fst (snd (crun cs ops)) = snd (arun langs a ops) /\
    R (fst (crun cs ops)) (fst (arun langs a ops)).
  Proof.
    intros cs a HR Hok Hr. rewrite (crun_run cs ops Hr). apply run_refines; assumption.
  Qed.

  (* the trace theorems, read off the events of the TRANSLATED code: C15 (ledger), C16 (wipe before free, frames
     clean), C18 (every event goes through the table in place) *)
  Theorem code_ledger st o : op_ready st o -> TraceProofs.Fresh st ->
    let r := cstep st o in
    TraceProofs.ledger (TraceProofs.handles st) (snd r) = Some (TraceProofs.handles (fst (fst r))) /\ TraceProofs.Fresh (fst (fst r)).
  Proof. intros H HF. cbv zeta. rewrite (cstep_ok st o H). exact (TraceProofs.step_ledger sgn langs st o HF). Qed.

  Theorem code_frees_wiped st o : op_ready st o -> TraceProofs.frees_wiped None (snd (cstep st o)) = true.
  Proof. intros H. rewrite (cstep_ok st o H). exact (TraceProofs.step_frees_wiped sgn langs st o). Qed.

  Theorem code_frame_clean st o : op_ready st o -> TraceProofs.frame_clean o (cstep st o) = true.
  Proof. intros H. rewrite (cstep_ok st o H). exact (TraceProofs.step_frame_clean sgn langs st o). Qed.

  Theorem code_uses_table st o : op_ready st o -> forallb (TraceProofs.ev_uses (st_deps st)) (snd (cstep st o)) = true.
  Proof. intros H. rewrite (cstep_ok st o H). exact (TraceProofs.step_uses_table sgn langs st o). Qed.

  (* C20 on the code: for any global order of calls on seeds, the calls of one thread's seeds give what they give when
     run alone - read off histories of the TRANSLATED code (both histories must be runnable: Ready) *)
  Theorem code_interleaving mine ops a b :
    Distinct a -> Distinct b -> same_view mine a b -> forallb handle_op ops = true ->
    Ready a ops -> Ready b (filter (is_mine mine) ops) ->
    my_results mine ops (snd (crun a ops)) = snd (crun b (filter (is_mine mine) ops)) /\
    same_view mine (fst (crun a ops)) (fst (crun b (filter (is_mine mine) ops))).
  Proof.
    intros Da Db V Hh Ra Rb. rewrite (crun_run a ops Ra), (crun_run b _ Rb).
    apply interleaving_invisible; assumption.
  Qed.

  (* C14 on the code: on every well-formed call the translated code terminates within the fuel (cstep never takes
     its out-of-fuel branch: it equals the mirror step, which never faults), and the status it returns is one of those
     documented for the function *)
  Theorem code_no_fault cs a o : R cs a -> op_ok o -> SafetyProofs.lang_ok_op o -> op_ready cs o ->
    (forall h, touches o = Some h -> heap_get (st_heap cs) h <> None) ->
    snd (fst (cstep cs o)) <> OutFault.
  Proof.
    intros HR Ho Hl Hr Hh. rewrite (cstep_ok cs o Hr). exact (SafetyProofs.no_fault sgn cs a o HR Ho Hl Hh).
  Qed.

  Theorem code_status_range cs a o : R cs a -> op_ok o -> op_ready cs o ->
    match o with
    | OpCreate _ _ _ _ => SafetyProofs.status_in [ST_OK; ST_UNSUPPORTED; ST_MEMORY] (snd (fst (cstep cs o)))
    | OpLoad _ _ => SafetyProofs.status_in [ST_OK; ST_FORMAT; ST_CHECKSUM; ST_UNSUPPORTED; ST_MEMORY] (snd (fst (cstep cs o)))
    | OpDecode _ _ _ =>
      SafetyProofs.status_in [ST_OK; ST_NUM_WORDS; ST_LANG; ST_MULT_LANG; ST_CHECKSUM; ST_UNSUPPORTED; ST_MEMORY] (snd (fst (cstep cs o)))
    | OpDecodeExplicit _ _ _ _ =>
      SafetyProofs.status_in [ST_OK; ST_NUM_WORDS; ST_LANG; ST_CHECKSUM; ST_UNSUPPORTED; ST_MEMORY] (snd (fst (cstep cs o)))
    | _ => True
    end.
  Proof.
    intros HR Ho Hr. pose proof (SafetyProofs.status_range sgn cs a o HR Ho) as S. rewrite (cstep_ok cs o Hr).
    destruct o; exact S || exact I.
  Qed.
  (* what a call on a held seed does - as the TRANSLATED code does it - does not depend on the feature set enabled
     when the call is made (HeldProofs: the same for the mirror); only the four constructors read that set *)
  Lemma op_ready_reserved st r o : uses_held o = true -> op_ready st o -> op_ready (with_reserved r st) o.
  Proof.
    intros Hu. destruct o; try discriminate Hu; cbn [op_ready]; unfold live_valid, with_reserved;
      cbn [st_heap st_deps]; try (intros H; exact H).
    intros (H1 & H2 & H3 & H4 & H5 & H6). repeat split; try assumption.
    change (mkstate (st_deps st) r (st_heap st) (st_next st)) with (with_reserved r st).
    rewrite (held_independent sgn langs st r (OpEncode h li coin) eq_refl). cbn [fst snd]. exact H6.
  Qed.

  Theorem code_held_independent st r o : uses_held o = true -> op_ready st o ->
    cstep (with_reserved r st) o =
    (with_reserved r (fst (fst (cstep st o))), snd (fst (cstep st o)), snd (cstep st o)).
  Proof.
    intros Hu Hr. rewrite (cstep_ok st o Hr), (cstep_ok _ o (op_ready_reserved st r o Hu Hr)).
    apply held_independent; exact Hu.
  Qed.
End Machine.
