(* polyseed_decode and polyseed_decode_explicit of polyseed.c as TRANSLATED (Gen/CApi.v) against ApiDefs.step:
   normalisation, the split into tokens (CTieSplit), the language loop (CTiePhrase), coin, check value,
   allocation, unpacking, feature gate, clean-up - status, block, *seed_out, *lang_out and the events. *)
From Coq Require Import String.
From PS Require Import Base GFDefs PackDefs StoreDefs MiscDefs StrDefs LangDefs ApiDefs SpecDefs SpecApi.
From PS Require Import GFProofs MiscProofs CoinProofs PackProofs PackTheorems StoreProofs SeedProofs ApiLemmas.
From PS Require Import StrProofs CTieBase CTieTac CTieGF CTieBday CTieFeat CTiePack CTieStore CTieLang CTieStr CTiePhrase CTiePhraseEv CTieSplit CTieApi.
From PS.Gen Require Import Consts PrivConsts Langs.
From PS.Gen Require CFuns CApi.
Local Open Scope N_scope.

Definition is_idx_wipe (e : event) : bool :=
  match e with EvWipe OIdx _ => true | _ => false end.
Definition no_idx (l : list event) : list event := filter (fun e => negb (is_idx_wipe e)) l.

Lemma lazy_cases nf s norm n called : nfkd_lazy nf s = (norm, n, called) ->
  (called = true /\ norm = fst (nf s)) \/ (called = false /\ norm = firstn (N.to_nat (STR_SIZE - 1)) s).
Proof.
  rewrite nfkd_lazy_spec. unfold lazy_spec. cbv zeta. destruct (existsb _ _); intros E.
  - left. split; [apply (f_equal snd) in E; symmetry; exact E | apply (f_equal (fun x => fst (fst x))) in E; symmetry; exact E].
  - right. split; [apply (f_equal snd) in E; symmetry; exact E | apply (f_equal (fun x => fst (fst x))) in E; symmetry; exact E].
Qed.

Lemma no_nul_firstn k s : no_nul s -> no_nul (firstn k s).
Proof. intros H. rewrite <- (firstn_skipn k s) in H. apply no_nul_app in H. apply H. Qed.

Lemma map_cstr_at Bf words toks : length words = 16%nat -> length toks = 16%nat -> Q Bf words toks ->
  map (CApi.cstr_at Bf) words = map zs toks.
Proof.
  intros Hw Ht HQ. apply (nth_ext _ _ (CApi.cstr_at Bf 0%Z) (zs [])); [rewrite !map_length; lia|].
  intros i Hi. rewrite map_length in Hi.
  rewrite (map_nth (CApi.cstr_at Bf) words 0%Z i). rewrite (map_nth zs toks [] i). apply HQ. lia.
Qed.


Lemma xor_list idx coin : length idx = 16%nat -> wf idx -> coin < 2048 ->
  [nth 0 (map zN idx) 0; Z.lxor (nth 1 (map zN idx) 0) (zN coin mod 18446744073709551616) mod 18446744073709551616;
   nth 2 (map zN idx) 0; nth 3 (map zN idx) 0; nth 4 (map zN idx) 0; nth 5 (map zN idx) 0; nth 6 (map zN idx) 0;
   nth 7 (map zN idx) 0; nth 8 (map zN idx) 0; nth 9 (map zN idx) 0; nth 10 (map zN idx) 0; nth 11 (map zN idx) 0;
   nth 12 (map zN idx) 0; nth 13 (map zN idx) 0; nth 14 (map zN idx) 0; nth 15 (map zN idx) 0]%Z
  = map zN (xor_coin idx coin) /\ length (xor_coin idx coin) = 16%nat.
Proof.
  intros Hl Hw Hc. do 16 (destruct idx as [|? idx]; [discriminate|]). destruct idx; [|discriminate].
  split; [|reflexivity]. cbn [map nth xor_coin].
  apply Forall_cons_iff in Hw. destruct Hw as [_ Hw]. apply Forall_cons_iff in Hw. destruct Hw as [H1 _].
  rewrite (Z.mod_small (zN coin)) by lia. rewrite <- zN_lxor.
  assert (N.lxor n0 coin < 2048) by (apply (lxor_lt_pow2 n0 coin 11); assumption).
  rewrite Z.mod_small by lia. reflexivity.
Qed.

Lemma wf_tl c : wf c -> wf (tl c).
Proof. intros H. destruct c; [exact H|]. apply (Forall_inv_tail H). Qed.
Lemma wf_hd c : wf c -> hd 0 c < 2 ^ 64.
Proof. intros H. destruct c; [reflexivity|]. pose proof (Forall_inv H) as H0. cbv beta in H0. cbn [hd]. lia. Qed.

Ltac finish_tail st idx coin ok gs EV0 NI0 Hcoin Lidx Widx :=
  destruct (xor_list idx coin Lidx Widx Hcoin) as [XL Lp]; rewrite XL;
  assert (Wp : wf (xor_coin idx coin)) by (apply wf_xor_coin; assumption);
  unfold finish_decode;
  set (poly := xor_coin idx coin) in *;
  rewrite (check_tie poly Lp Wp);
  destruct (poly_check poly); cbn [negb];
  [ change (negb (negb (1 =? 0)%Z)) with false; cbv beta iota;
    unfold alloc_ptr; destruct ok; cbn [negb];
    [ rewrite ptr_nz; cbv beta iota;
      let d := fresh "d" in let PF := fresh "PF" in let HCd := fresh "HCd" in
      destruct (poly_unpack poly Lp (wf_tl poly Wp)) as (d & PF & HCd & _);
      rewrite (tie_poly_to_data poly gs d Lp (wf_tl poly Wp) (wf_hd poly Wp) PF);
      cbv beta iota; unfold poly_to_data; rewrite PF; rewrite tie_features_supported;
      destruct (features_supported (st_reserved st) (d_features d)); cbn [negb];
      [ change (negb (negb (1 =? 0)%Z)) with false; cbv beta iota
      | change (negb (negb (0 =? 0)%Z)) with true; cbv beta iota; rewrite ?ptr_nz; cbn [negb] ]
    | change (0 =? 0)%Z with true; cbv beta iota ]
  | change (negb (negb (0 =? 0)%Z)) with true; cbv beta iota ].

Lemma sfields_len s : forall cur t, In t (sfields s cur) -> (length t <= length s + length cur)%nat.
Proof.
  induction s as [|c s IH]; intros cur t Ht; cbn [sfields] in Ht.
  - destruct Ht as [<-|[]]. rewrite rev_length. cbn. lia.
  - destruct (Byte.eqb c x20).
    + destruct Ht as [<-|Ht]; [rewrite rev_length; cbn [length]; lia|]. specialize (IH [] t Ht). cbn [length] in *. lia.
    + specialize (IH (c :: cur) t Ht). cbn [length] in *. lia.
Qed.

Lemma tokens_len s t : In t (spec_tokens s) -> (length t <= length s)%nat.
Proof.
  intros H. rewrite spec_tokens_eq in H. apply drop_last_empty_in in H. pose proof (sfields_len s [] t H). cbn [length] in *. lia.
Qed.

Section Decode.
  Variables (sgn : bool) (st : state) (fuel : nat) (D : list Z -> list Z * Z) (ext : Z -> list Z -> Z).
  Let dp := st_deps st.
  Let nf := dp_nfkd dp.
  Variable OKW : bytes -> Prop.
  (* the search called by the language loop answers as the mirror search on every token that can occur: NUL-free and
     no longer than the normalised string (CTieSearch shows the translated lang_search does, given libc bsearch) *)
  Hypothesis Hext : forall li L w, OKW w -> nth_error langs li = Some L -> ext (Z.of_nat li) (zs w) = enc (lang_search sgn L w).
  Hypothesis Hokw : forall t, no_nul t -> (length t + 2 <= fuel)%nat -> OKW t.
  Hypothesis Hfuel18 : (18 <= fuel)%nat.

  Theorem tie_decode str coin ok lo lo0 gb gf gs gc so0 :
    no_nul str -> coin < 2048 -> (length str + 2 <= fuel)%nat ->
    D (zs str) = (zs (fst (nf str)), zN (snd (nf str))) -> no_nul (fst (nf str)) ->
    (length (fst (nf str)) + 2 <= fuel)%nat ->
    let '(st', out, evs) := step sgn langs st (OpDecode str coin ok) in
    exists cevs lo' b f s c so status,
      CApi.polyseed_decode fuel sgn D ext (alloc_ptr st ok) CFuns.polyseed_mul2_table (zN (st_reserved st))
        (zs str) (zN coin) lo lo0 gb gf gs gc so0 = Some (cevs, lo', b, f, s, c, so, status) /\
      evs_of dp cevs = evs /\
      (exists li, out = OutStatus (Z.to_N status) (if (status =? 0)%Z then Some (st_next st) else None)
                                 (if (status =? 0)%Z then Some li else None) /\
                  (status = 0%Z -> (lo <> 0%Z -> lo' = Z.of_nat li) /\ (lo = 0%Z -> lo' = lo0))) /\
      (if (status =? 0)%Z
       then so = ptr (st_next st) /\ exists d, st_heap st' = (st_next st, d) :: st_heap st /\ (b, f, s, c) = zd d
       else so = so0 /\ st_heap st' = st_heap st).
  Proof.
    intros Hs Hcoin Hf HD Hnn Hfn. cbn [step]. fold dp. fold nf.
    unfold CApi.polyseed_decode. cbv beta iota zeta.
    rewrite (tie_nfkd_lazy_mirror sgn nf D str (repeat 0%Z 544) fuel Hs eq_refl Hf HD).
    destruct (nfkd_lazy nf str) as [[norm n] called] eqn:EN.
    set (tl0 := if called then [] else 0%Z :: skipn (S (length norm)) (repeat 0%Z 544)).
    replace (if called then Some (zs norm, zN n) else Some (zs norm ++ 0%Z :: skipn (S (length norm)) (repeat 0%Z 544), zN n))
      with (Some (zs norm ++ tl0, zN n)) by (unfold tl0; destruct called; [rewrite app_nil_r|]; reflexivity).
    assert (Htl : tl0 = [] \/ exists r, tl0 = 0%Z :: r) by (unfold tl0; destruct called; [left; reflexivity | right; eexists; reflexivity]).
    assert (Hnorm : no_nul norm /\ (length norm + 2 <= fuel)%nat).
    { destruct (lazy_cases nf str norm n called EN) as [[Ec En]|[Ec En]]; subst norm; [split; assumption|].
      split; [apply no_nul_firstn, Hs|]. rewrite firstn_length. lia. }
    destruct Hnorm as [Hnorm Hfs].
    destruct (tie_str_split fuel sgn tl0 Htl norm (repeat 0%Z 16) Hnorm eq_refl Hfs) as (Bf'&words'&ES&LW&HQ).
    cbv beta iota. rewrite ES. cbv beta iota.
    pose proof (str_split_16 norm) as S16. pose proof (str_split_words norm) as SW.
    destruct (str_split norm) as [w toks] eqn:ESS. cbn [fst snd] in *.
    assert (E16 : (Z.of_nat w =? 16)%Z = Nat.eqb w 16).
    { destruct (Nat.eqb_spec w 16) as [E|E]; [apply Z.eqb_eq|apply Z.eqb_neq]; lia. }
    rewrite E16.
    assert (EV0 : forall X, evs_of dp (CApi.CNfkdLazy (zs str) :: X) = (if called then [EvNfkd str] else []) ++ evs_of dp X).
    { intros X. unfold evs_of. cbn [flat_map ev_of]. fold nf. rewrite bytes_of_zs, EN. reflexivity. }
    assert (NI0 : forall X : list event, X = X) by reflexivity.
    destruct (Nat.eqb w 16) eqn:Ew; cbn [negb].
    2:{ do 8 eexists. split; [reflexivity|]. split; [cbn [app]; rewrite EV0; reflexivity|].
        split; [exists 0%nat; split; [reflexivity|discriminate]|]. split; reflexivity. }
    apply Nat.eqb_eq in Ew. subst w.
    assert (Ltok : length toks = 16%nat) by (rewrite SW; apply S16; reflexivity).
    assert (Ntok : Forall no_nul toks) by (rewrite SW by (apply S16; reflexivity); apply tokens_nonul, Hnorm).
    assert (Otok : Forall OKW toks).
    { apply Forall_forall. intros t Ht. apply Hokw; [rewrite Forall_forall in Ntok; apply Ntok, Ht|].
      rewrite SW in Ht by (apply S16; reflexivity). pose proof (tokens_len norm t Ht). lia. }
    rewrite (map_cstr_at Bf' words' toks LW Ltok HQ).
    rewrite tie_phrase_decode_ev.
    pose proof (tie_phrase_decode_langs sgn ext OKW toks (repeat 0%Z 16) lo lo0 fuel Hext Otok Ltok eq_refl Hfuel18) as R.
    change [0; 0; 0; 0; 0; 0; 0; 0; 0; 0; 0; 0; 0; 0; 0; 0]%Z with (repeat 0%Z 16).
    rewrite (phrase_decode_spec sgn toks Ntok) in *.
    destruct (matching langs 0 toks) as [|[l idx] [|? ?]] eqn:EM; cbn [pd_of] in *.
    - cbn [Res] in R. rewrite R. cbv beta iota. change (2 mod 4294967296 =? 0)%Z with false. cbn [negb].
      do 8 eexists. split; [reflexivity|]. split; [cbn [app]; rewrite EV0; reflexivity|].
      split; [exists 0%nat; split; [reflexivity|discriminate]|]. split; reflexivity.
    - cbn [Res] in R. destruct R as (l0&R&Rl1&Rl2). rewrite R. cbv beta iota.
      change (0 mod 4294967296 =? 0)%Z with true. cbn [negb].
      assert (IM : In (l, idx) (matching langs 0 toks)) by (rewrite EM; left; reflexivity).
      destruct (matching_wf langs 0%nat toks l idx (fun L H => H) IM) as [Widx Lidx]. rewrite Ltok in Lidx.
      finish_tail st idx coin ok gs EV0 NI0 Hcoin Lidx Widx.
      + do 8 eexists. split; [reflexivity|]. split.
        { cbn [app]. rewrite EV0. unfold evs_of. cbn [flat_map ev_of app cobj]. rewrite ?ptr_nz, ?hnd_ptr. reflexivity. }
        split; [exists l; split; [reflexivity | intros _; split; assumption]|].
        cbn [Z.eqb]. split; [reflexivity|]. eexists. split; reflexivity.
      + do 8 eexists. split; [reflexivity|]. split.
        { cbn [app]. rewrite EV0. unfold evs_of. cbn [flat_map ev_of app cobj]. rewrite ?ptr_nz, ?hnd_ptr. reflexivity. }
        split; [exists l; split; [reflexivity | discriminate]|]. split; reflexivity.
      + do 8 eexists. split; [reflexivity|]. split.
        { cbn [app]. rewrite EV0. unfold evs_of. cbn [flat_map ev_of app cobj]. reflexivity. }
        split; [exists l; split; [reflexivity | discriminate]|]. split; reflexivity.
      + do 8 eexists. split; [reflexivity|]. split.
        { cbn [app]. rewrite EV0. unfold evs_of. cbn [flat_map ev_of app cobj]. reflexivity. }
        split; [exists l; split; [reflexivity | discriminate]|]. split; reflexivity.
    - cbn [Res] in R. destruct R as (io&lz&R). rewrite R. cbv beta iota. change (7 mod 4294967296 =? 0)%Z with false. cbn [negb].
      do 8 eexists. split; [reflexivity|]. split; [cbn [app]; rewrite EV0; reflexivity|].
      split; [exists 0%nat; split; [reflexivity|discriminate]|]. split; reflexivity.
  Qed.

  Theorem tie_decode_explicit str coin li L ok gb gf gs gc so0 :
    nth_error langs li = Some L ->
    no_nul str -> coin < 2048 -> (length str + 2 <= fuel)%nat ->
    D (zs str) = (zs (fst (nf str)), zN (snd (nf str))) -> no_nul (fst (nf str)) ->
    (length (fst (nf str)) + 2 <= fuel)%nat ->
    let '(st', out, evs) := step sgn langs st (OpDecodeExplicit str coin li ok) in
    exists cevs b f s c so status,
      CApi.polyseed_decode_explicit fuel sgn D ext (alloc_ptr st ok) CFuns.polyseed_mul2_table (zN (st_reserved st))
        (zs str) (zN coin) (Z.of_nat li) gb gf gs gc so0 = Some (cevs, b, f, s, c, so, status) /\
      evs_of dp cevs = evs /\
      out = OutStatus (Z.to_N status) (if (status =? 0)%Z then Some (st_next st) else None) None /\
      (if (status =? 0)%Z
       then so = ptr (st_next st) /\ exists d, st_heap st' = (st_next st, d) :: st_heap st /\ (b, f, s, c) = zd d
       else so = so0 /\ st_heap st' = st_heap st).
  Proof.
    intros HL Hs Hcoin Hf HD Hnn Hfn. cbn [step]. rewrite HL. fold dp. fold nf.
    unfold CApi.polyseed_decode_explicit. cbv beta iota zeta.
    rewrite (tie_nfkd_lazy_mirror sgn nf D str (repeat 0%Z 544) fuel Hs eq_refl Hf HD).
    destruct (nfkd_lazy nf str) as [[norm n] called] eqn:EN.
    set (tl0 := if called then [] else 0%Z :: skipn (S (length norm)) (repeat 0%Z 544)).
    replace (if called then Some (zs norm, zN n) else Some (zs norm ++ 0%Z :: skipn (S (length norm)) (repeat 0%Z 544), zN n))
      with (Some (zs norm ++ tl0, zN n)) by (unfold tl0; destruct called; [rewrite app_nil_r|]; reflexivity).
    assert (Htl : tl0 = [] \/ exists r, tl0 = 0%Z :: r) by (unfold tl0; destruct called; [left; reflexivity | right; eexists; reflexivity]).
    assert (Hnorm : no_nul norm /\ (length norm + 2 <= fuel)%nat).
    { destruct (lazy_cases nf str norm n called EN) as [[Ec En]|[Ec En]]; subst norm; [split; assumption|].
      split; [apply no_nul_firstn, Hs|]. rewrite firstn_length. lia. }
    destruct Hnorm as [Hnorm Hfs].
    destruct (tie_str_split fuel sgn tl0 Htl norm (repeat 0%Z 16) Hnorm eq_refl Hfs) as (Bf'&words'&ES&LW&HQ).
    cbv beta iota. rewrite ES. cbv beta iota.
    pose proof (str_split_16 norm) as S16. pose proof (str_split_words norm) as SW.
    destruct (str_split norm) as [w toks] eqn:ESS. cbn [fst snd] in *.
    assert (E16 : (Z.of_nat w =? 16)%Z = Nat.eqb w 16).
    { destruct (Nat.eqb_spec w 16) as [E|E]; [apply Z.eqb_eq|apply Z.eqb_neq]; lia. }
    rewrite E16.
    assert (EV0 : forall X, evs_of dp (CApi.CNfkdLazy (zs str) :: X) = (if called then [EvNfkd str] else []) ++ evs_of dp X).
    { intros X. unfold evs_of. cbn [flat_map ev_of]. fold nf. rewrite bytes_of_zs, EN. reflexivity. }
    assert (NI0 : forall X : list event, X = X) by reflexivity.
    destruct (Nat.eqb w 16) eqn:Ew; cbn [negb].
    2:{ do 7 eexists. split; [reflexivity|]. split; [cbn [app]; rewrite EV0; reflexivity|]. split; [reflexivity|]. split; reflexivity. }
    apply Nat.eqb_eq in Ew. subst w.
    assert (Ltok : length toks = 16%nat) by (rewrite SW; apply S16; reflexivity).
    assert (Ntok : Forall no_nul toks) by (rewrite SW by (apply S16; reflexivity); apply tokens_nonul, Hnorm).
    assert (Otok : Forall OKW toks).
    { apply Forall_forall. intros t Ht. apply Hokw; [rewrite Forall_forall in Ntok; apply Ntok, Ht|].
      rewrite SW in Ht by (apply S16; reflexivity). pose proof (tokens_len norm t Ht). lia. }
    rewrite (map_cstr_at Bf' words' toks LW Ltok HQ).
    assert (InL : In L langs) by (apply nth_error_In in HL; exact HL).
    destruct (tie_phrase_decode_explicit_langs sgn ext OKW li L toks (repeat 0%Z 16) fuel Hext HL Otok Ltok eq_refl Hfuel18) as (io&R).
    change [0; 0; 0; 0; 0; 0; 0; 0; 0; 0; 0; 0; 0; 0; 0; 0]%Z with (repeat 0%Z 16).
    unfold phrase_decode_explicit. rewrite (decode_words_spec sgn L toks InL Ntok) in *.
    destruct (spec_lookup_all L toks) as [idx|] eqn:EM; rewrite R; cbv beta iota.
    2:{ change (2 mod 4294967296 =? 0)%Z with false. cbn [negb].
        do 7 eexists. split; [reflexivity|]. split; [cbn [app]; rewrite EV0; reflexivity|]. split; [reflexivity|]. split; reflexivity. }
    change (0 mod 4294967296 =? 0)%Z with true. cbn [negb].
    destruct (lookup_all_wf L toks idx InL EM) as [Widx Lidx]. rewrite Ltok in Lidx.
    finish_tail st idx coin ok gs EV0 NI0 Hcoin Lidx Widx.
    - do 7 eexists. split; [reflexivity|]. split.
      { cbn [app]. rewrite EV0. unfold evs_of. cbn [flat_map ev_of app cobj]. rewrite ?ptr_nz, ?hnd_ptr. reflexivity. }
      split; [reflexivity|]. cbn [Z.eqb]. split; [reflexivity|]. eexists. split; reflexivity.
    - do 7 eexists. split; [reflexivity|]. split.
      { cbn [app]. rewrite EV0. unfold evs_of. cbn [flat_map ev_of app cobj]. rewrite ?ptr_nz, ?hnd_ptr. reflexivity. }
      split; [reflexivity|]. split; reflexivity.
    - do 7 eexists. split; [reflexivity|]. split.
      { cbn [app]. rewrite EV0. unfold evs_of. cbn [flat_map ev_of app cobj]. reflexivity. }
      split; [reflexivity|]. split; reflexivity.
    - do 7 eexists. split; [reflexivity|]. split.
      { cbn [app]. rewrite EV0. unfold evs_of. cbn [flat_map ev_of app cobj]. reflexivity. }
      split; [reflexivity|]. split; reflexivity.
  Qed.
End Decode.
