(* The binary search of lang_search (glibc's bsearch loop) and the linear scan:
   for any sign function f that is "monotone" over 0..n-1 (once f <= 0 it stays
   <= 0, once f < 0 it stays < 0 - which is what sortedness of the list gives),
   the search returns an index where f vanishes whenever one exists, and never
   runs out of fuel when n <= 2^(fuel-1). *)
From PS Require Import Base LangDefs.
Local Open Scope nat_scope.

Section Bsearch.
  Variable f : nat -> Z.
  Variable n : nat.
  Hypothesis M1 : forall i j, i <= j -> j < n -> (f i <= 0)%Z -> (f j <= 0)%Z.
  Hypothesis M2 : forall i j, i <= j -> j < n -> (f i < 0)%Z -> (f j < 0)%Z.

  Lemma div2_mid l u : l < u -> l <= Nat.div2 (l + u) < u.
  Proof.
    clear M1 M2. intros H. pose proof (Nat.div2_odd (l + u)) as E.
    destruct (Nat.odd (l + u)); cbn [Nat.b2n] in E; lia.
  Qed.

  (* soundness: whatever is returned is a zero of f inside [l, u) *)
  Lemma bsearch_sound fuel l u j :
    bsearch_loop fuel f l u = Some (Some j) -> l <= j < u /\ f j = 0%Z.
  Proof.
    clear M1 M2. revert l u. induction fuel as [|fuel IH]; intros l u H; [discriminate|].
    cbn [bsearch_loop] in H.
    destruct (Nat.ltb l u) eqn:Hlu; [|discriminate].
    apply Nat.ltb_lt in Hlu. pose proof (div2_mid l u Hlu) as Hm.
    set (m := Nat.div2 (l + u)) in *.
    destruct (f m <? 0)%Z eqn:Hneg.
    - apply IH in H. lia.
    - destruct (0 <? f m)%Z eqn:Hpos.
      + apply IH in H. lia.
      + inversion H; subst j. split; [lia|]. lia.
  Qed.

  (* completeness: a zero inside [l, u) is never missed *)
  Lemma bsearch_complete fuel l u z :
    u <= n -> l <= z < u -> f z = 0%Z -> u - l < 2 ^ fuel ->
    exists j, bsearch_loop fuel f l u = Some (Some j).
  Proof.
    revert l u. induction fuel as [|fuel IH]; intros l u Hu Hz Hfz Hsz.
    - cbn in Hsz. lia.
    - cbn [bsearch_loop].
      destruct (Nat.ltb l u) eqn:Hlu; [|apply Nat.ltb_ge in Hlu; lia].
      apply Nat.ltb_lt in Hlu. pose proof (div2_mid l u Hlu) as Hm.
      pose proof (Nat.div2_odd (l + u)) as E.
      set (m := Nat.div2 (l + u)) in *.
      assert (Hpow : 2 ^ S fuel = 2 * 2 ^ fuel) by (cbn; lia).
      destruct (f m <? 0)%Z eqn:Hneg.
      + (* key < element m: zeros are left of m *)
        apply Z.ltb_lt in Hneg.
        assert (z < m).
        { destruct (Nat.lt_ge_cases z m) as [|Hge]; [assumption|].
          pose proof (M2 m z Hge ltac:(lia) Hneg). lia. }
        apply IH; try lia; destruct (Nat.odd (l + u)); cbn [Nat.b2n] in E; lia.
      + destruct (0 <? f m)%Z eqn:Hpos.
        * apply Z.ltb_lt in Hpos.
          assert (m < z).
          { destruct (Nat.lt_ge_cases m z) as [|Hge]; [assumption|].
            pose proof (M1 z m Hge ltac:(lia) ltac:(lia)). lia. }
          apply IH; try lia; destruct (Nat.odd (l + u)); cbn [Nat.b2n] in E; lia.
        * eexists; reflexivity.
  Qed.

  (* the search never runs out of fuel *)
  Lemma bsearch_total fuel l u :
    u - l < 2 ^ fuel -> bsearch_loop (S fuel) f l u <> None.
  Proof.
    clear M1 M2. revert l u. induction fuel as [|fuel IH]; intros l u Hsz.
    - cbn in Hsz. cbn [bsearch_loop].
      destruct (Nat.ltb l u) eqn:Hlu; [apply Nat.ltb_lt in Hlu; lia | discriminate].
    - remember (S fuel) as sf. cbn [bsearch_loop]. subst sf.
      destruct (Nat.ltb l u) eqn:Hlu; [|discriminate].
      apply Nat.ltb_lt in Hlu. pose proof (div2_mid l u Hlu) as Hm.
      pose proof (Nat.div2_odd (l + u)) as E.
      set (m := Nat.div2 (l + u)) in *.
      assert (Hpow : 2 ^ S fuel = 2 * 2 ^ fuel) by (cbn; lia).
      destruct (f m <? 0)%Z; [|destruct (0 <? f m)%Z; [|discriminate]];
        apply IH; destruct (Nat.odd (l + u)); cbn [Nat.b2n] in E; lia.
  Qed.
End Bsearch.

(* the linear scan returns the FIRST zero *)
Lemma linear_find_sound g ws j0 j :
  linear_find g ws j0 = Some j -> j0 <= j < j0 + length ws /\ g (nth (j - j0) ws []) = 0%Z.
Proof.
  revert j0. induction ws as [|w ws IH]; intros j0 H; [discriminate|].
  cbn [linear_find] in H. destruct (g w =? 0)%Z eqn:E.
  - inversion H; subst j. rewrite Nat.sub_diag. cbn. split; [lia|]. apply Z.eqb_eq, E.
  - apply IH in H. destruct H as [H1 H2]. cbn [length]. split; [lia|].
    replace (j - j0) with (S (j - S j0)) by lia. exact H2.
Qed.

Lemma linear_find_complete g ws j0 k :
  k < length ws -> g (nth k ws []) = 0%Z -> exists j, linear_find g ws j0 = Some j.
Proof.
  revert j0 k. induction ws as [|w ws IH]; intros j0 k Hk Hz; [cbn in Hk; lia|].
  cbn [linear_find]. destruct (g w =? 0)%Z eqn:E; [eexists; reflexivity|].
  destruct k as [|k]; [cbn in Hz; apply Z.eqb_neq in E; contradiction|].
  apply (IH (S j0) k); [cbn in Hk; lia | exact Hz].
Qed.
