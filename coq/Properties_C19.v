(* C19 - results do not depend on whether plain char is signed (partial: see DESIGN.md).
   The only place where the model looks at the sign of a char is the final comparison of the
   four comparers; the search result is independent of it for every token. *)
From PS Require Import Base LangDefs SpecDefs LangProofs LangData.
From PS.Gen Require Import Langs.

Theorem C19_search_sgn_independent : forall L key, In L langs -> no_nul key ->
  lang_search true L key = lang_search false L key.
Proof. exact search_sgn_independent. Qed.
Print Assumptions C19_search_sgn_independent.

Theorem C19_sorted_both : forallb (lang_ok true) langs = true /\ forallb (lang_ok false) langs = true.
Proof. exact (conj langs_ok_signed langs_ok_unsigned). Qed.
Print Assumptions C19_sorted_both.
