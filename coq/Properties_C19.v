(* C19 - results do not depend on whether plain char is signed (partial: see DESIGN.md).
   The only place where the model looks at the sign of a char is the final comparison of the
   four comparers; the search result is independent of it for every token. *)
From PS Require Import Base LangDefs SpecDefs LangProofs LangData ApiDefs RefineProofs SgnProofs.
From PS.Gen Require Import Langs.

Theorem C19_search_sgn_independent : forall L key, In L langs -> no_nul key ->
  lang_search true L key = lang_search false L key.
Proof. exact search_sgn_independent. Qed.
Print Assumptions C19_search_sgn_independent.

Theorem C19_sorted_both : forallb (lang_ok true) langs = true /\ forallb (lang_ok false) langs = true.
Proof. exact (conj langs_ok_signed langs_ok_unsigned). Qed.
Print Assumptions C19_sorted_both.

(* every public function, every well-formed call, every related state: identical state, output and
   trace for signed and unsigned plain char *)
Theorem C19_step : forall cs a o, R cs a -> op_ok o -> step true langs cs o = step false langs cs o.
Proof. exact step_sgn_independent. Qed.
Print Assumptions C19_step.

Theorem C19_run : forall ops, Forall op_ok ops -> run true langs init_state ops = run false langs init_state ops.
Proof. exact run_sgn_independent. Qed.
Print Assumptions C19_run.
