(* C06 - the tie to the code: theorems about the Gallina that tools/c2coq.py generates from /repo's CURRENT
   sources on every run (Gen/CFuns.v, Gen/CApi.v).  Kept apart from Properties_C06.v so that a change to the C code
   which breaks a tie leaves the theorems about the model standing, and the other way round. *)
From PS Require Import Base PackDefs StoreDefs ApiDefs SpecDefs SpecApi PackProofs PackTheorems StoreProofs ApiLemmas
  RefineProofs ApiTheorems.
From PS Require Import CTieStore.
From PS.Gen Require CFuns.
From PS.Gen Require Import Consts Langs.
Local Open Scope N_scope.

(* ---- the tie to the code: storage.c as TRANSLATED from /repo's current source on this run (Gen/CFuns.v:
   pointer walks resolved to constant offsets, store16/load16 inlined, memcpy/memcmp expanded) *)
Theorem C06_code_tie_store : forall d st0, Canon d -> d_checksum d < 2048 ->
  CFuns.polyseed_data_store (Z.of_N (d_birthday d)) (Z.of_N (d_features d)) (map Z.of_N (d_secret d))
    (Z.of_N (d_checksum d)) st0 = map Z.of_N (data_store d).
Proof. exact tie_data_store. Qed.
Print Assumptions C06_code_tie_store.

(* for EVERY 32-byte buffer and whatever the struct held before: FORMAT exactly when the mirror says so,
   otherwise the same struct with every field written *)
Theorem C06_code_tie_load : forall buf b0 f0 sec0 c0, length buf = 32%nat -> bytes_ok buf ->
  match data_load buf with
  | LoadFormat => snd (CFuns.polyseed_data_load (map Z.of_N buf) b0 f0 sec0 c0) = Z.of_N ST_FORMAT
  | LoadOk d => CFuns.polyseed_data_load (map Z.of_N buf) b0 f0 sec0 c0 =
                (Z.of_N (d_birthday d), Z.of_N (d_features d), map Z.of_N (d_secret d), Z.of_N (d_checksum d), Z.of_N ST_OK)
  end.
Proof. exact tie_data_load. Qed.
Print Assumptions C06_code_tie_load.

(* ---- the tie to the code: src/polyseed.c as TRANSLATED on this run (Gen/CApi.v) ---- *)
From Coq Require Import String.
From PS Require Import Base GFDefs PackDefs StoreDefs MiscDefs StrDefs LangDefs ApiDefs SpecDefs SpecApi GFProofs PackProofs StoreProofs RefineProofs RoundTrip TraceProofs FrameProofs SafetyProofs CTieBase CTieLang CTiePhrase CTiePhraseEv CTieSplit CTieApi CTieDecode CTieEncode CTieLocals CTieInject CTieCmp CTieSearch CTieClosed CodeTheorems HeldProofs CodeMachine.
From PS.Gen Require Import Consts PrivConsts Langs.
From PS.Gen Require CFuns.
From PS.Gen Require CApi.

(* polyseed_load as translated against the mirror step: status, block, *seed_out, events - for every 32-byte buffer and either allocation outcome *)
Theorem C06_code_tie_api_load :
  forall (sgn : bool) (langs : list lang) (st : state) (buf : list N) (ok : bool) 
           (gb gf : Z) (gs : list Z) (gc so0 : Z),
         Datatypes.length buf = 32%nat ->
         bytes_ok buf ->
         let
         '(st', out0, evs) := step sgn langs st (OpLoad buf ok) in
          exists (cevs : list CApi.cev) (b f : Z) (s : list Z) (c so status : Z),
            CApi.polyseed_load (alloc_ptr st ok) CFuns.polyseed_mul2_table (Z.of_N (st_reserved st))
              (map Z.of_N buf) gb gf gs gc so0 = (cevs, b, f, s, c, so, status) /\
            evs_of (st_deps st) cevs = evs /\
            out0 = OutStatus (Z.to_N status) (if (status =? 0)%Z then Some (st_next st) else None) None /\
            (if (status =? 0)%Z
             then
              so = ptr (st_next st) /\
              (exists d : data, st_heap st' = (st_next st, d) :: st_heap st /\ (b, f, s, c) = zd d)
             else so = so0 /\ st_heap st' = st_heap st).
Proof. exact @tie_load. Qed.
Print Assumptions C06_code_tie_api_load.

(* polyseed_store as translated = the storage layout, for every canonical struct *)
Theorem C06_code_tie_api_store :
  forall (d : data) (st0 : list Z),
         Canon d ->
         d_checksum d < 2048 ->
         CApi.polyseed_store (Z.of_N (d_birthday d)) (Z.of_N (d_features d)) (map Z.of_N (d_secret d))
           (Z.of_N (d_checksum d)) st0 = map Z.of_N (data_store d).
Proof. exact @tie_store. Qed.
Print Assumptions C06_code_tie_api_store.

(* ON THE CODE: what the translated polyseed_store writes for a live seed of any reachable state, the translated polyseed_load turns back into the same struct (status OK, one allocation, one wipe of poly) - ties composed with C06_api_roundtrip *)
Theorem C06_code_tie_roundtrip :
  bool ->
         forall (cs : state) (a : astate) (h : N) (d : data) (st0 : list Z) (gb gf : Z) 
           (gs : list Z) (gc so0 : Z),
         R cs a ->
         heap_get (st_heap cs) h = Some d ->
         spec_supported (as_mask a) (d_features d) = true ->
         exists cevs : list CApi.cev,
           CApi.polyseed_load (ptr (st_next cs)) CFuns.polyseed_mul2_table (Z.of_N (st_reserved cs))
             (CApi.polyseed_store (Z.of_N (d_birthday d)) (Z.of_N (d_features d)) (map Z.of_N (d_secret d))
                (Z.of_N (d_checksum d)) st0) gb gf gs gc so0 =
           (cevs, Z.of_N (d_birthday d), Z.of_N (d_features d), map Z.of_N (d_secret d), 
            Z.of_N (d_checksum d), ptr (st_next cs), 0%Z) /\
           evs_of (st_deps cs) cevs =
           [EvAlloc (dp_alloc_libc (st_deps cs)) sizeof_data (Some (st_next cs)); wipe_poly].
Proof. exact @code_store_load. Qed.
Print Assumptions C06_code_tie_roundtrip.
