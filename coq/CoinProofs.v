(* The coin flag: XORed into coefficient 1 after the check value is computed. *)
From PS Require Import Base GFDefs GFProofs ApiDefs.
Local Open Scope N_scope.

Lemma xor_coin_upd c coin : (2 <= length c)%nat ->
  xor_coin c coin = upd c 1 (N.lxor (nth 1 c 0) coin).
Proof. destruct c as [|c0 [|c1 t]]; cbn; intros H; try lia. reflexivity. Qed.

Lemma xor_coin_length c coin : length (xor_coin c coin) = length c.
Proof. destruct c as [|c0 [|c1 t]]; reflexivity. Qed.

Lemma xor_coin_twice c a b : xor_coin (xor_coin c a) b = xor_coin c (N.lxor a b).
Proof.
  destruct c as [|c0 [|c1 t]]; cbn; try reflexivity. f_equal. f_equal.
  generalize c1 a b. intros u v w. xor_ring.
Qed.

Lemma xor_coin_same c a : xor_coin (xor_coin c a) a = c.
Proof.
  rewrite xor_coin_twice, N.lxor_nilpotent. destruct c as [|c0 [|c1 t]]; cbn; try reflexivity.
  rewrite N.lxor_0_r. reflexivity.
Qed.

Lemma wf_xor_coin c coin : wf c -> coin < 2048 -> wf (xor_coin c coin).
Proof.
  intros Hc Hcoin. destruct c as [|c0 [|c1 t]]; try exact Hc.
  inversion Hc as [|? ? H0 Hc']; subst. inversion Hc' as [|? ? H1 Ht]; subst.
  cbn. constructor; [exact H0|]. constructor; [apply lxor_lt_2048; assumption | exact Ht].
Qed.

(* a phrase built for coin A never validates for another coin B *)
Theorem other_coin_detected c A B :
  wf c -> (2 <= length c)%nat -> poly_eval c = 0 -> A < 2048 -> B < 2048 -> A <> B ->
  poly_eval (xor_coin (xor_coin c A) B) <> 0.
Proof.
  intros Hc Hl He HA HB Hne.
  rewrite xor_coin_twice, xor_coin_upd by exact Hl.
  apply subst_detected; try assumption; try lia.
  - apply lxor_lt_2048; [apply wf_nth, Hc | apply lxor_lt_2048; assumption].
  - intros E. apply Hne. apply N.lxor_eq.
    assert (X : N.lxor (nth 1 c 0) (N.lxor (nth 1 c 0) (N.lxor A B)) = 0)
      by (rewrite E at 1; apply N.lxor_nilpotent).
    replace (N.lxor (nth 1 c 0) (N.lxor (nth 1 c 0) (N.lxor A B))) with (N.lxor A B) in X; [exact X|].
    generalize (nth 1 c 0) A B. intros u v w. xor_ring.
Qed.

(* the phrases for two coins differ in the second word only *)
Theorem second_word_only c A B i : (2 <= length c)%nat -> A <> B ->
  (nth i (xor_coin c A) 0 = nth i (xor_coin c B) 0 <-> i <> 1%nat).
Proof.
  intros Hl Hne. destruct c as [|c0 [|c1 t]]; cbn in Hl; try lia.
  destruct i as [|[|i]]; cbn.
  - split; [lia | reflexivity].
  - split; [|lia]. intros E. exfalso. apply Hne.
    assert (X : N.lxor (N.lxor c1 A) (N.lxor c1 B) = 0) by (rewrite E; apply N.lxor_nilpotent).
    apply N.lxor_eq.
    replace (N.lxor (N.lxor c1 A) (N.lxor c1 B)) with (N.lxor A B) in X; [exact X|].
    generalize c1 A B. intros u v w. xor_ring.
  - split; [lia | reflexivity].
Qed.
