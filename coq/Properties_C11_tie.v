(* C11 - the tie to the code: theorems about the Gallina that tools/c2coq.py generates from /repo's CURRENT
   sources on every run (Gen/CFuns.v, Gen/CApi.v).  Kept apart from Properties_C11.v so that a change to the C code
   which breaks a tie leaves the theorems about the model standing, and the other way round. *)
From PS Require Import Base MiscDefs SpecDefs MiscProofs ApiDefs ApiTheorems.
From PS Require Import CTieBase CTieBday.
From PS.Gen Require CFuns.
From PS.Gen Require Import Consts Langs.
Local Open Scope N_scope.

(* ---- the tie to the code: birthday.h as TRANSLATED from /repo's current source on this run
   (Gen/CFuns.v) equals the mirror the theorems above are about, for EVERY uint64_t clock value and
   every unsigned birthday (64-bit wrap-around written out in the translation) *)
Theorem C11_code_tie :
  (forall t, t < 2 ^ 64 -> CFuns.birthday_encode (Z.of_N t) = Z.of_N (birthday_encode t)) /\
  (forall b, b < 2 ^ 32 -> CFuns.birthday_decode (Z.of_N b) = Z.of_N (birthday_decode b)).
Proof. exact (conj tie_birthday_encode tie_birthday_decode). Qed.
Print Assumptions C11_code_tie.

(* ---- the tie to the code: src/polyseed.c as TRANSLATED on this run (Gen/CApi.v) ---- *)
From Coq Require Import String.
From PS Require Import Base GFDefs PackDefs StoreDefs MiscDefs StrDefs LangDefs ApiDefs SpecDefs SpecApi GFProofs PackProofs StoreProofs RefineProofs RoundTrip TraceProofs FrameProofs SafetyProofs CTieBase CTieLang CTiePhrase CTiePhraseEv CTieSplit CTieApi CTieDecode CTieEncode CTieLocals CTieInject CTieCmp CTieSearch CTieClosed CodeTheorems HeldProofs CodeMachine.
From PS.Gen Require Import Consts PrivConsts Langs.
From PS.Gen Require CFuns.
From PS.Gen Require CApi.

(* polyseed_get_birthday as translated *)
Theorem C11_code_tie_api_get_birthday :
  forall d : data,
         d_birthday d < 2 ^ 32 ->
         CApi.polyseed_get_birthday (Z.of_N (d_birthday d)) (Z.of_N (d_features d)) 
           (map Z.of_N (d_secret d)) (Z.of_N (d_checksum d)) = Z.of_N (birthday_decode (d_birthday d)).
Proof. exact @tie_get_birthday. Qed.
Print Assumptions C11_code_tie_api_get_birthday.

(* polyseed_create as translated against the mirror step (birthday = birthday_encode of the injected clock) *)
Theorem C11_code_tie_api_create :
  forall (sgn : bool) (langs : list lang) (st : state) (features : N) (rand : list N) 
           (clock : N) (ok : bool) (gb gf : Z) (gs : list Z) (gc so0 : Z),
         features < 2 ^ 32 ->
         clock < 2 ^ 64 ->
         let
         '(st', out0, evs) := step sgn langs st (OpCreate features rand clock ok) in
          exists (cevs : list CApi.cev) (b f : Z) (s : list Z) (c so status : Z),
            CApi.polyseed_create (alloc_ptr st ok) (Z.of_N clock) (map Z.of_N rand) CFuns.polyseed_mul2_table
              (Z.of_N (st_reserved st)) (Z.of_N features) gb gf gs gc so0 = (cevs, b, f, s, c, so, status) /\
            evs_of (st_deps st) cevs = evs /\
            out0 = OutStatus (Z.to_N status) (if (status =? 0)%Z then Some (st_next st) else None) None /\
            (if (status =? 0)%Z
             then
              so = ptr (st_next st) /\
              (exists d : data, st_heap st' = (st_next st, d) :: st_heap st /\ (b, f, s, c) = zd d)
             else so = so0 /\ st_heap st' = st_heap st).
Proof. exact @tie_create. Qed.
Print Assumptions C11_code_tie_api_create.
