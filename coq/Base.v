(* Base: bytes, plain-char values, small list utilities, lia set-up. *)
From Coq Require Export List Bool NArith ZArith Lia.
From Coq Require Export ZifyBool ZifyNat ZifyN.
From Coq.Init Require Export Byte.
From PS Require Export LangRec.
Export ListNotations.

Ltac Zify.zify_post_hook ::= Z.div_mod_to_equations.

(* numeric value of a byte, 0..255 *)
Definition bval (b : byte) : N := Byte.to_N b.

(* value of a plain `char` holding byte b: signed two's complement when sgn *)
Definition ord (sgn : bool) (b : byte) : Z :=
  let n := Z.of_N (bval b) in
  if sgn && (128 <=? n)%Z then (n - 256)%Z else n.

(* bit 7 set: the signedness-independent "non-ASCII" test *)
Definition is_nonascii (b : byte) : bool := (128 <=? bval b)%N.

(* (a > b) - (a < b) *)
Definition sign3 (a b : Z) : Z :=
  ((if b <? a then 1 else 0) - (if a <? b then 1 else 0))%Z.

Definition byte_eqb (a b : byte) : bool := Byte.eqb a b.

Fixpoint bytes_eqb (a b : bytes) : bool :=
  match a, b with
  | [], [] => true
  | x :: a', y :: b' => Byte.eqb x y && bytes_eqb a' b'
  | _, _ => false
  end.

Definition no_nul (s : bytes) : Prop := ~ In x00 s.
Definition no_nul_b (s : bytes) : bool := negb (existsb (Byte.eqb x00) s).

(* list update *)
Fixpoint upd {A} (l : list A) (i : nat) (v : A) : list A :=
  match l, i with
  | [], _ => []
  | _ :: t, O => v :: t
  | h :: t, S i' => h :: upd t i' v
  end.

Definition byte_of_N (n : N) : byte :=
  match Byte.of_N (n mod 256) with Some b => b | None => x00 end.

Fixpoint list_eqb {A} (eqb : A -> A -> bool) (a b : list A) : bool :=
  match a, b with
  | [], [] => true
  | x :: a', y :: b' => eqb x y && list_eqb eqb a' b'
  | _, _ => false
  end.
