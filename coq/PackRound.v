(* The packing round trips on the concrete struct:
     unpack (ck :: pack d) = d         for every canonical struct d      (C01, C06, C12, C13)
     pack (unpack c) = tl c, unpack c canonical   for every 16 coefficients < 2048   (C13) *)
From PS Require Import Base GFDefs PackDefs SpecDefs GFProofs PackProofs PackNorm.
From PS.Gen Require Import PrivConsts.
Local Open Scope N_scope.

Lemma data_eq a b :
  d_birthday a = d_birthday b -> d_features a = d_features b -> d_secret a = d_secret b ->
  d_checksum a = d_checksum b -> a = b.
Proof. destruct a, b; cbn; intros; subst; reflexivity. Qed.

(* the 15 bits of features<<10|birthday, reassembled *)
Definition bits15 (x : N) : N :=
  ((((((((((((((x / 16384) mod 2 * 2 + (x / 8192) mod 2) * 2 + (x / 4096) mod 2) * 2 + (x / 2048) mod 2) * 2
   + (x / 1024) mod 2) * 2 + (x / 512) mod 2) * 2 + (x / 256) mod 2) * 2 + (x / 128) mod 2) * 2
   + (x / 64) mod 2) * 2 + (x / 32) mod 2) * 2 + (x / 16) mod 2) * 2 + (x / 8) mod 2) * 2
   + (x / 4) mod 2) * 2 + (x / 2) mod 2) * 2 + (x / 1) mod 2.

Lemma bits15_id x : x < 32768 -> bits15 x = x.
Proof.
  intros H. apply N.eqb_eq.
  apply (sweep (fun x => bits15 x =? x) (N.to_nat 32768)); [vm_cast_no_check (eq_refl true) | ].
  rewrite N2Nat.id. exact H.
Qed.

Lemma mod2_bit w b : b < 2 -> (w * 2 + b) mod 2 = b.
Proof. intros H. rewrite N.add_comm, N.mod_add by discriminate. apply N.mod_small, H. Qed.

Lemma canon_shape d : Canon d ->
  exists b0 b1 b2 b3 b4 b5 b6 b7 b8 b9 b10 b11 b12 b13 b14 b15 b16 b17 b18,
    d_secret d = sec19 b0 b1 b2 b3 b4 b5 b6 b7 b8 b9 b10 b11 b12 b13 b14 b15 b16 b17 b18 ++ repeat 0 13 /\
    (b0 < 256 /\ b1 < 256 /\ b2 < 256 /\ b3 < 256 /\ b4 < 256 /\ b5 < 256 /\ b6 < 256 /\ b7 < 256 /\
     b8 < 256 /\ b9 < 256 /\ b10 < 256 /\ b11 < 256 /\ b12 < 256 /\ b13 < 256 /\ b14 < 256 /\ b15 < 256 /\
     b16 < 256 /\ b17 < 256 /\ b18 < 64).
Proof.
  intros [Hl [Hf [H18 [Hs _]]]]. destruct d as [bd ft sec ck]. cbn [d_secret] in *.
  do 32 (destruct sec as [|? sec]; [discriminate|]). destruct sec; [|discriminate].
  cbn [skipn] in Hs. cbn [nth] in H18.
  repeat match goal with H : Forall _ (_ :: _) |- _ => inversion H; clear H; subst end.
  do 19 eexists. split; [unfold sec19; cbn [app]; repeat f_equal; exact Hs|].
  repeat split; assumption.
Qed.

Section T2.
  Variables b0 b1 b2 b3 b4 b5 b6 b7 b8 b9 b10 b11 b12 b13 b14 b15 b16 b17 b18 bd ft ck : N.
  Hypothesis B0 : b0 < 256. Hypothesis B1 : b1 < 256. Hypothesis B2 : b2 < 256. Hypothesis B3 : b3 < 256.
  Hypothesis B4 : b4 < 256. Hypothesis B5 : b5 < 256. Hypothesis B6 : b6 < 256. Hypothesis B7 : b7 < 256.
  Hypothesis B8 : b8 < 256. Hypothesis B9 : b9 < 256. Hypothesis B10 : b10 < 256. Hypothesis B11 : b11 < 256.
  Hypothesis B12 : b12 < 256. Hypothesis B13 : b13 < 256. Hypothesis B14 : b14 < 256. Hypothesis B15 : b15 < 256.
  Hypothesis B16 : b16 < 256. Hypothesis B17 : b17 < 256. Hypothesis B18 : b18 < 64.
  Hypothesis Hbd : bd < 1024. Hypothesis Hft : ft < 32.

  Notation E := (d2p_form b0 b1 b2 b3 b4 b5 b6 b7 b8 b9 b10 b11 b12 b13 b14 b15 b16 b17 b18 bd ft).
  Notation e k := (nth k E 0).
  Notation D := (p2d_form ck (e 0%nat) (e 1%nat) (e 2%nat) (e 3%nat) (e 4%nat) (e 5%nat) (e 6%nat) (e 7%nat)
                   (e 8%nat) (e 9%nat) (e 10%nat) (e 11%nat) (e 12%nat) (e 13%nat) (e 14%nat)).

  Ltac ew := rewrite ?enc_word_1, ?enc_word_2, ?enc_word_3, ?enc_word_4, ?enc_word_5, ?enc_word_6,
    ?enc_word_7, ?enc_word_8, ?enc_word_9, ?enc_word_10, ?enc_word_11, ?enc_word_12, ?enc_word_13,
    ?enc_word_14, ?enc_word_15 by assumption.

  Lemma e_lt : e 0%nat < 2048 /\ e 1%nat < 2048 /\ e 2%nat < 2048 /\ e 3%nat < 2048 /\ e 4%nat < 2048 /\
    e 5%nat < 2048 /\ e 6%nat < 2048 /\ e 7%nat < 2048 /\ e 8%nat < 2048 /\ e 9%nat < 2048 /\
    e 10%nat < 2048 /\ e 11%nat < 2048 /\ e 12%nat < 2048 /\ e 13%nat < 2048 /\ e 14%nat < 2048.
  Proof.
    repeat split;
      first [apply enc_word_1_lt | apply enc_word_2_lt | apply enc_word_3_lt | apply enc_word_4_lt
            | apply enc_word_5_lt | apply enc_word_6_lt | apply enc_word_7_lt | apply enc_word_8_lt
            | apply enc_word_9_lt | apply enc_word_10_lt | apply enc_word_11_lt | apply enc_word_12_lt
            | apply enc_word_13_lt | apply enc_word_14_lt | apply enc_word_15_lt]; assumption.
  Qed.

  Ltac db := rewrite ?dec_byte_0, ?dec_byte_1, ?dec_byte_2, ?dec_byte_3, ?dec_byte_4, ?dec_byte_5,
    ?dec_byte_6, ?dec_byte_7, ?dec_byte_8, ?dec_byte_9, ?dec_byte_10, ?dec_byte_11, ?dec_byte_12,
    ?dec_byte_13, ?dec_byte_14, ?dec_byte_15, ?dec_byte_16, ?dec_byte_17, ?dec_byte_18 by assumption.

  Lemma t2_secret : d_secret D =
    sec19 b0 b1 b2 b3 b4 b5 b6 b7 b8 b9 b10 b11 b12 b13 b14 b15 b16 b17 b18 ++ repeat 0 13.
  Proof.
    destruct e_lt as [E1 [E2 [E3 [E4 [E5 [E6 [E7 [E8 [E9 [E10 [E11 [E12 [E13 [E14 E15]]]]]]]]]]]]]].
    rewrite dec_secret_shape. f_equal. cbn [map seq]. unfold sec19.
    repeat (f_equal; [db; ew; lia|]). reflexivity.
  Qed.
End T2.
