(* The published format and the abstract seed model, written from README.md
   and the property texts, independently of the mirror definitions (it imports
   none of them).  A seed is (19 secret bytes, birthday index, feature bits). *)
From PS Require Import Base.
Local Open Scope N_scope.

(* ---------------------------------------------------------------- GF(2048) *)
(* carry-less multiplication modulo x^11 + x^2 + 1 (0x805), schoolbook *)
Definition gf_reduce1 (x : N) : N := if 2048 <=? x then N.lxor x 2053 else x.
Definition gf_mulx (x : N) : N := gf_reduce1 (2 * x).
Fixpoint gf_mul_bits (n : nat) (a b : N) : N :=
  match n with
  | O => 0
  | S n' => N.lxor (if N.odd b then a else 0) (gf_mul_bits n' (gf_mulx a) (N.div2 b))
  end.
Definition gf_mul (a b : N) : N := gf_mul_bits 11 a b.
Fixpoint gf_pow_x (i : nat) : N := match i with O => 1 | S i' => gf_mulx (gf_pow_x i') end.

(* value at x of the polynomial with coefficients c0, c1, ... *)
Fixpoint spec_eval_from (i : nat) (c : list N) : N :=
  match c with
  | [] => 0
  | ci :: c' => N.lxor (gf_mul ci (gf_pow_x i)) (spec_eval_from (S i) c')
  end.
Definition spec_eval (c : list N) : N := spec_eval_from 0 c.

(* ------------------------------------------------------------------- seeds *)
Record aseed := mkaseed { a_secret : list N; a_birthday : N; a_features : N }.

Definition aseed_ok (s : aseed) : Prop :=
  length (a_secret s) = 19%nat /\ Forall (fun b => b < 256) (a_secret s) /\
  nth 18 (a_secret s) 0 < 64 /\ a_birthday s < 1024 /\ a_features s < 32.

Definition aseed_ok_b (s : aseed) : bool :=
  Nat.eqb (length (a_secret s)) 19 && forallb (fun b => b <? 256) (a_secret s) &&
  (nth 18 (a_secret s) 0 <? 64) && (a_birthday s <? 1024) && (a_features s <? 32).

(* the 150-bit secret as a number: bytes 0..17 in full, then the low 6 bits of byte 18 *)
Fixpoint be_num (l : list N) : N :=   (* big-endian base 256 *)
  match l with [] => 0 | b :: l' => b * 256 ^ N.of_nat (length l') + be_num l' end.
Definition secret_num (sec : list N) : N := be_num (firstn 18 sec) * 64 + nth 18 sec 0.

(* README "Encoding": data word i (0-based, i < 15) carries secret bits
   [10i, 10i+10) (most significant first) followed by bit 14-i of
   features<<10 | birthday: words 2-6 feature bits 4..0, words 7-16 birthday bits 9..0 *)
Definition spec_data_word (s : aseed) (i : nat) : N :=
  let sh := 10 * (14 - N.of_nat i) in
  2 * ((secret_num (a_secret s) / 2 ^ sh) mod 1024)
  + ((a_features s * 1024 + a_birthday s) / 2 ^ (14 - N.of_nat i)) mod 2.

Definition spec_data_words (s : aseed) : list N := map (spec_data_word s) (seq 0 15).

(* the check word: the value that makes the whole polynomial vanish at x *)
Definition spec_checksum (s : aseed) : N := spec_eval (0 :: spec_data_words s).

(* the 16 indices of the phrase for a coin *)
Definition spec_indices (s : aseed) (coin : N) : list N :=
  match spec_data_words s with
  | w1 :: ws => spec_checksum s :: N.lxor w1 coin :: ws
  | [] => []
  end.

(* ----------------------------------------------------------------- phrases *)
Fixpoint sjoin (sep : bytes) (ws : list bytes) : bytes :=
  match ws with [] => [] | [w] => w | w :: ws' => w ++ sep ++ sjoin sep ws' end.

Definition spec_word (L : lang) (i : N) : bytes := nth (N.to_nat i) (l_words L) [].

(* the decomposed phrase, and the published one (NFC for composing languages) *)
Definition spec_phrase_nfkd (L : lang) (s : aseed) (coin : N) : bytes :=
  sjoin (l_separator L) (map (spec_word L) (spec_indices s coin)).
Definition spec_phrase (nfc : bytes -> bytes) (L : lang) (s : aseed) (coin : N) : bytes :=
  if l_compose L then nfc (spec_phrase_nfkd L s coin) else spec_phrase_nfkd L s coin.

(* ------------------------------------------------------------ the token rule *)
Definition strip (L : lang) (s : bytes) : bytes :=
  if l_has_accents L then filter (fun b => negb (is_nonascii b)) s else s.

Fixpoint is_prefix (p s : bytes) : bool :=
  match p, s with
  | [], _ => true
  | a :: p', b :: s' => Byte.eqb a b && is_prefix p' s'
  | _ :: _, [] => false
  end.

(* the rule on accent-stripped forms *)
Definition accepts_stripped (L : lang) (k e : bytes) : bool :=
  bytes_eqb k e || (l_has_prefix L && (4 <=? length k)%nat && is_prefix k e).

Definition accepts_b (L : lang) (key w : bytes) : bool :=
  accepts_stripped L (strip L key) (strip L w).

Definition Accepts (L : lang) (key w : bytes) : Prop :=
  strip L key = strip L w \/
  (l_has_prefix L = true /\ (4 <= length (strip L key))%nat /\ is_prefix (strip L key) (strip L w) = true).

(* first index whose (stripped) word accepts the (stripped) token *)
Fixpoint find_stripped (L : lang) (k : bytes) (sws : list bytes) (j : nat) : option nat :=
  match sws with
  | [] => None
  | e :: sws' => if accepts_stripped L k e then Some j else find_stripped L k sws' (S j)
  end.
Definition spec_find (L : lang) (key : bytes) : option nat :=
  find_stripped L (strip L key) (map (strip L) (l_words L)) 0.

(* tokens: fields of a split on U+0020, one trailing empty field dropped *)
Fixpoint sfields (s : bytes) (cur : bytes) : list bytes :=
  match s with
  | [] => [rev cur]
  | c :: s' => if Byte.eqb c x20 then rev cur :: sfields s' [] else sfields s' (c :: cur)
  end.
Definition spec_tokens (s : bytes) : list bytes :=
  let f := sfields s [] in
  match rev f with
  | [] :: r => rev r         (* last field empty: dropped *)
  | _ => f
  end.

Fixpoint lookup_stripped (L : lang) (sws : list bytes) (toks : list bytes) : option (list N) :=
  match toks with
  | [] => Some []
  | t :: toks' =>
    match find_stripped L (strip L t) sws 0, lookup_stripped L sws toks' with
    | Some j, Some js => Some (N.of_nat j :: js)
    | _, _ => None
    end
  end.
(* every token recognised: the indices (the stripped list is computed once) *)
Definition spec_lookup_all (L : lang) (toks : list bytes) : option (list N) :=
  lookup_stripped L (map (strip L) (l_words L)) toks.

(* the seed carried by 16 valid indices *)
Definition idx_secret_num (c : list N) : N :=
  fold_left (fun acc w => acc * 1024 + (w / 2) mod 1024) (tl c) 0.
Definition idx_extra (c : list N) : N :=
  fold_left (fun acc w => acc * 2 + w mod 2) (tl c) 0.
Fixpoint be_bytes (n : nat) (x : N) : list N :=   (* n bytes, big endian *)
  match n with O => [] | S n' => (x / 256 ^ N.of_nat n') mod 256 :: be_bytes n' x end.
Definition num_secret (x : N) : list N := be_bytes 18 (x / 64) ++ [x mod 64].
Definition spec_seed_of_indices (c : list N) : aseed :=
  mkaseed (num_secret (idx_secret_num c)) (idx_extra c mod 1024) (idx_extra c / 1024).

(* ----------------------------------------------------------------- storage *)
Definition le16 (x : N) : list N := [x mod 256; (x / 256) mod 256].
Definition le32 (x : N) : list N := [x mod 256; (x / 256) mod 256; (x / 65536) mod 256; (x / 16777216) mod 256].
Definition POLYSEED_ASCII : list N := [80; 79; 76; 89; 83; 69; 69; 68].

Definition spec_store (s : aseed) : list N :=
  POLYSEED_ASCII ++ le16 (a_features s * 1024 + a_birthday s) ++ a_secret s ++ [255]
  ++ le16 (28672 + spec_checksum s).

(* ------------------------------------------------------------- other rules *)
Definition spec_reserved (mask : N) : N := N.lxor 15 (N.land mask 7).
Definition spec_supported (mask features : N) : bool := N.land features (spec_reserved mask) =? 0.
Fixpoint popcount (n : nat) (x : N) : N :=
  match n with O => 0 | S n' => (x mod 2) + popcount n' (x / 2) end.

Definition SPEC_EPOCH : N := 1635768000.
Definition SPEC_STEP : N := 2629746.
Definition spec_birthday_index (t : N) : N :=
  if (t <? SPEC_EPOCH) || (t =? 18446744073709551615) then 0
  else ((t - SPEC_EPOCH) / SPEC_STEP) mod 1024.
Definition spec_birthday_time (b : N) : N := SPEC_EPOCH + b * SPEC_STEP.

Definition spec_kdf_password (s : aseed) : list N := a_secret s ++ repeat 0 13%nat.
Definition spec_kdf_salt (s : aseed) (coin : N) : list N :=
  [80; 79; 76; 89; 83; 69; 69; 68; 32; 107; 101; 121; 0; 255; 255; 255]
  ++ le32 coin ++ le32 (a_birthday s) ++ le32 (a_features s) ++ [0; 0; 0; 0].
Definition SPEC_MASK_SALT : list N :=
  [80; 79; 76; 89; 83; 69; 69; 68; 32; 109; 97; 115; 107; 0; 255; 255].

Fixpoint sxor (a b : list N) : list N :=
  match a, b with x :: a', y :: b' => N.lxor x y :: sxor a' b' | _, _ => a end.
Definition spec_crypt (s : aseed) (mask : list N) : aseed :=
  let x := sxor (a_secret s) mask in
  mkaseed (firstn 18 x ++ [nth 18 x 0 mod 64]) (a_birthday s) (N.lxor (a_features s) 16).
