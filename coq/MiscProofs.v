(* birthday.h and features.[ch]: C10 and C11 at the level of the leaf functions.
   The statements use the published constants literally (1 November 2021 12:00
   UTC = 1635768000, month = 2629746 s), so they stop checking if the generated
   constants of the code change. *)
From PS Require Import Base MiscDefs SpecDefs GFProofs.
From PS.Gen Require Import PrivConsts.
Local Open Scope N_scope.

Lemma land_1023 x : N.land x 1023 = x mod 1024.
Proof. change 1023 with (N.ones 10). rewrite N.land_ones. reflexivity. Qed.

Lemma land_7 x : N.land x 7 = x mod 8.
Proof. change 7 with (N.ones 3). rewrite N.land_ones. reflexivity. Qed.

(* ------------------------------------------------------------------ C11 *)
Definition reported (t : N) : N := birthday_decode (birthday_encode t).

Lemma encode_lt t : birthday_encode t < 1024.
Proof.
  unfold birthday_encode. destruct ((t =? U64 - 1) || (t <? EPOCH)); [reflexivity|].
  unfold DATE_MASK. rewrite land_1023. apply N.mod_lt. discriminate.
Qed.

Theorem bday_grid t : exists k, k < 1024 /\ reported t = 1635768000 + k * 2629746 /\ reported t < 2 ^ 64.
Proof.
  exists (birthday_encode t). pose proof (encode_lt t) as H.
  unfold reported, birthday_decode, EPOCH, TIME_STEP, U64.
  assert (B : 1635768000 + birthday_encode t * 2629746 < 18446744073709551616) by lia.
  rewrite N.mod_small by exact B. repeat split; [exact H | exact B].
Qed.

Theorem bday_clamp t : t < 1635768000 \/ t = 2 ^ 64 - 1 -> reported t = 1635768000.
Proof.
  intros H. unfold reported, birthday_encode, EPOCH, U64.
  replace ((t =? 18446744073709551616 - 1) || (t <? 1635768000)) with true.
  - reflexivity.
  - symmetry. apply orb_true_iff. destruct H as [H|H]; [right; apply N.ltb_lt; exact H | left; apply N.eqb_eq; subst; reflexivity].
Qed.

Lemma encode_in_range t : 1635768000 <= t -> t <> 2 ^ 64 - 1 ->
  birthday_encode t = ((t - 1635768000) / 2629746) mod 1024.
Proof.
  intros H1 H2. unfold birthday_encode, EPOCH, TIME_STEP, DATE_MASK, U64.
  replace ((t =? 18446744073709551616 - 1) || (t <? 1635768000)) with false.
  - apply land_1023.
  - symmetry. apply orb_false_iff. split; [apply N.eqb_neq; exact H2 | apply N.ltb_ge; exact H1].
Qed.

Theorem bday_window t :
  1635768000 <= t -> t < 1635768000 + 1024 * 2629746 ->
  reported t <= t /\ t < reported t + 2629746.
Proof.
  intros H1 H2.
  assert (H3 : t <> 2 ^ 64 - 1) by (intro; subst; vm_compute in H2; discriminate).
  unfold reported. rewrite encode_in_range by assumption.
  unfold birthday_decode, EPOCH, TIME_STEP, U64.
  set (q := (t - 1635768000) / 2629746).
  assert (Hq : q < 1024) by (apply N.div_lt_upper_bound; lia).
  rewrite (N.mod_small q 1024) by exact Hq.
  rewrite N.mod_small by lia.
  pose proof (N.div_mod (t - 1635768000) 2629746 ltac:(discriminate)) as E.
  pose proof (N.mod_lt (t - 1635768000) 2629746 ltac:(discriminate)) as L.
  fold q in E. lia.
Qed.

Theorem bday_never_later t : 1635768000 <= t -> t < 2 ^ 64 -> t <> 2 ^ 64 - 1 -> reported t <= t.
Proof.
  intros H1 H2 H3. unfold reported. rewrite encode_in_range by assumption.
  unfold birthday_decode, EPOCH, TIME_STEP, U64.
  set (q := (t - 1635768000) / 2629746).
  pose proof (N.mod_le q 1024 ltac:(discriminate)) as Hm.
  pose proof (N.mod_lt q 1024 ltac:(discriminate)) as Hl.
  rewrite N.mod_small by lia.
  pose proof (N.div_mod (t - 1635768000) 2629746 ltac:(discriminate)) as E.
  fold q in E. nia.
Qed.

Theorem bday_range_end : 1635768000 + 1024 * 2629746 = 4328627904.
Proof. reflexivity. Qed.

Theorem bday_is_spec t : t < 2 ^ 64 ->
  birthday_encode t = spec_birthday_index t /\ birthday_decode (birthday_encode t) = spec_birthday_time (spec_birthday_index t).
Proof.
  intros Ht.
  assert (E : birthday_encode t = spec_birthday_index t).
  { unfold birthday_encode, spec_birthday_index, EPOCH, TIME_STEP, DATE_MASK, U64, SPEC_EPOCH, SPEC_STEP.
    rewrite orb_comm. change (18446744073709551616 - 1) with 18446744073709551615.
    destruct ((t <? 1635768000) || (t =? 18446744073709551615)); [reflexivity | apply land_1023]. }
  split; [exact E|]. rewrite E.
  unfold birthday_decode, spec_birthday_time, EPOCH, TIME_STEP, U64, SPEC_EPOCH, SPEC_STEP.
  rewrite <- E. pose proof (encode_lt t). apply N.mod_small. lia.
Qed.

(* ------------------------------------------------------------------ C10 *)
Lemma land_land_bit m i : i < 3 -> N.land m (N.shiftl 1 i) = N.land (N.land m 7) (N.shiftl 1 i).
Proof.
  intros Hi.
  assert (E : N.shiftl 1 i = N.land 7 (N.shiftl 1 i))
    by (assert (i = 0 \/ i = 1 \/ i = 2) as [->|[->| ->]] by lia; reflexivity).
  rewrite E at 1. symmetry. first [apply N.land_assoc | symmetry; apply N.land_assoc].
Qed.

Lemma enable_mod m : enable_features m = enable_features (N.land m 7).
Proof.
  unfold enable_features. change (N.to_nat USER_FEATURES) with 3%nat.
  cbn [enable_loop]. change (0 + 1) with 1. change (1 + 1) with 2.
  rewrite (land_land_bit m 0), (land_land_bit m 1), (land_land_bit m 2) by lia.
  rewrite (land_land_bit (N.land m 7) 0), (land_land_bit (N.land m 7) 1), (land_land_bit (N.land m 7) 2) by lia.
  repeat match goal with |- context [N.land (N.land (N.land m 7) 7) ?x] =>
    replace (N.land (N.land (N.land m 7) 7) x) with (N.land (N.land m 7) x)
      by (f_equal; first [rewrite N.land_assoc | rewrite <- N.land_assoc]; reflexivity) end.
  reflexivity.
Qed.

Lemma land7_lt m : N.land m 7 < 8.
Proof. rewrite land_7. apply N.mod_lt. discriminate. Qed.

(* the enabling call: reserved mask and return value, for EVERY argument *)
Theorem enable_spec m :
  enable_features m = (spec_reserved m, popcount 3 (N.land m 7)).
Proof.
  rewrite enable_mod. unfold spec_reserved.
  pose proof (land7_lt m) as H. set (k := N.land m 7) in *.
  assert (E : (let '(r, c) := enable_features k in (r =? N.lxor 15 (N.land k 7)) && (c =? popcount 3 (N.land k 7))) = true).
  { apply (sweep (fun k => let '(r, c) := enable_features k in
                            (r =? N.lxor 15 (N.land k 7)) && (c =? popcount 3 (N.land k 7))) 8);
      [vm_compute; reflexivity | exact H]. }
  destruct (enable_features k) as [r c]. apply andb_true_iff in E. destruct E as [E1 E2].
  apply N.eqb_eq in E1, E2. subst.
  replace (N.land k 7) with k; [reflexivity|].
  unfold k. first [rewrite N.land_assoc | rewrite <- N.land_assoc]; reflexivity.
Qed.

Theorem default_reserved : RESERVED_DEFAULT = spec_reserved 0.
Proof. reflexivity. Qed.

Theorem supported_spec m f :
  features_supported (fst (enable_features m)) f = spec_supported m f.
Proof. rewrite enable_spec. reflexivity. Qed.

Theorem get_features_spec f m : get_features f m = N.land (N.land f m) 7.
Proof.
  unfold get_features, USER_FEATURES_MASK.
  first [apply N.land_assoc | symmetry; apply N.land_assoc].
Qed.

Theorem make_features_spec u : make_features u = N.land u 7 /\ make_features u < 8.
Proof. unfold make_features, USER_FEATURES_MASK. split; [reflexivity | apply land7_lt]. Qed.

Theorem is_encrypted_spec f : f < 32 -> (if is_encrypted f then 1 else 0) = (f / 16) mod 2.
Proof.
  intros Hf. apply N.eqb_eq.
  apply (sweep (fun f => (if is_encrypted f then 1 else 0) =? (f / 16) mod 2) 32); [vm_compute; reflexivity | exact Hf].
Qed.

(* the gate, exhaustively: refused iff a bit outside the enabled mask and the encryption bit is set *)
Theorem gate_spec m f : f < 32 ->
  spec_supported m f = (N.land f (N.lxor 15 (N.land m 7)) =? 0).
Proof. reflexivity. Qed.
