(* The abstract seed (secret, birthday, features) behind a concrete struct and behind 16
   indices: the specification's own reading of 16 indices (SpecDefs.spec_seed_of_indices,
   the 150-bit number formed by the 10-bit groups) is what polyseed_poly_to_data produces. *)
From PS Require Import Base GFDefs PackDefs SpecDefs GFProofs PackProofs PackArith PackTheorems.
From PS.Gen Require Import PrivConsts.
Local Open Scope N_scope.

Lemma be_bytes_length n x : length (be_bytes n x) = n.
Proof. induction n; cbn [be_bytes length]; congruence. Qed.

Lemma be_bytes_lt n x : Forall (fun b => b < 256) (be_bytes n x).
Proof. induction n; cbn [be_bytes]; constructor; [apply N.mod_lt; discriminate | assumption]. Qed.

Lemma be_num_be_bytes n x : be_num (be_bytes n x) = x mod 256 ^ N.of_nat n.
Proof.
  induction n as [|n IH].
  - cbn. rewrite N.mod_1_r. reflexivity.
  - cbn [be_bytes be_num]. rewrite be_bytes_length, IH.
    rewrite Nat2N.inj_succ, N.pow_succ_r'.
    set (p := 256 ^ N.of_nat n). assert (p <> 0) by (apply N.pow_nonzero; discriminate).
    rewrite (N.mul_comm 256 p). rewrite N.mod_mul_r by lia. lia.
Qed.

Lemma secret_num_num_secret x : x < 2 ^ 150 -> secret_num (num_secret x) = x.
Proof.
  intros H. unfold secret_num, num_secret.
  rewrite firstn_app, be_bytes_length, Nat.sub_diag, firstn_O, app_nil_r.
  rewrite firstn_all2 by (rewrite be_bytes_length; lia).
  rewrite app_nth2 by (rewrite be_bytes_length; lia). rewrite be_bytes_length, Nat.sub_diag. cbn [nth].
  rewrite be_num_be_bytes. change (256 ^ N.of_nat 18) with (2 ^ 144).
  rewrite N.mod_small; [lia|].
  change (2 ^ 150) with (2 ^ 144 * 64) in H. apply N.div_lt_upper_bound; lia.
Qed.

Lemma num_secret_ok x : length (num_secret x) = 19%nat /\ Forall (fun b => b < 256) (num_secret x) /\
  nth 18 (num_secret x) 0 < 64.
Proof.
  unfold num_secret. split; [rewrite app_length, be_bytes_length; reflexivity|]. split.
  - apply Forall_app. split; [apply be_bytes_lt|]. constructor; [|constructor].
    pose proof (N.mod_lt x 64). lia.
  - rewrite app_nth2 by (rewrite be_bytes_length; lia). rewrite be_bytes_length, Nat.sub_diag. cbn [nth].
    apply N.mod_lt. discriminate.
Qed.

(* ---- sixteen explicit indices ---- *)
Section Idx.
  Variables c0 c1 c2 c3 c4 c5 c6 c7 c8 c9 c10 c11 c12 c13 c14 c15 : N.
  Hypothesis H1 : c1 < 2048. Hypothesis H2 : c2 < 2048. Hypothesis H3 : c3 < 2048.
  Hypothesis H4 : c4 < 2048. Hypothesis H5 : c5 < 2048. Hypothesis H6 : c6 < 2048.
  Hypothesis H7 : c7 < 2048. Hypothesis H8 : c8 < 2048. Hypothesis H9 : c9 < 2048.
  Hypothesis H10 : c10 < 2048. Hypothesis H11 : c11 < 2048. Hypothesis H12 : c12 < 2048.
  Hypothesis H13 : c13 < 2048. Hypothesis H14 : c14 < 2048. Hypothesis H15 : c15 < 2048.
  Notation C := [c0; c1; c2; c3; c4; c5; c6; c7; c8; c9; c10; c11; c12; c13; c14; c15].
  Notation g k := ((k / 2) mod 1024).
  Notation x k := (k mod 2).

  Lemma idx_num : idx_secret_num C = gn15 (g c1) (g c2) (g c3) (g c4) (g c5) (g c6) (g c7) (g c8)
                                       (g c9) (g c10) (g c11) (g c12) (g c13) (g c14) (g c15).
  Proof. rewrite gn15_horner. reflexivity. Qed.

  Lemma idx_ext : idx_extra C = ev15 (x c1) (x c2) (x c3) (x c4) (x c5) (x c6) (x c7) (x c8)
                                  (x c9) (x c10) (x c11) (x c12) (x c13) (x c14) (x c15).
  Proof. reflexivity. Qed.

  Lemma glt k : g k < 1024. Proof. apply N.mod_lt. discriminate. Qed.
  Lemma xlt2 k : x k < 2. Proof. apply N.mod_lt. discriminate. Qed.

  Lemma idx_num_lt : idx_secret_num C < 2 ^ 150.
  Proof. rewrite idx_num. apply gn15_lt; apply glt. Qed.

  Lemma idx_ext_lt : idx_extra C < 32768.
  Proof. rewrite idx_ext. apply ev15_lt; apply xlt2. Qed.

  Lemma idx_seed_ok : aseed_ok (spec_seed_of_indices C).
  Proof.
    unfold aseed_ok, spec_seed_of_indices. cbn [a_secret a_birthday a_features].
    destruct (num_secret_ok (idx_secret_num C)) as (A&B&D). pose proof idx_ext_lt.
    repeat split; try assumption; [apply N.mod_lt; discriminate | apply N.div_lt_upper_bound; lia].
  Qed.

  Lemma c_split k : k < 2048 -> 2 * g k + x k = k.
  Proof. intros. lia. Qed.

  Lemma idx_words : spec_data_words (spec_seed_of_indices C) =
                    [c1; c2; c3; c4; c5; c6; c7; c8; c9; c10; c11; c12; c13; c14; c15].
  Proof.
    unfold spec_data_words. cbn [map seq]. unfold spec_data_word, spec_seed_of_indices.
    cbn [a_secret a_birthday a_features].
    rewrite (secret_num_num_secret _ idx_num_lt).
    replace (idx_extra C / 1024 * 1024 + idx_extra C mod 1024) with (idx_extra C) by lia.
    rewrite idx_num, idx_ext.
    repeat match goal with |- context [N.of_nat ?k] => let v := eval vm_compute in (N.of_nat k) in change (N.of_nat k) with v end.
    repeat match goal with |- context [14 - ?k] => let v := eval vm_compute in (14 - k) in change (14 - k) with v end.
    repeat match goal with |- context [10 * ?k] => let v := eval vm_compute in (10 * k) in change (10 * k) with v end.
    pow_consts.
    rewrite group_1, group_2, group_3, group_4, group_5, group_6, group_7, group_8, group_9, group_10,
      group_11, group_12, group_13, group_14, group_15 by apply glt.
    rewrite ev15_bit_1, ev15_bit_2, ev15_bit_3, ev15_bit_4, ev15_bit_5, ev15_bit_6, ev15_bit_7, ev15_bit_8,
      ev15_bit_9, ev15_bit_10, ev15_bit_11, ev15_bit_12, ev15_bit_13, ev15_bit_14, ev15_bit_15 by apply xlt2.
    rewrite !c_split by assumption. reflexivity.
  Qed.
End Idx.

(* ---- concrete <-> abstract ---- *)
Definition mk_data (s : aseed) : data :=
  mkdata (a_birthday s) (a_features s) (a_secret s ++ repeat 0 13) 0.

Lemma canon_abs_ok d : Canon d -> aseed_ok (abs_data d).
Proof.
  intros (Hl&Hf&H18&Hs&Hb&Hft). unfold aseed_ok, abs_data. cbn [a_secret a_birthday a_features].
  repeat split; try assumption.
  - rewrite firstn_length, Hl. reflexivity.
  - rewrite <- (firstn_skipn 19 (d_secret d)) in Hf. apply Forall_app in Hf. apply Hf.
  - rewrite <- (firstn_skipn 19 (d_secret d)) in H18.
    rewrite app_nth1 in H18 by (rewrite firstn_length, Hl; cbn; lia). exact H18.
Qed.

Lemma canon_secret d : Canon d -> d_secret d = firstn 19 (d_secret d) ++ repeat 0 13.
Proof. intros (_&_&_&Hs&_). rewrite <- Hs. symmetry. apply firstn_skipn. Qed.

Lemma mk_data_canon s : aseed_ok s -> Canon (mk_data s) /\ abs_data (mk_data s) = s.
Proof.
  intros (Hl&Hf&H18&Hb&Hft). unfold Canon, mk_data, abs_data. cbn [d_secret d_birthday d_features].
  assert (E : firstn 19 (a_secret s ++ repeat 0 13) = a_secret s).
  { rewrite firstn_app, Hl, Nat.sub_diag, firstn_O, app_nil_r. apply firstn_all2. lia. }
  split.
  - repeat split; try assumption.
    + rewrite app_length, Hl. reflexivity.
    + apply Forall_app. split; [exact Hf|]. repeat constructor.
    + rewrite app_nth1 by lia. exact H18.
    + rewrite skipn_app, Hl, Nat.sub_diag. rewrite skipn_all2 by lia. reflexivity.
  - rewrite E. destruct s; reflexivity.
Qed.

(* the published layout determines the seed *)
Theorem spec_words_inj s1 s2 : aseed_ok s1 -> aseed_ok s2 ->
  spec_data_words s1 = spec_data_words s2 -> s1 = s2.
Proof.
  intros O1 O2 E.
  destruct (mk_data_canon s1 O1) as [C1 A1]. destruct (mk_data_canon s2 O2) as [C2 A2].
  destruct (canon_pack _ C1) as (w1&_&W1&U1). destruct (canon_pack _ C2) as (w2&_&W2&U2).
  rewrite A1 in W1. rewrite A2 in W2. assert (Ew : w2 = w1) by congruence.
  specialize (U1 0). specialize (U2 0). rewrite Ew, U1 in U2.
  assert (E2 : set_ck (mk_data s1) 0 = set_ck (mk_data s2) 0) by congruence.
  apply (f_equal abs_data) in E2. change (abs_data (mk_data s1) = abs_data (mk_data s2)) in E2. congruence.
Qed.

Theorem abs_unpack c d : length c = 16%nat -> wf (tl c) ->
  poly_to_data_full c = Some (d, true) -> abs_data d = spec_seed_of_indices c.
Proof.
  intros Hl Hw Hp. destruct (poly_unpack c Hl Hw) as (d'&P&HC&_&Hd). rewrite P in Hp. injection Hp as ->.
  destruct (canon_pack d HC) as (ws&Wf&Ws&_). rewrite Hd in Wf. injection Wf as <-.
  do 16 (destruct c as [|? c]; [discriminate|]). destruct c; [|discriminate]. clear Hl.
  cbn [tl] in *. unfold wf in Hw.
  repeat match goal with H : Forall _ (_ :: _) |- _ =>
    let a := fresh "A" in let b := fresh "F" in (apply Forall_cons_iff in H; destruct H as [a b]) end.
  apply spec_words_inj.
  - apply canon_abs_ok, HC.
  - apply idx_seed_ok; assumption.
  - rewrite <- Ws. symmetry. apply idx_words; assumption.
Qed.
