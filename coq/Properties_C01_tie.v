(* C01 - the tie to the code: theorems about the Gallina that tools/c2coq.py generates from /repo's CURRENT
   sources on every run (Gen/CFuns.v, Gen/CApi.v).  Kept apart from Properties_C01.v so that a change to the C code
   which breaks a tie leaves the theorems about the model standing, and the other way round. *)
From PS Require Import Base PackDefs ApiDefs SpecDefs SpecApi PackProofs PackTheorems ApiLemmas RefineProofs
  ApiTheorems RoundTrip.
From PS Require Import GFProofs CTiePack.
From PS.Gen Require CFuns.
From PS.Gen Require Import Consts Langs.
Local Open Scope N_scope.

(* ---- the tie to the code: both packing functions as TRANSLATED from /repo's current gf.c on this
   run (Gen/CFuns.v) are the ones the round trip above is about *)
Theorem C01_code_tie_pack : forall d poly, Canon d -> length poly = 16%nat ->
  CFuns.polyseed_data_to_poly (Z.of_N (d_birthday d)) (Z.of_N (d_features d)) (map Z.of_N (d_secret d)) (map Z.of_N poly)
  = map Z.of_N (hd 0 poly :: spec_data_words (abs_data d)).
Proof. exact tie_data_to_poly. Qed.
Print Assumptions C01_code_tie_pack.

Theorem C01_code_tie_unpack : forall c sec d, length c = 16%nat -> wf (tl c) -> hd 0 c < 2 ^ 64 ->
  poly_to_data_full c = Some (d, true) ->
  CFuns.polyseed_poly_to_data (map Z.of_N c) sec =
  (Z.of_N (d_birthday d), Z.of_N (d_features d), map Z.of_N (d_secret d), Z.of_N (d_checksum d)).
Proof. exact tie_poly_to_data. Qed.
Print Assumptions C01_code_tie_unpack.

(* ---- the tie to the code: src/polyseed.c as TRANSLATED on this run (Gen/CApi.v) ---- *)
From Coq Require Import String.
From PS Require Import Base GFDefs PackDefs StoreDefs MiscDefs StrDefs LangDefs ApiDefs SpecDefs SpecApi GFProofs PackProofs StoreProofs RefineProofs RoundTrip TraceProofs FrameProofs SafetyProofs CTieBase CTieLang CTiePhrase CTiePhraseEv CTieSplit CTieApi CTieDecode CTieEncode CTieLocals CTieInject CTieCmp CTieSearch CTieClosed CodeTheorems HeldProofs CodeMachine.
From PS.Gen Require Import Consts PrivConsts Langs.
From PS.Gen Require CFuns.
From PS.Gen Require CApi.

(* ON THE CODE: the phrase the translated polyseed_encode writes for a live seed of any reachable state, handed as a C string to the translated polyseed_decode_explicit (whose word search is the translated polyseed_lang_find_word), gives a new block holding the same struct - ties composed with C01_roundtrip_explicit; hypotheses: libc bsearch by contract, the injected normalisers (NormOK), fuel *)
Theorem C01_code_tie_roundtrip :
  forall (sgn : bool) (cs : state) (a : astate) (h : N) (d : data) (li : nat) 
           (L : lang) (coin : N) (fuel : nat) (BS : Z -> list Z -> Z -> Z -> Z) (D : list Z -> list Z * Z)
           (out0 : list Z) (gb gf : Z) (gs : list Z) (gc so0 : Z),
         R cs a ->
         heap_get (st_heap cs) h = Some d ->
         nth_error langs li = Some L ->
         coin < 2048 ->
         spec_supported (as_mask a) (d_features d) = true ->
         let dp := st_deps cs in
         let P := published dp L (abs_data d) coin in
         NormOK dp L (abs_data d) coin ->
         no_nul P ->
         (2050 <= fuel)%nat ->
         (Datatypes.length P + 2 <= fuel)%nat ->
         (forall (li0 : nat) (L0 : lang) (key : bytes),
          nth_error langs li0 = Some L0 ->
          no_nul key ->
          BS (Z.of_nat li0) (zs key) 2048%Z
            (CApi.get_comparer (flag (l_has_prefix L0)) (flag (l_has_accents L0)) (Z.of_nat li0)) =
          enc (bsearch_loop 13 (fun j : nat => comparer sgn L0 key (nth j (l_words L0) [])) 0 LANG_SIZE_nat)) ->
         (forall x : bytes, snd (dp_nfc dp x) < 2 ^ 64) ->
         D (zs P) = (zs (fst (dp_nfkd dp P)), Z.of_N (snd (dp_nfkd dp P))) ->
         no_nul (fst (dp_nfkd dp P)) ->
         (Datatypes.length (fst (dp_nfkd dp P)) + 2 <= fuel)%nat ->
         (1 <= Datatypes.length out0)%nat ->
         exists (c1 : list CApi.cev) (rest : list Z) (n : Z) (c2 : list CApi.cev),
           CApi.polyseed_encode fuel sgn (znfc dp) (fun _ i : Z => zs (nth (Z.to_nat i) (l_words L) []))
             (fun _ : Z => zs (l_separator L)) (fun _ : Z => if l_compose L then 1%Z else 0%Z)
             (Z.of_N (d_birthday d)) (Z.of_N (d_features d)) (map Z.of_N (d_secret d)) 
             (Z.of_N (d_checksum d)) (Z.of_nat li) (Z.of_N coin) out0 = Some (c1, zs P ++ 0%Z :: rest, n) /\
           CApi.polyseed_decode_explicit fuel sgn D (ext_code sgn fuel BS) (ptr (st_next cs))
             CFuns.polyseed_mul2_table (Z.of_N (st_reserved cs)) (zs P) (Z.of_N coin) 
             (Z.of_nat li) gb gf gs gc so0 =
           Some
             (c2, Z.of_N (d_birthday d), Z.of_N (d_features d), map Z.of_N (d_secret d), 
              Z.of_N (d_checksum d), ptr (st_next cs), 0%Z).
Proof. exact @code_roundtrip_explicit. Qed.
Print Assumptions C01_code_tie_roundtrip.

(* polyseed_encode as translated against the mirror step: the phrase written is the words of the 16 coefficients joined by the separator, composed when the language asks for it *)
Theorem C01_code_tie_api_encode :
  forall (sgn : bool) (st : state) (fuel li : nat) (L : lang),
         nth_error langs li = Some L ->
         (forall j : nat, (Datatypes.length (nth j (l_words L) []) + 1 <= fuel)%nat) ->
         (Datatypes.length (l_separator L) + 1 <= fuel)%nat ->
         (forall x : bytes, snd (dp_nfc (st_deps st) x) < 2 ^ 64) ->
         forall (h : N) (d : data) (coin : N) (out0 : list Z),
         heap_get (st_heap st) h = Some d ->
         Canon d ->
         d_checksum d < 2048 ->
         coin < 2048 ->
         (1 <= Datatypes.length out0)%nat ->
         match step sgn langs st (OpEncode h li coin) with
         | (st', OutStr o nn, evs) =>
             exists (cevs : list CApi.cev) (rest : list Z),
               CApi.polyseed_encode fuel sgn (znfc (st_deps st))
                 (fun _ i : Z => zs (nth (Z.to_nat i) (l_words L) [])) (fun _ : Z => zs (l_separator L))
                 (fun _ : Z => if l_compose L then 1%Z else 0%Z) (Z.of_N (d_birthday d))
                 (Z.of_N (d_features d)) (map Z.of_N (d_secret d)) (Z.of_N (d_checksum d)) 
                 (Z.of_nat li) (Z.of_N coin) out0 = Some (cevs, zs o ++ 0%Z :: rest, Z.of_N nn) /\
               evs_of (st_deps st) cevs = evs /\ st' = st
         | (st', OutFault, _) | (st', OutUnit, _) | (st', OutNum _, _) | (st', OutStatus _ _ _, _) |
           (st', OutBytes _, _) => True
         end.
Proof. exact @tie_encode. Qed.
Print Assumptions C01_code_tie_api_encode.

(* polyseed_decode_explicit as translated against the mirror step *)
Theorem C01_code_tie_api_decode_explicit :
  forall (sgn : bool) (st : state) (fuel : nat) (D : list Z -> list Z * Z) (ext : Z -> list Z -> Z)
           (OKW : bytes -> Prop),
         (forall (li : nat) (L : lang) (w : bytes),
          OKW w -> nth_error langs li = Some L -> ext (Z.of_nat li) (zs w) = enc (lang_search sgn L w)) ->
         (forall t : bytes, no_nul t -> (Datatypes.length t + 2 <= fuel)%nat -> OKW t) ->
         (18 <= fuel)%nat ->
         forall (str : bytes) (coin : N) (li : nat) (L : lang) (ok : bool) (gb gf : Z) 
           (gs : list Z) (gc so0 : Z),
         nth_error langs li = Some L ->
         no_nul str ->
         coin < 2048 ->
         (Datatypes.length str + 2 <= fuel)%nat ->
         D (zs str) = (zs (fst (dp_nfkd (st_deps st) str)), Z.of_N (snd (dp_nfkd (st_deps st) str))) ->
         no_nul (fst (dp_nfkd (st_deps st) str)) ->
         (Datatypes.length (fst (dp_nfkd (st_deps st) str)) + 2 <= fuel)%nat ->
         let
         '(st', out0, evs) := step sgn langs st (OpDecodeExplicit str coin li ok) in
          exists (cevs : list CApi.cev) (b f : Z) (s : list Z) (c so status : Z),
            CApi.polyseed_decode_explicit fuel sgn D ext (alloc_ptr st ok) CFuns.polyseed_mul2_table
              (Z.of_N (st_reserved st)) (zs str) (Z.of_N coin) (Z.of_nat li) gb gf gs gc so0 =
            Some (cevs, b, f, s, c, so, status) /\
            evs_of (st_deps st) cevs = evs /\
            out0 = OutStatus (Z.to_N status) (if (status =? 0)%Z then Some (st_next st) else None) None /\
            (if (status =? 0)%Z
             then
              so = ptr (st_next st) /\
              (exists d : data, st_heap st' = (st_next st, d) :: st_heap st /\ (b, f, s, c) = zd d)
             else so = so0 /\ st_heap st' = st_heap st).
Proof. exact @tie_decode_explicit. Qed.
Print Assumptions C01_code_tie_api_decode_explicit.
