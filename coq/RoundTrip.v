(* C01 (and the phrase halves of C02/C05): decoding what was encoded.
   The round trip is proved on the abstract machine and carried to the concrete structs by the
   refinement; the concrete result is the SAME STRUCT, byte for byte, stored check value included. *)
From PS Require Import Base GFDefs PackDefs StoreDefs MiscDefs StrDefs LangDefs ApiDefs SpecDefs SpecApi.
From PS Require Import GFProofs PackProofs PackTheorems StoreProofs StrProofs SeedProofs MiscProofs
  LangProofs LangData CoinProofs ApiLemmas RefineProofs PackRound ApiTheorems.
From PS.Gen Require Import Consts PrivConsts Langs.
Local Open Scope N_scope.

(* ---- words as tokens: no word of any list is empty or contains a space or a NUL *)
Definition word_ok (w : bytes) : bool := negb (is_nil w) && negb (existsb (Byte.eqb x20) w).
Lemma words_tokenisable : forallb (fun L => forallb word_ok (l_words L)) langs = true.
Proof. vm_compute. reflexivity. Qed.

Lemma word_ok_nth L j : In L langs -> (j < 2048)%nat -> word_ok (nth j (l_words L) []) = true.
Proof.
  intros HL Hj. pose proof words_tokenisable as W. rewrite forallb_forall in W. specialize (W L HL).
  rewrite forallb_forall in W. apply W, nth_In. rewrite (words_len L HL). exact Hj.
Qed.

(* fields of words joined by single spaces are the words *)
Lemma sfields_word w rest cur : existsb (Byte.eqb x20) w = false ->
  sfields (w ++ x20 :: rest) cur = (rev cur ++ w) :: sfields rest [].
Proof.
  revert cur. induction w as [|c w IH]; intros cur H; cbn [app sfields].
  - rewrite app_nil_r. reflexivity.
  - cbn [existsb] in H. apply orb_false_iff in H. destruct H as [Hc Hw].
    assert (Ec : Byte.eqb c x20 = false) by (rewrite eqb_sym; exact Hc).
    rewrite Ec, (IH (c :: cur) Hw). cbn [rev]. rewrite <- app_assoc. reflexivity.
Qed.

Lemma sfields_last w cur : existsb (Byte.eqb x20) w = false -> sfields w cur = [rev cur ++ w].
Proof.
  revert cur. induction w as [|c w IH]; intros cur H; cbn [sfields]; [rewrite app_nil_r; reflexivity|].
  cbn [existsb] in H. apply orb_false_iff in H. destruct H as [Hc Hw].
  assert (Ec : Byte.eqb c x20 = false) by (rewrite eqb_sym; exact Hc).
  rewrite Ec, (IH (c :: cur) Hw). cbn [rev]. rewrite <- app_assoc. reflexivity.
Qed.

Lemma sfields_sjoin ws : ws <> [] -> Forall (fun w => word_ok w = true) ws -> sfields (sjoin [x20] ws) [] = ws.
Proof.
  intros Hne H. induction H as [|w ws Hw Hws IH]; [congruence|].
  unfold word_ok in Hw. apply andb_true_iff in Hw. destruct Hw as [_ Hs]. apply negb_true_iff in Hs.
  destruct ws as [|w' ws]; [cbn [sjoin]; apply (sfields_last w [] Hs)|].
  change (sjoin [x20] (w :: w' :: ws)) with (w ++ x20 :: sjoin [x20] (w' :: ws)).
  rewrite (sfields_word w _ [] Hs). cbn [rev app]. f_equal. apply IH. discriminate.
Qed.

Lemma tokens_sjoin ws : ws <> [] -> Forall (fun w => word_ok w = true) ws -> spec_tokens (sjoin [x20] ws) = ws.
Proof.
  intros Hne H. rewrite spec_tokens_eq, (sfields_sjoin ws Hne H). unfold drop_last_empty.
  destruct (rev ws) as [|x r] eqn:E.
  - apply (f_equal (@rev _)) in E. rewrite rev_involutive in E. cbn in E. congruence.
  - destruct x; [|reflexivity]. exfalso.
    assert (Hin : In [] ws) by (apply (proj2 (in_rev ws [])); rewrite E; left; reflexivity).
    rewrite Forall_forall in H. specialize (H _ Hin). discriminate.
Qed.

(* every word decodes to its own index *)
Lemma lookup_own L idx : In L langs -> wf idx ->
  spec_lookup_all L (map (spec_word L) idx) = Some idx.
Proof.
  intros HL W. unfold spec_lookup_all. rewrite lookup_stripped_spec.
  induction W as [|i idx Hi W IH]; [reflexivity|]. cbn [map].
  assert (Hj : (N.to_nat i < 2048)%nat) by lia.
  assert (Ef : spec_find L (spec_word L i) = Some (N.to_nat i)).
  { pose proof (self_index true L (N.to_nat i) HL Hj) as S.
    rewrite (search_is_spec_find true L _ HL) in S.
    - injection S as S. exact S.
    - pose proof (words_nonul L HL) as Hn. rewrite Forall_forall in Hn. apply Hn, nth_In.
      rewrite (words_len L HL). exact Hj. }
  rewrite Ef, IH, N2Nat.id. reflexivity.
Qed.

Lemma words_ok_map L idx : In L langs -> wf idx -> Forall (fun w => word_ok w = true) (map (spec_word L) idx).
Proof.
  intros HL W. apply Forall_forall. intros w Hw. apply in_map_iff in Hw. destruct Hw as (i&<-&Hi).
  unfold wf in W. rewrite Forall_forall in W. specialize (W i Hi). apply word_ok_nth; [exact HL | lia].
Qed.

(* ---- the indices of a phrase, and what the coin does to them *)
Lemma spec_indices_wf s coin : coin < 2048 -> wf (spec_indices s coin).
Proof.
  intros Hc. rewrite indices_layout. destruct (spec_data_words_wf s) as [W L].
  destruct (spec_data_words s) as [|w ws]; [discriminate|]. cbn [nth tl].
  inversion W; subst. constructor; [apply spec_checksum_lt|]. constructor; [|assumption].
  apply lxor_lt_2048; assumption.
Qed.

Lemma indices_uncoin s A B : axor_coin (spec_indices s A) B =
  spec_checksum s :: N.lxor (nth 0 (spec_data_words s) 0) (N.lxor A B) :: tl (spec_data_words s).
Proof. rewrite indices_layout. cbn [axor_coin]. rewrite N.lxor_assoc. reflexivity. Qed.

Lemma indices_same_coin s A : axor_coin (spec_indices s A) A = spec_checksum s :: spec_data_words s.
Proof.
  rewrite indices_uncoin, N.lxor_nilpotent, N.lxor_0_r. destruct (spec_data_words_wf s) as [_ L].
  destruct (spec_data_words s); [discriminate|reflexivity].
Qed.

Lemma seed_of_own_indices s : aseed_ok s -> spec_seed_of_indices (spec_checksum s :: spec_data_words s) = s.
Proof.
  intros Hs. destruct (spec_data_words_wf s) as [W L].
  assert (Lc : length (spec_checksum s :: spec_data_words s) = 16%nat) by (cbn [length]; lia).
  destruct (poly_unpack _ Lc W) as (d&P&HC&_&_).
  rewrite <- (abs_unpack _ d Lc W P).
  destruct (mk_data_canon s Hs) as [C A].
  pose proof (canon_pack _ C) as (ws&_&Ws&U). rewrite A in Ws. subst ws.
  specialize (U (spec_checksum s)). rewrite U in P. injection P as <-. exact A.
Qed.

(* ---- the premise about the injected normalisers, for the phrase at hand: normalising what
   polyseed_encode returned gives the sixteen words separated by single spaces.  For the
   languages whose lists are ASCII it is proved below (no oracle involved); for the others it is
   the Unicode fact "NFKD (NFC (words joined by the separator)) = words joined by U+0020" *)
Definition published (D : deps) (L : lang) (s : aseed) (coin : N) : bytes :=
  let p := spec_phrase_nfkd L s coin in if l_compose L then fst (dp_nfc D p) else p.
Definition NormOK (D : deps) (L : lang) (s : aseed) (coin : N) : Prop :=
  fst (spec_norm (dp_nfkd D) (published D L s coin)) = sjoin [x20] (map (spec_word L) (spec_indices s coin)).

Theorem roundtrip_abstract a L li s coin : In L langs -> nth_error langs li = Some L -> coin < 2048 ->
  aseed_ok s -> spec_supported (as_mask a) (a_features s) = true -> NormOK (as_deps a) L s coin ->
  astep langs a (OpDecodeExplicit (published (as_deps a) L s coin) coin li true) =
    (mkastate (as_deps a) (as_mask a) ((as_next a, s) :: as_seeds a) (as_next a + 1),
     OutStatus 0 (Some (as_next a)) None).
Proof.
  intros HL Hli Hc Hs Hsup HN. cbn [astep]. rewrite Hli. unfold NormOK in HN. rewrite HN.
  pose proof (spec_indices_wf s coin Hc) as W. pose proof (spec_indices_length s coin) as Len.
  rewrite tokens_sjoin; [| destruct (spec_indices s coin); discriminate | apply words_ok_map; assumption].
  rewrite map_length, Len. cbn [Nat.eqb negb].
  rewrite (lookup_own L _ HL W). unfold afinish. rewrite indices_same_coin.
  rewrite <- (eval_is_spec (spec_checksum s :: spec_data_words s)).
  - rewrite spec_checksum_eval at 1. rewrite encode_checks. cbn [N.eqb negb].
    rewrite (seed_of_own_indices s Hs), Hsup. reflexivity.
  - constructor; [apply spec_checksum_lt | apply spec_data_words_wf].
  - cbn [length]. destruct (spec_data_words_wf s) as [_ ->]. lia.
Qed.

(* the concrete statement: encode a live seed, decode the result with the same coin and language:
   OK, and the new block holds the same struct *)
Theorem roundtrip_explicit sgn cs a h d li L coin : R cs a -> heap_get (st_heap cs) h = Some d ->
  nth_error langs li = Some L -> coin < 2048 ->
  spec_supported (as_mask a) (d_features d) = true -> NormOK (st_deps cs) L (abs_data d) coin ->
  no_nul (published (st_deps cs) L (abs_data d) coin) ->
  exists n,
    outp (step sgn langs cs (OpEncode h li coin)) = OutStr (published (st_deps cs) L (abs_data d) coin) n /\
    let r := step sgn langs cs (OpDecodeExplicit (published (st_deps cs) L (abs_data d) coin) coin li true) in
    outp r = OutStatus ST_OK (Some (st_next cs)) None /\
    heap_get (st_heap (stp r)) (st_next cs) = Some d.
Proof.
  intros HR Hg Hli Hc Hsup HN Hnn.
  destruct (encode_is_layout sgn cs a h d li L coin HR Hg Hli Hc) as [E1 _].
  exists (if l_compose L then snd (dp_nfc (st_deps cs) (spec_phrase_nfkd L (abs_data d) coin))
          else N.of_nat (length (spec_phrase_nfkd L (abs_data d) coin))).
  split.
  { rewrite E1. unfold published. destruct (l_compose L); reflexivity. }
  cbv zeta. set (P := published (st_deps cs) L (abs_data d) coin) in *.
  destruct (sim_decodex sgn cs a P coin li true HR Hnn Hc) as [S1 S2].
  pose proof (heap_get_valid _ _ _ (R_valid _ _ HR) Hg) as V.
  pose proof (roundtrip_abstract a L li (abs_data d) coin (nth_error_In _ _ Hli) Hli Hc
                (canon_abs_ok d (proj1 V)) Hsup) as RA.
  rewrite <- (R_deps _ _ HR) in RA. specialize (RA HN). fold P in RA.
  unfold outp, stp. rewrite RA in S1, S2. cbn [fst snd] in S1, S2.
  split; [rewrite S1, (R_next _ _ HR); reflexivity|].
  pose proof (R_heap _ _ S2) as RH. cbn [as_seeds] in RH.
  pose proof (f_equal (fun m => aget m (st_next cs)) RH) as G. cbv beta in G.
  rewrite aget_abs in G. cbn [aget] in G. rewrite (R_next _ _ HR), N.eqb_refl in G.
  rewrite <- (R_next _ _ HR) in G.
  destruct (heap_get _ (st_next cs)) as [d'|] eqn:Eg'; [|discriminate]. cbn [option_map] in G.
  f_equal. apply valid_abs_inj; [apply (heap_get_valid _ _ _ (R_valid _ _ S2) Eg') | exact V | congruence].
Qed.

(* ---- for the ASCII lists the premise needs no oracle: the phrase is pure ASCII, shorter than the
   buffer, not composed, separated by U+0020 - so the lazy normaliser copies it *)
Definition ascii_lang (L : lang) : bool :=
  negb (l_compose L) && bytes_eqb (l_separator L) [x20] &&
  forallb (fun w => negb (existsb is_nonascii w)) (l_words L).


Lemma existsb_sjoin_ascii ws : Forall (fun w => existsb is_nonascii w = false) ws ->
  existsb is_nonascii (sjoin [x20] ws) = false.
Proof.
  induction 1 as [|w ws Hw Hws IH]; [reflexivity|]. destruct ws as [|w' ws]; [exact Hw|].
  change (sjoin [x20] (w :: w' :: ws)) with (w ++ [x20] ++ sjoin [x20] (w' :: ws)).
  rewrite !existsb_app, Hw, IH. reflexivity.
Qed.

Lemma existsb_firstn_false {A} (f : A -> bool) n l : existsb f l = false -> existsb f (firstn n l) = false.
Proof.
  revert n. induction l as [|x l IH]; intros [|n] H; try reflexivity. cbn [existsb firstn] in *.
  apply orb_false_iff in H. destruct H as [H1 H2]. rewrite H1, (IH n H2). reflexivity.
Qed.

Theorem norm_ok_ascii D L s coin : In L langs -> ascii_lang L = true -> coin < 2048 -> NormOK D L s coin.
Proof.
  intros HL HA Hc. unfold ascii_lang in HA. apply andb_true_iff in HA. destruct HA as [HA Hw].
  apply andb_true_iff in HA. destruct HA as [Hcomp Hsep]. apply negb_true_iff in Hcomp.
  apply bytes_eqb_eq in Hsep. unfold NormOK, published. rewrite Hcomp. unfold spec_phrase_nfkd. rewrite Hsep.
  set (ws := map (spec_word L) (spec_indices s coin)).
  assert (Ha : existsb is_nonascii (sjoin [x20] ws) = false).
  { apply existsb_sjoin_ascii. apply Forall_forall. intros w Hin. apply in_map_iff in Hin. destruct Hin as (i&<-&Hi).
    pose proof (spec_indices_wf s coin Hc) as W. unfold wf in W. rewrite Forall_forall in W. specialize (W i Hi).
    rewrite forallb_forall in Hw. apply negb_true_iff. apply Hw. apply nth_In. rewrite (words_len L HL). lia. }
  unfold spec_norm. rewrite (existsb_firstn_false _ _ _ Ha). cbn [fst].
  apply firstn_all2. pose proof (phrase_fits L (spec_indices s coin) HL (spec_indices_length s coin)) as F.
  rewrite Hsep in F. fold ws in F. unfold STR_SIZE in *. lia.
Qed.

(* ---- decoding any sixteen words of a language: the result is the check on their indices *)
Theorem decode_of_indices a L li idx coin ok P : In L langs -> nth_error langs li = Some L ->
  wf idx -> length idx = 16%nat ->
  fst (spec_norm (dp_nfkd (as_deps a)) P) = sjoin [x20] (map (spec_word L) idx) ->
  astep langs a (OpDecodeExplicit P coin li ok) = afinish a idx coin ok None.
Proof.
  intros HL Hli W Len HN. cbn [astep]. rewrite Hli, HN.
  rewrite tokens_sjoin; [| destruct idx; discriminate | apply words_ok_map; assumption].
  rewrite map_length, Len. cbn [Nat.eqb negb]. rewrite (lookup_own L _ HL W). reflexivity.
Qed.

(* C05 at the phrase: the phrase made for coin A, decoded for any other coin B: CHECKSUM *)
Theorem other_coin_checksum sgn cs a h d li L A B ok : R cs a -> heap_get (st_heap cs) h = Some d ->
  nth_error langs li = Some L -> A < 2048 -> B < 2048 -> A <> B ->
  NormOK (st_deps cs) L (abs_data d) A -> no_nul (published (st_deps cs) L (abs_data d) A) ->
  outp (step sgn langs cs (OpDecodeExplicit (published (st_deps cs) L (abs_data d) A) B li ok)) =
    OutStatus ST_CHECKSUM None None.
Proof.
  intros HR Hg Hli HA HB Hne HN Hnn.
  destruct (sim_decodex sgn cs a _ B li ok HR Hnn HB) as [S1 _]. unfold outp. rewrite S1.
  pose proof (spec_indices_wf (abs_data d) A HA) as W.
  rewrite (decode_of_indices a L li (spec_indices (abs_data d) A) B ok _ (nth_error_In _ _ Hli) Hli W
             (spec_indices_length _ _)) by (rewrite <- (R_deps _ _ HR); exact HN).
  unfold afinish. set (s := abs_data d).
  pose proof (other_coin_detected (spec_checksum s :: spec_data_words s) A B) as OC.
  destruct (spec_data_words_wf s) as [Wd Ld].
  assert (Wc : wf (spec_checksum s :: spec_data_words s)) by (constructor; [apply spec_checksum_lt|exact Wd]).
  assert (Ec : xor_coin (spec_checksum s :: spec_data_words s) A = spec_indices s A).
  { unfold spec_indices. destruct (spec_data_words s); [discriminate|reflexivity]. }
  rewrite Ec in OC. change (xor_coin (spec_indices s A) B) with (axor_coin (spec_indices s A) B) in OC.
  rewrite <- (eval_is_spec (axor_coin (spec_indices s A) B)).
  - replace (poly_eval (axor_coin (spec_indices s A) B) =? 0) with false; [reflexivity|].
    symmetry. apply N.eqb_neq. apply OC; try assumption.
    + cbn [length]. lia.
    + rewrite spec_checksum_eval. apply encode_checks.
  - apply (wf_xor_coin _ B W HB).
  - change (axor_coin (spec_indices s A) B) with (xor_coin (spec_indices s A) B).
    rewrite xor_coin_length, spec_indices_length. lia.
Qed.

(* C02 at the phrase: any sixteen words whose indices do not validate are refused with CHECKSUM
   (before any allocation and before the feature check); in particular a valid phrase with one
   word replaced by another word of the list, or with two different words exchanged *)
Theorem invalid_indices_checksum sgn cs a li L idx coin ok P : R cs a ->
  nth_error langs li = Some L -> coin < 2048 -> wf idx -> length idx = 16%nat ->
  fst (spec_norm (dp_nfkd (st_deps cs)) P) = sjoin [x20] (map (spec_word L) idx) -> no_nul P ->
  poly_eval (xor_coin idx coin) <> 0 ->
  outp (step sgn langs cs (OpDecodeExplicit P coin li ok)) = OutStatus ST_CHECKSUM None None /\
  stp (step sgn langs cs (OpDecodeExplicit P coin li ok)) = cs.
Proof.
  intros HR Hli Hc W Len HN Hnn Hev.
  destruct (sim_decodex sgn cs a P coin li ok HR Hnn Hc) as [S1 _]. unfold outp. rewrite S1.
  rewrite (decode_of_indices a L li idx coin ok P (nth_error_In _ _ Hli) Hli W Len)
    by (rewrite <- (R_deps _ _ HR); exact HN).
  unfold afinish. change (axor_coin idx coin) with (xor_coin idx coin).
  rewrite <- (eval_is_spec (xor_coin idx coin)) by
    (first [apply (wf_xor_coin _ _ W Hc) | rewrite xor_coin_length; lia]).
  replace (poly_eval (xor_coin idx coin) =? 0) with false by (symmetry; apply N.eqb_neq, Hev).
  split; [reflexivity|].
  (* the concrete state is untouched: CHECKSUM is decided before the allocation *)
  unfold stp. cbn [step]. rewrite Hli.
  pose proof (lazy_norm (dp_nfkd (st_deps cs)) P) as LN.
  destruct (nfkd_lazy (dp_nfkd (st_deps cs)) P) as [[norm n] called]. cbn [fst] in LN.
  assert (En : norm = sjoin [x20] (map (spec_word L) idx)) by (rewrite <- HN, <- LN; reflexivity).
  destruct (str_split norm) as [w words] eqn:ES.
  pose proof (str_split_spec norm) as SS. rewrite ES, En in SS.
  rewrite tokens_sjoin in SS; [| destruct idx; discriminate | apply words_ok_map; [apply (nth_error_In _ _ Hli)|exact W]].
  rewrite map_length, Len in SS. cbn [Nat.min] in SS.
  rewrite firstn_all2 in SS by (rewrite map_length; lia). injection SS as -> ->.
  cbn [Nat.eqb negb]. unfold phrase_decode_explicit.
  rewrite (decode_words_spec sgn L _ (nth_error_In _ _ Hli)).
  - rewrite (lookup_own L _ (nth_error_In _ _ Hli) W). unfold finish_decode. unfold poly_check.
    replace (poly_eval (xor_coin idx coin) =? 0) with false by (symmetry; apply N.eqb_neq, Hev). reflexivity.
  - apply Forall_forall. intros t Ht. apply in_map_iff in Ht. destruct Ht as (i&<-&Hi).
    pose proof (words_nonul L (nth_error_In _ _ Hli)) as Hn. rewrite Forall_forall in Hn. apply Hn, nth_In.
    rewrite (words_len L (nth_error_In _ _ Hli)). unfold wf in W. rewrite Forall_forall in W. specialize (W i Hi). lia.
Qed.

(* ---- automatic detection of the language of an encoded phrase *)
Lemma matching_fst_lb ls li0 toks li idx : In (li, idx) (matching ls li0 toks) -> (li0 <= li)%nat.
Proof. intros H. apply matching_iff in H. destruct H as (_&_&H&_). exact H. Qed.

Lemma matching_nodup ls li0 toks : NoDup (map fst (matching ls li0 toks)).
Proof.
  revert li0. induction ls as [|L ls IH]; intros li0; cbn [matching]; [constructor|].
  destruct (spec_lookup_all L toks) as [idx|]; [|apply IH]. cbn [map fst]. constructor; [|apply IH].
  intros H. apply in_map_iff in H. destruct H as ([l i]&E&H). cbn in E. subst l.
  apply matching_fst_lb in H. lia.
Qed.

Lemma transfer_new_seed sgn cs a o s : R cs a -> op_ok o ->
  fst (astep langs a o) = mkastate (as_deps a) (as_mask a) ((as_next a, s) :: as_seeds a) (as_next a + 1) ->
  exists d', heap_get (st_heap (stp (step sgn langs cs o))) (st_next cs) = Some d' /\ Valid d' /\ abs_data d' = s.
Proof.
  intros HR Ho E. destruct (step_refines sgn cs a o HR Ho) as [_ S2]. rewrite E in S2.
  pose proof (R_heap _ _ S2) as RH. cbn [as_seeds] in RH.
  pose proof (f_equal (fun m => aget m (st_next cs)) RH) as G. cbv beta in G.
  rewrite aget_abs in G. cbn [aget] in G. rewrite (R_next _ _ HR), N.eqb_refl in G.
  rewrite <- (R_next _ _ HR) in G. unfold stp.
  destruct (heap_get _ (st_next cs)) as [d'|] eqn:Eg'; [|discriminate]. cbn [option_map] in G.
  exists d'. split; [reflexivity|]. split; [apply (heap_get_valid _ _ _ (R_valid _ _ S2) Eg') | congruence].
Qed.

Theorem roundtrip_auto sgn cs a h d li L coin : R cs a -> heap_get (st_heap cs) h = Some d ->
  nth_error langs li = Some L -> coin < 2048 ->
  spec_supported (as_mask a) (d_features d) = true -> NormOK (st_deps cs) L (abs_data d) coin ->
  no_nul (published (st_deps cs) L (abs_data d) coin) ->
  let P := published (st_deps cs) L (abs_data d) coin in
  let words := map (spec_word L) (spec_indices (abs_data d) coin) in
  let r := step sgn langs cs (OpDecode P coin true) in
  (* no other registered language recognises all sixteen words: same seed, language reported *)
  ((forall li' L', nth_error langs li' = Some L' -> li' <> li -> spec_lookup_all L' words = None) ->
     outp r = OutStatus ST_OK (Some (st_next cs)) (Some li) /\ heap_get (st_heap (stp r)) (st_next cs) = Some d) /\
  (* some other language does: refused as ambiguous, whatever the check values *)
  ((exists li' L', nth_error langs li' = Some L' /\ li' <> li /\ spec_lookup_all L' words <> None) ->
     outp r = OutStatus ST_MULT_LANG None None).
Proof.
  intros HR Hg Hli Hc Hsup HN Hnn P words r.
  pose proof (heap_get_valid _ _ _ (R_valid _ _ HR) Hg) as V.
  set (s := abs_data d) in *. assert (Hs : aseed_ok s) by apply (canon_abs_ok d (proj1 V)).
  pose proof (spec_indices_wf s coin Hc) as W. pose proof (spec_indices_length s coin) as Len.
  assert (HL : In L langs) by apply (nth_error_In _ _ Hli).
  assert (Et : spec_tokens (fst (spec_norm (dp_nfkd (st_deps cs)) P)) = words).
  { unfold NormOK in HN. fold P in HN. rewrite HN.
    apply tokens_sjoin; [destruct (spec_indices s coin); discriminate | apply words_ok_map; assumption]. }
  assert (Hin : In (li, spec_indices s coin) (matching langs 0 words)).
  { apply matching_iff. exists L. rewrite Nat.sub_0_r. repeat split; [exact Hli | lia | apply lookup_own; assumption]. }
  assert (Eo : outp r = match matching langs 0 words with
                        | [] => OutStatus ST_LANG None None
                        | [(li0, idx)] => finish_out a (st_next cs) idx coin true (Some li0)
                        | _ => OutStatus ST_MULT_LANG None None end).
  { unfold r. rewrite (decode_auto_spec sgn cs a P coin true HR Hnn Hc). cbv zeta. rewrite Et.
    unfold words. rewrite map_length, Len. reflexivity. }
  pose proof (matching_nodup langs 0 words) as ND.
  split.
  - intros Hno.
    assert (Em : matching langs 0 words = [(li, spec_indices s coin)]).
    { destruct (matching langs 0 words) as [|[l1 i1] m] eqn:EM; [destruct Hin|].
      assert (A1 : l1 = li).
      { destruct (Nat.eq_dec l1 li) as [|Hne]; [assumption|exfalso].
        assert (H1 : In (l1, i1) (matching langs 0 words)) by (rewrite EM; left; reflexivity).
        apply matching_iff in H1. destruct H1 as (L1&H1&_&H2). rewrite Nat.sub_0_r in H1.
        rewrite (Hno l1 L1 H1 Hne) in H2. discriminate. }
      subst l1. destruct m as [|[l2 i2] m].
      - destruct Hin as [E|[]]. congruence.
      - exfalso. assert (H2 : In (l2, i2) (matching langs 0 words)) by (rewrite EM; right; left; reflexivity).
        cbn [map fst] in ND. inversion ND as [|? ? Hn _]; subst.
        destruct (Nat.eq_dec l2 li) as [->|Hne]; [apply Hn; left; reflexivity|].
        apply matching_iff in H2. destruct H2 as (L2&H2&_&H3). rewrite Nat.sub_0_r in H2.
        rewrite (Hno l2 L2 H2 Hne) in H3. discriminate. }
    assert (Ea : astep langs a (OpDecode P coin true) =
                 (mkastate (as_deps a) (as_mask a) ((as_next a, s) :: as_seeds a) (as_next a + 1),
                  OutStatus 0 (Some (as_next a)) (Some li))).
    { cbn [astep]. rewrite <- (R_deps _ _ HR), Et. unfold words at 1. rewrite map_length, Len. cbn [Nat.eqb negb].
      rewrite Em. unfold afinish. rewrite indices_same_coin.
      rewrite <- (eval_is_spec (spec_checksum s :: spec_data_words s)).
      - rewrite spec_checksum_eval at 1. rewrite encode_checks. cbn [N.eqb negb].
        rewrite (seed_of_own_indices s Hs). fold s in Hsup. change (a_features s) with (d_features d). rewrite Hsup.
        cbn [negb]. rewrite (R_deps _ _ HR). reflexivity.
      - constructor; [apply spec_checksum_lt | apply spec_data_words_wf].
      - cbn [length]. destruct (spec_data_words_wf s) as [_ ->]. lia. }
    split.
    + destruct (sim_decode sgn cs a P coin true HR Hnn Hc) as [S1 _]. unfold r, outp. rewrite S1, Ea.
      cbn [snd]. rewrite (R_next _ _ HR). reflexivity.
    + destruct (transfer_new_seed sgn cs a (OpDecode P coin true) s HR (conj Hnn Hc)) as (d'&G&V'&A').
      { rewrite Ea. reflexivity. }
      unfold r. rewrite G. f_equal. apply valid_abs_inj; assumption.
  - intros (li'&L'&Hl'&Hne&Hlk). rewrite Eo.
    destruct (spec_lookup_all L' words) as [idx'|] eqn:E'; [|congruence].
    assert (Hin' : In (li', idx') (matching langs 0 words)).
    { apply matching_iff. exists L'. rewrite Nat.sub_0_r. repeat split; [exact Hl' | lia | exact E']. }
    destruct (matching langs 0 words) as [|[l1 i1] [|[l2 i2] m]]; [destruct Hin | | reflexivity].
    destruct Hin as [E1|[]]. destruct Hin' as [E2|[]]. congruence.
Qed.
