(* C04 - key derivation uses the specified inputs, independent of how the seed was obtained. *)
From PS Require Import Base PackDefs ApiDefs SpecDefs SpecApi PackTheorems ApiLemmas RefineProofs ApiTheorems HeldProofs.
From PS.Gen Require Import Consts Langs.
Local Open Scope N_scope.

(* polyseed_keygen on ANY live seed of ANY related state makes exactly one call to the injected KDF:
   password = the 32-byte secret buffer (19 secret bytes + 13 zero bytes), salt = "POLYSEED key"
   00 FF FF FF, LE32 coin, LE32 birthday, LE32 features, 00 00 00 00 (32 bytes), 10000 iterations,
   the caller's key size; what the KDF wrote is what the caller gets; the state is untouched.
   The arguments are functions of the ABSTRACT seed and the coin only, so any history that leads to
   the same (secret, birthday, features) - created, decoded from any language, loaded,
   encrypted and decrypted - yields the same call (C13_refinement, C13_struct_determined). *)
Theorem C04_keygen : forall sgn cs a h d coin size, R cs a -> heap_get (st_heap cs) h = Some d -> coin < 2048 ->
  let r := step sgn langs cs (OpKeygen h coin size) in
  let pw := spec_kdf_password (abs_data d) in
  let salt := spec_kdf_salt (abs_data d) coin in
  evp r = [EvKdf pw 32 salt 32 10000 size] /\
  outp r = OutBytes (dp_kdf (st_deps cs) pw 32 salt 32 10000 size) /\ stp r = cs.
Proof. exact keygen_trace. Qed.
Print Assumptions C04_keygen.

(* different (secret, birthday, features, coin) never share the (password, salt) pair *)
Theorem C04_injective : forall s1 s2 c1 c2, aseed_ok s1 -> aseed_ok s2 -> c1 < 2 ^ 32 -> c2 < 2 ^ 32 ->
  spec_kdf_password s1 = spec_kdf_password s2 -> spec_kdf_salt s1 c1 = spec_kdf_salt s2 c2 -> s1 = s2 /\ c1 = c2.
Proof. exact kdf_inputs_injective. Qed.
Print Assumptions C04_injective.

(* the salt, spelled out for a seed with birthday 700 (> 511: needs both low bytes), features 5, coin 2 *)
Example C04_salt : spec_kdf_salt (mkaseed (repeat 7 19) 700 5) 2 =
  [80; 79; 76; 89; 83; 69; 69; 68; 32; 107; 101; 121; 0; 255; 255; 255; 2; 0; 0; 0; 188; 2; 0; 0; 5; 0; 0; 0; 0; 0; 0; 0]
  /\ length (spec_kdf_password (mkaseed (repeat 7 19) 700 5)) = 32%nat.
Proof. split; reflexivity. Qed.

(* the inputs handed to the KDF do not depend on the feature set enabled when polyseed_keygen is called *)
Theorem C04_keygen_independent_of_enabled_set : forall sgn st r h coin size,
  snd (step sgn langs (with_reserved r st) (OpKeygen h coin size)) = snd (step sgn langs st (OpKeygen h coin size)) /\
  snd (fst (step sgn langs (with_reserved r st) (OpKeygen h coin size))) = snd (fst (step sgn langs st (OpKeygen h coin size))).
Proof. intros sgn st r h coin size. rewrite (held_independent sgn langs st r (OpKeygen h coin size) eq_refl). split; reflexivity. Qed.
Print Assumptions C04_keygen_independent_of_enabled_set.
