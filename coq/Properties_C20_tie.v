(* C20 - the tie to the code: theorems about the Gallina that tools/c2coq.py generates from /repo's CURRENT
   sources on every run (Gen/CFuns.v, Gen/CApi.v). *)
From Coq Require Import NArith List.
Local Open Scope N_scope.

(* ---- the tie to the code: src/polyseed.c as TRANSLATED on this run (Gen/CApi.v) ---- *)
From Coq Require Import String.
From PS Require Import Base GFDefs PackDefs StoreDefs MiscDefs StrDefs LangDefs ApiDefs SpecDefs SpecApi GFProofs PackProofs StoreProofs RefineProofs RoundTrip TraceProofs FrameProofs SafetyProofs CTieBase CTieLang CTiePhrase CTiePhraseEv CTieSplit CTieApi CTieDecode CTieEncode CTieLocals CTieInject CTieCmp CTieSearch CTieClosed CodeTheorems HeldProofs CodeMachine.
From PS.Gen Require Import Consts PrivConsts Langs.
From PS.Gen Require CFuns.
From PS.Gen Require CApi.

(* ON THE CODE: for any global order of calls on seeds, the calls on one thread's seeds give - in histories of the translated code - what they give when run alone (calls as atomic steps; the static storage is observed by the write-protected segment) *)
Theorem C20_code_tie_machine_interleaving :
  forall (sgn : bool) (fuel : nat) (ext : Z -> list Z -> Z) (OKW : bytes -> Prop),
         (forall (li : nat) (L : lang) (w : bytes),
          OKW w -> nth_error langs li = Some L -> ext (Z.of_nat li) (zs w) = enc (lang_search sgn L w)) ->
         (forall t : bytes, no_nul t -> (Datatypes.length t + 2 <= fuel)%nat -> OKW t) ->
         (18 <= fuel)%nat ->
         forall (mine : N -> bool) (ops : list op) (a b : state),
         Distinct a ->
         Distinct b ->
         same_view mine a b ->
         forallb handle_op ops = true ->
         Ready sgn fuel a ops ->
         Ready sgn fuel b (filter (is_mine mine) ops) ->
         my_results mine ops (snd (crun sgn fuel ext a ops)) =
         snd (crun sgn fuel ext b (filter (is_mine mine) ops)) /\
         same_view mine (fst (crun sgn fuel ext a ops)) (fst (crun sgn fuel ext b (filter (is_mine mine) ops))).
Proof. exact @code_interleaving. Qed.
Print Assumptions C20_code_tie_machine_interleaving.
