(* C15 - every allocation is balanced; a failing call leaves nothing behind. *)
From PS Require Import Base ApiDefs TraceProofs.
From PS.Gen Require Import Consts.
Local Open Scope N_scope.

(* the ledger replayed over the events of ONE call - whatever the call, its arguments, the
   allocator's answer and the exit taken - ends exactly at the handles live after the call:
   no block is allocated twice, only live blocks are freed and at most once, every block the call
   allocated and did not hand out is freed by it *)
Theorem C15_step : forall sgn ls cs o, Fresh cs ->
  let r := step sgn ls cs o in
  ledger (handles cs) (evp r) = Some (handles (stp r)) /\ Fresh (stp r).
Proof. exact step_ledger. Qed.
Print Assumptions C15_step.

(* ... hence over EVERY history, with EVERY schedule of allocation failures (the failures are
   the alloc_ok fields of the ops) *)
Theorem C15_ledger : forall sgn ls ops cs, Fresh cs ->
  ledger (handles cs) (all_events (snd (run sgn ls cs ops))) = Some (handles (fst (run sgn ls cs ops))) /\
  Fresh (fst (run sgn ls cs ops)).
Proof. exact run_ledger. Qed.
Print Assumptions C15_ledger.

(* a constructor either returns OK with one new seed, or returns no seed and leaves the heap as
   it was *)
Theorem C15_outcome : forall sgn ls cs o, is_constructor o = true ->
  let r := step sgn ls cs o in
  match outp r with
  | OutStatus st (Some h) _ => st = ST_OK /\ h = st_next cs /\ exists d, st_heap (stp r) = (h, d) :: st_heap cs
  | OutStatus st None _ => st <> ST_OK /\ st_heap (stp r) = st_heap cs
  | _ => st_heap (stp r) = st_heap cs
  end.
Proof. exact constructor_outcome. Qed.
Print Assumptions C15_outcome.

(* the allocator refuses: the state is exactly as before (later calls behave normally), the
   status is MEMORY whenever the allocator was actually asked, and nothing is freed *)
Theorem C15_refused : forall sgn ls cs o, alloc_refused o = true ->
  let r := step sgn ls cs o in
  stp r = cs /\ (asked_alloc (evp r) = true -> outp r = OutStatus ST_MEMORY None None) /\
  (forall lb h, ~ In (EvFree lb h) (evp r)).
Proof. exact alloc_failure. Qed.
Print Assumptions C15_refused.

Theorem C15_free_null : forall sgn ls cs, step sgn ls cs OpFreeNull = (cs, OutUnit, []).
Proof. reflexivity. Qed.
Print Assumptions C15_free_null.

Example C15_premise : Fresh init_state.
Proof. exact fresh_init. Qed.
