(* C17 - the tie to the code: theorems about the Gallina that tools/c2coq.py generates from /repo's CURRENT
   sources on every run (Gen/CFuns.v, Gen/CApi.v).  Kept apart from Properties_C17.v so that a change to the C code
   which breaks a tie leaves the theorems about the model standing, and the other way round. *)
From PS Require Import Base StrDefs ApiDefs SpecDefs SpecApi StrProofs PackTheorems ApiLemmas RefineProofs ApiTheorems.
From PS.Gen Require Import Consts Langs.
Local Open Scope N_scope.

(* ---- the tie to the code: src/polyseed.c as TRANSLATED on this run (Gen/CApi.v) ---- *)
From Coq Require Import String.
From PS Require Import Base GFDefs PackDefs StoreDefs MiscDefs StrDefs LangDefs ApiDefs SpecDefs SpecApi GFProofs PackProofs StoreProofs RefineProofs RoundTrip TraceProofs FrameProofs SafetyProofs CTieBase CTieLang CTiePhrase CTiePhraseEv CTieSplit CTieApi CTieDecode CTieEncode CTieLocals CTieInject CTieCmp CTieSearch CTieClosed CodeTheorems HeldProofs CodeMachine.
From PS.Gen Require Import Consts PrivConsts Langs.
From PS.Gen Require CFuns.
From PS.Gen Require CApi.

(* write_str as translated: the bytes of the word at the offset, the offset advanced by its length - while it fits the buffer *)
Theorem C17_code_tie_write_str :
  forall (fuel : nat) (sgn : bool) (M : nat) (w : bytes) (a : list byte),
         no_nul w ->
         (Datatypes.length a + Datatypes.length w <= M)%nat ->
         (Datatypes.length w + 1 <= fuel)%nat ->
         CApi.write_str fuel sgn (zs a ++ repeat 0%Z (M - Datatypes.length a)) (Z.of_nat (Datatypes.length a))
           (zs w) =
         Some (zs (a ++ w) ++ repeat 0%Z (M - Datatypes.length (a ++ w)), Z.of_nat (Datatypes.length (a ++ w))).
Proof. exact @tie_write_str. Qed.
Print Assumptions C17_code_tie_write_str.

(* polyseed_encode as translated: every write stays inside str_tmp exactly when the joined phrase is shorter than POLYSEED_STR_SIZE (the case C17_bounds shows is the only one), and the length returned is the length written *)
Theorem C17_code_tie_api_encode :
  forall (sgn : bool) (st : state) (fuel li : nat) (L : lang),
         nth_error langs li = Some L ->
         (forall j : nat, (Datatypes.length (nth j (l_words L) []) + 1 <= fuel)%nat) ->
         (Datatypes.length (l_separator L) + 1 <= fuel)%nat ->
         (forall x : bytes, snd (dp_nfc (st_deps st) x) < 2 ^ 64) ->
         forall (h : N) (d : data) (coin : N) (out0 : list Z),
         heap_get (st_heap st) h = Some d ->
         Canon d ->
         d_checksum d < 2048 ->
         coin < 2048 ->
         (1 <= Datatypes.length out0)%nat ->
         match step sgn langs st (OpEncode h li coin) with
         | (st', OutStr o nn, evs) =>
             exists (cevs : list CApi.cev) (rest : list Z),
               CApi.polyseed_encode fuel sgn (znfc (st_deps st))
                 (fun _ i : Z => zs (nth (Z.to_nat i) (l_words L) [])) (fun _ : Z => zs (l_separator L))
                 (fun _ : Z => if l_compose L then 1%Z else 0%Z) (Z.of_N (d_birthday d))
                 (Z.of_N (d_features d)) (map Z.of_N (d_secret d)) (Z.of_N (d_checksum d)) 
                 (Z.of_nat li) (Z.of_N coin) out0 = Some (cevs, zs o ++ 0%Z :: rest, Z.of_N nn) /\
               evs_of (st_deps st) cevs = evs /\ st' = st
         | (st', OutFault, _) | (st', OutUnit, _) | (st', OutNum _, _) | (st', OutStatus _ _ _, _) |
           (st', OutBytes _, _) => True
         end.
Proof. exact @tie_encode. Qed.
Print Assumptions C17_code_tie_api_encode.
