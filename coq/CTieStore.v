(* storage.c as translated from the current source (Gen/CFuns.v: pointer walks resolved to constant
   offsets, store16/load16 inlined, memcpy/memcmp expanded) against the mirrors StoreDefs.data_store /
   data_load: for EVERY canonical struct and EVERY 32-byte buffer. *)
From PS Require Import Base GFDefs PackDefs StoreDefs SpecDefs GFProofs PackProofs PackTheorems StoreProofs CTieBase CTieTac.
From PS.Gen Require Import Consts PrivConsts.
From PS.Gen Require CFuns.
Local Open Scope N_scope.

Lemma zeqb_N a b : (Z.of_N a =? Z.of_N b)%Z = (a =? b).
Proof.
  destruct (N.eqb_spec a b) as [->|H]; [apply Z.eqb_refl|]. apply Z.eqb_neq. intros E. apply H, N2Z.inj, E.
Qed.

Theorem tie_data_store d st0 : Canon d -> d_checksum d < 2048 ->
  CFuns.polyseed_data_store (Z.of_N (d_birthday d)) (Z.of_N (d_features d)) (map Z.of_N (d_secret d))
    (Z.of_N (d_checksum d)) st0 = map Z.of_N (data_store d).
Proof.
  intros HC Hck. rewrite (store_layout d HC Hck).
  destruct (canon_shape d HC) as
    (b0&b1&b2&b3&b4&b5&b6&b7&b8&b9&b10&b11&b12&b13&b14&b15&b16&b17&b18&Hs&
     B0&B1&B2&B3&B4&B5&B6&B7&B8&B9&B10&B11&B12&B13&B14&B15&B16&B17&B18).
  destruct HC as (_&_&_&_&Hbd&Hft). destruct d as [bd ft sec ck]. cbn [d_secret d_birthday d_features d_checksum] in *. subst sec.
  change (firstn 19 (sec19 b0 b1 b2 b3 b4 b5 b6 b7 b8 b9 b10 b11 b12 b13 b14 b15 b16 b17 b18 ++ repeat 0 13))
    with (sec19 b0 b1 b2 b3 b4 b5 b6 b7 b8 b9 b10 b11 b12 b13 b14 b15 b16 b17 b18).
  unfold CFuns.polyseed_data_store, sec19, POLYSEED_ASCII, le16.
  lazy -[Z.lor Z.shiftl Z.land Z.shiftr Z.modulo Z.sub Z.add Z.ltb Z.mul Z.div Z.of_N N.add N.mul N.div N.modulo].
  assert (Zbd : (0 <= Z.of_N bd < 1024)%Z) by lia. assert (Zft : (0 <= Z.of_N ft < 32)%Z) by lia.
  assert (Zck : (0 <= Z.of_N ck < 2048)%Z) by lia.
  shifts2arith. change 4294967296%Z with (2 ^ 32)%Z.
  rewrite (zlor_low (Z.of_N ft) (Z.of_N bd) 10 32) by lia.
  change 28672%Z with (14 * 2 ^ 11)%Z. rewrite (zlor_disjoint 14 (Z.of_N ck) 11) by lia.
  zpow_consts.
  repeat (apply (f_equal2 (@cons Z)); [try reflexivity; lia|]). reflexivity.
Qed.

Lemma zlor_high A B k : (0 <= A < 2 ^ k)%Z -> (0 <= B)%Z -> (0 <= k)%Z -> Z.lor A (B * 2 ^ k) = (A + B * 2 ^ k)%Z.
Proof. intros HA HB Hk. rewrite Z.lor_comm, Z.add_comm. apply zlor_disjoint; assumption. Qed.

(* the translated loader on EVERY 32-byte buffer: FORMAT exactly when the mirror says so, and otherwise
   the same struct (the fields written before a failing check are not compared: the caller frees the
   block) - whatever the struct held before *)
Theorem tie_data_load buf b0 f0 sec0 c0 : length buf = 32%nat -> bytes_ok buf ->
  match data_load buf with
  | LoadFormat => snd (CFuns.polyseed_data_load (map Z.of_N buf) b0 f0 sec0 c0) = Z.of_N ST_FORMAT
  | LoadOk d => CFuns.polyseed_data_load (map Z.of_N buf) b0 f0 sec0 c0 =
                (Z.of_N (d_birthday d), Z.of_N (d_features d), map Z.of_N (d_secret d), Z.of_N (d_checksum d), Z.of_N ST_OK)
  end.
Proof.
  intros Hl Hb.
  destruct (buf32_shape buf Hl) as (h0&h1&h2&h3&h4&h5&h6&h7&x8&x9&s0&s1&s2&s3&s4&s5&s6&s7&s8&s9&s10&s11&s12&s13&s14&s15&s16&s17&s18&x29&x30&x31&E). subst buf.
  unfold bytes_ok, buf32 in Hb.
  repeat match goal with H : Forall _ (_ :: _) |- _ =>
    let a := fresh "A" in let b := fresh "F" in (apply Forall_cons_iff in H; destruct H as [a b]) end.
  rewrite load_explicit. cbv zeta.
  unfold CFuns.polyseed_data_load, buf32.
  lazy -[Z.lor Z.shiftl Z.land Z.shiftr Z.modulo Z.sub Z.add Z.ltb Z.gtb Z.eqb Z.mul Z.div Z.of_N N.add N.mul N.div N.modulo
         N.land N.shiftr N.shiftl N.lor load16 list_eqb N.eqb N.ltb N.sub andb negb HEADER].
  change 80%Z with (Z.of_N 80); change 79%Z with (Z.of_N 79); change 76%Z with (Z.of_N 76); change 89%Z with (Z.of_N 89);
    change 83%Z with (Z.of_N 83); change 69%Z with (Z.of_N 69); change 68%Z with (Z.of_N 68).
  rewrite !zeqb_N.
  assert (L1 : load16 x8 x9 = x8 + 256 * x9) by (apply load16_small; assumption).
  assert (L2 : load16 x30 x31 = x30 + 256 * x31) by (apply load16_small; assumption).
  set (v1 := load16 x8 x9) in *. set (v2 := load16 x30 x31) in *.
  assert (V1 : v1 < 65536) by lia. assert (V2 : v2 < 65536) by lia.
  set (W1 := ((Z.lor (Z.of_N x8 mod 65536) (Z.shiftl (Z.of_N x9) 8) mod 65536) mod 65536)%Z).
  set (W2 := ((Z.lor (Z.of_N x30 mod 65536) (Z.shiftl (Z.of_N x31) 8) mod 65536) mod 65536)%Z).
  assert (EW1 : W1 = Z.of_N v1).
  { unfold W1. rewrite Z.shiftl_mul_pow2 by lia. rewrite (Z.mod_small (Z.of_N x8)) by lia.
    rewrite (zlor_high (Z.of_N x8) (Z.of_N x9) 8) by lia. change (2 ^ 8)%Z with 256%Z. rewrite !Z.mod_small by lia. lia. }
  assert (EW2 : W2 = Z.of_N v2).
  { unfold W2. rewrite Z.shiftl_mul_pow2 by lia. rewrite (Z.mod_small (Z.of_N x30)) by lia.
    rewrite (zlor_high (Z.of_N x30) (Z.of_N x31) 8) by lia. change (2 ^ 8)%Z with 256%Z. rewrite !Z.mod_small by lia. lia. }
  clearbody W1 W2. subst W1 W2. clear L1 L2. clearbody v1 v2.
  (* every Z quantity of the translation is the image of the N quantity of the mirror *)
  assert (S1 : (Z.shiftr (Z.of_N v1) 10 mod 65536)%Z = Z.of_N (N.shiftr v1 10)).
  { rewrite Z.shiftr_div_pow2, N.shiftr_div_pow2 by lia. change (2 ^ 10)%Z with 1024%Z. change (2 ^ 10) with 1024.
    rewrite N2Z.inj_div. apply Z.mod_small. split; [apply Z.div_pos; lia|]. apply Z.div_lt_upper_bound; lia. }
  assert (S2 : (Z.land (Z.of_N v1) 1023 mod 4294967296)%Z = Z.of_N (N.land v1 1023)).
  { change 1023%Z with (Z.of_N 1023). rewrite <- zN_land. apply Z.mod_small.
    change 1023 with (N.ones 10). rewrite N.land_ones. pose proof (N.mod_lt v1 (2 ^ 10)). change (2 ^ 10) with 1024 in *. lia. }
  assert (S3 : (Z.land (Z.of_N s18) 192)%Z = Z.of_N (N.land s18 (255 - 63))).
  { change 192%Z with (Z.of_N 192). rewrite <- zN_land. reflexivity. }
  assert (S4 : (Z.land (Z.of_N v2) 2047 mod 18446744073709551616)%Z = Z.of_N (N.land v2 2047)).
  { change 2047%Z with (Z.of_N 2047). rewrite <- zN_land. apply Z.mod_small.
    change 2047 with (N.ones 11). rewrite N.land_ones. pose proof (N.mod_lt v2 (2 ^ 11)). change (2 ^ 11) with 2048 in *. lia. }
  assert (S5 : (Z.land (Z.of_N v2) 4294965248 mod 65536)%Z = Z.of_N (v2 - N.land v2 2047)).
  { change 2047 with (N.ones 11). rewrite N.land_ones. change (2 ^ 11) with 2048.
    replace 4294965248%Z with (Z.of_N 4294965248) by reflexivity. rewrite <- zN_land.
    assert (E : N.land v2 4294965248 = v2 - v2 mod 2048).
    { apply N.bits_inj. intro n.
      assert (Hs : v2 - v2 mod 2048 = N.shiftl (N.shiftr v2 11) 11).
      { rewrite N.shiftl_mul_pow2, N.shiftr_div_pow2. change (2 ^ 11) with 2048. lia. }
      rewrite Hs, N.land_spec. destruct (N.lt_ge_cases n 11) as [Hn|Hn].
      - rewrite N.shiftl_spec_low by exact Hn.
        assert (N.testbit 4294965248 n = false) as ->; [|apply andb_false_r].
        assert (C : n = 0 \/ n = 1 \/ n = 2 \/ n = 3 \/ n = 4 \/ n = 5 \/ n = 6 \/ n = 7 \/ n = 8 \/ n = 9 \/ n = 10) by lia.
        destruct C as [->|[->|[->|[->|[->|[->|[->|[->|[->|[->| ->]]]]]]]]]]; reflexivity.
      - rewrite N.shiftl_spec_high' by exact Hn. rewrite N.shiftr_spec'. replace (n - 11 + 11) with n by lia.
        destruct (N.lt_ge_cases n 16) as [H16|H16].
        + assert (N.testbit 4294965248 n = true) as ->; [|apply andb_true_r].
          assert (C : n = 11 \/ n = 12 \/ n = 13 \/ n = 14 \/ n = 15) by lia.
          destruct C as [->|[->|[->|[-> | ->]]]]; reflexivity.
        + assert (N.testbit v2 n = false) as ->; [|reflexivity].
          destruct (N.eq_dec v2 0) as [->|Hz]; [apply N.bits_0|]. apply N.bits_above_log2.
          assert (N.log2 v2 < 16) by (apply N.log2_lt_pow2; [lia|exact V2]). lia. }
    rewrite E. apply Z.mod_small. lia. }
  rewrite S1, S2, S3, S4, S5.
  assert (EH : ((h0 =? 80) && (h1 =? 79) && (h2 =? 76) && (h3 =? 89) && (h4 =? 83) && (h5 =? 69) && (h6 =? 69) && (h7 =? 68))%bool
               = list_eqb N.eqb [h0; h1; h2; h3; h4; h5; h6; h7] HEADER).
  { cbn [list_eqb HEADER]. rewrite andb_true_r, !andb_assoc. reflexivity. }
  rewrite EH. clear EH.
  assert (G : forall u, (Z.of_N u >? 31)%Z = (31 <? u)).
  { intros u. rewrite Z.gtb_ltb. destruct (N.ltb_spec 31 u); [apply Z.ltb_lt|apply Z.ltb_ge]; lia. }
  rewrite G. clear G.
  rewrite (zeqb_N (N.land s18 (255 - 63)) 0 : (Z.of_N _ =? 0)%Z = _).
  rewrite (zeqb_N x29 255 : (Z.of_N _ =? 255)%Z = _).
  rewrite (zeqb_N (v2 - N.land v2 2047) 28672 : (Z.of_N _ =? 28672)%Z = _).
  destruct (list_eqb N.eqb [h0; h1; h2; h3; h4; h5; h6; h7] HEADER); cbn [negb]; [|reflexivity].
  change (Z.of_N 0 =? 0)%Z with true. cbn [negb].
  destruct (31 <? N.shiftr v1 10) eqn:E31; [reflexivity|].
  destruct (N.land s18 (255 - 63) =? 0); cbn [negb]; [|reflexivity].
  destruct (x29 =? 255); cbn [negb]; [|reflexivity].
  destruct (v2 - N.land v2 2047 =? 28672); cbn [negb]; [|reflexivity].
  cbn [d_birthday d_features d_secret d_checksum map].
  apply N.ltb_ge in E31. rewrite (Z.mod_small (Z.of_N (N.shiftr v1 10))) by lia. reflexivity.
Qed.
