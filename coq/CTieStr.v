(* dependency.h: utf8_nfkd_lazy as TRANSLATED from /repo's current source (Gen/CFuns.v: the loop with its
   early return as a fuelled loop, the destination buffer as a list updated in place, the injected
   normaliser as a function parameter) against its specification, for EVERY string without NUL, EVERY
   normaliser, EVERY previous content of the 544-cell destination buffer. *)
From PS Require Import Base StrDefs SpecDefs LangDefs LangProofs StrProofs CTieLang.
From PS.Gen Require Import Consts.
From PS.Gen Require CFuns.
Local Open Scope Z_scope.

Lemma upd_app_mid {A} (a : list A) x r v : CFuns.upd (a ++ x :: r) (length a) v = a ++ v :: r.
Proof. induction a as [|y a IH]; [reflexivity|]. cbn [app length CFuns.upd]. rewrite IH. reflexivity. Qed.

Lemma upd_app_zs acc x r v : CFuns.upd (zs acc ++ x :: r) (length acc) v = zs acc ++ v :: r.
Proof. induction acc as [|y a IH]; [reflexivity|]. cbn [zs map app length CFuns.upd]. fold (zs a). rewrite IH. reflexivity. Qed.

Lemma skipn_cons_nth {A} (l : list A) n d : (n < length l)%nat -> skipn n l = nth n l d :: skipn (S n) l.
Proof.
  revert n. induction l as [|x l IH]; intros [|n] H; cbn in *; try lia; [reflexivity|]. apply IH. lia.
Qed.

Lemma ord_ascii sgn c : is_nonascii c = false -> ord sgn c = zb c.
Proof. destruct sgn; destruct c; cbn; intros H; try reflexivity; discriminate. Qed.

Section Lazy.
  Variables (sgn : bool) (D : list Z -> list Z * Z) (s : bytes) (norm0 : list Z) (fuel : nat).
  Hypothesis Hs : no_nul s.
  Notation M := (N.to_nat (STR_SIZE - 1)).
  Hypothesis Hn : length norm0 = S M.
  Hypothesis HM : (Z.of_nat M < 4294967296).

  (* the buffer after `acc` has been copied into its first cells *)
  Definition buf (acc : bytes) : list Z := zs acc ++ skipn (length acc) norm0.

  Definition FIN (st : bool * bool * Z * list Z * list Z * Z) : option (list Z * Z) :=
    let '(brk, rflag, rval, norm, pos, size) := st in
    if rflag then Some (norm, rval) else Some (CFuns.upd norm (Z.to_nat size) 0, size).

  Lemma fin_buf acc pos b : (length acc <= M)%nat ->
    FIN (b, false, 0, buf acc, pos, Z.of_nat (length acc)) =
    Some (zs acc ++ 0 :: skipn (S (length acc)) norm0, Z.of_nat (length acc)).
  Proof.
    intros Ha. unfold FIN, buf. rewrite Nat2Z.id.
    rewrite (skipn_cons_nth norm0 (length acc) 0) by lia.
    rewrite upd_app_zs. reflexivity.
  Qed.

  Theorem tie_nfkd_lazy : (length s + 2 <= fuel)%nat ->
    CFuns.utf8_nfkd_lazy fuel sgn D (zs s) norm0 =
      let head := firstn M s in
      if existsb is_nonascii head then Some (D (zs s))
      else Some (zs head ++ 0 :: skipn (S (length head)) norm0, Z.of_nat (length head)).
  Proof.
    intros Hf. unfold CFuns.utf8_nfkd_lazy. cbv zeta.
    (* the bound the translation carries is POLYSEED_STR_SIZE - 1 of the generated constants *)
    match goal with |- context [(_ <? ?lit)] => change lit with (Z.of_nat M) end.
    match goal with |- context [CFuns.whileF fuel ?c ?b _] => set (C := c); set (B := b) end.
    assert (L : forall pos acc f, s = acc ++ pos -> (length acc <= M)%nat -> existsb is_nonascii acc = false ->
      (length pos + 2 <= f)%nat ->
      match CFuns.whileF f C B (false, false, 0, buf acc, zs pos, Z.of_nat (length acc)) with
      | None => None | Some st => FIN st end =
        let more := firstn (M - length acc) pos in
        if existsb is_nonascii more then Some (D (zs s))
        else Some (zs (acc ++ more) ++ 0 :: skipn (S (length (acc ++ more))) norm0, Z.of_nat (length (acc ++ more)))).
    { induction pos as [|c pos IH]; intros acc f Es Ha Hasc Hf0.
      - destruct f as [|f]; [cbn in Hf0; lia|].
        rewrite whileF_stop by (unfold C; reflexivity).
        rewrite firstn_nil. cbv zeta. cbn [existsb]. rewrite app_nil_r. apply fin_buf, Ha.
      - assert (Hc : c <> x00).
        { intros ->. apply Hs. rewrite Es. apply in_or_app. right. left. reflexivity. }
        destruct f as [|f]; [cbn in Hf0; lia|].
        destruct (Nat.eq_dec (length acc) M) as [E543|N543].
        + (* the buffer is full: the loop stops, the rest of the input is cut *)
          rewrite whileF_stop.
          * rewrite E543, Nat.sub_diag. cbn [firstn existsb]. cbv zeta. rewrite app_nil_r. rewrite <- E543. apply fin_buf. lia.
          * unfold C. cbv beta iota. rewrite E543. cbn [zs map]. rewrite rdc_cons, Z.ltb_irrefl, !andb_false_r. reflexivity.
        + replace (M - length acc)%nat with (S (M - length (acc ++ [c])))%nat by (rewrite app_length; cbn [length]; lia).
          cbn [firstn existsb]. cbv zeta.
          assert (Ctrue : C (false, false, 0, buf acc, zs (c :: pos), Z.of_nat (length acc)) = true).
          { unfold C. cbv beta iota. cbn [zs map negb andb]. rewrite rdc_cons, (ord_eqb0 sgn c Hc). cbn [negb andb].
            apply Z.ltb_lt. lia. }
          destruct (is_nonascii c) eqn:Ena; cbn [orb].
          * rewrite (whileF_step _ _ _ _ (true, true, snd (D (zs s)), fst (D (zs s)), zs (c :: pos), Z.of_nat (length acc))).
            -- destruct f as [|f]; [cbn in Hf0; lia|]. rewrite whileF_stop by reflexivity.
               unfold FIN. rewrite <- surjective_pairing. reflexivity.
            -- exact Ctrue.
            -- unfold B. cbv beta iota. cbn [zs map]. rewrite rdc_cons, nonascii_test, Ena.
               destruct (D (zs s)) as [dn dr]. reflexivity.
          * rewrite (whileF_step _ _ _ _ (false, false, 0, buf (acc ++ [c]), zs pos, Z.of_nat (length (acc ++ [c])))).
            -- rewrite (IH (acc ++ [c]) f).
               ++ cbv zeta. rewrite <- !app_assoc. reflexivity.
               ++ rewrite <- app_assoc. exact Es.
               ++ rewrite app_length. cbn [length]. lia.
               ++ rewrite existsb_app, Hasc. cbn. rewrite Ena. reflexivity.
               ++ cbn in Hf0. lia.
            -- exact Ctrue.
            -- unfold B. cbv beta iota. cbn [zs map tl]. rewrite rdc_cons, nonascii_test, Ena.
               rewrite (ord_ascii sgn c Ena). unfold buf. rewrite Nat2Z.id.
               rewrite (skipn_cons_nth norm0 (length acc) 0) by lia.
               rewrite upd_app_zs. rewrite app_length. cbn [length].
               replace (Z.of_nat (length acc) + 1) with (Z.of_nat (length acc + 1)) by lia.
               rewrite Z.mod_small by lia. unfold zs. rewrite map_app. cbn [map]. rewrite <- app_assoc. cbn [app].
               replace (S (length acc)) with (length acc + 1)%nat by lia. reflexivity. }
    specialize (L s [] fuel eq_refl (Nat.le_0_l _) eq_refl Hf).
    cbn [length app] in L. rewrite Nat.sub_0_r in L. unfold buf in L. cbn [zs map length skipn app] in L.
    change (Z.of_nat 0) with 0 in L. unfold FIN in L. exact L.
  Qed.
End Lazy.

(* in the vocabulary of the mirror: the translated function computes StrProofs.lazy_spec, i.e. what
   StrDefs.nfkd_lazy computes (nfkd_lazy_spec) and what the abstract machine normalises (spec_norm) *)
Corollary tie_nfkd_lazy_mirror sgn (nf : transform) (D : list Z -> list Z * Z) s norm0 fuel :
  no_nul s -> length norm0 = N.to_nat STR_SIZE -> (length s + 2 <= fuel)%nat ->
  (D (zs s) = (zs (fst (nf s)), Z.of_N (snd (nf s)))) ->
  CFuns.utf8_nfkd_lazy fuel sgn D (zs s) norm0 =
    let '(content, size, called) := nfkd_lazy nf s in
    if called then Some (zs content, Z.of_N size)
    else Some (zs content ++ 0 :: skipn (S (length content)) norm0, Z.of_N size).
Proof.
  intros Hs Hn Hf HD. rewrite nfkd_lazy_spec. unfold lazy_spec.
  rewrite (tie_nfkd_lazy sgn D s norm0 fuel Hs); [| exact Hn | vm_compute; reflexivity | exact Hf].
  cbv zeta. destruct (existsb is_nonascii (firstn (N.to_nat (STR_SIZE - 1)) s)).
  - rewrite HD. reflexivity.
  - rewrite nat_N_Z. reflexivity.
Qed.
