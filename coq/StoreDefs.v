(* storage.c: the 32-byte serialisation.  Mirror definitions. *)
From PS Require Import Base GFDefs PackDefs.
From PS.Gen Require Import Consts PrivConsts.
Local Open Scope N_scope.

Definition HEADER : list N := [80; 79; 76; 89; 83; 69; 69; 68]. (* "POLYSEED" *)
Definition HEADER_SIZE : nat := 8.
Definition EXTRA_BYTE : N := 255.
Definition STORAGE_FOOTER : N := 28672. (* 0x7000 *)

(* store16: the argument is converted to uint16_t *)
Definition store16 (u : N) : list N :=
  let u16 := u mod 65536 in [u16 mod 256; (u16 / 256) mod 256].

Definition load16 (lo hi : N) : N := (N.lor lo (N.shiftl hi 8)) mod 65536.

(* polyseed_data_store *)
Definition data_store (d : data) : list N :=
  HEADER
  ++ store16 (N.lor (N.shiftl (d_features d) DATE_BITS) (d_birthday d))
  ++ firstn (N.to_nat SECRET_SIZE) (d_secret d)
  ++ [EXTRA_BYTE]
  ++ store16 (N.lor STORAGE_FOOTER (d_checksum d)).

Inductive load_res :=
| LoadFormat          (* POLYSEED_ERR_FORMAT *)
| LoadOk (d : data).

Definition nthN (l : list N) (i : nat) : N := nth i l 0.

(* polyseed_data_load; buf has POLYSEED_SIZE = 32 bytes *)
Definition data_load (buf : list N) : load_res :=
  if negb (list_eqb N.eqb (firstn HEADER_SIZE buf) HEADER) then LoadFormat else
  let v1 := load16 (nthN buf 8) (nthN buf 9) in
  let birthday := N.land v1 DATE_MASK in
  let v1' := N.shiftr v1 DATE_BITS in
  if FEATURE_MASK <? v1' then LoadFormat else
  let secret := firstn (N.to_nat SECRET_SIZE) (skipn 10 buf)
                ++ repeat 0 (N.to_nat (SECRET_BUFFER_SIZE - SECRET_SIZE)) in
  (* pos[SECRET_SIZE-1] & ~CLEAR_MASK *)
  if negb (N.land (nthN buf 28) (255 - CLEAR_MASK) =? 0) then LoadFormat else
  if negb (nthN buf 29 =? EXTRA_BYTE) then LoadFormat else
  let v2 := load16 (nthN buf 30) (nthN buf 31) in
  let checksum := N.land v2 GF_MASK in
  (* v2 &= ~GF_MASK on uint16_t *)
  if negb (v2 - checksum =? STORAGE_FOOTER) then LoadFormat else
  LoadOk (mkdata birthday v1' secret checksum).
