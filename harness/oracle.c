/* Injected oracles shared by the harness drivers: real NFC/NFKD (utf8proc),
 * total and bounded (contract O0: returns n = strlen(out) < POLYSEED_STR_SIZE,
 * no NUL inside), and a cheap deterministic stand-in for PBKDF2 that mixes all
 * of its arguments. */
#include <polyseed.h>
#include <utf8proc.h>
#include <stdlib.h>
#include <string.h>
#include <stdint.h>

static size_t bounded_copy(const char* src, size_t len, char* norm) {
    /* cut at a code-point boundary so that the result stays valid UTF-8 */
    if (len > POLYSEED_STR_SIZE - 1) {
        len = POLYSEED_STR_SIZE - 1;
        while (len > 0 && ((unsigned char)src[len] & 0xC0) == 0x80) --len;
    }
    memcpy(norm, src, len);
    norm[len] = '\0';
    return len;
}

static size_t transform(const char* str, char* norm, int compat_decompose) {
    utf8proc_uint8_t* out = NULL;
    utf8proc_option_t opt = UTF8PROC_NULLTERM | UTF8PROC_STABLE |
        (compat_decompose ? (UTF8PROC_DECOMPOSE | UTF8PROC_COMPAT) : UTF8PROC_COMPOSE);
    utf8proc_ssize_t r = utf8proc_map((const utf8proc_uint8_t*)str, 0, &out, opt);
    size_t n;
    if (r < 0 || out == NULL) {
        /* invalid UTF-8: copied verbatim */
        n = bounded_copy(str, strlen(str), norm);
    } else {
        n = bounded_copy((const char*)out, strlen((const char*)out), norm);
    }
    free(out);
    return n;
}

size_t oracle_nfc(const char* str, polyseed_str norm) { return transform(str, norm, 0); }
size_t oracle_nfkd(const char* str, polyseed_str norm) { return transform(str, norm, 1); }

static uint64_t mix(uint64_t h, uint64_t v) {
    h ^= v + 0x9e3779b97f4a7c15ULL + (h << 6) + (h >> 2);
    h *= 0xff51afd7ed558ccdULL;
    h ^= h >> 33;
    return h;
}

void oracle_kdf(const uint8_t* pw, size_t pwlen, const uint8_t* salt, size_t saltlen,
    uint64_t iterations, uint8_t* key, size_t keylen) {
    uint64_t h = 0x243f6a8885a308d3ULL;
    h = mix(h, pwlen);
    for (size_t i = 0; i < pwlen; ++i) h = mix(h, pw[i]);
    h = mix(h, saltlen);
    for (size_t i = 0; i < saltlen; ++i) h = mix(h, salt[i]);
    h = mix(h, iterations);
    h = mix(h, keylen);
    for (size_t i = 0; i < keylen; ++i) {
        h = mix(h, i);
        key[i] = (uint8_t)(h >> 24);
    }
}
