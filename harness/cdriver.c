/* C side of the correspondence check.  Linked with /repo/src/*.c (current
 * working tree).  Reads one operation per line (see DESIGN.md "Case, result
 * and replay format"), calls the public API, prints one canonical result line
 * per operation including the log of every call the library made to an
 * injected function (with the oracle's answers, which the model side replays).
 *
 * usage: cdriver <cases> <results>
 */
#define _GNU_SOURCE
#include <polyseed.h>

#include <stdio.h>
#include <stdlib.h>
#include <string.h>
#include <stdint.h>
#include <time.h>
#include <ctype.h>

size_t oracle_nfc(const char* str, polyseed_str norm);
size_t oracle_nfkd(const char* str, polyseed_str norm);
void oracle_kdf(const uint8_t* pw, size_t pwlen, const uint8_t* salt, size_t saltlen,
    uint64_t iterations, uint8_t* key, size_t keylen);

void* __real_malloc(size_t n);
void __real_free(void* p);
time_t __real_time(time_t* t);

/* ---------------------------------------------------------------- logging */
static char* evbuf;
static size_t evlen, evcap;
static int in_lib;     /* inside a library call */
static int in_cb;      /* inside one of our callbacks */
static int quiet;      /* do not log (self-test of a debug build during inject) */

static void ev_raw(const char* s, size_t n) {
    if (evlen + n + 1 > evcap) {
        evcap = (evlen + n + 1) * 2;
        evbuf = realloc(evbuf, evcap);
    }
    memcpy(evbuf + evlen, s, n);
    evlen += n;
    evbuf[evlen] = 0;
}
static void ev_str(const char* s) { ev_raw(s, strlen(s)); }
static void ev_hex(const void* p, size_t n) {
    static const char* d = "0123456789abcdef";
    const uint8_t* b = p;
    for (size_t i = 0; i < n; ++i) {
        char c[2] = { d[b[i] >> 4], d[b[i] & 15] };
        ev_raw(c, 2);
    }
}
static void ev_num(unsigned long long v) {
    char t[32];
    snprintf(t, sizeof t, "%llu", v);
    ev_str(t);
}
static void ev_begin(const char* kind) {
    if (evlen) ev_str(",");
    ev_str(kind);
}

/* ------------------------------------------------------------ environment */
/* the table of blocks handed out since the last reset; it grows (a walk of the thorough tier can hold
   more live seeds than any fixed size) - a full table must never look like an allocation failure */
struct blk { void* p; size_t n; int live; };
static struct blk* blocks;
static int blocks_cap;
static int nblocks;
void* __real_malloc(size_t n);
void __real_free(void* p);
static void blocks_room(void) {
    if (nblocks < blocks_cap) return;
    int cap = blocks_cap ? 2 * blocks_cap : 4096;
    struct blk* nb = __real_malloc((size_t)cap * sizeof *nb);
    if (!nb) { fprintf(stderr, "driver: out of memory for the block table\n"); exit(3); }
    if (blocks) { memcpy(nb, blocks, (size_t)nblocks * sizeof *nb); __real_free(blocks); }
    blocks = nb;
    blocks_cap = cap;
}

static uint8_t cur_rand[64];
static size_t cur_rand_len;
static unsigned cur_rand_calls;   /* consultations of the random source since the op set its output */
static uint64_t cur_clock;
static int cur_alloc_ok = 1;
static char* stack_base;
static int scan_mode;
static int g_pending_ev;

static int find_block(const void* p) {
    for (int i = nblocks - 1; i >= 0; --i)
        if (blocks[i].live && (const char*)p >= (char*)blocks[i].p &&
            (const char*)p < (char*)blocks[i].p + blocks[i].n)
            return i;
    return -1;
}

static void* do_alloc(size_t n, const char* who) {
    in_cb++;
    void* p = NULL;
    if (cur_alloc_ok) {
        blocks_room();
        p = __real_malloc(n);
        memset(p, 0xCD, n);   /* fresh memory is never zero */
        blocks[nblocks].p = p;
        blocks[nblocks].n = n;
        blocks[nblocks].live = 1;
    }
    if (!quiet) {
        ev_begin("alloc:"); ev_str(who); ev_str(":"); ev_num(n); ev_str(":");
        if (p) ev_num(nblocks); else ev_str("null");
    }
    if (p) nblocks++;
    in_cb--;
    return p;
}

static void do_free(void* p, const char* who) {
    in_cb++;
    int b = -1;
    for (int i = nblocks - 1; i >= 0; --i)
        if (blocks[i].live && blocks[i].p == p) { b = i; break; }
    ev_begin("free:"); ev_str(who); ev_str(":");
    if (b < 0) {
        ev_str("unknown");
    } else {
        ev_num(b);
        const uint8_t* q = p;
        int dirty = 0;
        for (size_t i = 0; i < blocks[b].n; ++i) dirty |= q[i];
        if (dirty) ev_str(":dirty");
        blocks[b].live = 0;
        __real_free(p);
    }
    in_cb--;
}

static void* dep_alloc(size_t n) { return do_alloc(n, "i"); }
static void dep_free(void* p) { do_free(p, "i"); }
static void* dep_alloc1(size_t n) { return do_alloc(n, "i1"); }
static void dep_free1(void* p) { do_free(p, "i1"); }

void* __wrap_malloc(size_t n) {
    if (in_lib && !in_cb) return do_alloc(n, "l");
    return __real_malloc(n);
}
void __wrap_free(void* p) {
    if (in_lib && !in_cb) { do_free(p, "l"); return; }
    __real_free(p);
}
time_t __wrap_time(time_t* t) {
    if (in_lib && !in_cb) {
        if (!quiet) ev_begin("time:l");
        if (t) *t = (time_t)cur_clock;
        return (time_t)cur_clock;
    }
    return __real_time(t);
}

static uint64_t dep_time(void) {
    if (!quiet) ev_begin("time:i");
    return cur_clock;
}
static uint64_t dep_time1(void) {
    if (!quiet) ev_begin("time:i1");
    return cur_clock;
}

static void rand_t(void* result, size_t n, const char* kind) {
    in_cb++;
    ev_begin(kind); ev_num(n);
    uint8_t* r = result;
    /* the first consultation yields the op's bytes; a further one (the library is expected to make none)
       yields different bytes, so that a seed built from it is visibly not the first output */
    uint8_t x = cur_rand_calls ? (uint8_t)(0xA5 + cur_rand_calls) : 0;
    for (size_t i = 0; i < n; ++i) r[i] = (i < cur_rand_len ? cur_rand[i] : 0) ^ x;
    cur_rand_calls++;
    in_cb--;
}

static void dep_rand(void* result, size_t n) { rand_t(result, n, "rand:"); }
static void dep_rand1(void* result, size_t n) { rand_t(result, n, "rand1:"); }

static void kdf_t(const uint8_t* pw, size_t pwlen, const uint8_t* salt, size_t saltlen,
    uint64_t iterations, uint8_t* key, size_t keylen, const char* kind) {
    in_cb++;
    /* table 1 is a different function of the same arguments */
    oracle_kdf(pw, pwlen, salt, saltlen, iterations + (kind[3] == '1' ? 1000000 : 0), key, keylen);
    ev_begin(kind); ev_hex(pw, pwlen); ev_str(":"); ev_num(pwlen); ev_str(":");
    ev_hex(salt, saltlen); ev_str(":"); ev_num(saltlen); ev_str(":");
    ev_num(iterations); ev_str(":"); ev_num(keylen); ev_str(":"); ev_hex(key, keylen);
    in_cb--;
}

static void dep_kdf(const uint8_t* pw, size_t pwlen, const uint8_t* salt, size_t saltlen,
    uint64_t iterations, uint8_t* key, size_t keylen) {
    kdf_t(pw, pwlen, salt, saltlen, iterations, key, keylen, "kdf:");
}
static void dep_kdf1(const uint8_t* pw, size_t pwlen, const uint8_t* salt, size_t saltlen,
    uint64_t iterations, uint8_t* key, size_t keylen) {
    kdf_t(pw, pwlen, salt, saltlen, iterations, key, keylen, "kdf1:");
}

static void memzero_t(void* const ptr, const size_t len, const char* kind) {
    in_cb++;
    volatile uint8_t* p = ptr;
    for (size_t i = 0; i < len; ++i) p[i] = 0;
    if (!quiet) {
        ev_begin(kind);
        int b = find_block(ptr);
        char here;
        if (b >= 0) {
            ev_str("seed"); ev_num(b);
            if (ptr != blocks[b].p || len != blocks[b].n) ev_str("part");
        } else if ((char*)ptr >= &here && (char*)ptr < stack_base) {
            ev_str("stack");
        } else {
            ev_str("other");
        }
        ev_str(":"); ev_num(len);
    }
    in_cb--;
}

static void dep_memzero(void* const ptr, const size_t len) { memzero_t(ptr, len, "wipe:"); }
static void dep_memzero1(void* const ptr, const size_t len) { memzero_t(ptr, len, "wipe1:"); }

static size_t nfc_t(const char* str, char* norm, const char* kind) {
    in_cb++;
    size_t n = oracle_nfc(str, norm);
    if (!quiet) {
        ev_begin(kind); ev_hex(str, strlen(str)); ev_str(":"); ev_hex(norm, strlen(norm));
        ev_str(":"); ev_num(n);
    }
    in_cb--;
    return n;
}
static size_t dep_nfc(const char* str, polyseed_str norm) { return nfc_t(str, norm, "nfc:"); }
static size_t dep_nfc1(const char* str, polyseed_str norm) { return nfc_t(str, norm, "nfc1:"); }

static size_t nfkd_t(const char* str, char* norm, const char* kind) {
    in_cb++;
    size_t n = oracle_nfkd(str, norm);
    if (!quiet) {
        ev_begin(kind); ev_hex(str, strlen(str)); ev_str(":"); ev_hex(norm, strlen(norm));
        ev_str(":"); ev_num(n);
    }
    in_cb--;
    return n;
}

static size_t dep_nfkd(const char* str, polyseed_str norm) { return nfkd_t(str, norm, "nfkd:"); }
static size_t dep_nfkd1(const char* str, polyseed_str norm) { return nfkd_t(str, norm, "nfkd1:"); }

/* ------------------------------------------------------------- frame mode */
#ifdef FRAME_MODE
/* The library is linked as libpsframe.so.  Outside set-up operations its
   writable segments are made read-only, so any write to static storage faults
   at the writing instruction. */
#include <sys/mman.h>
#include <signal.h>
#include <unistd.h>
static struct { uintptr_t lo, hi; } segs[16];
static int nsegs;
static void find_segs(void) {
    FILE* f = fopen("/proc/self/maps", "r");
    char l[512];
    uintptr_t last_hi = 0;
    nsegs = 0;
    while (f && fgets(l, sizeof l, f)) {
        uintptr_t lo, hi; char perms[8];
        if (sscanf(l, "%lx-%lx %7s", &lo, &hi, perms) != 3) continue;
        int named = strstr(l, "libpsframe.so") != NULL;
        int anon_after = !strchr(l, '/') && !strchr(l, '[') && lo == last_hi && last_hi != 0;
        if (perms[1] == 'w' && (named || anon_after) && nsegs < 16) {
            segs[nsegs].lo = lo; segs[nsegs].hi = hi; nsegs++;
            last_hi = hi;
        } else if (named) {
            last_hi = 0;
        } else {
            last_hi = 0;
        }
    }
    if (f) fclose(f);
}
static void protect(int ro) {
    for (int i = 0; i < nsegs; ++i)
        mprotect((void*)segs[i].lo, segs[i].hi - segs[i].lo, ro ? PROT_READ : (PROT_READ | PROT_WRITE));
}
static void on_segv(int sig, siginfo_t* si, void* u) {
    char msg[160];
    int n = snprintf(msg, sizeof msg, "STATIC-WRITE: fault at address %p (library static storage is read-only outside set-up)\n", si->si_addr);
    (void)!write(2, msg, n);
    _exit(3);
}
static void frame_init(void) {
    find_segs();
    struct sigaction sa;
    memset(&sa, 0, sizeof sa);
    sa.sa_sigaction = on_segv;
    sa.sa_flags = SA_SIGINFO;
    sigaction(SIGSEGV, &sa, NULL);
    protect(1);
}
#define FRAME_SETUP_BEGIN() protect(0)
#define FRAME_SETUP_END() protect(1)
#else
#define FRAME_SETUP_BEGIN() ((void)0)
#define FRAME_SETUP_END() ((void)0)
static void frame_init(void) {}
#endif

/* ----------------------------------------------------------------- parsing */
static char* field(char* line, const char* key) {
    size_t kl = strlen(key);
    char* p = line;
    while ((p = strstr(p, key)) != NULL) {
        if ((p == line || p[-1] == ' ') && p[kl] == '=') return p + kl + 1;
        p += kl;
    }
    return NULL;
}
static unsigned long long fnum(char* line, const char* key, unsigned long long dflt) {
    char* v = field(line, key);
    return v ? strtoull(v, NULL, 10) : dflt;
}
static int hexval(int c) { return c <= '9' ? c - '0' : (c | 32) - 'a' + 10; }
/* returns malloc'ed exact-size buffer (+1 NUL if cstr) */
static uint8_t* fhex(char* line, const char* key, size_t* len, int cstr) {
    char* v = field(line, key);
    size_t n = 0;
    if (v) while (isxdigit((unsigned char)v[2 * n]) && isxdigit((unsigned char)v[2 * n + 1])) n++;
    uint8_t* b = __real_malloc(n + (cstr ? 1 : 0) + (n + cstr == 0));
    for (size_t i = 0; i < n; ++i) b[i] = hexval(v[2 * i]) * 16 + hexval(v[2 * i + 1]);
    if (cstr) b[n] = 0;
    *len = n;
    return b;
}

static polyseed_data* seed_of(char* line) {
    unsigned long long h = fnum(line, "h", 0);
    if (h < (unsigned long long)nblocks && blocks[h].live) return blocks[h].p;
    return NULL;
}

static void do_inject(int tag, int tnull, int anull, int fnull) {
    polyseed_dependency d;
    memset(&d, 0, sizeof d);
    d.randbytes = tag ? dep_rand1 : dep_rand;
    d.pbkdf2_sha256 = tag ? dep_kdf1 : dep_kdf;
    d.memzero = tag ? dep_memzero1 : dep_memzero;
    d.u8_nfc = tag ? dep_nfc1 : dep_nfc;
    d.u8_nfkd = tag ? dep_nfkd1 : dep_nfkd;
    d.time = tnull ? NULL : tag ? dep_time1 : dep_time;
    d.alloc = anull ? NULL : tag ? dep_alloc1 : dep_alloc;
    d.free = fnull ? NULL : tag ? dep_free1 : dep_free;
    quiet = 1; in_lib = 1;
    polyseed_inject(&d);
    in_lib = 0; quiet = 0;
    /* the caller's struct is overwritten after injection */
    memset(&d, 0x5A, sizeof d);
}

static FILE* g_out;
static long g_lineno;
static char* g_leak;       /* scan mode: text appended to the result line */

/* one operation line -> one result line (without the trailing newline in scan mode) */
/* scan mode: the operation runs on a private stack; right after the library
   call returns it yields to the main context, which scans the dead part of that
   stack before anything else can overwrite it */
#include <ucontext.h>
static ucontext_t ctx_main, ctx_op;
static volatile int op_paused;
#define AFTER_LIB() do { in_lib = 0; if (scan_mode) { op_paused = 1; swapcontext(&ctx_op, &ctx_main); } } while (0)

static void process(char* line) {
    evlen = 0; evbuf[0] = 0;
    cur_alloc_ok = (int)fnum(line, "ok", 1);
    cur_clock = fnum(line, "clock", 0);
    char res[64] = "unit";
    char* big = NULL;       /* large result */
    fprintf(g_out, "%ld ", g_lineno);
    fflush(g_out);            /* so that a crash shows where it happened */

    if (!strncmp(line, "reset", 5)) {
        for (int i = 0; i < nblocks; ++i)
            if (blocks[i].live) { __real_free(blocks[i].p); blocks[i].live = 0; }
        nblocks = 0;
        FRAME_SETUP_BEGIN();
        do_inject(0, 0, 0, 0);
        polyseed_enable_features(0);
        FRAME_SETUP_END();
    }
    else if (!strncmp(line, "inject", 6)) {
        FRAME_SETUP_BEGIN();
        do_inject((int)fnum(line, "tag", 0), (int)fnum(line, "tnull", 0),
            (int)fnum(line, "anull", 0), (int)fnum(line, "fnull", 0));
        FRAME_SETUP_END();
    }
    else if (!strncmp(line, "enable", 6)) {
        in_lib = 1;
        FRAME_SETUP_BEGIN();
        int n = polyseed_enable_features((unsigned)fnum(line, "mask", 0));
        FRAME_SETUP_END();
        AFTER_LIB();
        snprintf(res, sizeof res, "num=%d", n);
    }
    else if (!strncmp(line, "create", 6)) {
        size_t rl; uint8_t* r = fhex(line, "rand", &rl, 0);
        cur_rand_len = rl < sizeof cur_rand ? rl : sizeof cur_rand;
        cur_rand_calls = 0;
        memcpy(cur_rand, r, cur_rand_len);
        polyseed_data* seed = NULL;
        in_lib = 1;
        polyseed_status st = polyseed_create((unsigned)fnum(line, "feat", 0), &seed);
        AFTER_LIB();
        int b = (st == POLYSEED_OK) ? find_block(seed) : -1;
        if (b >= 0) snprintf(res, sizeof res, "st=%d seed=%d lang=-", st, b);
        else snprintf(res, sizeof res, "st=%d seed=- lang=-", st);
        __real_free(r);
    }
    else if (!strncmp(line, "load", 4)) {
        size_t bl; uint8_t* b = fhex(line, "buf", &bl, 0);
        uint8_t* copy = __real_malloc(bl + 1); memcpy(copy, b, bl);
        polyseed_data* seed = NULL;
        in_lib = 1;
        polyseed_status st = polyseed_load(b, &seed);
        AFTER_LIB();
        int id = (st == POLYSEED_OK) ? find_block(seed) : -1;
        if (id >= 0) snprintf(res, sizeof res, "st=%d seed=%d lang=-", st, id);
        else snprintf(res, sizeof res, "st=%d seed=- lang=-", st);
        if (memcmp(copy, b, bl)) strcat(res, " inmod=1");
        __real_free(b); __real_free(copy);
    }
    else if (!strncmp(line, "decodex", 7) || !strncmp(line, "decode", 6)) {
        int explicit = !strncmp(line, "decodex", 7);
        size_t sl; char* s = (char*)fhex(line, "str", &sl, 1);
        char* copy = __real_malloc(sl + 1); memcpy(copy, s, sl + 1);
        polyseed_data* seed = NULL;
        const polyseed_lang* lang = NULL;
        polyseed_coin coin = (polyseed_coin)fnum(line, "coin", 0);
        int wantlang = (int)fnum(line, "wantlang", 1);
        polyseed_status st;
        in_lib = 1;
        if (explicit)
            st = polyseed_decode_explicit(s, coin, polyseed_get_lang((int)fnum(line, "lang", 0)), &seed);
        else
            st = polyseed_decode(s, coin, wantlang ? &lang : NULL, &seed);
        AFTER_LIB();
        int id = (st == POLYSEED_OK) ? find_block(seed) : -1;
        int li = -1;
        if (st == POLYSEED_OK && lang)
            for (int i = 0; i < polyseed_get_num_langs(); ++i)
                if (polyseed_get_lang(i) == lang) li = i;
        char t1[16] = "-", t2[16] = "-";
        if (id >= 0) snprintf(t1, sizeof t1, "%d", id);
        if (li >= 0) snprintf(t2, sizeof t2, "%d", li);
        snprintf(res, sizeof res, "st=%d seed=%s lang=%s", st, t1, t2);
        if (memcmp(copy, s, sl + 1)) strcat(res, " inmod=1");
        __real_free(s); __real_free(copy);
    }
    else if (!strncmp(line, "encode", 6)) {
        polyseed_data* seed = seed_of(line);
        if (!seed) { fprintf(g_out, "badhandle\n"); return; }
        char* so = __real_malloc(sizeof(polyseed_str));   /* heap: ASan guards the caller's buffer */
        memset(so, 0x7E, sizeof(polyseed_str));
        in_lib = 1;
        size_t n = polyseed_encode(seed, polyseed_get_lang((int)fnum(line, "lang", 0)),
            (polyseed_coin)fnum(line, "coin", 0), so);
        AFTER_LIB();
        size_t sl = strnlen(so, sizeof(polyseed_str));
        big = __real_malloc(2 * sl + 64);
        char* q = big + sprintf(big, "str=");
        for (size_t i = 0; i < sl; ++i) q += sprintf(q, "%02x", (uint8_t)so[i]);
        sprintf(q, " n=%zu", n);
        __real_free(so);
    }
    else if (!strncmp(line, "store", 5)) {
        polyseed_data* seed = seed_of(line);
        if (!seed) { fprintf(g_out, "badhandle\n"); return; }
        uint8_t* st = __real_malloc(POLYSEED_SIZE);
        memset(st, 0x7E, POLYSEED_SIZE);
        in_lib = 1;
        polyseed_store(seed, st);
        AFTER_LIB();
        big = __real_malloc(2 * POLYSEED_SIZE + 16);
        char* q = big + sprintf(big, "bytes=");
        for (size_t i = 0; i < POLYSEED_SIZE; ++i) q += sprintf(q, "%02x", st[i]);
        __real_free(st);
    }
    else if (!strncmp(line, "crypt", 5)) {
        polyseed_data* seed = seed_of(line);
        if (!seed) { fprintf(g_out, "badhandle\n"); return; }
        size_t sl; char* s = (char*)fhex(line, "pw", &sl, 1);
        char* copy = __real_malloc(sl + 1); memcpy(copy, s, sl + 1);
        in_lib = 1;
        polyseed_crypt(seed, s);
        AFTER_LIB();
        if (memcmp(copy, s, sl + 1)) strcpy(res, "unit inmod=1");
        __real_free(s); __real_free(copy);
    }
    else if (!strncmp(line, "keygen", 6)) {
        polyseed_data* seed = seed_of(line);
        if (!seed) { fprintf(g_out, "badhandle\n"); return; }
        size_t ks = (size_t)fnum(line, "size", 32);
        uint8_t* key = __real_malloc(ks + 1);
        memset(key, 0x7E, ks);
        in_lib = 1;
        polyseed_keygen(seed, (polyseed_coin)fnum(line, "coin", 0), ks, key);
        AFTER_LIB();
        big = __real_malloc(2 * ks + 16);
        char* q = big + sprintf(big, "bytes=");
        for (size_t i = 0; i < ks; ++i) q += sprintf(q, "%02x", key[i]);
        __real_free(key);
    }
    else if (!strncmp(line, "birthday", 8)) {
        polyseed_data* seed = seed_of(line);
        if (!seed) { fprintf(g_out, "badhandle\n"); return; }
        in_lib = 1;
        uint64_t b = polyseed_get_birthday(seed);
        AFTER_LIB();
        snprintf(res, sizeof res, "num=%llu", (unsigned long long)b);
    }
    else if (!strncmp(line, "feature", 7)) {
        polyseed_data* seed = seed_of(line);
        if (!seed) { fprintf(g_out, "badhandle\n"); return; }
        in_lib = 1;
        unsigned f = polyseed_get_feature(seed, (unsigned)fnum(line, "mask", 0));
        AFTER_LIB();
        snprintf(res, sizeof res, "num=%u", f);
    }
    else if (!strncmp(line, "isenc", 5)) {
        polyseed_data* seed = seed_of(line);
        if (!seed) { fprintf(g_out, "badhandle\n"); return; }
        in_lib = 1;
        int e = polyseed_is_encrypted(seed);
        AFTER_LIB();
        snprintf(res, sizeof res, "num=%d", e);
    }
    else if (!strncmp(line, "freenull", 8)) {
        in_lib = 1;
        polyseed_free(NULL);
        AFTER_LIB();
    }
    else if (!strncmp(line, "free", 4)) {
        polyseed_data* seed = seed_of(line);
        if (!seed) { fprintf(g_out, "badhandle\n"); return; }
        in_lib = 1;
        polyseed_free(seed);
        AFTER_LIB();
    }
    else {
        fprintf(g_out, "unknown-op\n");
        return;
    }
    fprintf(g_out, "%s", big ? big : res);
    if (g_leak) g_leak = NULL;
    g_pending_ev = 1;
    if (big) __real_free(big);
}

/* ---- scan mode: run process() on a private, pre-patterned stack and look for
   the needles named in the op line (hex strings, comma separated) afterwards */
#define PSTACK (512 * 1024)
static char* pstack;
static char* p_line;
static void trampoline(void) { process(p_line); }

static void scan_needles(char* line, char* report, size_t cap) {
    report[0] = 0;
    char* v = field(line, "needles");
    if (!v) return;
    int idx = 0;
    while (*v && *v != ' ') {
        uint8_t nd[256]; size_t n = 0;
        while (isxdigit((unsigned char)v[0]) && isxdigit((unsigned char)v[1]) && n < sizeof nd) {
            nd[n++] = hexval(v[0]) * 16 + hexval(v[1]); v += 2;
        }
        if (n >= 4) {
            /* only the dead part: below the stack pointer the op context was suspended at */
            size_t live = (size_t)((char*)ctx_op.uc_mcontext.gregs[REG_RSP] - pstack);
            if (live > PSTACK) live = PSTACK;
            for (size_t off = 0; off + n <= live; ++off) {
                if (pstack[off] == (char)nd[0] && !memcmp(pstack + off, nd, n)) {
                    size_t l = strlen(report);
                    snprintf(report + l, cap - l, " leak=%d@%zu", idx, (size_t)(PSTACK - off));
                    if (getenv("SCAN_DEBUG")) {
                        size_t a = off > 160 ? off - 160 : 0;
                        fprintf(stderr, "needle %d at %zu below top: ", idx, (size_t)(PSTACK - off));
                        for (size_t q = a; q < off + 200 && q < PSTACK; ++q) {
                            unsigned char ch = pstack[q];
                            fputc(ch >= 32 && ch < 127 ? ch : (ch == 0xA5 ? '~' : '.'), stderr);
                        }
                        fputc('\n', stderr);
                    }
                    break;
                }
            }
        }
        idx++;
        if (*v == ',') v++; else break;
    }
}

int main(int argc, char** argv) {
    char base;
    stack_base = &base + 4096;
    if (argc < 3) { fprintf(stderr, "usage: cdriver cases results\n"); return 2; }
    FILE* in = fopen(argv[1], "r");
    FILE* out = fopen(argv[2], "w");
    if (!in || !out) { perror("open"); return 2; }
    size_t cap = 1 << 16;
    char* line = __real_malloc(cap);
    long lineno = 0;
    long skip_to = argc > 3 ? atol(argv[3]) : 0;   /* restart after a crash */
    evcap = 1 << 16; evbuf = __real_malloc(evcap);
    g_out = out;
    scan_mode = argc > 4 && !strcmp(argv[4], "scan");
    if (scan_mode) pstack = __real_malloc(PSTACK);
    do_inject(0, 0, 0, 0);
    polyseed_enable_features(0);
    frame_init();

    while (getline(&line, &cap, in) > 0) {
        lineno++;
        size_t ll = strlen(line);
        while (ll && (line[ll - 1] == '\n' || line[ll - 1] == '\r')) line[--ll] = 0;
        if (lineno < skip_to) continue;
        if (!ll || line[0] == '#') { fprintf(out, "%ld skip\n", lineno); continue; }
        p_line = line;
        g_lineno = lineno;
        g_pending_ev = 0;
        if (scan_mode && strncmp(line, "reset", 5) && strncmp(line, "inject", 6)) {
            memset(pstack, 0xA5, PSTACK);
            getcontext(&ctx_op);
            ctx_op.uc_stack.ss_sp = pstack;
            ctx_op.uc_stack.ss_size = PSTACK;
            ctx_op.uc_link = &ctx_main;
            makecontext(&ctx_op, trampoline, 0);
            stack_base = pstack + PSTACK;
            op_paused = 0;
            swapcontext(&ctx_main, &ctx_op);
            char report[1024];
            report[0] = 0;
            if (op_paused) {
                /* the library call has just returned: scan below the op's current stack pointer */
                scan_needles(line, report, sizeof report);
                op_paused = 0;
                swapcontext(&ctx_main, &ctx_op);
            }
            if (g_pending_ev) fprintf(out, "%s ev=%s\n", report, evbuf);
        } else {
            process(line);
            if (g_pending_ev) fprintf(out, " ev=%s\n", evbuf);
        }
    }
    FRAME_SETUP_BEGIN();   /* exit handlers of the shared object write to its data */
    fclose(out);
    return 0;
}
