"""Build, run and compare infrastructure of the polyseed verification checks.

Pipeline per check:  regenerate Gen/* from /repo  ->  make Properties_<id>.vo
->  extract + build the model driver  ->  build the C driver from /repo's
working tree  ->  run the property's suites on C, mirror model and abstract
spec  ->  verdict.  Everything lives under /verif/build (ignored by git)."""
import fcntl
import glob
import hashlib
import json
import os
import re
import shutil
import subprocess
import sys
import time

ROOT = os.path.dirname(os.path.dirname(os.path.abspath(__file__)))
REPO = os.environ.get("POLYSEED_REPO", "/repo")
BUILD = os.path.join(ROOT, "build")
COQ = os.path.join(ROOT, "coq")
GEN = os.path.join(COQ, "Gen")
GUARD = "POLYSEED_VERIF"
NCPU = os.cpu_count() or 4

os.makedirs(BUILD, exist_ok=True)


def log(*a):
    print("[check]", *a, file=sys.stderr, flush=True)


def sh(cmd, timeout=600, cwd=None, env=None, inp=None):
    """run a command, return (rc, combined output); rc 124 on timeout"""
    e = dict(os.environ)
    if env:
        e.update(env)
    try:
        p = subprocess.run(cmd, cwd=cwd, env=e, input=inp, stdout=subprocess.PIPE,
                           stderr=subprocess.STDOUT, timeout=timeout, shell=isinstance(cmd, str))
        return p.returncode, p.stdout.decode("utf-8", "replace")
    except subprocess.TimeoutExpired as ex:
        return 124, (ex.stdout or b"").decode("utf-8", "replace") + "\n[timeout]"


def file_hash(paths, extra=""):
    h = hashlib.sha256(extra.encode())
    for p in sorted(paths):
        h.update(p.encode())
        try:
            with open(p, "rb") as f:
                h.update(f.read())
        except OSError:
            h.update(b"<missing>")
    return h.hexdigest()


class Lock:
    def __init__(self, name="build"):
        self.path = os.path.join(BUILD, "." + name + ".lock")

    def __enter__(self):
        self.f = open(self.path, "w")
        fcntl.flock(self.f, fcntl.LOCK_EX)
        return self

    def __exit__(self, *a):
        fcntl.flock(self.f, fcntl.LOCK_UN)
        self.f.close()


# ------------------------------------------------------------------ sources
def repo_sources():
    """the sources the project itself builds (polyseed_sources of CMakeLists.txt)"""
    try:
        txt = open(os.path.join(REPO, "CMakeLists.txt")).read()
        m = re.search(r"set\s*\(\s*polyseed_sources(.*?)\)", txt, re.S)
        srcs = [os.path.join(REPO, s) for s in m.group(1).split()]
        srcs = [s for s in srcs if os.path.exists(s)]
        if srcs:
            return srcs
    except Exception:
        pass
    return sorted(glob.glob(os.path.join(REPO, "src", "*.c")))


def repo_inputs():
    return (repo_sources() + glob.glob(os.path.join(REPO, "src", "*.h"))
            + glob.glob(os.path.join(REPO, "include", "*.h")))


def source_literals(root=None):
    """integer and character literals of the library's own C text (word lists excluded)"""
    root = root or REPO
    vals = set()
    files = [f for f in glob.glob(os.path.join(root, "src", "*.[ch]")) + glob.glob(os.path.join(root, "include", "*.h"))
             if not os.path.basename(f).startswith("lang_")]
    for f in files:
        try:
            txt = open(f, errors="replace").read()
        except OSError:
            continue
        txt = re.sub(r"/\*.*?\*/", " ", txt, flags=re.S)
        txt = re.sub(r"//[^\n]*", " ", txt)
        for m in re.finditer(r"\b(0[xX][0-9a-fA-F]+|\d+)[uUlL]*\b", txt):
            try:
                vals.add(int(m.group(1), 0))
            except ValueError:
                try:
                    vals.add(int(m.group(1)))
                except ValueError:
                    pass
        for m in re.finditer(r"'(\\?.)'", txt):
            c = m.group(1)
            vals.add(ord(c[-1]))
        for m in re.finditer(r'"([^"\n]{1,40})"', txt):
            pass
    return vals


def new_source_literals():
    """literals present in the working tree and absent from the pinned release (harness/src_literals.json):
    where a change put a new constant into the code, the generators aim at it"""
    try:
        base = set(json.load(open(os.path.join(ROOT, "harness", "src_literals.json"))))
    except Exception:
        return []
    return sorted(v for v in source_literals() if v not in base and v < 2 ** 64)


INC = ["-iquote", os.path.join(REPO, "src"), "-I", os.path.join(REPO, "include"),
       "-DPOLYSEED_STATIC", "-D" + GUARD]

_stamp_cache = {}


def stamp_ok(name, h):
    p = os.path.join(BUILD, "stamp." + name)
    try:
        return open(p).read() == h
    except OSError:
        return False


def stamp_set(name, h):
    with open(os.path.join(BUILD, "stamp." + name), "w") as f:
        f.write(h)


# ------------------------------------------------------------- regeneration
def regenerate():
    """Gen/*.v from the current tree.  Returns dict(info)."""
    info = {"privconsts": "generated"}
    os.makedirs(GEN, exist_ok=True)
    h = file_hash(repo_inputs() + [os.path.join(ROOT, "tools", "dumpdata.c"),
                                   os.path.join(ROOT, "tools", "dumpconsts.c"),
                                   os.path.join(ROOT, "tools", "c2coq.py")])
    if stamp_ok("gen", h) and os.path.exists(os.path.join(GEN, "Langs.v")):
        try:
            info = json.load(open(os.path.join(BUILD, "gen.info")))
        except Exception:
            pass
        return info
    tmp = os.path.join(BUILD, "gen.tmp")
    shutil.rmtree(tmp, ignore_errors=True)
    os.makedirs(tmp)
    exe = os.path.join(BUILD, "dumpdata")
    rc, out = sh(["gcc", "-O1", "-w"] + INC + [os.path.join(ROOT, "tools", "dumpdata.c")]
                 + repo_sources() + ["-o", exe], timeout=300)
    if rc != 0:
        raise BuildError("translator (tools/dumpdata.c) does not compile against the tree", out)
    rc, out = sh([exe, tmp, "Gen"], timeout=60)
    if rc != 0:
        raise BuildError("translator failed to run", out)
    exe2 = os.path.join(BUILD, "dumpconsts")
    rc, out = sh(["gcc", "-O1", "-w"] + INC + [os.path.join(ROOT, "tools", "dumpconsts.c")]
                 + repo_sources() + ["-o", exe2], timeout=300)
    ok2 = False
    if rc == 0:
        rc, out = sh([exe2, os.path.join(tmp, "PrivConsts.v")], timeout=60)
        ok2 = rc == 0
    if not ok2:
        # private macros renamed: use the committed copy of the pinned values
        shutil.copy(os.path.join(COQ, "Ref", "PrivConsts.v"), os.path.join(tmp, "PrivConsts.v"))
        info["privconsts"] = "fallback to Ref/PrivConsts.v (tools/dumpconsts.c no longer compiles)"
    # logic translator: leaf functions of gf.h/gf.c/birthday.h/features.[ch] as Gallina (clang's AST as parser)
    rc, out = sh([sys.executable, os.path.join(ROOT, "tools", "c2coq.py"), REPO, os.path.join(tmp, "CFuns.v")], timeout=300)
    try:
        info["c2coq"] = json.loads(out.strip().split("\n")[-1]) if rc == 0 else "failed: " + out[-500:]
    except Exception:
        info["c2coq"] = "failed: " + out[-500:]
    if not os.path.exists(os.path.join(tmp, "CFuns.v")):
        open(os.path.join(tmp, "CFuns.v"), "w").write("(* c2coq failed on this tree: %s *)\n" % out[-300:].replace("*)", "* )"))
    # remove stale W*.v (registry shrank)
    new = set(os.listdir(tmp))
    for f in os.listdir(GEN):
        if (f.endswith(".v") or f.endswith(".json")) and f not in new:
            for g in glob.glob(os.path.join(GEN, os.path.splitext(f)[0] + ".*")):
                os.remove(g)
    for f in new:
        src = os.path.join(tmp, f)
        dst = os.path.join(GEN, f)
        if not os.path.exists(dst) or open(src, "rb").read() != open(dst, "rb").read():
            shutil.copy(src, dst)
    shutil.rmtree(tmp, ignore_errors=True)
    validate_translated(info)
    json.dump(info, open(os.path.join(BUILD, "gen.info"), "w"))
    stamp_set("gen", h)
    return info


def validate_translated(info):
    """The translated files must compile, and quickly: an ill-typed definition (the translator met a construct
    it renders wrongly) can cost Coq minutes of elaboration before the error.  Each file is compiled under a
    time limit; if that fails, its definitions are kept one by one only while the file still compiles, and the
    ones dropped are named in the generation report (the ties that mention them then fail at once)."""
    for rel in ("Gen/Consts.v", "Gen/PrivConsts.v"):
        p0 = os.path.join(COQ, rel)
        if not (os.path.exists(p0 + "o") and os.path.getmtime(p0 + "o") >= os.path.getmtime(p0)):
            sh(["coqc", "-q", "-Q", ".", "PS", rel], cwd=COQ, timeout=120)
    for rel, limit in (("Gen/CFuns.v", 60), ("Gen/CApi.v", 60)):
        path = os.path.join(COQ, rel)
        if not os.path.exists(path):
            continue
        vo = path + "o"
        if os.path.exists(vo) and os.path.getmtime(vo) >= os.path.getmtime(path):
            continue                      # unchanged since it was last compiled
        rc, _out = sh(["coqc", "-q", "-Q", ".", "PS", rel], cwd=COQ, timeout=limit)
        if rc == 0:
            continue
        text = open(path).read()
        blocks = text.split("\n\n")
        kept = []
        dropped = []
        scratch_rel = rel.replace(".v", "Try.v")
        scratch = os.path.join(COQ, scratch_rel)
        for b in blocks:
            if not b.startswith("Definition "):
                kept.append(b)
                continue
            name = b.split()[1]
            open(scratch, "w").write("\n\n".join(kept + [b]) + "\n")
            rc, out = sh(["coqc", "-q", "-Q", ".", "PS", scratch_rel], cwd=COQ, timeout=30)
            if rc == 0:
                kept.append(b)
            else:
                why = "does not compile within 30 s" if rc == 124 else "does not typecheck: " + out.strip().split("\n")[-1][:160]
                kept.append("(* %s: DROPPED, the translation %s *)" % (name, why.replace("*)", "* )")))
                dropped.append(name)
                if isinstance(info.get("c2coq"), dict):
                    info["c2coq"][name] = "dropped: " + why
        for ext in (".v", ".vo", ".vok", ".vos", ".glob"):
            try:
                os.remove(scratch[:-2] + ext)
            except OSError:
                pass
        try:
            os.remove(os.path.join(COQ, "Gen", "." + os.path.basename(scratch)[:-2] + ".aux"))
        except OSError:
            pass
        open(path, "w").write("\n\n".join(kept) + "\n")
        sh(["coqc", "-q", "-Q", ".", "PS", rel], cwd=COQ, timeout=limit)


class BuildError(Exception):
    def __init__(self, what, out=""):
        super().__init__(what)
        self.what = what
        self.out = out


# ---------------------------------------------------------------------- coq
def coq_project():
    files = sorted(glob.glob(os.path.join(COQ, "*.v")) + glob.glob(os.path.join(COQ, "Gen", "*.v"))
                   + glob.glob(os.path.join(COQ, "Ref", "*.v")))
    files = [os.path.relpath(f, COQ) for f in files if os.path.basename(f) != "Extract.v"]
    txt = "-Q . PS\n" + "\n".join(files) + "\n"
    p = os.path.join(COQ, "_CoqProject")
    old = open(p).read() if os.path.exists(p) else ""
    if old != txt or not os.path.exists(os.path.join(COQ, "Makefile")):
        with open(p, "w") as f:
            f.write(txt)
        rc, out = sh(["coq_makefile", "-f", "_CoqProject", "-o", "Makefile"], cwd=COQ)
        if rc != 0:
            raise BuildError("coq_makefile failed", out)


def coq_make(targets, timeout=3000):
    """full .vo build of the targets (never -vos).  returns (ok, log)"""
    coq_project()
    # every file is compiled under its own time limit (the slowest takes about 80 s alone): a proof script that
    # no longer fits the generated code must fail, not search for an hour
    rc, out = sh(["make", "-k", "-j%d" % NCPU, "COQC=timeout %d coqc" % COQ_FILE_LIMIT] + targets, cwd=COQ, timeout=timeout,
                 env={"TIMED": ""})
    return rc == 0, out


COQ_FILE_LIMIT = 480


def coq_first_error(logtxt):
    """(file, line, message) of the first Coq error in a make log"""
    m = re.search(r'File "\./([^"]+)", line (\d+), characters [^\n]*\n(Error:.*?)(?:\n\n|\nmake|\Z)', logtxt, re.S)
    if m:
        return m.group(1), int(m.group(2)), m.group(3).strip()[:2000]
    t = re.search(r"\*\*\* \[[^\]]*?: ([A-Za-z0-9_/]+)\.vo\] Error 124", logtxt)
    if t:
        return t.group(1) + ".v", 0, "Error: the file does not compile within %d s (a proof no longer fits the generated code)" % COQ_FILE_LIMIT
    return None


def coq_errors(logtxt):
    """every (file, line, message) Coq error of a make log"""
    return [(m.group(1), int(m.group(2)), m.group(3).strip()[:2000]) for m in
            re.finditer(r'File "\./([^"]+)", line (\d+), characters [^\n]*\n(Error:.*?)(?:\n\n|\nmake|\Z)', logtxt, re.S)]


def enclosing_statement(vfile, line):
    """name of the Lemma/Theorem/Example/Definition enclosing a line"""
    try:
        lines = open(os.path.join(COQ, vfile)).read().split("\n")
    except OSError:
        return None
    for i in range(min(line, len(lines)) - 1, -1, -1):
        m = re.match(r"\s*(?:Local\s+|Global\s+)?(Lemma|Theorem|Example|Corollary|Fact|Definition|Fixpoint)\s+([A-Za-z0-9_']+)", lines[i])
        if m:
            return m.group(2)
    return None


FORBIDDEN = re.compile(r"\b(Admitted|admit|Axiom|Axioms|Parameter|Parameters|Conjecture|Hypothesis|Variable)\b|Unset\s+Guard|bypass_check|Admit\s+Obligations|-type-in-type|-impredicative-set")


def scan_forbidden():
    """textual scan of the whole development; Variable/Hypothesis are allowed inside Sections"""
    bad = []
    for f in sorted(glob.glob(os.path.join(COQ, "*.v")) + glob.glob(os.path.join(COQ, "Ref", "*.v"))):
        depth = 0
        txt = re.sub(r"\(\*.*?\*\)", lambda m: "\n" * m.group(0).count("\n"), open(f).read(), flags=re.S)
        for i, l in enumerate(txt.split("\n"), 1):
            if re.match(r"\s*Section\s", l):
                depth += 1
            if re.match(r"\s*End\s", l) and depth > 0:
                depth -= 1
            m = FORBIDDEN.search(l)
            if m:
                if m.group(1) in ("Variable", "Hypothesis") and depth > 0:
                    continue
                bad.append("%s:%d: %s" % (os.path.basename(f), i, l.strip()))
    return bad


def parse_assumptions(vofile_log):
    """from the output of compiling a Properties file: list of (what, text)"""
    res = []
    for m in re.finditer(r"(Closed under the global context|Axioms:\n(?:.+\n?)+?)(?=\n\S|\Z)", vofile_log):
        res.append(m.group(1).strip())
    return res


# -------------------------------------------------------------------- model
DEFS = ["Base", "LangRec", "GFDefs", "PackDefs", "StoreDefs", "MiscDefs", "StrDefs", "LangDefs",
        "ApiDefs", "SpecDefs", "SpecApi"]


def build_model():
    srcs = [os.path.join(COQ, d + ".v") for d in DEFS] + [os.path.join(COQ, "Extract.v"),
                                                         os.path.join(ROOT, "harness", "mdriver.ml")]
    srcs += glob.glob(os.path.join(GEN, "*.v"))
    h = file_hash(srcs)
    exe = os.path.join(BUILD, "mdriver")
    if stamp_ok("model", h) and os.path.exists(exe):
        return exe
    ok, out = coq_make([d + ".vo" for d in DEFS] + ["Gen/Langs.vo", "Gen/Consts.vo", "Gen/PrivConsts.vo"])
    if not ok:
        raise BuildError("model definitions do not compile", out)
    ml = os.path.join(BUILD, "ml")
    os.makedirs(ml, exist_ok=True)
    rc, out = sh(["coqc", "-Q", COQ, "PS", os.path.join(COQ, "Extract.v"), "-o",
                  os.path.join(ml, "Extract.vo")], cwd=ml, timeout=600)
    if rc != 0:
        raise BuildError("extraction failed", out)
    shutil.copy(os.path.join(ROOT, "harness", "mdriver.ml"), ml)
    rc, out = sh(["ocamlfind", "ocamlopt", "-w", "-a", "-O2", "model.mli", "model.ml", "mdriver.ml",
                  "-o", exe], cwd=ml, timeout=600)
    if rc != 0:
        raise BuildError("ocaml build of the extracted model failed", out)
    stamp_set("model", h)
    return exe


# ----------------------------------------------------------------- C driver
VARIANTS = {
    "asan": ["gcc", "-O1", "-g", "-fsanitize=address,undefined", "-fno-sanitize-recover=all", "-DNDEBUG"],
    "asan_schar": ["gcc", "-O1", "-g", "-fsanitize=address,undefined", "-fno-sanitize-recover=all", "-DNDEBUG", "-fsigned-char"],
    "asan_uchar": ["gcc", "-O1", "-g", "-fsanitize=address,undefined", "-fno-sanitize-recover=all", "-DNDEBUG", "-funsigned-char"],
    "o2": ["gcc", "-O2", "-DNDEBUG"],
    "o0": ["gcc", "-O0", "-g", "-DNDEBUG"],
    "o3": ["gcc", "-O3", "-DNDEBUG"],
    "dbg": ["gcc", "-O0", "-g", "-fsanitize=address,undefined", "-fno-sanitize-recover=all"],
    "clang": ["clang", "-O2", "-g", "-fsanitize=address,undefined", "-fno-sanitize-recover=all", "-DNDEBUG"],
}


def build_cdriver(variant="asan"):
    if variant == "frame":
        return os.path.join(BUILD, "cdriver.frame")   # built by extras.build_frame_driver
    flags = VARIANTS[variant]
    hsrc = [os.path.join(ROOT, "harness", "cdriver.c"), os.path.join(ROOT, "harness", "oracle.c")]
    h = file_hash(repo_inputs() + hsrc, " ".join(flags))
    exe = os.path.join(BUILD, "cdriver." + variant)
    if stamp_ok("cdriver." + variant, h) and os.path.exists(exe):
        return exe
    cmd = flags + ["-w"] + INC + hsrc + repo_sources() + [
        "-lutf8proc", "-Wl,--wrap=malloc,--wrap=free,--wrap=time", "-Wl,-z,now", "-o", exe]
    # -z now: no lazy PLT resolution (the resolver spills all vector registers, stale
    # driver data included, onto the stack under test and would pollute the dead-stack scan)
    rc, out = sh(cmd, timeout=600)
    if rc != 0:
        raise BuildError("C driver (%s) does not build against the tree" % variant, out)
    stamp_set("cdriver." + variant, h)
    return exe


# ------------------------------------------------------------------ running
class RunResult:
    def __init__(self):
        self.cases = []      # the op lines
        self.c = []          # C result lines (without line number), None if not reached
        self.m = []          # mirror model
        self.s = []          # abstract spec
        self.crashes = []    # (lineno (1-based), stderr text)


def _read_results(path, n):
    res = [None] * n
    try:
        for l in open(path, errors="replace"):
            l = l.rstrip("\n")
            sp = l.find(" ")
            if sp < 0:
                continue
            try:
                k = int(l[:sp])
            except ValueError:
                continue
            if 1 <= k <= n:
                res[k - 1] = l[sp + 1:]
    except OSError:
        pass
    return res


_run_counter = [0]


def run_cases(lines, variant="asan", sgn=None, per_case_timeout=120, keep=None, mode=None, with_model=True):
    """run op lines (split at `reset` boundaries into parallel chunks)"""
    from concurrent.futures import ThreadPoolExecutor
    n = len(lines)
    starts = [i for i, l in enumerate(lines) if l.startswith("reset")]
    if not starts or starts[0] != 0:
        starts = [0] + starts
    target = max(60, n // NCPU + 1)
    bounds = [0]
    for s0 in starts:
        if s0 - bounds[-1] >= target:
            bounds.append(s0)
    bounds.append(n)
    chunks = [(bounds[i], bounds[i + 1]) for i in range(len(bounds) - 1) if bounds[i + 1] > bounds[i]]
    build_cdriver(variant)
    if len(chunks) <= 1:
        return run_cases_1(lines, variant, sgn, per_case_timeout, keep, mode, with_model)
    with ThreadPoolExecutor(max_workers=NCPU) as ex:
        parts = list(ex.map(lambda ab: run_cases_1(lines[ab[0]:ab[1]], variant, sgn, per_case_timeout, keep, mode, with_model), chunks))
    rr = RunResult()
    rr.cases = lines
    for (a, b), pr in zip(chunks, parts):
        rr.c += pr.c
        rr.m += pr.m
        rr.s += pr.s
        rr.crashes += [(ln + a, txt) for (ln, txt) in pr.crashes]
    return rr


_run_lock = __import__("threading").Lock()


def run_cases_1(lines, variant="asan", sgn=None, per_case_timeout=120, keep=None, mode=None, with_model=True):
    """run op lines on the C driver (restarting after a crash at the next
    `reset`), then on the model driver.  sgn: force model signedness."""
    cexe = os.path.join(BUILD, "cdriver." + variant)
    mexe = os.path.join(BUILD, "mdriver")
    with _run_lock:
        _run_counter[0] += 1
        d = os.path.join(BUILD, "run", "%d.%d" % (os.getpid(), _run_counter[0]))
    os.makedirs(d, exist_ok=True)
    cf = os.path.join(d, "cases.txt")
    with open(cf, "w") as f:
        f.write("\n".join(lines) + "\n")
    n = len(lines)
    rr = RunResult()
    rr.cases = lines
    cres = [None] * n
    start = 1
    env = {"ASAN_OPTIONS": "detect_leaks=0:abort_on_error=0:allocator_may_return_null=1",
           "UBSAN_OPTIONS": "print_stacktrace=1"}
    attempts = 0
    while start <= n and attempts < 200:
        attempts += 1
        rf = os.path.join(d, "c.%d.txt" % attempts)
        rc, out = sh([cexe, cf, rf, str(start)] + ([mode] if mode else []), timeout=max(per_case_timeout, 60 + n // 50), env=env)
        part = _read_results(rf, n)
        last = 0
        for i in range(n):
            if part[i] is not None and i + 1 >= start:
                cres[i] = part[i]
                last = i + 1
        if rc == 0:
            break
        # crashed / timed out at line `last` (printed line number but no result)
        crash_line = last if last >= start else start
        if cres[crash_line - 1] is not None and cres[crash_line - 1].strip() != "":
            crash_line = min(crash_line + 1, n)
        cres[crash_line - 1] = "CRASH"
        rr.crashes.append((crash_line, ("timeout" if rc == 124 else "exit %d" % rc) + "\n" + out[-6000:]))
        # resume from the next reset after the crash
        nxt = None
        for i in range(crash_line, n):
            if lines[i].startswith("reset"):
                nxt = i + 1
                break
        if nxt is None:
            break
        start = nxt
    # complete C file for the model driver
    cfull = os.path.join(d, "c.txt")
    with open(cfull, "w") as f:
        for i in range(n):
            f.write("%d %s\n" % (i + 1, cres[i] if cres[i] is not None else "NOTRUN"))
    rr.c = cres
    if not with_model:
        rr.m = [None] * n
        rr.s = [None] * n
        if keep is None:
            shutil.rmtree(d, ignore_errors=True)
        return rr
    mf = os.path.join(d, "m.txt")
    sf = os.path.join(d, "s.txt")
    cmd = [mexe, cf, cfull, mf, sf]
    if sgn is not None:
        cmd.append("1" if sgn else "0")
    rc, out = sh(cmd, timeout=max(600, n // 5))
    if rc != 0:
        raise BuildError("model driver failed", out)
    rr.c = cres
    rr.m = _read_results(mf, n)
    rr.s = _read_results(sf, n)
    if keep is None:
        shutil.rmtree(d, ignore_errors=True)
    return rr


# ---------------------------------------------------------------- comparing
def split_line(l):
    """'res tokens ev=e1,e2 [miss=..]' -> (res string, [events], miss)"""
    if l is None:
        return None, [], None
    miss = None
    m = re.search(r" miss=(\S+)", l)
    if m:
        miss = m.group(1)
        l = l[:m.start()] + l[m.end():]
    i = l.find(" ev=")
    if i < 0:
        return l.strip(), [], miss
    evs = l[i + 4:].strip()
    return l[:i].strip(), [e for e in evs.split(",") if e], miss


def canon_c_event(e):
    """strip the oracle's answers from a C-side event"""
    f = e.split(":")
    k = f[0]
    if k.startswith("nf"):
        return ":".join(f[:2])
    if k.startswith("kdf"):
        return ":".join(f[:7])
    return e


def compare_line(case, cl, ml):
    """mirror vs implementation; returns None or a text describing the difference"""
    if cl is None or cl == "NOTRUN":
        return None
    if cl == "CRASH":
        return "implementation crashed / sanitizer report / timeout"
    if cl in ("badhandle", "unknown-op", "skip"):
        return None
    cres, cev, _ = split_line(cl)
    mres, mev, miss = split_line(ml)
    if "inmod=1" in cres:
        return "implementation modified its input"
    if mres != cres:
        return "result differs: impl `%s` model `%s`" % (cres[:300], (mres or "")[:300])
    if miss:
        return "model asked the oracle for arguments the implementation never passed: " + miss[:300]
    cev = [canon_c_event(e) for e in cev]
    c_other = sorted(e for e in cev if not e.startswith("wipe"))
    m_other = sorted(e for e in mev if not e.startswith("wipe"))
    if c_other != m_other:
        return "calls to injected functions differ: impl %s model %s" % (c_other[:12], m_other[:12])
    # order: a block's wipe precedes its free (the C driver also checks content)
    for e in cev:
        if e.endswith(":dirty"):
            return "block handed to free() without being wiped: " + e
        if e.endswith(":unknown"):
            return "free() of a pointer that did not come from the allocator: " + e
    # wipe coverage: every wipe the model requires is present (extra wipes are fine)
    cw = [":".join(e.split(":")[:3]) for e in cev if e.startswith("wipe")]
    for e in mev:
        if e.startswith("wipe"):
            key = ":".join(e.split(":")[:3])
            if key in cw:
                cw.remove(key)
            else:
                return "missing wipe: model requires %s, impl wiped %s" % (e, [x for x in cev if x.startswith("wipe")])
    # seed blocks: exact
    for e in cw:
        if ":seed" in e and "part" in e:
            return "partial wipe of a seed block: " + e
    return None


def compare_spec(case, cl, sl):
    """abstract spec vs implementation: outputs only"""
    if cl is None or cl in ("NOTRUN", "badhandle", "unknown-op", "skip"):
        return None
    if cl == "CRASH":
        return "implementation crashed / sanitizer report / timeout"
    cres, _, _ = split_line(cl)
    sres, _, miss = split_line(sl)
    cres = cres.replace(" inmod=1", "")
    if sres != cres:
        return "output differs from the abstract model: impl `%s` spec `%s`" % (cres[:300], (sres or "")[:300])
    if miss:
        return "abstract model needs oracle arguments the implementation never passed: " + miss[:300]
    return None


def sequences(lines):
    """split op lines into (start index, [lines]) sequences at `reset`"""
    seqs = []
    cur = None
    for i, l in enumerate(lines):
        if l.startswith("reset") or cur is None:
            cur = [i, []]
            seqs.append(cur)
        cur[1].append(l)
    return seqs


def enclosing_sequence(lines, idx):
    """the op lines from the last reset up to and including line idx"""
    s = idx
    while s > 0 and not lines[s].startswith("reset"):
        s -= 1
    return lines[s:idx + 1]
