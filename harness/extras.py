"""Property-specific extra checks and searches: x_<name>(outcome, ctx).
They evaluate the property's own predicate directly on the implementation
(transcripts of the C driver, special builds) and add concrete failures to
outcome.direct; they never use the mirror model as the expected value."""
import json
import os
import re
import unicodedata

from . import core, suites, pyspec as P
from .core import ROOT, BUILD, COQ, GEN, log


def _events(c):
    if not c or c in ("CRASH", "NOTRUN", "skip", "badhandle", "unknown-op"):
        return None, []
    res, ev, _ = core.split_line(c)
    return res, ev


# ------------------------------------------------------------------ C15
def x_ledger(o, cx):
    """allocation ledger evaluated on the implementation's own call log"""
    n = 0
    for (label, lines, rr) in o.runs:
        live = set()
        handles = set()
        for i, case in enumerate(lines):
            if case.startswith("reset"):
                live, handles = set(), set()
                continue
            res, ev = _events(rr.c[i])
            if res is None:
                continue
            op = case.split(" ", 1)[0]
            new = []
            bad = None
            for e in ev:
                f = e.split(":")
                if f[0] == "alloc" and f[3] != "null":
                    new.append(int(f[3]))
                    live.add(int(f[3]))
                elif f[0] == "free":
                    if f[2] == "unknown":
                        bad = "free() of a pointer that is not a live block of the injected allocator (foreign or double free)"
                    else:
                        b = int(f[2])
                        if b not in live:
                            bad = "block %d freed twice" % b
                        live.discard(b)
            m = re.match(r"st=(\d+) seed=(\S+)", res)
            if m:
                st, sd = int(m.group(1)), m.group(2)
                if st == 0 and sd != "-":
                    handles.add(int(sd))
                if st != 0 and sd != "-":
                    bad = "a failing call returned a seed"
                if "ok=0" in case.split() and any(e.startswith("alloc") for e in ev) and st != 6:
                    bad = "allocation failed but the status is %d, not POLYSEED_ERR_MEMORY" % st
                if st != 0:
                    leaked = [b for b in new if b in live]
                    if leaked:
                        bad = "failing call (status %d) left block(s) %s of the injected allocator unfreed" % (st, leaked)
            if op == "free":
                h = int(re.search(r"h=(\d+)", case).group(1))
                handles.discard(h)
                if h in live:
                    bad = "polyseed_free did not return the seed's block to the injected free"
            if op == "freenull" and ev:
                bad = "polyseed_free(NULL) called injected functions: %s" % ev
            if not bad and live != handles:
                bad = "live blocks %s differ from the seeds handed out and not yet freed %s" % (sorted(live), sorted(handles))
            n += 1
            if bad:
                o.direct.append(dict(kind="ledger", suite=label, seq=core.enclosing_sequence(lines, i), what=bad,
                                     impl=rr.c[i][:1500], expected="balanced ledger"))
                if len(o.direct) > 20:
                    return
                live, handles = set(handles), set(handles)
    o.stats["ledger"] = dict(ops=n, predicate="alloc/free pairing, no block live after a failing call, MEMORY status on allocation failure, evaluated on the implementation's call log")


# ------------------------------------------------------------------ C16
def x_freewipe(o, cx):
    """every block the implementation hands to the injected free was wiped in full through the injected
    memzero since it was last written, and the wipe is the event right before the free"""
    n = 0
    for (label, lines, rr) in o.runs:
        for i, case in enumerate(lines):
            res, ev = _events(rr.c[i])
            if res is None:
                continue
            bad = None
            for j, e in enumerate(ev):
                f = e.split(":")
                if f[0] != "free" or f[2] == "unknown":
                    continue
                n += 1
                if len(f) > 3 and f[3] == "dirty":
                    bad = "block %s reached the injected free with non-zero contents (not wiped)" % f[2]
                prev = ev[j - 1].split(":") if j > 0 else []
                if not (prev and prev[0].startswith("wipe") and prev[1] == "seed" + f[2]):
                    bad = bad or "free of block %s is not immediately preceded by a wipe of that seed" % f[2]
            if bad:
                o.direct.append(dict(kind="freewipe", suite=label, seq=core.enclosing_sequence(lines, i), what=bad,
                                     impl=rr.c[i][:1500], expected="wipe of the whole block, then free"))
                if len(o.direct) > 20:
                    return
    o.stats["freewipe"] = dict(frees=n, predicate="each free is preceded by a wipe of that block and the block is all-zero when the injected free receives it; evaluated on the implementation's call log")


# ------------------------------------------------------------------ C18
def x_libc(o, cx):
    """every call goes through the table injected last; libc exactly for NULL entries"""
    n = 0
    for (label, lines, rr) in o.runs:
        tab = dict(tag="", t=False, a=False, f=False)
        for i, case in enumerate(lines):
            if case.startswith("reset"):
                tab = dict(tag="", t=False, a=False, f=False)
                continue
            if case.startswith("inject"):
                g = lambda k: int(re.search(k + r"=(\d+)", case).group(1))
                tab = dict(tag="" if g("tag") == 0 else str(g("tag")), t=bool(g("tnull")), a=bool(g("anull")), f=bool(g("fnull")))
                continue
            res, ev = _events(rr.c[i])
            if res is None:
                continue
            bad = None
            for e in ev:
                f = e.split(":")
                k = f[0]
                if k == "alloc":
                    exp = "l" if tab["a"] else "i" + tab["tag"]
                    if f[1] != exp:
                        bad = "memory obtained through `%s`, expected `%s` (l = libc malloc, iN = injected table N)" % (f[1], exp)
                elif k == "free":
                    exp = "l" if tab["f"] else "i" + tab["tag"]
                    if f[1] != exp:
                        bad = "memory released through `%s`, expected `%s`" % (f[1], exp)
                elif k == "time":
                    exp = "l" if tab["t"] else "i" + tab["tag"]
                    if f[1] != exp:
                        bad = "clock read through `%s`, expected `%s`" % (f[1], exp)
                else:
                    m = re.match(r"(wipe|rand|kdf|nfc|nfkd)(\d*)$", k)
                    if m and m.group(2) != tab["tag"]:
                        bad = "%s called through table `%s`, expected the table injected last `%s`" % (m.group(1), m.group(2) or "0", tab["tag"] or "0")
            # the random source and the clock: consulted by polyseed_create only, once each, for 19 bytes
            rands = [e for e in ev if re.match(r"rand\d*:", e)]
            times = [e for e in ev if re.match(r"time:", e)]
            op = case.split(" ", 1)[0]
            if op == "create":
                okc = res.startswith("st=0")
                if len(rands) > 1 or (okc and len(rands) != 1):
                    bad = "polyseed_create consulted the random source %d times (once expected)" % len(rands)
                elif rands and rands[0].split(":")[1] != "19":
                    bad = "polyseed_create asked the random source for %s bytes (19 expected)" % rands[0].split(":")[1]
                elif len(times) > 1 or (okc and len(times) != 1):
                    bad = "polyseed_create read the clock %d times (once expected)" % len(times)
            elif op != "inject" and (rands or times):
                bad = "%s consulted the %s" % (op, "random source" if rands else "clock")
            n += 1
            if bad:
                o.direct.append(dict(kind="deps", suite=label, seq=core.enclosing_sequence(lines, i), what=bad,
                                     impl=rr.c[i][:1500], expected="all calls through the table injected last; random source and clock consulted by polyseed_create only, once each, for 19 bytes"))
                if len(o.direct) > 20:
                    return
    o.stats["deps"] = dict(ops=n, predicate="each logged call was made through the table injected last; libc malloc/free/time exactly when the optional entry was NULL; the random source and the clock are consulted by polyseed_create only, once each, the random source for 19 bytes")


# ------------------------------------------------------------------ C07
def x_frozen(o, cx):
    """word lists, flags and separators equal the pinned release (Ref/langs.json)"""
    ref = json.load(open(os.path.join(COQ, "Ref", "langs.json")))
    cur = json.load(open(os.path.join(GEN, "langs.json")))
    if len(ref) != len(cur):
        o.direct.append(dict(kind="frozen", what="language registry has %d entries, the pinned release has %d" % (len(cur), len(ref)),
                             seq=None, impl=str(len(cur)), expected=str(len(ref))))
        return
    n = 0
    for li, (r, c) in enumerate(zip(ref, cur)):
        for k in ("name", "name_en", "separator", "is_sorted", "has_prefix", "has_accents", "compose"):
            if r[k] != c[k]:
                o.direct.append(dict(kind="frozen", what="language %d: %s differs from the pinned release" % (li, k),
                                     seq=None, impl=str(c[k]), expected=str(r[k])))
        for j, (a, b) in enumerate(zip(r["words"], c["words"])):
            n += 1
            if a != b:
                # the same phrase restores a different wallet under the pinned list
                o.direct.append(dict(kind="frozen", what="language %d (%s) index %d: word differs from the pinned release" % (
                    li, bytes.fromhex(r["name_en"]).decode(), j), seq=None, impl=b, expected=a))
                if len(o.direct) > 10:
                    return
    o.stats["frozen"] = dict(words=n, exhaustive="all words of all languages compared with the committed pinned lists")


def x_oracle_words(o, cx):
    """the normalisation clauses of C07, exhaustively over the lists (Python's unicodedata as normaliser;
    the C side's utf8proc sees every word in suite S-words)"""
    n = 0
    for li, L in enumerate(cx.langs.langs):
        sep = L["sep"].decode()
        if unicodedata.normalize("NFKD", sep) != " ":
            o.direct.append(dict(kind="nfkd", what="separator of language %d does not normalise to one space" % li, seq=None,
                                 impl=L["sep"].hex(), expected="20"))
        for j, w in enumerate(L["words"]):
            n += 1
            try:
                s = w.decode("utf-8")
            except UnicodeDecodeError:
                o.direct.append(dict(kind="nfkd", what="language %d word %d is not UTF-8" % (li, j), seq=None, impl=w.hex(), expected="UTF-8"))
                continue
            if unicodedata.normalize("NFKD", s) != s or unicodedata.normalize("NFKD", unicodedata.normalize("NFC", s)) != s:
                o.direct.append(dict(kind="nfkd", what="language %d word %d is not stable under NFKD / NFC then NFKD" % (li, j),
                                     seq=None, impl=w.hex(), expected=unicodedata.normalize("NFKD", s).encode().hex()))
            if b" " in w or b"\x00" in w or not w or L["sep"] in w:
                o.direct.append(dict(kind="nfkd", what="language %d word %d contains a separator / is empty" % (li, j), seq=None,
                                     impl=w.hex(), expected="non-empty, separator-free"))
            if len(o.direct) > 10:
                return
    # literal clause "no word is a prefix of another": known finding for the three-letter words
    for li, L in enumerate(cx.langs.langs):
        if not L["has_prefix"]:
            continue
        sw = sorted((P.strip_na(w) if L["has_accents"] else w, j) for j, w in enumerate(L["words"]))
        pairs = []
        byw = {w: j for (w, j) in sw}
        for (w, j) in sw:
            for k in range(1, len(w)):
                if w[:k] in byw:
                    pairs.append((byw[w[:k]], j))
        long_pairs = [(a, b) for (a, b) in pairs if len(sw and (P.strip_na(L["words"][a]) if L["has_accents"] else L["words"][a])) >= 4]
        if long_pairs:
            a, b = long_pairs[0]
            o.direct.append(dict(kind="prefix", what="language %d: word %d (>= 4 letters) is a prefix of word %d: abbreviations are ambiguous" % (li, a, b),
                                 seq=None, impl=L["words"][a].hex(), expected="prefix-free"))
        elif pairs:
            ws = L["words"]
            # a known finding only if the set of pairs is exactly the listed one
            key = None
            try:
                listed = set()
                for l in open(os.path.join(ROOT, "findings", "prefix3-%s.txt" % L["name_en"])):
                    a, b = l.split()[:2]
                    listed.add((int(a), int(b)))
                if listed == set(pairs):
                    key = "prefix3-%s" % L["name_en"]
            except OSError:
                pass
            o.direct.append(dict(kind="prefix", key=key,
                                 what="language %d: %d pairs where a 3-letter word is a prefix of another (e.g. %s / %s)" % (
                                     li, len(pairs), ws[pairs[0][0]].decode(), ws[pairs[0][1]].decode()),
                                 seq=None, impl=str(len(pairs)), expected="0"))
    o.stats["oracle_words"] = dict(words=n, exhaustive="NFKD / NFC-then-NFKD stability of all words and separators")


# ------------------------------------------------------------------ C02
def x_subst(o, cx):
    """all 16 x 2047 substitutions and all 120 transpositions of sampled valid phrases on the implementation"""
    r = cx.rng
    L = []
    meta = []
    for li in ([0, 5] if cx.quick else [0, 3, 5, 8]):
        ws = cx.langs.langs[li]["words"]
        sec, b, f = cx.seed(enc=0, feat=0)
        idx = P.indices(sec, b, 0, 0)
        L.append("reset")
        meta.append(None)
        for pos in range(16):
            for j in range(2048):
                if j == idx[pos]:
                    continue
                i2 = list(idx)
                i2[pos] = j
                L.append("decodex coin=0 lang=%d str=%s ok=1" % (li, b" ".join(ws[k] for k in i2).hex()))
                meta.append(("substitution of word %d" % (pos + 1)))
                if len(L) % 800 == 0:
                    L.append("reset")
                    meta.append(None)
        for a in range(16):
            for c in range(a + 1, 16):
                if idx[a] == idx[c]:
                    continue
                i2 = list(idx)
                i2[a], i2[c] = i2[c], i2[a]
                L.append("decodex coin=0 lang=%d str=%s ok=1" % (li, b" ".join(ws[k] for k in i2).hex()))
                meta.append("transposition of words %d and %d" % (a + 1, c + 1))
    rr = core.run_cases(L, with_model=False)
    n = 0
    for i, case in enumerate(L):
        if meta[i] is None or rr.c[i] is None:
            continue
        n += 1
        res = core.split_line(rr.c[i])[0] if rr.c[i] != "CRASH" else "CRASH"
        if not res.startswith("st=3"):
            o.direct.append(dict(kind="subst", suite="subst", seq=["reset", case], what="%s is not reported as a checksum error" % meta[i],
                                 impl=rr.c[i][:300], expected="st=3 (POLYSEED_ERR_CHECKSUM)"))
            if len(o.direct) > 10:
                break
    o.evaluations += n
    o.stats["subst"] = dict(ops=n, predicate="every single-word substitution and every transposition of unequal words of a valid phrase decodes to POLYSEED_ERR_CHECKSUM",
                            exhaustive="16 x 2047 substitutions and all transpositions per sampled phrase")


# ------------------------------------------------------------------ C16
def scan_suite(cx):
    """ops with the secret material to look for on the dead stack afterwards"""
    r = cx.rng
    L = []

    def windows(b, n=8, step=None):
        b = bytes(b)
        step = step or max(1, n // 2)
        return [b[i:i + n].hex() for i in range(0, max(1, len(b) - n + 1), step) if len(b[i:i + n]) >= min(n, 6)]

    def idx_needles(idx):
        le = [int(x).to_bytes(8, "little") for x in idx]
        return [(le[i] + le[i + 1]).hex() for i in range(0, 15, 2)] + [(le[i] + le[i + 1]).hex() for i in range(1, 15, 4)]

    for rep in range(cx.n(6, 40)):
        for li in ([0, 1, 2, 3, 8] if cx.quick else range(cx.nl)):
            Lg = cx.langs.langs[li]
            sec, b, f = cx.seed(enc=0, feat=0)
            # avoid needles that are too short or too regular
            idx = P.indices(sec, b, 0, 0)
            ph = cx.langs.phrase(li, idx)
            phd = cx.langs.phrase_nfkd(li, idx)
            nd_sec = windows(sec, 8, 5)
            nd_idx = idx_needles(idx)
            nd_ph = windows(phd, 12, 16) + [phd[-12:].hex()] + windows(ph, 12, 24)[:6]
            L += ["reset", "load buf=%s ok=1 needles=%s" % (P.store(sec, b, 0).hex(), ",".join(nd_sec + nd_idx))]
            L.append("encode h=0 lang=%d coin=0 needles=%s" % (li, ",".join(nd_ph + nd_idx + nd_sec)))
            L.append("store h=0 needles=%s" % ",".join(nd_sec))
            L.append("keygen h=0 coin=0 size=32 needles=%s" % ",".join(nd_sec))
            for s, okk in ((ph, 1), (ph, 0)):
                L.append("decode coin=0 str=%s ok=%d needles=%s" % (s.hex(), okk, ",".join(nd_ph + nd_idx + nd_sec)))
                L.append("decodex coin=0 lang=%d str=%s ok=%d needles=%s" % (li, s.hex(), okk, ",".join(nd_ph + nd_idx + nd_sec)))
            # checksum error exit, unsupported exit, word-count exit, language exit
            i2 = list(idx)
            i2[5] ^= 3
            bad = cx.langs.phrase(li, i2)
            nd2 = idx_needles(i2) + windows(cx.langs.phrase_nfkd(li, i2), 12, 24)[:8]
            L.append("decode coin=0 str=%s ok=1 needles=%s" % (bad.hex(), ",".join(nd2)))
            L.append("decodex coin=0 lang=%d str=%s ok=1 needles=%s" % (li, bad.hex(), ",".join(nd2)))
            i3 = P.indices(sec, b, 8, 0)
            un = cx.langs.phrase(li, i3)
            nd3 = idx_needles(i3) + windows(cx.langs.phrase_nfkd(li, i3), 12, 24)[:8] + nd_sec
            L.append("decode coin=0 str=%s ok=1 needles=%s" % (un.hex(), ",".join(nd3)))
            L.append("decodex coin=0 lang=%d str=%s ok=1 needles=%s" % (li, un.hex(), ",".join(nd3)))
            L.append("decode coin=0 str=%s ok=1 needles=%s" % ((ph + b" x").hex(), ",".join(nd_ph)))
            words = ph.split(Lg["sep"]) if Lg["sep"] in ph else ph.split(b" ")
            L.append("decodex coin=0 lang=%d str=%s ok=1 needles=%s" % (li, (b" ".join(words[:15] + [b"qqqqqqqq"])).hex(), ",".join(nd_ph[:4] + nd_idx[:3])))
            # multiple-language exit where available is left to suite S-auto; password operation
            pw = r.choice([b"correct horse battery", "pässwörd-långt-lösen".encode(), "パスワードは秘密".encode()])
            pwn = unicodedata.normalize("NFKD", pw.decode()).encode()
            mask = P.oracle_kdf(pwn, P.MASK_SALT, 10000, 32)
            sec2 = [x ^ y for x, y in zip(sec, mask[:19])]
            sec2[18] &= 63
            L.append("crypt h=0 pw=%s needles=%s" % (pw.hex(), ",".join(windows(pwn, 8, 6)[:6] + windows(mask, 8, 8) + nd_sec + windows(sec2, 8, 5) + idx_needles(P.indices(sec2, b, 16, 0)))))
            L.append("create feat=0 rand=%s clock=%d ok=1 needles=%s" % (bytes(sec).hex(), P.EPOCH, ",".join(nd_sec + nd_idx)))
            L.append("free h=0 needles=%s" % ",".join(windows(sec2, 8, 5)))
    return L


def x_stackscan(o, cx):
    """dead-stack scan after every API call: no copy of secret, indices, phrase, password or mask remains"""
    lines = scan_suite(cx)
    total = 0
    for variant in (["o0", "o2"] if cx.quick else ["o0", "o2", "o3"]):
        with core.Lock():
            core.build_cdriver(variant)
        rr = core.run_cases(lines, variant=variant, mode="scan", with_model=False)
        for i, case in enumerate(lines):
            c = rr.c[i]
            if not c or case.startswith("reset"):
                continue
            total += 1
            m = re.findall(r"leak=(\d+)@(\d+)", c)
            if m:
                nd = re.search(r"needles=(\S+)", case).group(1).split(",")
                k = int(m[0][0])
                o.direct.append(dict(kind="stack-residue", suite="stackscan", variant=variant, seq=core.enclosing_sequence(lines, i),
                                     what="secret material (needle %d = %s) remains in the dead stack %s bytes below the caller after the call returned (build %s)" % (
                                         k, nd[k] if k < len(nd) else "?", m[0][1], variant),
                                     impl=c[:600], expected="no residue", mode="scan"))
                if len([d for d in o.direct if d.get("kind") == "stack-residue"]) > 6:
                    break
        for (ln, txt) in rr.crashes:
            o.notes.append("stack-scan driver (%s) crashed at op %d: %s" % (variant, ln, txt[-300:]))
    o.evaluations += total
    o.stats["stackscan"] = dict(ops=total, predicate="after each call, run on a private pre-patterned stack, no 8-byte window of the secret, password or mask, no 12-byte window of the phrase and no two adjacent word indices remain below the caller's frame",
                                builds=["o0", "o2"] if cx.quick else ["o0", "o2", "o3"])


# ------------------------------------------------------------------ C19
def x_sgn(o, cx):
    """both signedness settings: each build against the model at the matching setting, and against each other"""
    from . import runner
    with core.Lock():
        core.build_cdriver("asan_uchar")
        core.build_cdriver("asan_schar")
    names = ["words", "token", "split", "auto", "crypt"]
    for name in names:
        cxa = suites.Ctx(GEN, o.seed, o.tier)
        lines = suites.SUITES[name](cxa)
        ru = runner.run_suite(o, cxa, name, variant="asan_uchar", sgn=False, lines=lines, label=name + "@unsigned")
        rs = runner.run_suite(o, cxa, name, variant="asan_schar", sgn=True, lines=lines, label=name + "@signed")
        diffs = 0
        for i, case in enumerate(lines):
            a, b = ru.c[i], rs.c[i]
            if a is None or b is None:
                continue
            ra = core.split_line(a)[0] if a != "CRASH" else a
            rb = core.split_line(b)[0] if b != "CRASH" else b
            ea = sorted(core.canon_c_event(e) for e in core.split_line(a)[1] if e.startswith(("kdf", "nf")))
            eb = sorted(core.canon_c_event(e) for e in core.split_line(b)[1] if e.startswith(("kdf", "nf")))
            if ra != rb or ea != eb:
                diffs += 1
                if diffs <= 5:
                    o.direct.append(dict(kind="signedness", suite=name, seq=core.enclosing_sequence(lines, i),
                                         what="result depends on the signedness of plain char",
                                         impl="-funsigned-char: " + a[:500], expected="-fsigned-char: " + b[:500], variant="asan_uchar"))
        o.stats[name + "@unsigned"]["transcript_differences_vs_signed"] = diffs


# ------------------------------------------------------------------ C20
def x_frame(o, cx):
    """static storage of the library is read-only outside set-up: any write faults at the writing instruction"""
    exe = build_frame_driver()
    cxa = suites.Ctx(GEN, o.seed, o.tier)
    lines = [l for l in suites.s_seq(cxa, count=cx.n(150, 1500)) if not l.startswith("inject") or " anull=0 fnull=0" in l]
    # no libc wraps in this build: keep all entries injected
    lines = [re.sub(r"tnull=1", "tnull=0", l) for l in lines]
    lines += suites.s_len(cxa)[:400]
    rr = core.run_cases(lines, variant="frame", with_model=False)
    n = sum(1 for c in rr.c if c)
    for (ln, txt) in rr.crashes:
        o.direct.append(dict(kind="static-write", suite="frame", seq=core.enclosing_sequence(lines, ln - 1), variant="frame",
                             what="the call wrote to the library's static storage (or crashed) outside inject/enable_features: not re-entrant",
                             impl=txt[-1200:], expected="no write to static storage"))
        if len(o.direct) > 5:
            break
    o.evaluations += n
    o.stats["frame"] = dict(ops=n, predicate="library built as a shared object; its writable segments are mprotect()ed read-only after set-up; every non-set-up op runs without a fault",
                            writable_symbols=frame_symbols())


def build_frame_driver():
    """libps.so from the project's sources + the C driver in FRAME mode"""
    so = os.path.join(BUILD, "libpsframe.so")
    exe = os.path.join(BUILD, "cdriver.frame")
    hsrc = [os.path.join(ROOT, "harness", "cdriver.c"), os.path.join(ROOT, "harness", "oracle.c")]
    h = core.file_hash(core.repo_inputs() + hsrc, "frame")
    with core.Lock():
        if core.stamp_ok("cdriver.frame", h) and os.path.exists(exe) and os.path.exists(so):
            return exe
        rc, out = core.sh(["gcc", "-O2", "-g", "-w", "-fPIC", "-shared", "-DNDEBUG", "-DPOLYSEED_SHARED", "-D" + core.GUARD,
                           "-iquote", os.path.join(core.REPO, "src"), "-I", os.path.join(core.REPO, "include")]
                          + core.repo_sources() + ["-Wl,-z,now", "-o", so], timeout=600)
        if rc != 0:
            raise core.BuildError("shared-object build of the library failed", out)
        rc, out = core.sh(["gcc", "-O1", "-g", "-w", "-DFRAME_MODE", "-DNDEBUG", "-I", os.path.join(core.REPO, "include")] + hsrc
                          + [so, "-lutf8proc", "-Wl,--wrap=malloc,--wrap=free,--wrap=time", "-Wl,-rpath," + BUILD, "-o", exe], timeout=600)
        if rc != 0:
            raise core.BuildError("frame driver does not build", out)
        core.stamp_set("cdriver.frame", h)
    return exe


def frame_symbols():
    so = os.path.join(BUILD, "libpsframe.so")
    rc, out = core.sh("nm -S %s | grep -i ' [bd] ' | grep -v -E '(completed|dtor|__dso|_edata|__bss|__TMC|_end|__data)'" % so)
    return [" ".join(l.split()[1:]) for l in out.strip().split("\n") if l.strip()][:20]


def x_threads(o, cx):
    """ThreadSanitizer: N threads on disjoint seeds, per-thread transcripts against a serial run"""
    src = os.path.join(ROOT, "harness", "thrdriver.c")
    exe = os.path.join(BUILD, "thrdriver")
    h = core.file_hash(core.repo_inputs() + [src, os.path.join(ROOT, "harness", "oracle.c")], "tsan")
    with core.Lock():
        if not (core.stamp_ok("thrdriver", h) and os.path.exists(exe)):
            rc, out = core.sh(["gcc", "-O1", "-g", "-w", "-fsanitize=thread", "-DNDEBUG"] + core.INC +
                              [src, os.path.join(ROOT, "harness", "oracle.c")] + core.repo_sources() +
                              ["-lutf8proc", "-lpthread", "-o", exe], timeout=600)
            if rc != 0:
                raise core.BuildError("thread driver does not build", out)
            core.stamp_set("thrdriver", h)
    nthreads = 8 if cx.quick else 16
    iters = 40 if cx.quick else 400
    rc, out = core.sh([exe, str(nthreads), str(iters), str(o.seed)], timeout=900,
                      env={"TSAN_OPTIONS": "halt_on_error=0:report_signal_unsafe=0:exitcode=66"})
    m = re.search(r"threads=(\d+) ops=(\d+) mismatches=(\d+)", out)
    ops = int(m.group(2)) if m else 0
    mism = int(m.group(3)) if m else -1
    races = len(re.findall(r"WARNING: ThreadSanitizer: data race", out))
    o.evaluations += ops
    o.stats["threads"] = dict(threads=nthreads, iterations=iters, ops=ops, mismatches=mism, tsan_reports=races)
    if races or mism != 0 or rc != 0:
        o.direct.append(dict(kind="race", suite="threads", seq=["thrdriver %d %d %d" % (nthreads, iters, o.seed)], variant="tsan",
                             what="ThreadSanitizer report(s): %d, per-thread results differing from the serial run: %d, exit %d" % (races, mism, rc),
                             impl=out[-2500:], expected="no data race, transcripts equal to the serial run"))


# ------------------------------------------------------------------ C14
def x_fuzzbuild(o, cx):
    """assertions-on build (the repository's own asserts as oracles) on the input-facing suites; thorough: libFuzzer"""
    from . import runner
    with core.Lock():
        core.build_cdriver("dbg")
    cxa = suites.Ctx(GEN, o.seed + 7, o.tier)
    runner.run_suite(o, cxa, "split", variant="dbg", label="split@assert")


# ------------------------------------------------------------------ C12
def x_pwnfkd(o, cx):
    """the KDF receives NFKD(password) without terminator (Python's unicodedata as independent normaliser)"""
    n = 0
    for (label, lines, rr) in o.runs:
        for i, case in enumerate(lines):
            if not case.startswith("crypt"):
                continue
            res, ev = _events(rr.c[i])
            if res is None:
                continue
            pw = bytes.fromhex(re.search(r"pw=([0-9a-f]*)", case).group(1))
            try:
                want = unicodedata.normalize("NFKD", pw.decode("utf-8")).encode("utf-8")
            except UnicodeDecodeError:
                continue
            kd = [e.split(":") for e in ev if e.startswith("kdf")]
            n += 1
            if len(kd) != 1:
                o.direct.append(dict(kind="kdf", suite=label, seq=core.enclosing_sequence(lines, i), what="crypt made %d KDF calls" % len(kd),
                                     impl=rr.c[i][:600], expected="exactly one"))
                continue
            got = bytes.fromhex(kd[0][1])
            if got != want or int(kd[0][2]) != len(want):
                key = "long-password" if len(want) >= cx.STR_SIZE and want.startswith(got) and len(got) >= cx.STR_SIZE - 4 else None
                o.direct.append(dict(kind="kdf", key=key, suite=label, seq=core.enclosing_sequence(lines, i),
                                     what="the KDF password is not NFKD(password): %d bytes passed, NFKD has %d" % (len(got), len(want)),
                                     impl=kd[0][1][:200] + " len=" + kd[0][2], expected=want.hex()[:200] + " len=%d" % len(want)))
    o.stats["pwnfkd"] = dict(ops=n, predicate="logged KDF password == NFKD(password) computed by Python's unicodedata")
