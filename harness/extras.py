"""Property-specific extra checks and searches (x_<name>(outcome, ctx))."""
