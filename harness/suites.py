"""Correspondence suites: generators of operation sequences (DESIGN.md section 7).
Every random choice derives from the one PRNG seeded by VERIF_SEED.  Each suite
returns a list of op lines; sequences start with `reset`."""
import random
import re
import unicodedata

from . import pyspec as P

hx = lambda b: bytes(b).hex()


class Ctx:
    def __init__(self, gen_dir, seed, tier):
        self.langs = P.Langs(gen_dir + "/langs.json")
        self.rng = random.Random(seed)
        self.tier = tier
        self.quick = tier == "quick"
        txt = open(gen_dir + "/Consts.v").read()
        self.STR_SIZE = int(re.search(r"STR_SIZE : N := (\d+)", txt).group(1))
        self.nl = len(self.langs)
        try:
            from . import core as _core
            self.extra = _core.new_source_literals()[:24]
        except Exception:
            self.extra = []

    def seed(self, enc=None, feat=None):
        r = self.rng
        sec = [r.randrange(256) for _ in range(18)] + [r.randrange(64)]
        b = r.choice([0, 1, 511, 512, 1023, r.randrange(1024), r.randrange(1024)])
        f = (r.randrange(8) if feat is None else feat) | ((r.randrange(2) if enc is None else enc) << 4)
        return sec, b, f

    def n(self, quick, thorough):
        return quick if self.quick else thorough


def load_op(sec, b, f, ok=1):
    return "load buf=%s ok=%d" % (hx(P.store(sec, b, f)), ok)


def nfc(b):
    try:
        return unicodedata.normalize("NFC", b.decode("utf-8")).encode("utf-8")
    except UnicodeDecodeError:
        return b


def nfd(b):
    try:
        return unicodedata.normalize("NFKD", b.decode("utf-8")).encode("utf-8")
    except UnicodeDecodeError:
        return b


# ---------------------------------------------------------------------- S-gf
def s_gf(cx):
    """every field element at every data position through polyseed_load:
    images holding delta*e_i with the right and with wrong check values"""
    L = ["reset", "enable mask=7"]
    deltas = range(2048)
    for i in range(1, 16):
        for d in deltas:
            idx = [0] * 16
            idx[i] = d
            sec, b, f = P.seed_of_indices(idx)
            img = bytearray(P.store(sec, b, f))
            L.append("load buf=%s ok=1" % hx(img))
            if d % 64 == (i * 7) % 64 or not cx.quick:
                # stale check value: off by one bit
                img2 = bytearray(img)
                img2[30] ^= 1 << (d % 8)
                L.append("load buf=%s ok=1" % hx(img2))
            if len(L) % 500 == 0:
                L += ["reset", "enable mask=7"]
    # every check value for a few deltas
    for d in [1, 1024, 2047, cx.rng.randrange(2048)]:
        idx = [0] * 16
        idx[cx.rng.randrange(1, 16)] = d
        sec, b, f = P.seed_of_indices(idx)
        img = bytearray(P.store(sec, b, f))
        L += ["reset", "enable mask=7"]
        for ck in range(2048):
            v2 = 0x7000 | ck
            img[30] = v2 & 255
            img[31] = v2 >> 8
            L.append("load buf=%s ok=1" % hx(img))
    return L


# -------------------------------------------------------------------- S-pack
def single_bit_seeds():
    """the 165 seeds with exactly one of the 150+10+5 payload bits set"""
    out = []
    for k in range(150):
        out.append((P.num_secret(1 << k), 0, 0))
    for k in range(10):
        out.append(([0] * 19, 1 << k, 0))
    for k in range(5):
        out.append(([0] * 19, 0, 1 << k))
    return out


def roundtrip_ops(cx, sec, b, f, li, coin, h=0):
    return [load_op(sec, b, f), "store h=%d" % h, "encode h=%d lang=%d coin=%d" % (h, li, coin)]


def s_pack(cx):
    L = []
    singles = single_bit_seeds()
    seeds = list(singles)
    pairs = []
    for i in range(len(singles)):
        for j in range(i + 1, len(singles)):
            a, c = singles[i], singles[j]
            pairs.append(([x | y for x, y in zip(a[0], c[0])], a[1] | c[1], a[2] | c[2]))
    if cx.quick:
        pairs = cx.rng.sample(pairs, 1500)
    seeds += pairs
    seeds.append(([255] * 18 + [63], 1023, 31))
    seeds.append(([0] * 19, 0, 0))
    for _ in range(cx.n(300, 3000)):
        seeds.append(cx.seed())
    for k, (sec, b, f) in enumerate(seeds):
        li = k % cx.nl
        if cx.langs.langs[li]["name_en"] in ("Korean", "Japanese") and k % 3:
            li = 0
        coin = cx.rng.choice([0, 1, 2, cx.rng.randrange(2048)])
        L += ["reset", "enable mask=7"] + roundtrip_ops(cx, sec, b, f, li, coin)
        idx = P.indices(sec, b, f, coin)
        L.append("decodex coin=%d lang=%d str=%s ok=1" % (coin, li, hx(cx.langs.phrase(li, idx))))
        L.append("store h=1")
        L.append("keygen h=1 coin=%d size=32" % coin)
    return L


# ------------------------------------------------------------------- S-store
def s_store(cx):
    L = []
    r = cx.rng

    def header():
        L.extend(["reset", "enable mask=%d" % r.choice([0, 7, 7, 5])])

    base = []
    for _ in range(3):
        sec, b, f = cx.seed()
        base.append(bytearray(P.store(sec, b, f)))

    def recompute(img):
        """set the check field to match the other fields (ignoring format validity)"""
        v1 = img[8] | (img[9] << 8)
        sec = list(img[10:29])
        ck = P.gf_eval([0] + P.data_words(sec[:18] + [sec[18]], v1 & 1023, (v1 >> 10) & 31))
        v2 = (img[30] | (img[31] << 8)) & ~0x7ff | ck
        img[30] = v2 & 255
        img[31] = v2 >> 8

    img0 = base[0]
    header()
    stride = cx.n(1, 1)
    # bytes 8-9: all 65536 values, check value recomputed and stale
    for v in range(0, 65536, stride):
        img = bytearray(img0)
        img[8] = v & 255
        img[9] = v >> 8
        if cx.quick and v % 7:
            pass
        else:
            L.append("load buf=%s ok=1" % hx(img))
        recompute(img)
        L.append("load buf=%s ok=1" % hx(img))
        if len(L) % 1000 == 0:
            header()
    # bytes 30-31: all 65536 values
    img1 = base[1]
    for v in range(0, 65536):
        img = bytearray(img1)
        img[30] = v & 255
        img[31] = v >> 8
        L.append("load buf=%s ok=1" % hx(img))
        if len(L) % 1000 == 0:
            header()
    # byte 28 (top secret byte) and 29 (extra byte): all values, recomputed and stale
    for pos in (28, 29):
        for v in range(256):
            for rc in (0, 1):
                img = bytearray(base[2])
                img[pos] = v
                if rc:
                    recompute(img)
                L.append("load buf=%s ok=1" % hx(img))
    # bytes 27-28 together (the last sixteen bits of the secret field: fourteen of the secret, two that must be
    # clear): all 65536 values, so that a test on the two unused bits cannot depend on the bits below them
    for v in range(65536):
        img = bytearray(base[2])
        img[27] = v & 255
        img[28] = v >> 8
        if not cx.quick:
            L.append("load buf=%s ok=1" % hx(img))
        recompute(img)
        L.append("load buf=%s ok=1" % hx(img))
        if v % 1000 == 999:
            header()
    # header bytes: every wrong value
    for pos in range(8):
        for v in range(256):
            img = bytearray(base[0])
            img[pos] = v
            L.append("load buf=%s ok=1" % hx(img))
    header()
    # multi-bit mutations and random buffers; accepted ones are stored back
    for k in range(cx.n(3000, 40000)):
        img = bytearray(r.choice(base))
        for _ in range(r.randrange(1, 5)):
            img[r.randrange(32)] ^= 1 << r.randrange(8)
        if r.randrange(2):
            recompute(img)
        L.append("load buf=%s ok=1" % hx(img))
        if k % 500 == 499:
            header()
    for k in range(cx.n(500, 5000)):
        img = bytes(r.randrange(256) for _ in range(32))
        L.append("load buf=%s ok=1" % hx(img))
    # valid images: load, store back, free
    for k in range(cx.n(300, 3000)):
        sec, b, f = cx.seed()
        L += ["reset", "enable mask=7", load_op(sec, b, f), "store h=0", "birthday h=0",
              "feature h=0 mask=7", "isenc h=0", "keygen h=0 coin=%d size=32" % r.randrange(2048),
              "encode h=0 lang=0 coin=0", "free h=0"]
    return L


def special_rands():
    """outputs of the random source at the edges of its range: all zero, all ones, only the two discarded bits
    set, one bit set at either end of each byte"""
    out = [[0] * 19, [255] * 19, [0] * 18 + [0xC0], [0] * 18 + [0x3F], [255] * 18 + [0x3F], [0] * 18 + [0x40],
           [0] * 18 + [0x80]]
    for i in range(19):
        for v in (1, 0x80):
            x = [0] * 19
            x[i] = v
            out.append(x)
    return out


def special_creates(cx):
    """polyseed_create on each of them; everything a caller can observe of the new seed is then observed"""
    L = []
    for k, sec in enumerate(special_rands()):
        f = (0, 1, 7)[k % 3]
        L += ["reset", "enable mask=7", "create feat=%d rand=%s clock=%d ok=1" % (f, hx(sec), P.EPOCH + 3 * P.STEP),
              "store h=0", "keygen h=0 coin=0 size=32", "encode h=0 lang=0 coin=0", "birthday h=0",
              "feature h=0 mask=7", "isenc h=0", "free h=0"]
    return L


# -------------------------------------------------------------------- S-bday
def s_bday(cx):
    L = ["reset"]
    r = cx.rng
    clocks = [0, 1, P.EPOCH - 1, P.EPOCH, P.EPOCH + 1, 2 ** 32 - 1, 2 ** 32, 2 ** 32 + 1, 2 ** 63 - 1, 2 ** 63,
              2 ** 63 + 1, 2 ** 64 - 2, 2 ** 64 - 1, 2 ** 31 - 1, 2 ** 31]
    for k in range(0, 1026):
        t = P.EPOCH + k * P.STEP
        clocks += [t - 1, t, t + 1]
    for k in (2047, 2048, 4096, 2 ** 20):
        t = P.EPOCH + k * P.STEP
        clocks += [t - 1, t, t + 1]
    for _ in range(cx.n(500, 20000)):
        clocks.append(r.choice([r.randrange(2 ** 64), r.randrange(P.EPOCH, P.EPOCH + 1100 * P.STEP),
                                r.randrange(2 ** 32)]))
    h = 0
    for i, t in enumerate(clocks):
        L.append("create feat=0 rand=%s clock=%d ok=1" % (hx(r.randrange(256) for _ in range(19)), t))
        L.append("birthday h=%d" % h)
        if i % 8 == 0:
            # survives storage, phrase and encryption
            L.append("store h=%d" % h)
            L.append("crypt h=%d pw=%s" % (h, hx(b"pw")))
            L.append("birthday h=%d" % h)
            L.append("encode h=%d lang=0 coin=0" % h)
        L.append("free h=%d" % h)
        h += 1
        if h >= 400:
            L.append("reset")
            h = 0
    return L


# -------------------------------------------------------------------- S-feat
def s_feat(cx):
    L = []
    r = cx.rng
    masks = list(range(8)) + [8, 16, 24, 31, 0xFFFFFFFF, 0xFFFFFFF8, 0x80000003, 9, 23]
    for m in masks:
        for f in range(32):
            sec, b, _ = cx.seed()
            idx = P.indices(sec, b, f, 0)
            li = r.randrange(cx.nl) if not cx.quick else r.choice([0, 3, 5, 8])
            ph = cx.langs.phrase(li, idx)
            L += ["reset", "enable mask=%d" % m,
                  "create feat=%d rand=%s clock=%d ok=1" % (f, hx(sec), P.EPOCH + 5 * P.STEP),
                  load_op(sec, b, f),
                  "decode coin=0 str=%s ok=1" % hx(ph),
                  "decodex coin=0 lang=%d str=%s ok=1" % (li, hx(ph))]
            # queries on whatever was produced (handles 0.. in order of success are unknown
            # to the generator, so query through a fresh enable-all load)
            L += ["enable mask=7", load_op(sec, b, f & 23)]
        # create with high argument bits
        for fa in (8, 16, 31, 0xFFFFFFFF, 0x100, 0xFFFFFFF8 | r.randrange(8)):
            L += ["reset", "enable mask=%d" % m,
                  "create feat=%d rand=%s clock=%d ok=1" % (fa, hx(cx.seed()[0]), P.EPOCH)]
    # sequences of enabling calls: the last one wins
    seqs = [(a, b2, c) for a in range(8) for b2 in range(8) for c in (0, 3, 7)]
    if cx.quick:
        seqs = r.sample(seqs, 60)
    for (a, b2, c) in seqs:
        f = r.randrange(32)
        sec, b, _ = cx.seed()
        L += ["reset", "enable mask=%d" % a, "enable mask=%d" % b2, "enable mask=%d" % c, load_op(sec, b, f),
              "create feat=%d rand=%s clock=0 ok=1" % (f & 7, hx(sec))]
    # a seed HELD across a change of the enabled set: what the seed carries must not depend on what is enabled
    # when it is later queried, encrypted, encoded, stored or used for key derivation
    held = [(m1, f, m2) for m1 in range(1, 8) for f in range(1, 8) if f & ~m1 == 0
            for m2 in range(8) if f & ~m2 != 0]
    if cx.quick:
        held = r.sample(held, 40)
    for (m1, f, m2) in held:
        sec, b, _ = cx.seed()
        for enc in (0, 16):
            how = r.randrange(2) if cx.quick else None
            for ctor in (0, 1):
                if how is not None and how != ctor:
                    continue
                L += ["reset", "enable mask=%d" % m1,
                      ("create feat=%d rand=%s clock=%d ok=1" % (f, hx(sec), P.EPOCH + 7 * P.STEP)) if ctor == 0 and not enc
                      else load_op(sec, b, f | enc),
                      "enable mask=%d" % m2,
                      "feature h=0 mask=7", "isenc h=0", "store h=0", "encode h=0 lang=0 coin=0",
                      "keygen h=0 coin=0 size=32", "crypt h=0 pw=70c3a4", "feature h=0 mask=7", "isenc h=0",
                      "store h=0", "encode h=0 lang=3 coin=1", "keygen h=0 coin=1 size=32",
                      "crypt h=0 pw=70c3a4", "feature h=0 mask=7", "store h=0", "keygen h=0 coin=0 size=32"]
    # default state: nothing enabled; queries
    for f in range(32):
        sec, b, _ = cx.seed()
        L += ["reset", load_op(sec, b, f)]
    for f in range(32):
        sec, b, _ = cx.seed()
        L += ["reset", "enable mask=7", load_op(sec, b, f)]
        if f & 8 == 0:
            for m in (0, 1, 2, 4, 7, 8, 16, 31, 0xFFFFFFFF):
                L.append("feature h=0 mask=%d" % m)
            L += ["isenc h=0", "store h=0", "encode h=0 lang=0 coin=0", "crypt h=0 pw=61", "feature h=0 mask=7",
                  "isenc h=0", "store h=0"]
    return L


# -------------------------------------------------------------------- S-coin
def s_coin(cx):
    L = []
    r = cx.rng
    for li in range(cx.nl):
        sec, b, f = cx.seed(feat=0)
        name = cx.langs.langs[li]["name_en"]
        # keep the phrase short enough for every buffer size under test
        As = range(2048) if (li in (0, 3) or not cx.quick) else r.sample(range(2048), 128)
        L += ["reset", load_op(sec, b, f & 16)]
        for A in As:
            L.append("encode h=0 lang=%d coin=%d" % (li, A))
            ph = cx.langs.phrase(li, P.indices(sec, b, f & 16, A))
            Bs = [A ^ (1 << r.randrange(11)), r.randrange(2048)] if cx.quick else \
                 [A ^ (1 << k) for k in range(11)] + [r.randrange(2048)]
            for B in Bs + [A]:
                L.append("decodex coin=%d lang=%d str=%s ok=1" % (B, li, hx(ph)))
                if len(L) % 40 == 0:
                    L.append("decode coin=%d str=%s ok=1" % (B, hx(ph)))
            if len(L) % 250 < 5:
                L += ["reset", load_op(sec, b, f & 16)]
    return L


# --------------------------------------------------------------------- S-kdf
def s_kdf(cx):
    L = []
    r = cx.rng
    for k in range(cx.n(150, 1500)):
        sec, b, f = cx.seed()
        if k % 5 == 0:
            b = r.choice([512, 1023, 767, 511])
        coin = r.choice([0, 1, 2, 2047, 1024, r.randrange(2048)])
        li = r.randrange(cx.nl)
        if cx.langs.langs[li]["name_en"] in ("Korean", "Japanese"):
            li = 0
        ph = cx.langs.phrase(li, P.indices(sec, b, f, coin))
        L += ["reset", "enable mask=7", load_op(sec, b, f)]
        for size in (32, r.choice([0, 1, 31, 33, 64, 4096])):
            L.append("keygen h=0 coin=%d size=%d" % (coin, size))
        # the same seed reached by other paths gives the same KDF inputs
        L += ["decodex coin=%d lang=%d str=%s ok=1" % (coin, li, hx(ph)), "keygen h=1 coin=%d size=32" % coin,
              "crypt h=1 pw=78", "crypt h=1 pw=78", "keygen h=1 coin=%d size=32" % coin,
              "keygen h=1 coin=%d size=32" % ((coin + 1) % 2048)]
        if k % 7 == 0:
            L += ["create feat=%d rand=%s clock=%d ok=1" % (f & 7, hx(sec), P.EPOCH + b * P.STEP),
                  "keygen h=2 coin=%d size=32" % coin]
    return L


# ------------------------------------------------------------------- S-crypt
PASSWORDS = [b"", b"password", "pässwörd".encode(), "pässwörd".encode(),
             "パスワード".encode(), "ﬁ①½".encode(), b"a b  c ", b"\xff\xfe", b"\xc3"]


def s_crypt(cx):
    L = []
    r = cx.rng
    S = cx.STR_SIZE
    pws = list(PASSWORDS)
    for n in (S - 3, S - 2, S - 1, S, S + 1, 2 * S + 7):
        pws.append(bytes(97 + (i % 26) for i in range(n)))
        pws.append(("é" * (n // 2 + 1)).encode()[:n] if n % 2 == 0 else ("é" * n).encode()[:n - (n % 3)])
    for k in range(cx.n(120, 1500)):
        sec, b, f = cx.seed()
        if k % 4 == 0:
            sec[18] = r.choice([0, 63, 32, 1])
        pw = r.choice(pws) if k >= len(pws) else pws[k]
        pw2 = r.choice(pws)
        li = r.choice([0, 3, 4, 5, 8])
        L += ["reset", "enable mask=7", load_op(sec, b, f), "crypt h=0 pw=%s" % hx(pw), "store h=0", "isenc h=0",
              "feature h=0 mask=7", "birthday h=0", "encode h=0 lang=%d coin=0" % li,
              "crypt h=0 pw=%s" % hx(pw), "store h=0",
              "crypt h=0 pw=%s" % hx(pw2), "store h=0", "crypt h=0 pw=%s" % hx(pw), "store h=0"]
        # canonically equivalent spellings
        try:
            a = nfc(pw)
            d = nfd(pw)
            if a != d:
                L += ["reset", load_op(sec, b, f & 16), load_op(sec, b, f & 16), "crypt h=0 pw=%s" % hx(a),
                      "crypt h=1 pw=%s" % hx(d), "store h=0", "store h=1"]
        except UnicodeDecodeError:
            pass
    return L


# --------------------------------------------------------------------- S-len
def extremal_indices(cx, li, which="max"):
    """16 indices maximising (minimising) the internal phrase length"""
    ws = cx.langs.langs[li]["words"]
    order = sorted(range(2048), key=lambda j: len(ws[j]))
    j = order[-1] if which == "max" else order[0]
    return [j] * 16


def seed_for_indices(idx):
    """a (seed, coin) whose phrase has data words idx[1:], and its check word"""
    sec, b, f = P.seed_of_indices(idx, 0)
    return sec, b, f, P.indices(sec, b, f, 0)


def s_len(cx):
    L = []
    r = cx.rng
    for li in range(cx.nl):
        ws = cx.langs.langs[li]["words"]
        order = sorted(range(2048), key=lambda j: len(ws[j]))
        longest = order[-40:]
        shortest = order[:40]
        cands = []
        for k in range(cx.n(12, 120)):
            idx = [0] + [r.choice(longest) for _ in range(15)]
            cands.append(idx)
        for k in range(cx.n(4, 30)):
            cands.append([0] + [r.choice(shortest) for _ in range(15)])
        for k in range(cx.n(6, 60)):
            cands.append([0] + [r.randrange(2048) for _ in range(15)])
        # exact extremal witnesses: all 16 words (check word included) of maximal length, the
        # reserved feature bit clear (it is the low bit of the third word)
        mx = len(ws[order[-1]])
        for tol in (0, 1, 2, 3):
            top = [j for j in range(2048) if len(ws[j]) >= mx - tol]
            found = 0
            for attempt in range(6000):
                idx = [0] + [r.choice(top) for _ in range(15)]
                if idx[2] & 1:
                    continue
                sec_, b_, f_ = P.seed_of_indices(idx, 0)
                if len(ws[P.indices(sec_, b_, f_, 0)[0]]) >= mx - tol:
                    cands.append(idx)
                    found += 1
                    if found >= cx.n(2, 10):
                        break
            if found:
                break
        for idx in cands:
            # features must be loadable: clear reserved bits by enabling all user features
            sec, b, f = P.seed_of_indices(idx, 0)
            f &= 23
            # choose the coin so that the check word is long too: try a few
            L += ["reset", "enable mask=7", load_op(sec, b, f)]
            L.append("encode h=0 lang=%d coin=0" % li)
            ph0 = cx.langs.phrase(li, P.indices(sec, b, f, 0))
            L.append("decodex coin=0 lang=%d str=%s ok=1" % (li, hx(ph0)))
            L.append("decode coin=0 str=%s ok=1" % hx(ph0 + b" "))
            coin = r.randrange(2048)
            L.append("encode h=0 lang=%d coin=%d" % (li, coin))
            full = P.indices(sec, b, f, coin)
            ph = cx.langs.phrase(li, full)
            L.append("decodex coin=%d lang=%d str=%s ok=1" % (coin, li, hx(ph)))
            L.append("decode coin=%d str=%s ok=1" % (coin, hx(ph)))
            L.append("decodex coin=%d lang=%d str=%s ok=1" % (coin, li, hx(cx.langs.phrase_nfkd(li, full))))
    return L


# ------------------------------------------------------------------- S-words
def s_words(cx):
    """every word of every language through encode and decode_explicit"""
    L = []
    r = cx.rng
    for li in range(cx.nl):
        positions = range(16) if not cx.quick else [None]
        for pos in positions:
            for start in range(0, 2048, 15):
                js = list(range(start, min(start + 15, 2048)))
                while len(js) < 15:
                    js.append(r.randrange(2048))
                if pos is not None:
                    js = js[-(pos % 15):] + js[:-(pos % 15)] if pos % 15 else js
                idx = [0] + js
                sec, b, f = P.seed_of_indices(idx, 0)
                f &= 23
                full = P.indices(sec, b, f, 0)
                # put each word also at position 0 through the coin-free check word: not controllable;
                # position 0 is covered by the phrases' own check words
                L += ["reset", "enable mask=7", load_op(sec, b, f), "encode h=0 lang=%d coin=0" % li,
                      "decodex coin=0 lang=%d str=%s ok=1" % (li, hx(cx.langs.phrase(li, full))), "store h=1"]
    return L


# ------------------------------------------------------------------- S-token
def accent_variants(w):
    """all ways to keep/drop the combining marks of an NFKD word (bytes)"""
    s = w.decode("utf-8")
    marks = [i for i, ch in enumerate(s) if unicodedata.combining(ch)]
    out = set()
    for m in range(1 << len(marks)):
        drop = {marks[k] for k in range(len(marks)) if m >> k & 1}
        out.add("".join(ch for i, ch in enumerate(s) if i not in drop))
    return sorted(out)


def token_variants(cx, L, w, r, rich):
    """candidate tokens around word w: (token bytes) list"""
    s = w.decode("utf-8")
    out = []
    if L["has_prefix"] or L["has_accents"]:
        base_forms = accent_variants(w) if L["has_accents"] else [s]
        for form in base_forms:
            letters = [i for i, ch in enumerate(form) if not unicodedata.combining(ch)]
            # every prefix length in letters, cut before and after trailing marks
            cuts = set()
            for k in range(1, len(letters) + 1):
                end = letters[k] if k < len(letters) else len(form)
                cuts.add(end)
                cuts.add(letters[k - 1] + 1)
            for c in sorted(cuts):
                t = form[:c]
                out.append(t.encode())
                if rich:
                    out.append(nfc(t.encode()))
            out.append((form + "x").encode())
            out.append((form[:4] + "q").encode())
            if L["has_accents"]:
                out.append((form[:3] + "́" + form[3:]).encode())   # a mark the word does not have
                out.append((form + "́").encode())
    else:
        out.append(w)
        out.append(w[:-1])
        out.append(w + w[-1:])
        if len(s) > 1:
            out.append(s[:-1].encode())
        out.append(nfc(w))
    return out


def s_token(cx):
    L = []
    r = cx.rng
    for li in range(cx.nl):
        Lg = cx.langs.langs[li]
        ws = Lg["words"]
        if cx.quick:
            sel = set(r.sample(range(2048), 110))
            # words with accents, short words and neighbours sharing long prefixes are the interesting ones
            acc = [j for j in range(2048) if any(x >= 128 for x in ws[j])] if Lg["has_accents"] else []
            sel.update(r.sample(acc, min(len(acc), 120)))
            # (length in letters: combining marks do not count - "an~o" is a three-letter word of five bytes)
            def letters(w):
                return sum(1 for ch in w.decode("utf-8") if not unicodedata.combining(ch))
            sel.update(j for j in range(2048) if Lg["has_prefix"] and
                       (letters(ws[j]) <= 3 or (letters(ws[j]) <= 4 and len(ws[j]) > letters(ws[j]))))
            sel.update([0, 1, 2046, 2047])
        else:
            sel = range(2048)
        toks = []
        for j in sorted(sel):
            for t in token_variants(cx, Lg, ws[j], r, not cx.quick):
                toks.append((j, t))
        # keys sorting before the first / after the last word, empty-ish keys
        for t in (b"!", b"~~~~", b"a", b"zzzz", b"\xf4\x8f\xbf\xbf", b"\xc3", b"\x01"):
            toks.append((0, t))
        # a valid carrier phrase; the variant replaces position p
        sec, b, f = cx.seed(enc=0, feat=0)
        base = P.indices(sec, b, 0, 0)
        cnt = 0
        for (j, t) in toks:
            if b" " in t or b"\x00" in t:
                continue
            p = cnt % 16
            cnt += 1
            idx = list(base)
            words = [ws[i] for i in idx]
            words[p] = t
            s = b" ".join(words)
            if cnt % 200 == 1:
                L.append("reset")
            L.append("decodex coin=0 lang=%d str=%s ok=1" % (li, hx(s)))
            if cnt % 16 == 0:
                L.append("decode coin=0 str=%s ok=1" % hx(s))
        # variants that keep the seed: every token of a valid phrase replaced by an accepted variant
        for k in range(cx.n(30, 300)):
            sec, b, f = cx.seed(enc=0, feat=0)
            idx = P.indices(sec, b, 0, 0)
            words = []
            for i in idx:
                w = ws[i]
                cands = [t for t in token_variants(cx, Lg, w, r, True) if P.accepts(Lg, nfd(t) if t else t, w)] or [w]
                words.append(r.choice(cands))
            L += ["reset", "decodex coin=0 lang=%d str=%s ok=1" % (li, hx(b" ".join(words))), "store h=0"]
    return L


# ------------------------------------------------------------------- S-split
def s_split(cx):
    L = ["reset"]
    r = cx.rng
    S = cx.STR_SIZE
    sec, b, f = cx.seed(enc=0, feat=0)
    for li in ([0, 1, 3, 8] if cx.quick else range(cx.nl)):
        idx = P.indices(sec, b, 0, 0)
        ws = [cx.langs.langs[li]["words"][i] for i in idx]
        sp = b" "
        shapes = []
        for n in (0, 1, 2, 15, 16, 17, 18, 40):
            shapes.append(sp.join((ws * 3)[:n]))
        full = sp.join(ws)
        shapes += [b" " + full, full + b" ", full + b"  ", b" " + full + b" ", full.replace(b" ", b"  ", 1),
                   sp.join(ws[:15]) + b" ", sp.join(ws[:15]) + b"  ", sp.join(ws[:14]) + b"  " + ws[15],
                   full.replace(b" ", b"\t", 1), full.replace(b" ", "　".encode(), 1),
                   full.replace(b" ", "　".encode()), full.replace(b" ", " ".encode(), 2),
                   full + "　".encode(), full + b" x", full + b" " + ws[0], b"", b" ", b"  ", b" " * 16,
                   b" " * 15, b" " * 17, b"a " * 16, b"a " * 15 + b"a", b"\n" + full, full + b"\n"]
        # around the buffer size: ASCII junk of total length STR_SIZE-3 .. STR_SIZE+2 and beyond
        for n in list(range(S - 3, S + 3)) + [2 * S, 3 * S + 1]:
            pad = n - len(full)
            if pad > 1:
                shapes.append(full + b" " + b"x" * (pad - 1))
                shapes.append(b"x" * (pad - 1) + b" " + full)
                shapes.append(full + b" " * pad)
                shapes.append((full + b" " + b"y" * (pad - 2) + "é".encode())[:n + 1])
            shapes.append((b"ab " * n)[:n])
            shapes.append(b"z" * n)
        for s in shapes:
            s = s.replace(b"\x00", b"")
            L.append("decode coin=0 str=%s ok=1" % hx(s))
            L.append("decodex coin=0 lang=%d str=%s ok=1" % (li, hx(s)))
            if len(L) % 300 == 0:
                L.append("reset")
    # raw random bytes, invalid UTF-8
    for k in range(cx.n(400, 6000)):
        n = r.choice([1, 5, 40, 100, S - 1, S, S + 1, r.randrange(1, 3 * S)])
        kind = r.randrange(4)
        if kind == 0:
            s = bytes(r.randrange(1, 256) for _ in range(n))
        elif kind == 1:
            s = bytes(r.choice(b"ab \xc3\xa9\xe3\x80\x80 ") for _ in range(n))
        elif kind == 2:
            s = b" ".join(r.choice(cx.langs.langs[r.randrange(cx.nl)]["words"]) for _ in range(r.choice([15, 16, 16, 17])))
        else:
            s = b" ".join(bytes(r.randrange(97, 123) for _ in range(r.randrange(0, 6))) for _ in range(r.choice([16, 16, 17, 3])))
        s = s.replace(b"\x00", b"\x01")
        L.append("decode coin=%d str=%s ok=1 wantlang=%d" % (r.randrange(3), hx(s), r.randrange(2)))
        L.append("decodex coin=0 lang=%d str=%s ok=1" % (r.randrange(cx.nl), hx(s)))
        if k % 20 == 0:
            L.append("crypt h=0 pw=%s" % hx(s)) if False else None
        if len(L) % 300 == 0:
            L.append("reset")
    return [l for l in L if l]


# -------------------------------------------------------------------- S-auto
def shared_words(cx, a, b):
    A = cx.langs.langs[a]["words"]
    B = set(cx.langs.langs[b]["words"])
    return [j for j in range(2048) if A[j] in B]


_acc_cache = {}


def accepted_by_some(B, tok):
    """does some word of language B accept the token?  (same rule as pyspec.accepts)"""
    key = id(B)
    if key not in _acc_cache:
        sw = [P.strip_na(w) if B["has_accents"] else w for w in B["words"]]
        pre = set()
        if B["has_prefix"]:
            for w in sw:
                for k in range(4, len(w) + 1):
                    pre.add(w[:k])
        _acc_cache[key] = (set(sw), pre)
    exact, pre = _acc_cache[key]
    t = P.strip_na(tok) if B["has_accents"] else tok
    return t in exact or (len(t) >= 4 and t in pre)


def s_auto(cx):
    L = ["reset"]
    r = cx.rng
    names = [l["name_en"] for l in cx.langs.langs]

    def li_of(n):
        return names.index(n) if n in names else None

    # every ordered pair of registered languages (those that share fewer than two tokens drop out below)
    pairs = [(a, b2) for a in range(cx.nl) for b2 in range(cx.nl) if a != b2]
    for (a, b2) in pairs:
        A = cx.langs.langs[a]
        B = cx.langs.langs[b2]
        # indices of A whose word (or 4-letter abbreviation) is accepted by B as well
        both = []
        for j in range(2048):
            w = A["words"][j]
            cands = [w]
            if A["has_prefix"] and len(P.strip_na(w) if A["has_accents"] else w) >= 4:
                cands.append(w[:4] if not A["has_accents"] else None)
            for c in cands:
                if c and accepted_by_some(B, c):
                    both.append((j, c))
                    break
        if len(both) < 2:
            continue
        for k in range(cx.n(25, 250)):
            # 15 data tokens accepted by both languages; the check word is whatever it is
            choice = [r.choice(both) for _ in range(15)]
            idx = [0] + [j for (j, _) in choice]
            sec, b, f = P.seed_of_indices(idx, 0)
            full = P.indices(sec, b, f, 0)
            toks = [A["words"][full[0]]] + [c for (_, c) in choice]
            # sometimes force the check word to be shared too by searching a coin... keep natural
            s = b" ".join(toks)
            L.append("decode coin=0 str=%s ok=1" % hx(s))
            for li in (a, b2):
                L.append("decodex coin=0 lang=%d str=%s ok=1" % (li, hx(s)))
            # all 16 shared (checksum will usually fail in both: MULT_LANG must win regardless)
            toks2 = [r.choice(both)[1] for _ in range(16)]
            s2 = b" ".join(toks2)
            L.append("decode coin=0 str=%s ok=1" % hx(s2))
            L.append("decodex coin=0 lang=%d str=%s ok=1" % (a, hx(s2)))
            L.append("decodex coin=0 lang=%d str=%s ok=1" % (b2, hx(s2)))
            if len(L) % 40 < 6:
                L.append("reset")
    # valid phrases of every language, one word replaced by a word of another language
    for k in range(cx.n(150, 2000)):
        li = r.randrange(cx.nl)
        if cx.quick and names[li] in ("Korean", "Japanese") and k % 4:
            li = 0
        sec, b, f = cx.seed(enc=0, feat=0)
        idx = P.indices(sec, b, 0, 0)
        ws = [cx.langs.langs[li]["words"][i] for i in idx]
        s = b" ".join(ws)
        L.append("decode coin=0 str=%s ok=1 wantlang=%d" % (hx(cx.langs.phrase(li, idx)), k % 5 != 0))
        lj = r.randrange(cx.nl)
        ws2 = list(ws)
        ws2[r.randrange(16)] = r.choice(cx.langs.langs[lj]["words"])
        s2 = b" ".join(ws2)
        L.append("decode coin=0 str=%s ok=1" % hx(s2))
        for lx in {li, lj}:
            L.append("decodex coin=0 lang=%d str=%s ok=1" % (lx, hx(s2)))
        if k % 10 == 0:
            for lx in range(cx.nl):
                L.append("decodex coin=0 lang=%d str=%s ok=1" % (lx, hx(s)))
        # status precedence: allocation failure and unsupported features after the checksum
        if k % 6 == 0:
            sec2, b2_, f2 = cx.seed()
            idx2 = P.indices(sec2, b2_, f2 | 8, 0)
            p2 = cx.langs.phrase(li, idx2)
            L.append("decode coin=0 str=%s ok=0" % hx(p2))
            L.append("decode coin=0 str=%s ok=1" % hx(p2))
            L.append("decode coin=1 str=%s ok=0" % hx(p2))
            L.append("decodex coin=0 lang=%d str=%s ok=0" % (li, hx(p2)))
        if len(L) % 40 < 6:
            L.append("reset")
    return L


# --------------------------------------------------------------------- S-seq
def s_seq(cx, fault=False, length=None, count=None):
    """random walks over the whole API with model-guided arguments"""
    L = []
    r = cx.rng
    S = cx.STR_SIZE
    nwalks = count or cx.n(120, 1500)
    for wk in range(nwalks):
        L.append("reset")
        live = []          # handles believed live (generator-side bookkeeping via pyspec is avoided:
        nexth = 0          # handles are only used after ops that must succeed)
        mask = 0
        phrases = []
        images = []
        n = length or r.choice([5, 12, 30])
        for step in range(n):
            k = r.randrange(100)
            ok = 0 if (fault and r.randrange(5) == 0) else 1
            if k < 6:
                mask = r.choice([0, 7, 7, r.randrange(8)])
                L.append("enable mask=%d" % mask)
            elif k < 10:
                L.append("inject tag=%d tnull=%d anull=%d fnull=%d" % (r.randrange(2), r.randrange(2), 0, 0)
                         if live else
                         "inject tag=%d tnull=%d anull=%d fnull=%d" % (r.randrange(2), r.randrange(2), r.randrange(2), r.randrange(2)))
                # allocator pair is only replaced while no block is live (guard of C15)
                if not live:
                    pass
            elif k < 22:
                f = r.randrange(8) & mask
                sec = [r.randrange(256) for _ in range(19)] if r.randrange(8) else r.choice(special_rands())
                L.append("create feat=%d rand=%s clock=%d ok=%d" % (
                    f if r.randrange(6) else r.randrange(32), hx(sec),
                    r.choice([0, P.EPOCH + r.randrange(1100) * P.STEP + r.randrange(P.STEP), r.randrange(2 ** 64)]), ok))
                if ok and L[-1].split()[1] == "feat=%d" % f:
                    live.append(nexth)
                    nexth += 1
                else:
                    L.append("reset")
                    live, nexth, mask, phrases, images = [], 0, 0, [], []
            elif k < 34:
                sec, b, f = cx.seed()
                f = (f & (mask | 16))
                img = bytearray(P.store(sec, b, f))
                bad = r.randrange(5) == 0
                if bad:
                    img[r.randrange(32)] ^= 1 << r.randrange(8)
                L.append("load buf=%s ok=%d" % (hx(img), ok))
                if ok and not bad:
                    live.append(nexth)
                    images.append(bytes(img))
                if ok:
                    nexth += 1
            elif k < 48:
                sec, b, f = cx.seed()
                f = (f & (mask | 16))
                coin = r.choice([0, 1, 2, r.randrange(2048)])
                li = r.randrange(cx.nl)
                if cx.langs.langs[li]["name_en"] in ("Korean", "Japanese") and r.randrange(3):
                    li = r.choice([0, 3])
                ph = cx.langs.phrase(li, P.indices(sec, b, f, coin))
                bad = r.randrange(5) == 0
                if bad:
                    ph = ph.replace(b" ", b"  ", 1) if r.randrange(2) else ph[:-1]
                explicit = r.randrange(2)
                if explicit:
                    L.append("decodex coin=%d lang=%d str=%s ok=%d" % (coin, li, hx(ph), ok))
                else:
                    L.append("decode coin=%d str=%s ok=%d" % (coin, hx(ph), ok))
                # whether it succeeds depends on language overlap: resynchronise handles by reset
                L.append("reset")
                live, nexth, mask, phrases, images = [], 0, 0, [], []
            elif live:
                h = r.choice(live)
                if k < 56:
                    L.append("encode h=%d lang=%d coin=%d" % (h, r.choice([0, 3, 4, 5, 6, 7, 8, 9]), r.choice([0, 1, r.randrange(2048)])))
                elif k < 64:
                    L.append("store h=%d" % h)
                elif k < 72:
                    L.append("crypt h=%d pw=%s" % (h, hx(r.choice(PASSWORDS))))
                elif k < 80:
                    L.append("keygen h=%d coin=%d size=%d" % (h, r.randrange(2048), r.choice([32, 16, 64])))
                elif k < 84:
                    L.append("birthday h=%d" % h)
                elif k < 88:
                    L.append("feature h=%d mask=%d" % (h, r.randrange(16)))
                elif k < 91:
                    L.append("isenc h=%d" % h)
                elif k < 97:
                    L.append("free h=%d" % h)
                    live.remove(h)
                else:
                    L.append("freenull")
            else:
                L.append("freenull")
        for h in live:
            if r.randrange(2):
                L.append("free h=%d" % h)
    return L


def s_seq_fault(cx):
    return s_seq(cx, fault=True)


def s_exits(cx):
    """every (function, exit status) pair of every constructor, with the allocation succeeding and failing"""
    L = []
    r = cx.rng
    # whatever a constructor handed out is used at once: every byte of the struct is observed
    USE0 = ["keygen h=0 coin=0 size=32", "store h=0", "birthday h=0", "feature h=0 mask=7", "isenc h=0"]
    L += special_creates(cx)
    for rep in range(cx.n(3, 30)):
        for li in ([0, 3, 8] if cx.quick else range(cx.nl)):
            sec, b, f = cx.seed(enc=0, feat=0)
            good = cx.langs.phrase(li, P.indices(sec, b, 0, 0))
            unsup = cx.langs.phrase(li, P.indices(sec, b, 8, 0))
            ws = good.split(b" ") if b" " in good else good.split("　".encode())
            cases = [good, unsup, good[:-1] + b"\x01", b" ".join(ws[:15]), b" ".join(ws + ws[:1]),
                     b" ".join(ws[:15] + [b"zzzzzzzz"])]
            idx = P.indices(sec, b, 0, 0)
            idx[3] ^= 1
            cases.append(cx.langs.phrase(li, idx))
            # sixteen words that two registered lists share: the MULT_LANG exit
            names = [l["name_en"] for l in cx.langs.langs]
            if "Chinese (Simplified)" in names and "Chinese (Traditional)" in names:
                za = cx.langs.langs[names.index("Chinese (Simplified)")]["words"]
                zb = set(cx.langs.langs[names.index("Chinese (Traditional)")]["words"])
                shared = [w for w in za if w in zb]
                if len(shared) >= 16:
                    cases.append(b" ".join(r.sample(shared, 16)))
            for ok in (1, 0):
                for s in cases:
                    L += ["reset", "decode coin=0 str=%s ok=%d" % (hx(s), ok)] + USE0
                    L += ["reset", "decodex coin=0 lang=%d str=%s ok=%d" % (li, hx(s), ok)] + USE0
                img = bytearray(P.store(sec, b, 0))
                imgs = [bytes(img)]
                for pos, v in ((0, 0x51), (30, img[30] ^ 1), (9, img[9] | 0x20), (29, 0), (28, img[28] | 0x80)):
                    i2 = bytearray(img)
                    i2[pos] = v
                    imgs.append(bytes(i2))
                # valid images whose feature bits are reserved / not enabled: the UNSUPPORTED exit of load
                imgs += [P.store(sec, b, 8), P.store(sec, b, 1), P.store(sec, b, 2 | 16), P.store(sec, b, 15)]
                for im in imgs:
                    L += ["reset", "load buf=%s ok=%d" % (hx(im), ok)] + USE0
                # the same exit after a feature was enabled and disabled again
                L += ["reset", "enable mask=1", "create feat=1 rand=%s clock=%d ok=1" % (hx(sec), P.EPOCH), "store h=0", "free h=0",
                      "enable mask=0", "load buf=%s ok=%d" % (hx(P.store(sec, 0, 1)), ok), "enable mask=1",
                      "load buf=%s ok=%d" % (hx(P.store(sec, 0, 1)), ok)]
                for fe in (0, 1, 8):
                    L += ["reset", "create feat=%d rand=%s clock=%d ok=%d" % (fe, hx(sec), P.EPOCH, ok)] + USE0
                L += ["reset", "enable mask=1", "create feat=1 rand=%s clock=0 ok=%d" % (hx(sec), ok), "freenull"]
    return L


# ------------------------------------------------------------------- S-aimed
def s_aimed(cx):
    """directed at integer literals that a change put into the C text (absent from the pinned release):
    every API entry gets the literal, its neighbours and derived values where an argument can hold
    them.  Empty on the unchanged tree."""
    L = []
    r = cx.rng
    for c in cx.extra:
        c32 = c & 0xFFFFFFFF
        sec, b, f = cx.seed(feat=0, enc=0)
        L += ["reset", "enable mask=7"]
        h = 0
        for t in sorted(set([max(c - 1, 0), c, min(c + 1, 2 ** 64 - 1), (P.EPOCH + c) % 2 ** 64,
                             (P.EPOCH + c * P.STEP) % 2 ** 64, (P.EPOCH + (c % 1024) * P.STEP + 7) % 2 ** 64])):
            L += ["create feat=%d rand=%s clock=%d ok=1" % (c32 & 7, hx(sec), t), "birthday h=%d" % h]
            h += 1
        L += ["reset", "enable mask=%d" % c32, "create feat=%d rand=%s clock=%d ok=1" % (c32, hx(sec), P.EPOCH),
              "enable mask=7"]
        byte = c & 255
        variants = [[byte] * 18 + [byte & 63]]
        for k in range(19):
            v = list(sec)
            v[k] = byte & (63 if k == 18 else 255)
            variants.append(v)
        for v in variants:
            for (bb, ff) in ((c % 1024, c % 32), (b, f)):
                L += ["reset", "enable mask=7", load_op(v, bb, ff & 23), "store h=0", "birthday h=0", "feature h=0 mask=%d" % c32,
                      "isenc h=0", "keygen h=0 coin=%d size=32" % (c % 2048), "encode h=0 lang=0 coin=%d" % (c % 2048),
                      "crypt h=0 pw=%s" % hx(bytes([byte or 1]) * 3), "store h=0"]
                idx = P.indices(v, bb, ff & 23, c % 2048)
                li = r.choice([0, 3, 5, 8]) if cx.quick else r.randrange(cx.nl)
                ph = cx.langs.phrase(li, idx)
                L += ["decodex coin=%d lang=%d str=%s ok=1" % (c % 2048, li, hx(ph)), "decode coin=%d str=%s ok=1" % (c % 2048, hx(ph))]
        # a word with index c at each position, valid check word
        for pos in range(1, 16):
            sec2, b2, f2 = cx.seed(feat=0, enc=0)
            idx = P.indices(sec2, b2, f2, 0)
            idx[pos] = c % 2048
            idx[0] = P.gf_eval([0] + idx[1:])
            ph = cx.langs.phrase(0, idx)
            L += ["reset", "decodex coin=0 lang=0 str=%s ok=1" % hx(ph)]
        # two new byte constants at two positions of the secret (a change that tests two bytes at once)
        for c2 in cx.extra[:6]:
            if c2 == c or not (c < 256 and c2 < 256):
                continue
            for k1 in range(19):
                for k2 in range(19):
                    if k1 == k2:
                        continue
                    v = list(sec)
                    v[k1] = c & (63 if k1 == 18 else 255)
                    v[k2] = c2 & (63 if k2 == 18 else 255)
                    L += ["reset", load_op(v, b, f), "encode h=0 lang=0 coin=0", "store h=0"]
        if c <= 3000:
            for n in (max(c - 1, 0), c, c + 1):
                L += ["reset", "decode coin=0 str=%s ok=1" % hx(b"a" * n), "decode coin=0 str=%s ok=1" % hx(b" ".join([b"abandon"] * min(n, 60))),
                      load_op(sec, b, f), "crypt h=0 pw=%s" % hx(b"p" * n), "store h=0"]
    return L


SUITES = {
    "aimed": s_aimed,
    "gf": s_gf, "pack": s_pack, "store": s_store, "bday": s_bday, "feat": s_feat, "coin": s_coin,
    "kdf": s_kdf, "crypt": s_crypt, "len": s_len, "words": s_words, "token": s_token,
    "split": s_split, "auto": s_auto, "seq": s_seq, "seqfault": s_seq_fault, "exits": s_exits,
}
