(* Model side of the correspondence check: runs the extracted Gallina model
   (Model = coq/*Defs.v + generated data) on the same operation lines as the C
   driver.  The injected oracles (NFC, NFKD, KDF) are replayed from the answers
   the C driver logged for the same operation: the model asks for the answer to
   the arguments IT computes; if the library called the oracle with different
   arguments the lookup misses and the line is reported.

   usage: mdriver <cases> <c-results> <model-results> <spec-results> [signed(0|1)]
   <spec-results>: the same operations run on the abstract seed machine
   (SpecApi.astep), outputs only. *)
open Model

let rec pos_of_int i =
  if i = 1 then XH
  else if i land 1 = 0 then XO (pos_of_int (i lsr 1))
  else XI (pos_of_int (i lsr 1))
let n_of_int i = if i = 0 then N0 else Npos (pos_of_int i)
let rec int_of_pos = function
  | XH -> 1 | XO p -> 2 * int_of_pos p | XI p -> 2 * int_of_pos p + 1
let int_of_n = function N0 -> 0 | Npos p -> int_of_pos p
let ten = n_of_int 10
let n_of_dec (s : string) : n =
  let acc = ref N0 in
  String.iter (fun c ->
    if c >= '0' && c <= '9' then
      acc := N.add (N.mul !acc ten) (n_of_int (Char.code c - 48))) s;
  !acc
let dec_of_n (x : n) : string =
  if x = N0 then "0" else begin
    let b = Buffer.create 24 in
    let r = ref x in
    while !r <> N0 do
      let q = N.div !r ten and m = N.modulo !r ten in
      Buffer.add_char b (Char.chr (48 + int_of_n m));
      r := q
    done;
    let s = Buffer.contents b in
    String.init (String.length s) (fun i -> s.[String.length s - 1 - i])
  end
let rec nat_of_int i = if i <= 0 then O else S (nat_of_int (i - 1))
let rec int_of_nat = function O -> 0 | S n -> 1 + int_of_nat n
let byte_of_int (i : int) : byte = Obj.magic i
let int_of_byte (b : byte) : int = Obj.magic b

let hexdig = "0123456789abcdef"
let hex_of_ints (l : int list) : string =
  let b = Buffer.create 64 in
  List.iter (fun i -> Buffer.add_char b hexdig.[(i lsr 4) land 15];
                      Buffer.add_char b hexdig.[i land 15]) l;
  Buffer.contents b
let hv c = if c <= '9' then Char.code c - 48 else (Char.code c lor 32) - 87
let ints_of_hex (s : string) : int list =
  let n = String.length s / 2 in
  List.init n (fun i -> hv s.[2 * i] * 16 + hv s.[2 * i + 1])
let hex_of_bytes (s : byte list) = hex_of_ints (List.map int_of_byte s)
let bytes_of_hex s = List.map byte_of_int (ints_of_hex s)
let hex_of_ns (l : n list) = hex_of_ints (List.map int_of_n l)
let ns_of_hex s = List.map n_of_int (ints_of_hex s)

(* ---- line parsing: "op k=v k=v ..." *)
let fields (line : string) : string * (string * string) list =
  match String.split_on_char ' ' line with
  | [] -> ("", [])
  | op :: rest ->
    (op, List.filter_map (fun t ->
       match String.index_opt t '=' with
       | Some i -> Some (String.sub t 0 i, String.sub t (i + 1) (String.length t - i - 1))
       | None -> None) rest)
let get fs k d = try List.assoc k fs with Not_found -> d
let geti fs k d = try int_of_string (List.assoc k fs) with _ -> d

(* ---- oracle answers recorded by the C driver for the current operation *)
let table : (string, string list) Hashtbl.t = Hashtbl.create 16
let misses : string list ref = ref []

let load_answers (cline : string) =
  Hashtbl.reset table;
  (* find " ev=" *)
  let key = " ev=" in
  let rec find i =
    if i + 4 > String.length cline then None
    else if String.sub cline i 4 = key then Some (i + 4) else find (i + 1) in
  match find 0 with
  | None -> ()
  | Some i ->
    let evs = String.sub cline i (String.length cline - i) in
    List.iter (fun e ->
      match String.split_on_char ':' e with
      | [k; inp; outp; n] when String.length k >= 3 && String.sub k 0 2 = "nf" ->
        Hashtbl.replace table (k ^ ":" ^ inp) [outp; n]
      | [k; pw; pwlen; salt; saltlen; iters; keylen; outp] when String.length k >= 3 && String.sub k 0 3 = "kdf" ->
        Hashtbl.replace table (String.concat ":" [k; pw; pwlen; salt; saltlen; iters; keylen]) [outp]
      | _ -> ()) (String.split_on_char ',' evs)

let tagstr (t : n) = if t = N0 then "" else dec_of_n t

let mk_transform kind (t : n) : transform = fun s ->
  let k = kind ^ tagstr t ^ ":" ^ hex_of_bytes s in
  match Hashtbl.find_opt table k with
  | Some [o; n] -> (bytes_of_hex o, n_of_dec n)
  | _ -> misses := k :: !misses; ([], N0)

let mk_kdf (t : n) : kdf_fun = fun pw pwlen salt saltlen iters keylen ->
  let k = String.concat ":" ["kdf" ^ tagstr t; hex_of_ns pw; dec_of_n pwlen; hex_of_ns salt;
                             dec_of_n saltlen; dec_of_n iters; dec_of_n keylen] in
  match Hashtbl.find_opt table k with
  | Some [o] -> ns_of_hex o
  | _ -> misses := k :: !misses; []

let make_deps tag tnull anull fnull : deps =
  let t = n_of_int tag in
  { dp_tag = t; dp_nfc = mk_transform "nfc" t; dp_nfkd = mk_transform "nfkd" t;
    dp_kdf = mk_kdf t; dp_time_libc = tnull; dp_alloc_libc = anull; dp_free_libc = fnull }

let fresh_astate () : astate =
  { as_deps = make_deps 0 false false false; as_mask = N0; as_seeds = []; as_next = N0 }

let fresh_state () : state =
  { st_deps = make_deps 0 false false false; st_reserved = rESERVED_DEFAULT;
    st_heap = []; st_next = N0 }

(* ---- printing *)
let obj_str = function
  | OPoly -> "stack", "poly" | OStrTmp -> "stack", "str_tmp" | OWords -> "stack", "words"
  | OMask -> "stack", "mask" | OPassNorm -> "stack", "pass_norm" | OIdx -> "stack", "idx"
  | OSeed h -> "seed" ^ dec_of_n h, "seed"

let ev_str (t : string) (e : event) : string =
  let who libc = if libc then "l" else "i" ^ t in
  match e with
  | EvAlloc (libc, n, r) ->
    Printf.sprintf "alloc:%s:%s:%s" (who libc) (dec_of_n n)
      (match r with Some h -> dec_of_n h | None -> "null")
  | EvFree (libc, h) -> Printf.sprintf "free:%s:%s" (who libc) (dec_of_n h)
  | EvWipe (o, len) -> let (c, nm) = obj_str o in Printf.sprintf "wipe%s:%s:%s:%s" t c (dec_of_n len) nm
  | EvRand n -> Printf.sprintf "rand%s:%s" t (dec_of_n n)
  | EvTime libc -> Printf.sprintf "time:%s" (who libc)
  | EvKdf (pw, pwlen, salt, saltlen, iters, keylen) ->
    String.concat ":" ["kdf" ^ t; hex_of_ns pw; dec_of_n pwlen; hex_of_ns salt;
                       dec_of_n saltlen; dec_of_n iters; dec_of_n keylen]
  | EvNfkd s -> "nfkd" ^ t ^ ":" ^ hex_of_bytes s
  | EvNfc s -> "nfc" ^ t ^ ":" ^ hex_of_bytes s

let out_str (wantlang : bool) (o : out) : string =
  match o with
  | OutFault -> "FAULT"
  | OutUnit -> "unit"
  | OutNum n -> "num=" ^ dec_of_n n
  | OutStatus (st, seed, lang) ->
    Printf.sprintf "st=%s seed=%s lang=%s" (dec_of_n st)
      (match seed with Some h -> dec_of_n h | None -> "-")
      (match lang with Some l when wantlang -> string_of_int (int_of_nat l) | _ -> "-")
  | OutStr (s, n) -> Printf.sprintf "str=%s n=%s" (hex_of_bytes s) (dec_of_n n)
  | OutBytes b -> "bytes=" ^ hex_of_ns b

let parse_op (opname : string) fs : op option =
  let num k d = n_of_dec (get fs k d) in
  let ok = geti fs "ok" 1 <> 0 in
  match opname with
  | "inject" -> Some (OpInject (make_deps (geti fs "tag" 0) (geti fs "tnull" 0 <> 0)
                                  (geti fs "anull" 0 <> 0) (geti fs "fnull" 0 <> 0)))
  | "enable" -> Some (OpEnable (num "mask" "0"))
  | "create" -> Some (OpCreate (num "feat" "0", ns_of_hex (get fs "rand" ""), num "clock" "0", ok))
  | "load" -> Some (OpLoad (ns_of_hex (get fs "buf" ""), ok))
  | "decode" -> Some (OpDecode (bytes_of_hex (get fs "str" ""), num "coin" "0", ok))
  | "decodex" -> Some (OpDecodeExplicit (bytes_of_hex (get fs "str" ""), num "coin" "0",
                                         nat_of_int (geti fs "lang" 0), ok))
  | "encode" -> Some (OpEncode (num "h" "0", nat_of_int (geti fs "lang" 0), num "coin" "0"))
  | "store" -> Some (OpStore (num "h" "0"))
  | "crypt" -> Some (OpCrypt (num "h" "0", bytes_of_hex (get fs "pw" "")))
  | "keygen" -> Some (OpKeygen (num "h" "0", num "coin" "0", num "size" "32"))
  | "birthday" -> Some (OpGetBirthday (num "h" "0"))
  | "feature" -> Some (OpGetFeature (num "h" "0", num "mask" "0"))
  | "isenc" -> Some (OpIsEncrypted (num "h" "0"))
  | "free" -> Some (OpFree (num "h" "0"))
  | "freenull" -> Some OpFreeNull
  | _ -> None

let () =
  let cases = open_in Sys.argv.(1) in
  let cres = open_in Sys.argv.(2) in
  let out = open_out Sys.argv.(3) in
  let sout = open_out Sys.argv.(4) in
  let sgn = if Array.length Sys.argv > 5 then Sys.argv.(5) <> "0" else char_signed in
  let st = ref (fresh_state ()) in
  let ast = ref (fresh_astate ()) in
  let lineno = ref 0 in
  (try
    while true do
      let line = input_line cases in
      incr lineno;
      let cline = try input_line cres with End_of_file -> "" in
      if String.length line = 0 || line.[0] = '#' then begin
        Printf.fprintf out "%d skip\n" !lineno;
        Printf.fprintf sout "%d skip\n" !lineno
      end
      else begin
        let (opname, fs) = fields line in
        if opname = "reset" then begin
          st := fresh_state ();
          ast := fresh_astate ();
          Printf.fprintf out "%d unit ev=\n" !lineno;
          Printf.fprintf sout "%d unit\n" !lineno
        end else match parse_op opname fs with
          | None -> Printf.fprintf out "%d unknown-op\n" !lineno;
                    Printf.fprintf sout "%d unknown-op\n" !lineno
          | Some o ->
            load_answers cline;
            misses := [];
            let ((st', o'), evs) = step sgn langs !st o in
            let t = tagstr (!st).st_deps.dp_tag in
            (* an inject op's own events (none) use the old table; fine *)
            st := st';
            Printf.fprintf out "%d %s ev=%s%s\n" !lineno
              (out_str (geti fs "wantlang" 1 <> 0) o')
              (String.concat "," (List.map (ev_str t) evs))
              (if !misses = [] then "" else " miss=" ^ String.concat "," (List.rev !misses));
            misses := [];
            let (ast', ao) = astep langs !ast o in
            ast := ast';
            Printf.fprintf sout "%d %s%s\n" !lineno
              (out_str (geti fs "wantlang" 1 <> 0) ao)
              (if !misses = [] then "" else " miss=" ^ String.concat "," (List.rev !misses))
      end
    done
  with End_of_file -> ());
  close_out out;
  close_out sout
