"""Independent Python rendering of the published polyseed format (README.md),
used ONLY to generate structured, mostly-valid inputs for the correspondence
suites and to drive the violation search.  It decides nothing by itself."""
import json
import unicodedata

EPOCH = 1635768000
STEP = 2629746
POLY = 0x805


def gf_mulx(x):
    x <<= 1
    if x & 0x800:
        x ^= POLY
    return x


def gf_mul(a, b):
    r = 0
    while b:
        if b & 1:
            r ^= a
        a = gf_mulx(a)
        b >>= 1
    return r


def gf_eval(coeffs):
    r = 0
    p = 1
    for c in coeffs:
        r ^= gf_mul(c, p)
        p = gf_mulx(p)
    return r


def secret_num(sec19):
    n = 0
    for b in sec19[:18]:
        n = (n << 8) | b
    return (n << 6) | (sec19[18] & 63)


def num_secret(n):
    hi = n >> 6
    return [(hi >> (8 * (17 - j))) & 255 for j in range(18)] + [n & 63]


def data_words(sec19, birthday, features):
    s = secret_num(sec19)
    extra = (features << 10) | birthday
    return [(((s >> (10 * (14 - i))) & 1023) << 1) | ((extra >> (14 - i)) & 1) for i in range(15)]


def indices(sec19, birthday, features, coin=0):
    w = data_words(sec19, birthday, features)
    c0 = gf_eval([0] + w)
    w[0] ^= coin
    return [c0] + w


def seed_of_indices(idx, coin=0):
    w = list(idx[1:])
    w[0] ^= coin
    s = 0
    extra = 0
    for x in w:
        s = (s << 10) | (x >> 1)
        extra = (extra << 1) | (x & 1)
    return num_secret(s), extra & 1023, extra >> 10


def store(sec19, birthday, features):
    v1 = (features << 10) | birthday
    ck = gf_eval([0] + data_words(sec19, birthday, features))
    v2 = 0x7000 | ck
    return bytes(b"POLYSEED" + bytes([v1 & 255, v1 >> 8]) + bytes(sec19) + b"\xff" + bytes([v2 & 255, v2 >> 8]))


class Langs:
    def __init__(self, path):
        raw = json.load(open(path))
        self.langs = []
        for l in raw:
            self.langs.append({
                "name_en": bytes.fromhex(l["name_en"]).decode(),
                "sep": bytes.fromhex(l["separator"]),
                "is_sorted": bool(l["is_sorted"]), "has_prefix": bool(l["has_prefix"]),
                "has_accents": bool(l["has_accents"]), "compose": bool(l["compose"]),
                "words": [bytes.fromhex(w) for w in l["words"]],
            })

    def __len__(self):
        return len(self.langs)

    def phrase_nfkd(self, li, idx):
        L = self.langs[li]
        return L["sep"].join(L["words"][i] for i in idx)

    def phrase(self, li, idx):
        L = self.langs[li]
        p = self.phrase_nfkd(li, idx)
        if L["compose"]:
            p = unicodedata.normalize("NFC", p.decode("utf-8")).encode("utf-8")
        return p


def strip_na(b):
    return bytes(x for x in b if x < 128)


def accepts(L, key, w):
    if L["has_accents"]:
        key = strip_na(key)
        w = strip_na(w)
    return key == w or (L["has_prefix"] and len(key) >= 4 and w.startswith(key))


# ---- the stand-in KDF of harness/oracle.c (so that generators know the mask)
M64 = (1 << 64) - 1


def _mix(h, v):
    h ^= (v + 0x9e3779b97f4a7c15 + ((h << 6) & M64) + (h >> 2)) & M64
    h = (h * 0xff51afd7ed558ccd) & M64
    h ^= h >> 33
    return h


def oracle_kdf(pw, salt, iterations, keylen):
    h = 0x243f6a8885a308d3
    h = _mix(h, len(pw))
    for b in pw:
        h = _mix(h, b)
    h = _mix(h, len(salt))
    for b in salt:
        h = _mix(h, b)
    h = _mix(h, iterations)
    h = _mix(h, keylen)
    out = []
    for i in range(keylen):
        h = _mix(h, i)
        out.append((h >> 24) & 255)
    return bytes(out)


MASK_SALT = b"POLYSEED mask\x00\xff\xff"
