/* C20: N threads, each working on its own seeds, under ThreadSanitizer.  Every
 * thread runs a deterministic workload (a function of thread number and
 * iteration) and hashes every output; the same workload was run serially
 * before the threads started.  usage: thrdriver <threads> <iterations> <seed> */
#include <polyseed.h>
#include <pthread.h>
#include <stdio.h>
#include <stdlib.h>
#include <string.h>
#include <stdint.h>

size_t oracle_nfc(const char* str, polyseed_str norm);
size_t oracle_nfkd(const char* str, polyseed_str norm);
void oracle_kdf(const uint8_t* pw, size_t pwlen, const uint8_t* salt, size_t saltlen,
    uint64_t iterations, uint8_t* key, size_t keylen);

static __thread uint64_t t_rng;
static __thread uint64_t t_clock;

static uint64_t next(void) {
    t_rng ^= t_rng << 13; t_rng ^= t_rng >> 7; t_rng ^= t_rng << 17;
    return t_rng;
}
static void dep_rand(void* r, size_t n) { uint8_t* p = r; for (size_t i = 0; i < n; ++i) p[i] = (uint8_t)(next() >> 32); }
static void dep_memzero(void* const p, const size_t n) { volatile uint8_t* q = p; for (size_t i = 0; i < n; ++i) q[i] = 0; }
static uint64_t dep_time(void) { return t_clock; }

static uint64_t fnv(uint64_t h, const void* p, size_t n) {
    const uint8_t* b = p;
    for (size_t i = 0; i < n; ++i) { h ^= b[i]; h *= 0x100000001b3ULL; }
    return h;
}

static int g_iters;
static uint64_t g_seed;
static long g_ops;

static uint64_t workload(int tid, long* ops) {
    uint64_t h = 0xcbf29ce484222325ULL;
    int nl = polyseed_get_num_langs();
    for (int it = 0; it < g_iters; ++it) {
        t_rng = g_seed * 0x9e3779b97f4a7c15ULL + (uint64_t)tid * 1000003ULL + (uint64_t)it * 7919ULL + 1;
        t_clock = 1635768000ULL + (next() % 1000) * 2629746ULL;
        polyseed_data* s = NULL;
        polyseed_status st = polyseed_create((unsigned)(next() & 7), &s);
        h = fnv(h, &st, sizeof st); (*ops)++;
        if (st != POLYSEED_OK) continue;
        polyseed_storage sto;
        polyseed_store(s, sto); h = fnv(h, sto, sizeof sto); (*ops)++;
        unsigned coin = (unsigned)(next() % 2048);
        for (int k = 0; k < 3; ++k) {
            int li = (int)((tid + it + k * 3) % nl);
            polyseed_str str;
            size_t n = polyseed_encode(s, polyseed_get_lang(li), (polyseed_coin)coin, str);
            h = fnv(h, str, strlen(str)); h = fnv(h, &n, sizeof n); (*ops)++;
            polyseed_data* d = NULL;
            const polyseed_lang* lg = NULL;
            st = polyseed_decode(str, (polyseed_coin)coin, &lg, &d);
            h = fnv(h, &st, sizeof st); (*ops)++;
            if (st == POLYSEED_OK) { polyseed_storage s2; polyseed_store(d, s2); h = fnv(h, s2, sizeof s2); polyseed_free(d); }
            d = NULL;
            st = polyseed_decode_explicit(str, (polyseed_coin)(coin ^ (k & 1)), polyseed_get_lang(li), &d);
            h = fnv(h, &st, sizeof st); (*ops)++;
            if (st == POLYSEED_OK) { uint64_t b = polyseed_get_birthday(d); h = fnv(h, &b, sizeof b); polyseed_free(d); }
        }
        polyseed_data* l = NULL;
        st = polyseed_load(sto, &l); h = fnv(h, &st, sizeof st); (*ops)++;
        if (st == POLYSEED_OK) {
            char pw[32]; snprintf(pw, sizeof pw, "p\xc3\xa4ss-%d-%d", tid, it);
            polyseed_crypt(l, pw); polyseed_store(l, sto); h = fnv(h, sto, sizeof sto); (*ops)++;
            int e = polyseed_is_encrypted(l); h = fnv(h, &e, sizeof e);
            polyseed_crypt(l, pw); polyseed_store(l, sto); h = fnv(h, sto, sizeof sto); (*ops)++;
            uint8_t key[32]; polyseed_keygen(l, (polyseed_coin)coin, sizeof key, key); h = fnv(h, key, sizeof key); (*ops)++;
            unsigned f = polyseed_get_feature(l, 7); h = fnv(h, &f, sizeof f);
            polyseed_free(l);
        }
        polyseed_free(s); (*ops)++;
    }
    return h;
}

static uint64_t results[256];
static void* run(void* a) {
    int tid = (int)(intptr_t)a;
    long ops = 0;
    results[tid] = workload(tid, &ops);
    __atomic_add_fetch(&g_ops, ops, __ATOMIC_RELAXED);
    return NULL;
}

int main(int argc, char** argv) {
    int nt = argc > 1 ? atoi(argv[1]) : 8;
    g_iters = argc > 2 ? atoi(argv[2]) : 20;
    g_seed = argc > 3 ? strtoull(argv[3], NULL, 10) : 1;
    if (nt > 256) nt = 256;
    polyseed_dependency d = { dep_rand, oracle_kdf, dep_memzero, oracle_nfc, oracle_nfkd, dep_time, malloc, free };
    polyseed_inject(&d);
    polyseed_enable_features(7);
    uint64_t serial[256];
    long sops = 0;
    for (int t = 0; t < nt; ++t) serial[t] = workload(t, &sops);
    pthread_t th[256];
    for (int t = 0; t < nt; ++t) pthread_create(&th[t], NULL, run, (void*)(intptr_t)t);
    for (int t = 0; t < nt; ++t) pthread_join(th[t], NULL);
    int mism = 0;
    for (int t = 0; t < nt; ++t) if (results[t] != serial[t]) mism++;
    printf("threads=%d ops=%ld mismatches=%d\n", nt, g_ops, mism);
    return mism ? 1 : 0;
}
