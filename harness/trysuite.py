import sys, time, json
from . import core, suites, runner
def main():
    names = sys.argv[1:]
    core.regenerate(); core.build_model(); core.build_cdriver("asan")
    for n in names:
        o = runner.Outcome("X", "quick", 1)
        cx = suites.Ctx(core.GEN, 1, "quick")
        t=time.time()
        runner.run_suite(o, cx, n)
        st = o.stats[n]
        print(n, "ops", st["ops"], "modeldiff", st["disagreements_model"], "specdiff", st["disagreements_spec"], "crashes", st["crashes"], "%.1fs"%(time.time()-t))
        print("   hist", st["outcome_histogram"])
        for d in o.corr[:3]: print("   CORR", d["what"][:600], "| op:", d["seq"][-1][:200])
        for d in o.spec[:3]: print("   SPEC", d["what"][:600], "| op:", d["seq"][-1][:200])
        for d in o.direct[:2]: print("   DIRECT", d["what"], d["detail"][-800:])
main()
