"""Per-property orchestration: prove, correspond, search, verdict, evidence."""
import glob
import hashlib
import json
import os
import re
import sys
import time

from . import core, suites
from .core import ROOT, BUILD, COQ, GEN, log

EVID = os.path.join(ROOT, "evidence")
REPLAYS = os.path.join(ROOT, "replays")
KNOWN = os.path.join(ROOT, "KNOWN_FINDINGS.txt")

# property -> suites of the correspondence (DESIGN.md section 7, "Depends-on")
PROPS = {
    "C01": dict(suites=["pack", "words", "coin", "len", "auto"]),
    "C02": dict(suites=["gf", "words", "split"], extra=["subst"]),
    "C03": dict(suites=["pack", "words", "coin"]),
    "C04": dict(suites=["kdf", "seq"]),
    "C05": dict(suites=["coin", "gf"]),
    "C06": dict(suites=["store"]),
    "C07": dict(suites=["words"], extra=["frozen", "oracle_words"]),
    "C08": dict(suites=["token", "words"]),
    "C09": dict(suites=["auto", "split", "token"]),
    "C10": dict(suites=["feat"]),
    "C11": dict(suites=["bday"]),
    "C12": dict(suites=["crypt", "kdf"], extra=["pwnfkd"]),
    "C13": dict(suites=["seq", "seqfault", "exits"]),
    "C14": dict(suites=["split", "token", "store"], extra=["fuzzbuild"]),
    "C15": dict(suites=["seq", "seqfault", "exits"], extra=["ledger"]),
    "C16": dict(suites=["exits", "seq", "crypt"], extra=["freewipe", "stackscan"]),
    "C17": dict(suites=["len", "words"]),
    "C18": dict(suites=["seq", "exits", "bday"], extra=["libc"]),
    "C19": dict(suites=["words", "token", "split", "auto", "crypt"], extra=["sgn"]),
    "C20": dict(suites=["seq"], extra=["frame", "threads"]),
}

EXHAUSTIVE_SUITES = {"gf": "all 2048 field elements x 15 data positions through polyseed_load",
                     "store": "all 65536 values of bytes 8-9, of bytes 27-28 and of bytes 30-31, all 256 of bytes 28, 29 and of each header byte",
                     "bday": "both sides of all 1024 month boundaries",
                     "feat": "8 masks (+ high-bit arguments) x 32 feature values x 4 entry points",
                     "coin": "all 2048 coins (first language classes)",
                     "words": "all 2048 words of every language through encode and decode_explicit"}


def known_findings(pid):
    res = {"finding": [], "fixed": []}
    try:
        for l in open(KNOWN):
            l = l.strip()
            m = re.match(r"(finding|fixed): property=(\S+) (.*)", l)
            if m and m.group(2) == pid:
                res[m.group(1)].append(m.group(3))
    except OSError:
        pass
    return res


def nontrivial(case, cres):
    op = case.split(" ", 1)[0]
    m = re.match(r"st=(\d+)", cres or "")
    st = int(m.group(1)) if m else None
    if op in ("decode", "decodex"):
        return st != 1
    if op == "load":
        return st != 5
    if op == "create":
        return st != 4
    return op not in ("reset",)


class Outcome:
    def __init__(self, pid, tier, seed):
        self.pid, self.tier, self.seed = pid, tier, seed
        self.corr = []        # (suite, line index, sequence lines, text, c, m)
        self.spec = []        # same with spec
        self.direct = []      # concrete failures found by C-only predicates / searches: dict
        self.broken = []      # broken obligations: dict(theorem/suite, detail)
        self.stats = {}
        self.evaluations = 0
        self.distinct = set()
        self.samples = []
        self.status_hist = {}
        self.notes = []
        self.obligations = 0
        self.discharged = 0
        self.assumptions_seen = []
        self.known_printed = []
        self.runs = []        # (label, lines, RunResult) of every suite run, for the extra predicates
        self.theorems = []
        self.translated = None


def prove(o):
    """compile Properties_<id>.vo and Properties_<id>_tie.vo (full .vo builds) and account for their theorems.
    The first holds the theorems about the model, the second the ties to the Gallina generated from the current
    C source; they are accounted for separately, so a broken tie leaves the model theorems discharged."""
    pid = o.pid
    files = [f for f in ("Properties_%s.v" % pid, "Properties_%s_tie.v" % pid) if os.path.exists(os.path.join(COQ, f))]
    if not files:
        o.notes.append("no Properties_%s.v yet" % pid)
        return
    bad = core.scan_forbidden()
    if bad:
        o.broken.append(dict(kind="forbidden-construct", what="; ".join(bad[:5])))
    ok, out = core.coq_make([f + "o" for f in files])
    with open(os.path.join(BUILD, "coq.%s.log" % pid), "w") as f:
        f.write(out)
    o.assumptions_seen = []
    errs = core.coq_errors(out) if hasattr(core, "coq_errors") else ([core.coq_first_error(out)] if core.coq_first_error(out) else [])
    for vf in files:
        txt = open(os.path.join(COQ, vf)).read()
        code = re.sub(r"\(\*.*?\*\)", "", txt, flags=re.S)
        thms = re.findall(r"^\s*(?:Theorem|Corollary)\s+([A-Za-z0-9_']+)", code, re.M)
        o.obligations += len(thms)
        o.theorems += thms
        vo = os.path.join(COQ, vf + "o")
        built = os.path.exists(vo) and os.path.getmtime(vo) >= os.path.getmtime(os.path.join(COQ, vf))
        if built and not any(e and e[0] == vf for e in errs):
            # it may be stale if a dependency failed: make -k leaves the old .vo; ask make
            rc2, _o2 = core.sh(["make", "-q", vf + "o"], cwd=COQ, timeout=120)
            built = rc2 == 0
        if built:
            o.discharged += len(thms)
            # Print Assumptions output is only shown when the file is actually compiled; re-run coqc on
            # the property file alone (cheap: its dependencies are compiled) to capture it
            rc, pout = core.sh(["coqc", "-Q", ".", "PS", vf], cwd=COQ, timeout=900)
            closed = len(re.findall(r"Closed under the global context", pout))
            axioms = re.findall(r"Axioms:\n((?:.+\n)+?)(?=\S|\Z)", pout)
            o.assumptions_seen += ["%s: %d theorem(s): Closed under the global context" % (vf, closed)] + \
                                  ["Axioms: " + a.strip().replace("\n", " | ") for a in axioms]
            if axioms:
                o.notes.append("Print Assumptions reports axioms: " + "; ".join(a.strip()[:200] for a in axioms))
            if "Print Assumptions" in txt and closed + len(axioms) < len(thms):
                o.notes.append("%s: fewer Print Assumptions outputs (%d) than theorems (%d)" % (vf, closed + len(axioms), len(thms)))
        else:
            mine = [e for e in errs if e and e[0] == vf]
            if mine:
                f, line, msg = mine[0]
                before = [t for t in thms if txt.find("Theorem " + t) >= 0 and
                          txt[:txt.find("Theorem " + t)].count("\n") + 1 < line]
                stmt = core.enclosing_statement(f, line)
                o.discharged += max(0, len(before) - (1 if stmt in before else 0))
    if not ok:
        err = core.coq_first_error(out)
        if err:
            f, line, msg = err
            stmt = core.enclosing_statement(f, line)
            o.broken.append(dict(kind="proof-obligation", file=f, line=line, statement=stmt, error=msg))
        else:
            o.broken.append(dict(kind="proof-obligation", file="?", line=0, statement=None, error=out[-1500:]))


def translated_summary(o):
    t = getattr(o, "translated", None)
    if not isinstance(t, dict):
        return "report unavailable (%s)" % (str(t)[:120],)
    bad = {k: v for k, v in t.items() if not str(v).startswith("ok")}
    return "%d functions translated" % (len(t) - len(bad)) + ("; NOT translated: " + "; ".join("%s (%s)" % (k, str(v)[:80]) for k, v in bad.items()) if bad else "")


def run_suite(o, cx, name, variant="asan", sgn=None, lines=None, label=None):
    label = label or name
    t0 = time.time()
    if lines is None:
        lines = suites.SUITES[name](cx)
    rr = core.run_cases(lines, variant=variant, sgn=sgn)
    o.runs.append((label, lines, rr))
    ncorr = nspec = 0
    hist = {}
    for i, case in enumerate(lines):
        if case.startswith("reset"):
            continue
        c, m, s = rr.c[i], rr.m[i], rr.s[i]
        if c is None or c == "NOTRUN":
            continue
        o.evaluations += 1
        cres = core.split_line(c)[0] if c != "CRASH" else "CRASH"
        op = case.split(" ", 1)[0]
        k = op + ":" + (re.match(r"st=\d+", cres).group(0) if cres and cres.startswith("st=") else
                        ("CRASH" if cres == "CRASH" else "ok"))
        hist[k] = hist.get(k, 0) + 1
        if nontrivial(case, cres) or name in EXHAUSTIVE_SUITES:
            o.distinct.add(hashlib.sha1(case.encode()).digest()[:10])
        d = core.compare_line(case, c, m)
        if d:
            ncorr += 1
            if len(o.corr) < 40:
                o.corr.append(dict(suite=label, line=i + 1, seq=core.enclosing_sequence(lines, i), what=d,
                                   impl=c[:1500], model=(m or "")[:1500], variant=variant))
        d2 = core.compare_spec(case, c, s)
        if d2:
            nspec += 1
            if len(o.spec) < 40:
                o.spec.append(dict(suite=label, line=i + 1, seq=core.enclosing_sequence(lines, i), what=d2,
                                   impl=c[:1500], spec=(s or "")[:1500], variant=variant))
    for (ln, txt) in rr.crashes:
        o.direct.append(dict(kind="crash", suite=label, seq=core.enclosing_sequence(lines, ln - 1),
                             what="sanitizer report / crash / timeout in the implementation", detail=txt[-3000:],
                             variant=variant))
    # samples: first non-trivial cases
    ns = 0
    for i, case in enumerate(lines):
        if ns >= 2:
            break
        if not case.startswith("reset") and rr.c[i] and nontrivial(case, core.split_line(rr.c[i])[0]):
            o.samples.append(dict(suite=label, op=case[:400], impl=rr.c[i][:400]))
            ns += 1
    o.stats[label] = dict(ops=len([l for l in lines if not l.startswith("reset")]), sequences=len(core.sequences(lines)),
                          disagreements_model=ncorr, disagreements_spec=nspec, crashes=len(rr.crashes),
                          outcome_histogram=hist, wall_s=round(time.time() - t0, 1), variant=variant,
                          exhaustive=EXHAUSTIVE_SUITES.get(name))
    return rr


def write_replay(o, kind, payload):
    os.makedirs(REPLAYS, exist_ok=True)
    n = len(glob.glob(os.path.join(REPLAYS, "%s-*.json" % o.pid)))
    p = os.path.join(REPLAYS, "%s-%03d.json" % (o.pid, n))
    d = dict(property=o.pid, kind=kind, tier=o.tier, VERIF_SEED=o.seed)
    d.update(payload)
    with open(p, "w") as f:
        json.dump(d, f, indent=1)
    return p


def write_evidence(o, wall, violations):
    os.makedirs(EVID, exist_ok=True)
    tb = [
        "Coq 8.16.1 kernel incl. the bytecode VM (vm_compute); no native_compute",
        "Print Assumptions under every property theorem: " + ("; ".join(o.assumptions_seen) or "n/a"),
        "translator tools/dumpdata.c + tools/dumpconsts.c (data regenerated from /repo on this run), the C compiler as parser",
        "logic translator tools/c2coq.py + clang's JSON AST (Gen/CFuns.v, Gen/CApi.v regenerated from /repo on this run): " + translated_summary(o),
        "libc bsearch: a contract (hypothesis HBS of the search ties); the translator's event model of the dependency table and the instantiations zkdf / znfc / Dz named in DESIGN 11.4",
        "extraction: ExtrOcamlBasic only (Extract Inductive bool, option, unit, list, prod, sumbool, sumor; Extract Inlined Constant andb, orb, negb-free); no Extract Constant of our own; OCaml 4.13.1",
        "correspondence harness (harness/*.py, cdriver.c, mdriver.ml, oracle.c); gcc with ASan+UBSan",
        "modelled rather than verified: C integer/pointer semantics (hand-written Gallina mirrors tied by differential execution), libc bsearch/memcpy/memset, sizes of C types for this ABI, automatic storage as named objects, API calls as atomic steps",
        "oracle premises (explicit hypotheses, never axioms): injected NFC/NFKD/KDF behave as functions; O0 shape contract",
    ]
    cov = dict(
        obligations=max(o.obligations, 0), discharged=o.discharged,
        checker_cmd="cd coq && coq_makefile -f _CoqProject -o Makefile && make -k -j16 Properties_%s.vo Properties_%s_tie.vo (full .vo builds, Coq 8.16.1)" % (o.pid, o.pid),
        trusted_base=tb,
        evaluations=o.evaluations, distinct_nontrivial=len(o.distinct),
        rule="op lines generated by the property's suites from VERIF_SEED (harness/suites.py), each executed on the implementation (ASan+UBSan build of /repo's working tree), the extracted mirror model and the extracted abstract spec; non-trivial = passes the first validation step of its function (16 tokens / format / supported feature request) or belongs to an exhaustive sweep; distinct by the text of the op line",
        samples=o.samples[:8] or [dict(note="no correspondence case ran")],
        theorems=o.theorems, suites=o.stats, broken=o.broken[:5], notes=o.notes,
        exhaustive=any(s.get("exhaustive") for s in o.stats.values()),
        exhaustive_parts=[s["exhaustive"] for s in o.stats.values() if s.get("exhaustive")],
        known_findings=o.known_printed,
    )
    if cov["obligations"] < 1:
        cov.pop("obligations")
        cov.pop("discharged")
    ev = dict(property_id=o.pid, tier=o.tier, seed=o.seed, level="proof", coverage=cov,
              assumptions=tb, wall_s=round(wall, 1), violations=violations)
    with open(os.path.join(EVID, "%s.json" % o.pid), "w") as f:
        json.dump(ev, f, indent=1)


def check(pid, tier, seed):
    t0 = time.time()
    if pid not in PROPS:
        print("unknown property", pid)
        return 2
    o = Outcome(pid, tier, seed)
    from . import extras
    try:
        with core.Lock():
            info = core.regenerate()
            if info.get("privconsts") != "generated":
                o.notes.append(info["privconsts"])
            o.translated = info.get("c2coq")
            prove(o)
            core.build_model()
            core.build_cdriver("asan")
        cx = suites.Ctx(GEN, seed, tier)
        seeds = [seed] if tier == "quick" else [seed, seed + 1000003, seed + 2000003]
        for sname in PROPS[pid]["suites"] + (["aimed"] if cx.extra else []):
            if tier == "quick":
                run_suite(o, cx, sname)
            else:
                for k, sd in enumerate(seeds if sname not in ("gf", "store", "words") else seeds[:1]):
                    cxk = suites.Ctx(GEN, sd, tier)
                    run_suite(o, cxk, sname, label=sname if k == 0 else "%s#%d" % (sname, k))
        for ex in PROPS[pid].get("extra", []):
            fn = getattr(extras, "x_" + ex, None)
            if fn:
                fn(o, cx)
            else:
                o.notes.append("extra check %s not built yet" % ex)
        # a proof obligation (or a tie to the generated Gallina) broke and the quick suites found no input on
        # which the property fails: search deeper before answering - the thorough generators of the same suites
        # (exhaustive over words / tokens where the quick ones sample).  Never runs on a tree whose proofs check.
        if tier == "quick" and (any(b.get("kind") == "proof-obligation" for b in o.broken) or o.corr) and not unlisted(o):
            o.notes.append("a proof obligation or the correspondence broke and the quick suites found no input on which the property fails: the thorough "
                           "generators of the same suites were run as the failing-input search")
            cxt = suites.Ctx(GEN, seed, "thorough")
            # ... and, last, random walks over the whole API (a defect may need a history the property's own
            # suites do not build: the enabled feature set changed while a seed is held, say)
            for sname in PROPS[pid]["suites"] + [x for x in ("seq",) if x not in PROPS[pid]["suites"]]:
                run_suite(o, cxt, sname, label=sname + "@search")
                if unlisted(o):
                    break
    except core.BuildError as e:
        o.broken.append(dict(kind="build", what=e.what, detail=e.out[-3000:]))

    return verdict(o, t0)


def unlisted(o):
    """concrete failures found so far that the known-findings file does not list"""
    kf = known_findings(o.pid)
    keys = set()
    for k in kf["finding"]:
        m = re.match(r"key=(\S+)", k)
        if m:
            keys.add(m.group(1))
    return [d for d in o.direct + o.spec if not (d.get("key") and d.get("key") in keys)]


def verdict(o, t0):
    pid = o.pid
    kf = known_findings(pid)
    # a concrete failure listed as a known finding is printed and not counted
    concrete = []
    for d in o.direct + o.spec:
        key = d.get("key")
        matched = None
        for k in kf["finding"]:
            m = re.match(r"key=(\S+)\s*(.*)", k)
            if m and key and m.group(1) == key:
                matched = m
        if matched:
            line = "KNOWN-FINDING: property=%s %s" % (pid, matched.group(2))
            if line not in o.known_printed:
                o.known_printed.append(line)
        else:
            concrete.append(d)
    for l in o.known_printed:
        print(l)
    broken = list(o.broken)
    if o.corr:
        broken.append(dict(kind="correspondence", what="%d op(s) on which the mirror model and the implementation differ" % len(o.corr),
                           first=o.corr[0]))
    violations = 0
    rc = 0
    if concrete:
        violations = len(concrete)
        d = concrete[0]
        p = write_replay(o, "counterexample", dict(
            what=d.get("what"), ops=d.get("seq"), observed=d.get("impl"), expected=d.get("spec") or d.get("expected"),
            detail=d.get("detail"), suite=d.get("suite"), build=d.get("variant", "asan"),
            broken=broken[:3], others=[dict(what=x.get("what"), ops=x.get("seq")) for x in concrete[1:6]]))
        print("VIOLATION property=%s replay=%s" % (pid, p))
        rc = 1
    elif broken:
        violations = 1
        p = write_replay(o, "broken-obligation", dict(
            what="a proof obligation or the model/implementation correspondence no longer checks and no input on which the property itself fails was found",
            broken=broken[:5],
            ops=(o.corr[0]["seq"] if o.corr else None), observed=(o.corr[0]["impl"] if o.corr else None),
            model=(o.corr[0]["model"] if o.corr else None)))
        print("VIOLATION property=%s replay=%s no-failing-input-found" % (pid, p))
        rc = 1
    wall = time.time() - t0
    write_evidence(o, wall, violations)
    log("%s %s: obligations %d/%d, %d ops, %d distinct non-trivial, %d model diffs, %d spec diffs, %d direct, %.0fs" % (
        pid, o.tier, o.discharged, o.obligations, o.evaluations, len(o.distinct), len(o.corr), len(o.spec),
        len(o.direct), wall))
    if rc == 0:
        print("OK property=%s tier=%s obligations=%d/%d ops=%d" % (pid, o.tier, o.discharged, o.obligations, o.evaluations))
    return rc


def replay(pid, path):
    """re-run the ops of a replay file on the current tree"""
    d = json.load(open(path))
    ops = d.get("ops")
    if not ops:
        print("replay file names a broken obligation without ops:", json.dumps(d.get("broken"), indent=1)[:2000])
        # re-check the obligation
        o = Outcome(pid, "quick", d.get("VERIF_SEED", 1))
        with core.Lock():
            core.regenerate()
            prove(o)
        if o.broken:
            print("still broken:", o.broken[0])
            print("VIOLATION property=%s replay=%s no-failing-input-found" % (pid, path))
            return 1
        print("obligations check now")
        return 0
    with core.Lock():
        core.regenerate()
        core.build_model()
        core.build_cdriver(d.get("build", "asan"))
    rr = core.run_cases(ops, variant=d.get("build", "asan"))
    bad = 0
    for i, case in enumerate(ops):
        print(case[:300])
        print("   impl :", (rr.c[i] or "")[:300])
        print("   model:", (rr.m[i] or "")[:300])
        print("   spec :", (rr.s[i] or "")[:300])
        if core.compare_line(case, rr.c[i], rr.m[i]) or core.compare_spec(case, rr.c[i], rr.s[i]):
            bad += 1
    for (ln, txt) in rr.crashes:
        print("CRASH at op", ln, txt[-1500:])
        bad += 1
    if bad:
        print("VIOLATION property=%s replay=%s" % (pid, path))
        return 1
    print("replay passes on the current tree")
    return 0
